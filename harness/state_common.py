"""Shared machinery for C01 / C02: shadow graphs through the real `State` / `VariablesDAG` classes,
history generation respecting the documented precondition of partial reverts, an independent
from-scratch evaluator (pure python integers), the line for the Lean driver (drivers/C01.lean), and
the real-tensor oracle on real models (bitwise comparison with a from-scratch evaluation on a fresh State).
"""
from __future__ import annotations

import warnings
import zlib

P = 1_000_003


def imports():
    warnings.filterwarnings("ignore")
    import leaspy.models  # noqa: F401
    import torch
    from leaspy.exceptions import LeaspyInputError
    from leaspy.variables.dag import VariablesDAG
    from leaspy.variables.specs import DataVariable, Hyperparameter, LinkedVariable
    from leaspy.variables.state import State, StateForkType
    return dict(torch=torch, LIE=LeaspyInputError, VariablesDAG=VariablesDAG, DataVariable=DataVariable,
                Hyperparameter=Hyperparameter, LinkedVariable=LinkedVariable, State=State, StateForkType=StateForkType)


# ---------------------------------------------------------------------------------------------
# shadow graph description
# ---------------------------------------------------------------------------------------------
class Node:
    __slots__ = ("name", "kind", "level", "c0", "parents", "coeffs")

    def __init__(self, name, kind, level, c0, parents, coeffs):
        self.name, self.kind, self.level, self.c0, self.parents, self.coeffs = name, kind, level, c0, list(parents), list(coeffs)


class Shadow:
    """nodes: list of Node (any order).  Ranks follow python's sorted(names) like the real DAG."""

    def __init__(self, nodes, nind, d):
        self.nodes = sorted(nodes, key=lambda n: n.name)
        self.names = [n.name for n in self.nodes]
        self.rank = {n: i for i, n in enumerate(self.names)}
        self.by_name = {n.name: n for n in self.nodes}
        self.nind, self.d = nind, d
        # derived levels
        self.level = {}
        for n in self.topo():
            nd = self.by_name[n]
            if nd.kind in ("h", "s"):
                self.level[n] = nd.level
            elif nd.kind == "a":
                self.level[n] = "p"
            else:
                self.level[n] = "i" if any(self.level[p] == "i" for p in nd.parents) else "p"
        self.children = {n: [] for n in self.names}
        for nd in self.nodes:
            for p in nd.parents:
                self.children[p].append(nd.name)

    def topo(self):
        seen, out = set(), []

        def visit(n):
            if n in seen:
                return
            seen.add(n)
            for p in self.by_name[n].parents:
                visit(p)
            out.append(n)
        for n in self.names:
            visit(n)
        return out

    def desc(self, n):
        seen, todo = set(), list(self.children[n])
        while todo:
            x = todo.pop()
            if x not in seen:
                seen.add(x)
                todo.extend(self.children[x])
        return seen

    def rowlocal(self, i):
        """descendants of i whose value commutes with an entry-wise mix of i (individual axis all the way)."""
        ok = set()
        d = self.desc(i)
        for n in self.topo():
            if n in d:
                nd = self.by_name[n]
                if nd.kind == "l" and self.level[n] == "i" and all((p not in d and p != i) or p in ok or p == i for p in nd.parents):
                    ok.add(n)
        return ok

    def line_nodes(self):
        out = []
        for nd in self.nodes:
            ps = ",".join(str(self.rank[p]) for p in nd.parents) or "_"
            cs = ",".join(str(c) for c in nd.coeffs) or "_"
            out.append(f"{nd.kind}:{nd.level if nd.kind in ('h', 's') else '-'}:{nd.c0}:{ps}:{cs}")
        return ";".join(out)

    # independent evaluator on python ints ---------------------------------------------------
    def eval_from_scratch(self, indep):
        """indep: name -> rows (list of lists) or None.  Returns name -> rows or None (needs an unset value)."""
        val = {}
        for n in self.topo():
            nd = self.by_name[n]
            if nd.kind == "h":
                val[n] = [[nd.c0] * self.d for _ in range(self.nind if nd.level == "i" else 1)]
            elif nd.kind == "s":
                val[n] = indep.get(n)
            else:
                ps = [val[p] for p in nd.parents]
                if any(p is None for p in ps):
                    val[n] = None
                elif nd.kind == "a":
                    val[n] = [[(nd.c0 + sum(a * sum(row[c] for row in P_) for a, P_ in zip(nd.coeffs, ps))) % P
                               for c in range(self.d)]]
                else:
                    nrows = max([1] + [len(p) for p in ps])
                    val[n] = [[(nd.c0 + sum(a * (P_[0] if len(P_) == 1 else P_[r])[c] for a, P_ in zip(nd.coeffs, ps))) % P
                               for c in range(self.d)] for r in range(nrows)]
        return val


def build_real(env, sh: Shadow):
    """The shadow graph as real leaspy objects."""
    torch = env["torch"]
    variables = {}
    for nd in sh.nodes:
        if nd.kind == "h":
            shape = (sh.nind, sh.d) if nd.level == "i" else (sh.d,)
            variables[nd.name] = env["Hyperparameter"](torch.full(shape, nd.c0, dtype=torch.int64))
        elif nd.kind == "s":
            variables[nd.name] = env["DataVariable"]()
        else:
            variables[nd.name] = env["LinkedVariable"](make_fn(torch, sh, nd))
    dag = env["VariablesDAG"].from_dict(variables)
    return dag


def make_fn(torch, sh, nd):
    names = list(nd.parents)
    coeffs = list(nd.coeffs)
    levels = [sh.level[p] for p in names]
    c0, kind = nd.c0, nd.kind

    def impl(**kw):
        acc = None
        for n, a, lv in zip(names, coeffs, levels):
            v = kw[n]
            if kind == "a" and lv == "i":
                v = v.sum(dim=0)
            term = a * v
            acc = term if acc is None else acc + term
        return (c0 + acc) % P
    src = "lambda *, " + ", ".join(names) + ": impl(" + ", ".join(f"{n}={n}" for n in names) + ")"
    return eval(src, {"impl": impl})


def to_rows(t):
    if t.ndim == 1:
        return [[int(x) for x in t.tolist()]]
    return [[int(x) for x in row] for row in t.tolist()]


def _from_lists(torch, name, d, level):
    """inverse of State._get_value_as_dict_of_lists for the 1-D (population) / 2-D (individual) values of the shadow graphs"""
    if list(d) == [name]:
        col = torch.tensor(d[name], dtype=torch.int64)
        return col if level == "p" else col[:, None]
    cols = [d[f"{name}_{i}"] for i in range(len(d))]
    return torch.tensor(cols, dtype=torch.int64).T


def fmt_rows(rows):
    return "/".join(",".join(str(x) for x in r) for r in rows)


def rows_tensor(torch, rows, level):
    t = torch.tensor(rows, dtype=torch.int64)
    return t[0] if level == "p" else t


# ---------------------------------------------------------------------------------------------
# random shadow structures
# ---------------------------------------------------------------------------------------------
def stable_const(name, salt=0):
    return zlib.crc32(f"{name}:{salt}".encode()) % 997 + 1


def random_toy(rng, kmax=12):
    k = rng.randrange(3, kmax + 1)
    nind = rng.choice([1, 2, 3, 4])
    d = rng.choice([1, 2])
    # half of the toy graphs use one fixed pool of names: different structures over the same variable names are built in
    # the same interpreter (anything remembered per name set rather than per definition would be served to the wrong graph)
    if rng.random() < 0.5:
        names = [f"v{j:02d}" for j in range(k)]
    else:
        names = [f"{rng.choice('abcxyz')}{j:02d}" for j in range(k)]
    rng.shuffle(names)
    nodes = []
    n_roots = rng.randrange(1, max(2, k // 2) + 1)
    for j, nm in enumerate(names):
        if j < n_roots or rng.random() < 0.12:
            kind = "h" if rng.random() < 0.15 else "s"
            nodes.append(Node(nm, kind, rng.choice("pi") if nind > 0 else "p", stable_const(nm), [], []))
        else:
            npar = rng.randrange(1, min(3, j) + 1)
            ps = rng.sample(names[:j], npar)
            kind = "a" if rng.random() < 0.25 else "l"
            nodes.append(Node(nm, kind, "-", stable_const(nm), ps, [stable_const(nm, q + 1) for q in range(npar)]))
    # drop isolated roots (the real DAG refuses them): give them a child
    used = {p for n in nodes for p in n.parents}
    for n in list(nodes):
        if not n.parents and n.name not in used:
            child = f"zz_{n.name}"
            nodes.append(Node(child, "l", "-", stable_const(child), [n.name], [3]))
    return Shadow(nodes, nind, d)


def shadow_of_model(env, model_name, kw, nind=3, d=2):
    """Shadow graph with the structure (names, edges, kinds, which nodes carry the individual axis / aggregate) of a
    real model kind, read off a real initialised state."""
    import pandas as pd
    from leaspy.io.data import Data, Dataset
    from leaspy.models import model_factory
    from leaspy.variables.specs import Hyperparameter, IndividualLatentVariable, LinkedVariable, DataVariable
    from . import core
    m = model_factory(model_name, **kw)
    dag = env["VariablesDAG"].from_dict(m.get_variables_specs())
    ind_level = set()
    try:
        if model_name == "joint":
            df = pd.read_csv(core.REPO / "tests/_data/data_mock/data_tiny_joint.csv", sep=";")
            df = df[["ID", "TIME", "EVENT_TIME", "EVENT_BOOL"] + [c for c in df.columns if c.startswith("Y")][: kw.get("dimension", 1)]]
            data = Data.from_dataframe(df, "joint")
        else:
            df = pd.read_csv(core.REPO / "tests/_data/data_mock/multivariate_data.csv")
            df = df[["ID", "TIME"] + list(df.columns[2: 2 + kw.get("dimension", 3)])]
            data = Data.from_dataframe(df)
        ds = Dataset(data)
        with core.quiet():
            m.initialize(ds)
            st = m.state
            m.put_data_variables(st, ds)
            m.put_individual_parameters(st, ds)
            st.precompute_all()
        n_ind = ds.n_individuals
        for k, v in st._values.items():
            if v is not None and v.ndim >= 1 and v.shape[0] == n_ind and n_ind not in v.shape[1:]:
                ind_level.add(k)
        exact = True
    except Exception:  # noqa  fall back to types
        exact = False
        for k, var in dag.items():
            if isinstance(var, (IndividualLatentVariable, DataVariable)) or k.endswith("_ind"):
                ind_level.add(k)
    nodes = []
    for k, var in dag.items():
        ps = sorted(dag.direct_ancestors[k])
        if isinstance(var, Hyperparameter):
            nodes.append(Node(k, "h", "i" if k in ind_level else "p", stable_const(k), [], []))
        elif isinstance(var, LinkedVariable):
            any_ind_parent = any(p in ind_level for p in ps)
            kind = "a" if (k not in ind_level and any_ind_parent) else "l"
            nodes.append(Node(k, kind, "-", stable_const(k), ps, [stable_const(k, q + 1) for q in range(len(ps))]))
        else:
            nodes.append(Node(k, "s", "i" if k in ind_level else "p", stable_const(k), [], []))
    sh = Shadow(nodes, nind, d)
    return sh, exact


# ---------------------------------------------------------------------------------------------
# history generation + execution on the real State
# ---------------------------------------------------------------------------------------------
class Runner:
    """Executes ops on real State objects (a state and its clones), records canonical outputs, evaluates the property
    predicate against the independent from-scratch evaluator, and builds the Lean request."""

    def __init__(self, env, sh: Shadow, rng):
        self.env, self.sh, self.rng = env, sh, rng
        self.dag = build_real(env, sh)
        self.states = {0: env["State"](self.dag, auto_fork_type=env["StateForkType"].REF)}
        self.ops, self.outs, self.fails = [], [], []
        self.tags = {}
        self.fork_info = {0: None}  # sid -> (node, set of names cached in fork) ghost, only used for generation

    # ---- helpers
    def indep_of(self, sid):
        st = self.states[sid]
        return {n: (to_rows(st._values[n]) if st._values[n] is not None else None) for n in self.sh.names
                if self.sh.by_name[n].kind == "s"}

    def pattern(self, sid):
        st = self.states[sid]
        return "".join("1" if st._values[n] is not None else "0" for n in self.sh.names)

    def tag(self, k):
        self.tags[k] = self.tags.get(k, 0) + 1

    def random_value(self, name):
        lv = self.sh.level[name]
        nrows = self.sh.nind if lv == "i" else 1
        return [[self.rng.randrange(0, 1000) for _ in range(self.sh.d)] for _ in range(nrows)]

    def record(self, opstr, sid, out):
        self.ops.append(opstr)
        self.outs.append(f"{out}|{self.pattern(sid)}")

    def call(self, f):
        try:
            return ("ok", f())
        except self.env["LIE"]:
            return ("e:input", None)
        except Exception as e:  # noqa
            return (f"e:other:{type(e).__name__}", None)

    # ---- operations
    def op_get(self, sid, name):
        st = self.states[sid]
        want = self.sh.eval_from_scratch(self.indep_of(sid))[name]
        # the same read through the different public accessors of State (all must agree with the from-scratch value)
        api = self.rng.choice(["item", "item", "item", "tensor", "tensors", "aslists"])
        if api == "item":
            status, v = self.call(lambda: st[name])
        elif api == "tensor":
            status, v = self.call(lambda: st.get_tensor_value(name))
        elif api == "tensors":
            status, v = self.call(lambda: st.get_tensor_values([name])[0])
        else:
            status, v = self.call(lambda: _from_lists(self.env["torch"], name, st._get_value_as_dict_of_lists(name), self.sh.level[name]))
        self.tag("get-" + api)
        r = self.sh.rank[name]
        if status == "ok":
            rows = to_rows(v)
            out = "v=" + fmt_rows(rows)
            if want is None:
                self.fails.append(f"read of '{name}' answered {rows} although an independent value it needs is unset")
            elif rows != want:
                self.fails.append(f"stale read of '{name}': got {rows}, from scratch {want}")
        else:
            out = status
            if want is not None:
                self.fails.append(f"read of '{name}' failed with {status} although every needed value is set")
            elif status != "e:input":
                self.fails.append(f"read of '{name}' needing an unset value reported {status}, not an input error")
        self.record(f"g:{sid}:{r}", sid, out)
        self.tag("get")

    def op_isset(self, sid, name):
        st = self.states[sid]
        status, v = self.call(lambda: st.is_variable_set(name))
        self.record(f"q:{sid}:{self.sh.rank[name]}", sid, f"b={int(bool(v))}" if status == "ok" else status)
        self.tag("isset")

    def op_set(self, sid, name, rows):
        torch = self.env["torch"]
        st = self.states[sid]
        val = None if rows is None else rows_tensor(torch, rows, self.sh.level[name])
        status, _ = self.call(lambda: st.__setitem__(name, val))
        settable = self.sh.by_name[name].kind == "s"
        if settable and status != "ok":
            self.fails.append(f"assignment of settable '{name}' failed: {status}")
        if not settable and status != "e:input":
            self.fails.append(f"assignment of non-settable '{name}' gave {status}")
        self.record(f"s:{sid}:{self.sh.rank[name]}:{'none' if rows is None else fmt_rows(rows)}", sid, status)
        self.tag("set" if rows is not None else "set-none")

    def op_put_idx(self, sid, name, acc):
        torch = self.env["torch"]
        st = self.states[sid]
        lv = self.sh.level[name]
        nrows = self.sh.nind if lv == "i" else 1
        cells = [(r, c) for r in range(nrows) for c in range(self.sh.d)]
        k = self.rng.randrange(1, len(cells) + 1)
        chosen = self.rng.sample(cells, k)
        if acc and self.rng.random() < 0.3:
            chosen.append(self.rng.choice(chosen))  # duplicate index, well-defined when accumulating
        vals = [self.rng.randrange(0, 1000) for _ in chosen]
        rows_i = [r for r, _ in chosen]
        cols_i = [c for _, c in chosen]
        if lv == "i":
            indices = (rows_i, cols_i)
        else:
            indices = (cols_i,)
        status, _ = self.call(lambda: st.put(name, torch.tensor(vals, dtype=torch.int64), indices=indices, accumulate=acc))
        self.record(f"p:{sid}:{self.sh.rank[name]}:{int(acc)}:{','.join(map(str, rows_i))}:{','.join(map(str, cols_i))}:{','.join(map(str, vals))}", sid, status)
        self.tag("put-idx-acc" if acc else "put-idx")

    def op_put_acc(self, sid, name, rows=None):
        torch = self.env["torch"]
        st = self.states[sid]
        if rows is None:
            rows = self.random_value(name)
            if self.rng.random() < 0.15:
                rows = [[0] * len(r) for r in rows]      # adding zero is still an assignment (fork, reset of the children)
        val = rows_tensor(torch, rows, self.sh.level[name])
        status, _ = self.call(lambda: st.put(name, val, accumulate=True))
        self.record(f"pa:{sid}:{self.sh.rank[name]}:{fmt_rows(rows)}", sid, status)
        self.tag("put-acc")

    def op_revert(self, sid, mask=None):
        torch = self.env["torch"]
        st = self.states[sid]
        had_fork = st._last_fork is not None
        if mask is None:
            status, _ = self.call(lambda: st.revert())
            self.record(f"r:{sid}", sid, status)
            self.tag("revert")
        else:
            # the subset is "True <=> revert" in any numeric type the code converts with `.to(torch.bool)`
            dt = self.rng.choice([torch.bool, torch.bool, torch.uint8, torch.int64, torch.int32, torch.float32])
            self.tag("mask-" + str(dt).replace("torch.", ""))
            status, _ = self.call(lambda: st.revert(torch.tensor([int(b) for b in mask]).to(dt)))
            self.record(f"rp:{sid}:{''.join('1' if b else '0' for b in mask)}", sid, status)
            self.tag("revert-partial")
        if had_fork and status != "ok":
            self.fails.append(f"revert with a fork failed: {status}")
        if not had_fork and status != "e:input":
            self.fails.append(f"revert without a fork gave {status}")

    def op_clone(self, src, dst, noauto, keepfork):
        st = self.states[src]
        status, new = self.call(lambda: st.clone(disable_auto_fork=noauto, keep_last_fork=keepfork))
        if status == "ok":
            self.states[dst] = new
        self.record(f"c:{src}:{dst}:{int(noauto)}:{int(keepfork)}", dst if status == "ok" else src, status)
        self.tag("clone")

    def op_precompute(self, sid):
        st = self.states[sid]
        status, _ = self.call(lambda: st.precompute_all())
        self.record(f"pc:{sid}", sid, status)
        self.tag("precompute")

    def op_mode(self, sid, on):
        st = self.states[sid]
        st.auto_fork_type = self.env["StateForkType"].REF if on == 1 else (self.env["StateForkType"].COPY if on == 2 else None)
        self.record(f"m:{sid}:{1 if on else 0}", sid, "ok")
        self.tag("mode")

    def op_clear(self, sid):
        st = self.states[sid]
        status, _ = self.call(lambda: st.clear())
        self.record(f"cl:{sid}", sid, status)
        self.tag("clear")

    # ---- precondition of a partial revert, decided on the real state
    def partial_revert_allowed(self, sid):
        st = self.states[sid]
        fk = st._last_fork
        if fk is None:
            return None
        keys = list(fk.keys())
        i = keys[0]
        if self.sh.level[i] != "i":
            return None
        if fk[i] is None or st._values[i] is None:
            pass  # either side unset: everything becomes None, allowed
        ok = self.sh.rowlocal(i)
        for k in keys[1:]:
            if fk[k] is not None and st._values[k] is not None and k not in ok:
                return None
        return i

    def request_line(self):
        return f"hist nind={self.sh.nind} d={self.sh.d} p={P} nodes={self.sh.line_nodes()} ops={';'.join(self.ops)}"


def random_history(runner: Runner, length, sampler_like=False):
    rng, sh = runner.rng, runner.sh
    settable = [n for n in sh.names if sh.by_name[n].kind == "s"]
    ind_settable = [n for n in settable if sh.level[n] == "i"]
    next_sid = 1
    # initial assignments so that most reads succeed
    runner.op_mode(0, rng.choice([1, 1, 2, 0]))
    for n in settable:
        if rng.random() < 0.85:
            runner.op_set(0, n, runner.random_value(n))
    for _ in range(length):
        sid = rng.choice(list(runner.states))
        r = rng.random()
        if r < 0.30:
            runner.op_get(sid, rng.choice(sh.names))
        elif r < 0.45 and settable:
            n = rng.choice(settable)
            runner.op_set(sid, n, None if rng.random() < 0.07 else runner.random_value(n))
        elif r < 0.50:
            n = rng.choice(sh.names)  # maybe non-settable
            runner.op_set(sid, n, runner.random_value(n))
        elif r < 0.57 and settable:
            n = rng.choice(settable)
            if rng.random() < 0.5:
                runner.op_put_idx(sid, n, rng.random() < 0.5)
            else:
                runner.op_put_acc(sid, n)
        elif r < 0.66:
            runner.op_revert(sid)
        elif r < 0.80:
            i = runner.partial_revert_allowed(sid)
            if i is not None:
                runner.op_revert(sid, [rng.random() < 0.5 for _ in range(sh.nind)])
            elif ind_settable:
                # a sampler-like step: propose, read individual-level descendants, partial revert
                n = rng.choice(ind_settable)
                if runner.states[sid].auto_fork_type is None:
                    runner.op_mode(sid, 1)
                runner.op_set(sid, n, runner.random_value(n))
                ok = sorted(sh.rowlocal(n))
                for k in rng.sample(ok, min(len(ok), rng.randrange(0, 3))):
                    runner.op_get(sid, k)
                if runner.partial_revert_allowed(sid) is not None:
                    runner.op_revert(sid, [rng.random() < 0.5 for _ in range(sh.nind)])
        elif r < 0.83 and len(settable) >= 2:
            # macro: forked assignment of A, un-forked assignment of another variable B, revert, read common descendants
            a, b = rng.sample(settable, 2)
            runner.op_mode(sid, rng.choice([1, 2]))
            runner.op_set(sid, a, runner.random_value(a))
            for k in rng.sample(sh.names, min(len(sh.names), rng.randrange(0, 3))):
                runner.op_get(sid, k)
            runner.op_mode(sid, 0)
            runner.op_set(sid, b, runner.random_value(b))
            if rng.random() < 0.5:
                runner.op_mode(sid, 1)
            runner.op_revert(sid)
            common = sorted(sh.desc(a) & sh.desc(b)) or sh.names
            for k in rng.sample(common, min(len(common), 3)):
                runner.op_get(sid, k)
        elif r < 0.86 and next_sid < 4:
            runner.op_clone(sid, next_sid, rng.random() < 0.4, rng.random() < 0.5)
            next_sid += 1
        elif r < 0.90:
            runner.op_mode(sid, rng.choice([0, 1, 2]))
        elif r < 0.94:
            runner.op_precompute(sid)
        elif r < 0.96:
            runner.op_isset(sid, rng.choice(sh.names))
        elif r < 0.97:
            runner.op_clear(sid)
        else:
            runner.op_get(sid, rng.choice(sh.names))
    # final sweep: read everything on every state
    for sid in list(runner.states):
        for n in sh.names:
            if rng.random() < 0.5:
                runner.op_get(sid, n)


def sampler_history(runner: Runner, steps):
    """C02-shaped histories: proposal / reads / decision, population and individual level."""
    rng, sh = runner.rng, runner.sh
    settable = [n for n in sh.names if sh.by_name[n].kind == "s"]
    runner.op_mode(0, 1)
    for n in settable:
        runner.op_set(0, n, runner.random_value(n))
    runner.op_precompute(0)
    for _ in range(steps):
        n = rng.choice(settable)
        before_reads = rng.sample(sh.names, min(len(sh.names), rng.randrange(0, 4)))
        for k in before_reads:
            runner.op_get(0, k)
        runner.op_set(0, n, runner.random_value(n))
        decision = rng.choice(["accept", "reject", "partial", "partial"]) if sh.level[n] == "i" else rng.choice(["accept", "reject"])
        if decision == "partial":
            pool = sorted(sh.rowlocal(n))
        else:
            pool = sh.names
        for k in rng.sample(pool, min(len(pool), rng.randrange(0, 5))):
            runner.op_get(0, k)
        if decision == "reject":
            runner.op_revert(0)
        elif decision == "partial":
            if runner.partial_revert_allowed(0) is not None:
                runner.op_revert(0, [rng.random() < 0.5 for _ in range(sh.nind)])
            else:
                runner.op_revert(0)
        for k in rng.sample(sh.names, min(len(sh.names), rng.randrange(1, 6))):
            runner.op_get(0, k)
    for n in sh.names:
        runner.op_get(0, n)


# ---------------------------------------------------------------------------------------------
# real-tensor oracle on real models (no Lean involved: the property predicate itself, bitwise)
# ---------------------------------------------------------------------------------------------
REAL_KINDS = [
    ("logistic", dict(dimension=3, source_dimension=2)),
    ("logistic", dict(dimension=3, source_dimension=2, obs_models="gaussian-scalar")),
    ("linear", dict(dimension=3, source_dimension=2)),
    ("shared_speed_logistic", dict(dimension=3, source_dimension=2)),
    ("logistic", dict(dimension=1)),
    ("joint", dict(dimension=1)),
]


def real_state(env, model_name, kw):
    import pandas as pd
    from leaspy.io.data import Data, Dataset
    from leaspy.models import model_factory
    from . import core
    m = model_factory(model_name, **kw)
    dim = kw.get("dimension", 3)
    if model_name == "joint":
        df = pd.read_csv(core.REPO / "tests/_data/data_mock/data_tiny_joint.csv", sep=";")
        ycols = [c for c in df.columns if c not in ("ID", "TIME", "EVENT_TIME", "EVENT_BOOL")][:dim]
        df = df[["ID", "TIME", "EVENT_TIME", "EVENT_BOOL"] + ycols]
        data = Data.from_dataframe(df, "joint")
    else:
        df = pd.read_csv(core.REPO / "tests/_data/data_mock/multivariate_data.csv")
        df = df[["ID", "TIME"] + list(df.columns[2: 2 + dim])]
        data = Data.from_dataframe(df)
    ds = Dataset(data)
    with core.quiet():
        m.initialize(ds)
        st = m.state
        m.put_data_variables(st, ds)
        m.put_individual_parameters(st, ds)
    return m, st, ds


def values_equal(torch, a, b):
    from leaspy.utils.weighted_tensor import WeightedTensor
    if isinstance(a, WeightedTensor) or isinstance(b, WeightedTensor):
        if not (isinstance(a, WeightedTensor) and isinstance(b, WeightedTensor)):
            return False
        if (a.weight is None) != (b.weight is None):
            return False
        if a.weight is not None and not torch.equal(a.weight, b.weight):
            return False
        va, vb = a.weighted_value, b.weighted_value
    else:
        va, vb = a, b
    if va.shape != vb.shape or va.dtype != vb.dtype:
        return False
    # bitwise, NaN == NaN
    return bool(torch.equal(torch.nan_to_num(va, nan=12345.678), torch.nan_to_num(vb, nan=12345.678))) and \
        bool(torch.equal(torch.isnan(va), torch.isnan(vb)))


def from_scratch(env, st, name):
    """Value of `name` on a fresh State holding only the current independent values."""
    from leaspy.variables.specs import LinkedVariable
    fresh = env["State"](st.dag)
    for k, var in st.dag.items():
        if not isinstance(var, LinkedVariable) and var.is_settable:
            v = st._values[k]
            fresh._values[k] = None if v is None else (v.clone() if hasattr(v, "clone") else __import__("copy").deepcopy(v))
    return fresh[name]


def fractional_weights(env, rng, st):
    """Weights are relative weights, not only 0/1 masks (WeightedTensor contract): some visits count half. Returns True if done."""
    try:
        from leaspy.utils.weighted_tensor import WeightedTensor
        torch = env["torch"]
        t = st["t"]
        if isinstance(t, WeightedTensor) and t.weight is not None:
            half = torch.tensor([[rng.random() < 0.3 for _ in range(t.value.shape[1])] for _ in range(t.value.shape[0])])
            w = t.weight.to(torch.float32) * torch.where(half, torch.tensor(0.5), torch.tensor(1.0))
            st["t"] = WeightedTensor(t.value.clone(), w)
            return True
    except Exception:  # noqa
        pass
    return False


class RealOracle:
    def __init__(self, env, model_name, kw, rng):
        self.env, self.rng = env, rng
        self.model_name, self.kw = model_name, kw
        self.model, self.st, self.ds = real_state(env, model_name, kw)
        self.frac_weights = fractional_weights(env, rng, self.st) if rng.random() < 0.5 else False
        self.st.auto_fork_type = env["StateForkType"].REF
        from leaspy.variables.specs import IndividualLatentVariable, PopulationLatentVariable, LinkedVariable
        dag = self.st.dag
        self.pop = list(dag.sorted_variables_by_type.get(PopulationLatentVariable, {}))
        self.ind = list(dag.sorted_variables_by_type.get(IndividualLatentVariable, {}))
        self.linked = [k for k, v in dag.items() if isinstance(v, LinkedVariable)]
        self.n_ind = self.ds.n_individuals
        with __import__("harness.core", fromlist=["quiet"]).quiet():
            self.st.precompute_all()
        self.ind_axis = {k for k, v in self.st._values.items()
                         if v is not None and v.ndim >= 1 and v.shape[0] == self.n_ind and self.n_ind not in tuple(v.shape[1:])}
        self.fails, self.log, self.reads = [], [], 0

    def rowlocal(self, i):
        dag = self.st.dag
        d = set(dag.sorted_children[i])
        ok = set()
        for n in dag.sorted_variables_names:
            if n in d and n in self.ind_axis:
                if all((p not in d and p != i) or p in ok or p == i for p in dag.direct_ancestors[n]):
                    ok.add(n)
        return ok

    def check_read(self, st, name, ctx):
        torch = self.env["torch"]
        self.reads += 1
        api = self.rng.choice(["item", "item", "tensor", "tensors"])
        acc = {"item": lambda s_: s_[name], "tensor": lambda s_: s_.get_tensor_value(name),
               "tensors": lambda s_: s_.get_tensor_values([name])[0]}[api]
        try:
            got = acc(st)
        except Exception as e:  # noqa
            got = e
        try:
            want = from_scratch(self.env, st, name)
            if api != "item" and not isinstance(want, Exception):
                from leaspy.utils.weighted_tensor import WeightedTensor
                want = want.weighted_value if isinstance(want, WeightedTensor) else want
        except Exception as e:  # noqa
            want = e
        if isinstance(got, Exception) or isinstance(want, Exception):
            if type(got) is not type(want):
                self.fails.append(f"[{ctx}] read of '{name}': got {type(got).__name__}, from scratch {type(want).__name__}")
            return
        if not values_equal(torch, got, want):
            self.fails.append(f"[{ctx}] stale or corrupted read of '{name}' (differs bitwise from a from-scratch evaluation)")

    def propose(self, name, extreme=False):
        torch = self.env["torch"]
        cur = self.st[name]
        scale = 0.05 if not extreme else self.rng.choice([30.0, 95.0, 1e3])
        noise = torch.tensor([[self.rng.gauss(0, 1) for _ in range(cur[0].numel() if cur.ndim > 1 else 1)]
                              for _ in range(cur.shape[0] if cur.ndim >= 1 else 1)], dtype=cur.dtype).reshape(cur.shape)
        new = cur + scale * noise
        if extreme and cur.ndim >= 1 and self.rng.random() < 0.7:
            # extreme only for some entries
            keep = torch.tensor([self.rng.random() < 0.6 for _ in range(cur.shape[0])]).reshape((-1,) + (1,) * (cur.ndim - 1))
            new = torch.where(keep, cur + 0.05 * noise, new)
        return new

    def run(self, steps):
        torch, rng, st = self.env["torch"], self.rng, self.st
        names = list(st.dag.sorted_variables_names)
        for step in range(steps):
            kind = rng.choice(["pop-accept", "pop-reject", "ind-accept", "ind-reject", "ind-partial", "ind-partial", "clone", "data-mask"])
            extreme = rng.random() < 0.35
            ctx = f"{self.model_name} step {step} {kind}{' extreme' if extreme else ''}"
            self.log.append(ctx)
            try:
                if kind == "clone":
                    c = st.clone(disable_auto_fork=rng.random() < 0.5, keep_last_fork=rng.random() < 0.5)
                    v = rng.choice(self.ind + self.pop)
                    c[v] = self.propose(v) if c.is_variable_set(v) else c[v]
                    for k in rng.sample(names, 4):
                        self.check_read(c, k, ctx + " (clone)")
                        self.check_read(st, k, ctx + " (original after clone write)")
                    continue
                if kind == "data-mask":
                    # the observations are assigned again with the very same numbers but another mask (a score that was 0 is
                    # now missing, as a re-loaded table would give): everything computed from them must follow
                    from leaspy.utils.weighted_tensor import WeightedTensor
                    y = st["y"] if "y" in st.dag else None
                    if isinstance(y, WeightedTensor) and y.weight is not None and bool((y.weight > 0).any()):
                        for k in rng.sample(names, rng.randrange(1, 5)):
                            self.check_read(st, k, ctx + " before")
                        w = y.weight.clone()
                        on = (w > 0).nonzero(as_tuple=False).tolist()
                        for idx in rng.sample(on, min(len(on), rng.randrange(1, 4))):
                            w[tuple(idx)] = 0
                        st["y"] = WeightedTensor(y.value.clone(), w)
                        keep = rng.random() < 0.5
                        if not keep:
                            for k in rng.sample(names, rng.randrange(0, 3)):
                                self.check_read(st, k, ctx + " after re-assignment")
                            st.revert()
                        for k in rng.sample(names, min(len(names), 6)):
                            self.check_read(st, k, ctx + (" kept" if keep else " reverted"))
                        for k in ("n_obs", "n_obs_per_ft", "nll_attach_ind", "nll_attach"):
                            if k in st.dag:
                                self.check_read(st, k, ctx + (" kept" if keep else " reverted"))
                    continue
                var = rng.choice(self.pop if kind.startswith("pop") else self.ind)
                for k in rng.sample(names, rng.randrange(0, 4)):
                    self.check_read(st, k, ctx + " before")
                old = st[var].clone()
                prop = self.propose(var, extreme)
                st[var] = prop
                if kind == "ind-partial":
                    pool = sorted(self.rowlocal(var))
                else:
                    pool = names
                for k in rng.sample(pool, min(len(pool), rng.randrange(0, 5))):
                    self.check_read(st, k, ctx + " after proposal")
                if kind.endswith("reject"):
                    st.revert()
                    if not values_equal(torch, st[var], old):
                        self.fails.append(f"[{ctx}] '{var}' differs from its value before the rejected proposal")
                elif kind == "ind-partial":
                    rejected = torch.tensor([rng.random() < 0.5 for _ in range(self.n_ind)])
                    st.revert(rejected.to(rng.choice([torch.bool, torch.bool, torch.uint8, torch.int64, torch.float32])))
                    want = torch.where(rejected.reshape((-1,) + (1,) * (old.ndim - 1)), old, prop)
                    if not values_equal(torch, st[var], want):
                        self.fails.append(f"[{ctx}] '{var}' is not old-on-rejected / proposed-on-accepted after the partial revert")
                else:
                    if not values_equal(torch, st[var], prop):
                        self.fails.append(f"[{ctx}] accepted proposal of '{var}' not held")
                for k in rng.sample(names, min(len(names), 8)):
                    self.check_read(st, k, ctx + " after decision")
            except Exception as e:  # noqa
                self.fails.append(f"[{ctx}] operation raised {type(e).__name__}: {e}")
                break
