"""Shared machinery for C01 / C02: shadow graphs through the real `State` / `VariablesDAG` classes,
history generation respecting the documented precondition of partial reverts, an independent
from-scratch evaluator (pure python integers), the line for the Lean driver (drivers/C01.lean), and
the real-tensor oracle on real models (bitwise comparison with a from-scratch evaluation on a fresh State).
"""
from __future__ import annotations

import warnings
import zlib

P = 1_000_003


def imports():
    warnings.filterwarnings("ignore")
    import leaspy.models  # noqa: F401
    import torch
    from leaspy.exceptions import LeaspyInputError
    from leaspy.variables.dag import VariablesDAG
    from leaspy.variables.specs import DataVariable, Hyperparameter, LinkedVariable
    from leaspy.variables.state import State, StateForkType
    return dict(torch=torch, LIE=LeaspyInputError, VariablesDAG=VariablesDAG, DataVariable=DataVariable,
                Hyperparameter=Hyperparameter, LinkedVariable=LinkedVariable, State=State, StateForkType=StateForkType)


# ---------------------------------------------------------------------------------------------
# shadow graph description
# ---------------------------------------------------------------------------------------------
class Node:
    __slots__ = ("name", "kind", "level", "c0", "parents", "coeffs")

    def __init__(self, name, kind, level, c0, parents, coeffs):
        self.name, self.kind, self.level, self.c0, self.parents, self.coeffs = name, kind, level, c0, list(parents), list(coeffs)


class Shadow:
    """nodes: list of Node (any order).  Ranks follow python's sorted(names) like the real DAG."""

    def __init__(self, nodes, nind, d):
        self.nodes = sorted(nodes, key=lambda n: n.name)
        self.names = [n.name for n in self.nodes]
        self.rank = {n: i for i, n in enumerate(self.names)}
        self.by_name = {n.name: n for n in self.nodes}
        self.nind, self.d = nind, d
        # derived levels
        self.level = {}
        for n in self.topo():
            nd = self.by_name[n]
            if nd.kind in ("h", "s"):
                self.level[n] = nd.level
            elif nd.kind == "a":
                self.level[n] = "p"
            else:
                self.level[n] = "i" if any(self.level[p] == "i" for p in nd.parents) else "p"
        self.children = {n: [] for n in self.names}
        for nd in self.nodes:
            for p in nd.parents:
                self.children[p].append(nd.name)

    def topo(self):
        seen, out = set(), []

        def visit(n):
            if n in seen:
                return
            seen.add(n)
            for p in self.by_name[n].parents:
                visit(p)
            out.append(n)
        for n in self.names:
            visit(n)
        return out

    def desc(self, n):
        seen, todo = set(), list(self.children[n])
        while todo:
            x = todo.pop()
            if x not in seen:
                seen.add(x)
                todo.extend(self.children[x])
        return seen

    def rowlocal(self, i):
        """descendants of i whose value commutes with an entry-wise mix of i (individual axis all the way)."""
        ok = set()
        d = self.desc(i)
        for n in self.topo():
            if n in d:
                nd = self.by_name[n]
                if nd.kind == "l" and self.level[n] == "i" and all((p not in d and p != i) or p in ok or p == i for p in nd.parents):
                    ok.add(n)
        return ok

    def line_nodes(self):
        out = []
        for nd in self.nodes:
            ps = ",".join(str(self.rank[p]) for p in nd.parents) or "_"
            cs = ",".join(str(c) for c in nd.coeffs) or "_"
            out.append(f"{nd.kind}:{nd.level if nd.kind in ('h', 's') else '-'}:{nd.c0}:{ps}:{cs}")
        return ";".join(out)

    # independent evaluator on python ints ---------------------------------------------------
    def eval_from_scratch(self, indep):
        """indep: name -> rows (list of lists) or None.  Returns name -> rows or None (needs an unset value)."""
        val = {}
        for n in self.topo():
            nd = self.by_name[n]
            if nd.kind == "h":
                val[n] = [[nd.c0] * self.d for _ in range(self.nind if nd.level == "i" else 1)]
            elif nd.kind == "s":
                val[n] = indep.get(n)
            else:
                ps = [val[p] for p in nd.parents]
                if any(p is None for p in ps):
                    val[n] = None
                elif nd.kind == "a":
                    val[n] = [[(nd.c0 + sum(a * sum(row[c] for row in P_) for a, P_ in zip(nd.coeffs, ps))) % P
                               for c in range(self.d)]]
                else:
                    nrows = max([1] + [len(p) for p in ps])
                    val[n] = [[(nd.c0 + sum(a * (P_[0] if len(P_) == 1 else P_[r])[c] for a, P_ in zip(nd.coeffs, ps))) % P
                               for c in range(self.d)] for r in range(nrows)]
        return val


def build_real(env, sh: Shadow):
    """The shadow graph as real leaspy objects."""
    torch = env["torch"]
    variables = {}
    for nd in sh.nodes:
        if nd.kind == "h":
            shape = (sh.nind, sh.d) if nd.level == "i" else (sh.d,)
            variables[nd.name] = env["Hyperparameter"](torch.full(shape, nd.c0, dtype=torch.int64))
        elif nd.kind == "s":
            variables[nd.name] = env["DataVariable"]()
        else:
            variables[nd.name] = env["LinkedVariable"](make_fn(torch, sh, nd))
    dag = env["VariablesDAG"].from_dict(variables)
    return dag


def make_fn(torch, sh, nd):
    names = list(nd.parents)
    coeffs = list(nd.coeffs)
    levels = [sh.level[p] for p in names]
    c0, kind = nd.c0, nd.kind

    def impl(**kw):
        acc = None
        for n, a, lv in zip(names, coeffs, levels):
            v = kw[n]
            if kind == "a" and lv == "i":
                v = v.sum(dim=0)
            term = a * v
            acc = term if acc is None else acc + term
        return (c0 + acc) % P
    # the dependencies of a derived variable are the keyword-only parameters of its function — all of them, also those the
    # function declares with a default value (a third of the nodes declare their last dependency that way)
    decl = list(names)
    if names and zlib.crc32(("sig:" + nd.name).encode()) % 3 == 0:
        decl[-1] = f"{names[-1]}=None"
    src = "lambda *, " + ", ".join(decl) + ": impl(" + ", ".join(f"{n}={n}" for n in names) + ")"
    return eval(src, {"impl": impl})


def to_rows(t):
    if t.ndim == 1:
        return [[int(x) for x in t.tolist()]]
    return [[int(x) for x in row] for row in t.tolist()]


def _from_lists(torch, name, d, level):
    """inverse of State._get_value_as_dict_of_lists for the 1-D (population) / 2-D (individual) values of the shadow graphs"""
    if list(d) == [name]:
        col = torch.tensor(d[name], dtype=torch.int64)
        return col if level == "p" else col[:, None]
    cols = [d[f"{name}_{i}"] for i in range(len(d))]
    return torch.tensor(cols, dtype=torch.int64).T


def fmt_rows(rows):
    return "/".join(",".join(str(x) for x in r) for r in rows)


def rows_tensor(torch, rows, level):
    t = torch.tensor(rows, dtype=torch.int64)
    return t[0] if level == "p" else t


# ---------------------------------------------------------------------------------------------
# random shadow structures
# ---------------------------------------------------------------------------------------------
def stable_const(name, salt=0):
    return zlib.crc32(f"{name}:{salt}".encode()) % 997 + 1


def random_toy(rng, kmax=12):
    k = rng.randrange(3, kmax + 1)
    nind = rng.choice([1, 2, 3, 4, 4, 6])
    d = rng.choice([1, 2, 2, 3])
    # half of the toy graphs use one fixed pool of names: different structures over the same variable names are built in
    # the same interpreter (anything remembered per name set rather than per definition would be served to the wrong graph)
    if rng.random() < 0.5:
        names = [f"v{j:02d}" for j in range(k)]
    else:
        names = [f"{rng.choice('abcxyz')}{j:02d}" for j in range(k)]
    rng.shuffle(names)
    nodes = []
    n_roots = rng.randrange(1, max(2, k // 2) + 1)
    for j, nm in enumerate(names):
        if j < n_roots or rng.random() < 0.12:
            kind = "h" if rng.random() < 0.15 else "s"
            nodes.append(Node(nm, kind, rng.choice("pi") if nind > 0 else "p", stable_const(nm), [], []))
        else:
            npar = rng.randrange(1, min(3, j) + 1)
            ps = rng.sample(names[:j], npar)
            kind = "a" if rng.random() < 0.25 else "l"
            nodes.append(Node(nm, kind, "-", stable_const(nm), ps, [stable_const(nm, q + 1) for q in range(npar)]))
    # drop isolated roots (the real DAG refuses them): give them a child
    used = {p for n in nodes for p in n.parents}
    for n in list(nodes):
        if not n.parents and n.name not in used:
            child = f"zz_{n.name}"
            nodes.append(Node(child, "l", "-", stable_const(child), [n.name], [3]))
    return Shadow(nodes, nind, d)


def shadow_of_model(env, model_name, kw, nind=3, d=2):
    """Shadow graph with the structure (names, edges, kinds, which nodes carry the individual axis / aggregate) of a
    real model kind, read off a real initialised state."""
    import pandas as pd
    from leaspy.io.data import Data, Dataset
    from leaspy.models import model_factory
    from leaspy.variables.specs import Hyperparameter, IndividualLatentVariable, LinkedVariable, DataVariable
    from . import core
    m = model_factory(model_name, **kw)
    dag = env["VariablesDAG"].from_dict(m.get_variables_specs())
    ind_level = set()
    try:
        m, st, ds = real_state(env, model_name, kw)
        with core.quiet():
            st.precompute_all()
        n_ind = ds.n_individuals
        for k, v in st._values.items():
            if v is not None and v.ndim >= 1 and v.shape[0] == n_ind and n_ind not in v.shape[1:]:
                ind_level.add(k)
        exact = True
    except Exception:  # noqa  fall back to types
        exact = False
        for k, var in dag.items():
            if isinstance(var, (IndividualLatentVariable, DataVariable)) or k.endswith("_ind"):
                ind_level.add(k)
    nodes = []
    for k, var in dag.items():
        ps = sorted(dag.direct_ancestors[k])
        if isinstance(var, Hyperparameter):
            nodes.append(Node(k, "h", "i" if k in ind_level else "p", stable_const(k), [], []))
        elif isinstance(var, LinkedVariable):
            any_ind_parent = any(p in ind_level for p in ps)
            kind = "a" if (k not in ind_level and any_ind_parent) else "l"
            nodes.append(Node(k, kind, "-", stable_const(k), ps, [stable_const(k, q + 1) for q in range(len(ps))]))
        else:
            nodes.append(Node(k, "s", "i" if k in ind_level else "p", stable_const(k), [], []))
    sh = Shadow(nodes, nind, d)
    return sh, exact


# ---------------------------------------------------------------------------------------------
# history generation + execution on the real State
# ---------------------------------------------------------------------------------------------
class Runner:
    """Executes ops on real State objects (a state and its clones), records canonical outputs, evaluates the property
    predicate against the independent from-scratch evaluator, and builds the Lean request."""

    def __init__(self, env, sh: Shadow, rng):
        self.env, self.sh, self.rng = env, sh, rng
        self.dag = build_real(env, sh)
        self.states = {0: env["State"](self.dag, auto_fork_type=env["StateForkType"].REF)}
        self.ops, self.outs, self.fails = [], [], []
        self.tags = {}
        self.fork_info = {0: None}  # sid -> (node, set of names cached in fork) ghost, only used for generation
        # which public accessor / container / layout an op went through (several spell the same model op): logged per op
        # index so that a replay of the request line goes through the very same entry points
        self.picks, self.forced = {}, None

    def pick(self, choices):
        at = str(len(self.ops))
        done = len(self.picks.get(at, []))
        if self.forced is not None and len(self.forced.get(at, [])) > done and self.forced[at][done] < len(choices):
            c = self.forced[at][done]
        else:
            c = self.rng.randrange(len(choices))
        self.picks.setdefault(at, []).append(c)
        return choices[c]

    # ---- helpers
    def indep_of(self, sid):
        st = self.states[sid]
        return {n: (to_rows(st._values[n]) if st._values[n] is not None else None) for n in self.sh.names
                if self.sh.by_name[n].kind == "s"}

    def pattern(self, sid):
        st = self.states[sid]
        return "".join("1" if st._values[n] is not None else "0" for n in self.sh.names)

    def tag(self, k):
        self.tags[k] = self.tags.get(k, 0) + 1

    def random_value(self, name):
        lv = self.sh.level[name]
        nrows = self.sh.nind if lv == "i" else 1
        return [[self.rng.randrange(0, 1000) for _ in range(self.sh.d)] for _ in range(nrows)]

    def record(self, opstr, sid, out):
        self.ops.append(opstr)
        self.outs.append(f"{out}|{self.pattern(sid)}")

    def call(self, f):
        try:
            return ("ok", f())
        except self.env["LIE"]:
            return ("e:input", None)
        except Exception as e:  # noqa
            return (f"e:other:{type(e).__name__}", None)

    # ---- operations
    def rank_of(self, name):
        """rank of a variable; a name that is not a variable gets the first rank outside the graph"""
        return self.sh.rank.get(name, len(self.sh.names))

    def op_get(self, sid, name, api=None):
        st = self.states[sid]
        known = name in self.sh.by_name
        want = self.sh.eval_from_scratch(self.indep_of(sid))[name] if known else None
        # the same read through the different public accessors of State (all must agree with the from-scratch value),
        # including the accessors State inherits from MutableMapping
        if api is None:
            api = self.pick(["item", "item", "item", "tensor", "tensors", "aslists", "mapping-get", "setdefault", "values-of"])
        if not known and api in ("aslists", "values-of"):
            api = "item"
        sentinel = object()
        if api == "item":
            status, v = self.call(lambda: st[name])
        elif api == "tensor":
            status, v = self.call(lambda: st.get_tensor_value(name))
        elif api == "tensors":
            status, v = self.call(lambda: st.get_tensor_values([name])[0])
        elif api == "mapping-get":
            # Mapping.get(key, default): the default is for keys that do not exist (KeyError), never for a value that can not
            # be computed - and State reports even unknown names as an input error
            status, v = self.call(lambda: st.get(name, sentinel))
            if status == "ok" and v is sentinel:
                self.fails.append(f"read of '{name}' through Mapping.get was answered with the caller's default")
                status = "e:other:default"
        elif api == "setdefault":
            # MutableMapping.setdefault: returns the value when it can be read, and must never assign otherwise
            dflt = rows_tensor(self.env["torch"], self.random_value(name), self.sh.level[name]) if known else self.env["torch"].zeros(1)
            status, v = self.call(lambda: st.setdefault(name, dflt))
            if status == "ok" and v is dflt:
                self.fails.append(f"read of '{name}' through setdefault was answered with (and assigned) the caller's default")
                status = "e:other:default"
        elif api == "values-of":
            # ItemsView / ValuesView of the mapping: positional read
            def _nth():
                for k, val in st.items():
                    if k == name:
                        return val
                raise KeyError(name)
            # the views read every variable before `name` in the iteration order: only usable when those reads are no-ops,
            # i.e. everything before is cached; otherwise fall back to the plain accessor
            order = list(st._values)
            before = order[: order.index(name)]
            if all(st._values[k] is not None for k in before):
                status, v = self.call(_nth)
            else:
                api = "item"
                status, v = self.call(lambda: st[name])
        else:
            status, v = self.call(lambda: _from_lists(self.env["torch"], name, st._get_value_as_dict_of_lists(name), self.sh.level[name]))
        self.tag("get-" + api)
        r = self.rank_of(name)
        if status == "ok":
            rows = to_rows(v)
            out = "v=" + fmt_rows(rows)
            if want is None:
                self.fails.append(f"read of '{name}' answered {rows} although " +
                                  ("an independent value it needs is unset" if known else "it is not a variable of the graph"))
            elif rows != want:
                self.fails.append(f"stale read of '{name}': got {rows}, from scratch {want}")
        else:
            out = status
            if want is not None:
                self.fails.append(f"read of '{name}' failed with {status} although every needed value is set")
            elif status != "e:input":
                self.fails.append(f"read of '{name}' " + ("needing an unset value" if known else "(not a variable)") +
                                  f" reported {status}, not an input error")
        self.record(f"g:{sid}:{r}", sid, out)
        self.tag("get")
        if not known:
            self.tag("unknown-name")

    def op_isset(self, sid, name):
        st = self.states[sid]
        status, v = self.call(lambda: st.is_variable_set(name))
        if name not in self.sh.by_name and status != "e:input":
            self.fails.append(f"is_variable_set('{name}') (not a variable) gave {status}, not an input error")
        if name in self.sh.by_name and (status != "ok" or bool(v) != (st._values[name] is not None)):
            self.fails.append(f"is_variable_set('{name}') gave {status}:{v}")
        self.record(f"q:{sid}:{self.rank_of(name)}", sid, f"b={int(bool(v))}" if status == "ok" else status)
        self.tag("isset")

    def op_areset(self, sid, names):
        """are_variables_set(names) == all(is_variable_set(n)) (each one recorded as its own query)"""
        st = self.states[sid]
        status, v = self.call(lambda: st.are_variables_set(tuple(names)))
        each = [st._values[n] is not None for n in names]
        if status != "ok" or bool(v) != all(each):
            self.fails.append(f"are_variables_set({names}) gave {status}:{v}, individual answers {each}")
        for n in names:
            self.op_isset(sid, n)
        self.tag("areset")

    def op_contains(self, sid, name):
        """`name in state`, len(state), iteration: the graph's variables, whatever is cached (no model op: nothing may change)"""
        st = self.states[sid]
        status, v = self.call(lambda: (name in st, len(st), sorted(st), sorted(st.keys())))
        want = (name in self.sh.by_name, len(self.sh.names), list(self.sh.names), list(self.sh.names))
        if status != "ok" or v != want:
            self.fails.append(f"`'{name}' in state` / len / iteration gave {status}:{v if status != 'ok' else (v[0], v[1])}")
        self.tag("contains")

    def op_set(self, sid, name, rows, how=None):
        torch = self.env["torch"]
        st = self.states[sid]
        known = name in self.sh.by_name
        val = None if rows is None else (rows_tensor(torch, rows, self.sh.level[name]) if known else torch.tensor(rows[0]))
        if how is None:
            how = self.pick(["item", "item", "put", "update"] if val is not None else ["item", "item", "put"])
        before_values = self.snapshot(sid)[0]
        if how == "item":
            status, _ = self.call(lambda: st.__setitem__(name, val))
        elif how == "put":
            # put without indices and without accumulation is a plain assignment
            status, _ = self.call(lambda: st.put(name, val))
        else:
            # MutableMapping.update: assignments in the order of the given mapping
            status, _ = self.call(lambda: st.update({name: val}))
        self.tag("set-via-" + how)
        settable = known and self.sh.by_name[name].kind == "s"
        if settable and status == "ok":
            self.check_fork(sid, name, before_values)
            got = st._values[name]
            if (None if got is None else to_rows(got)) != rows:
                self.fails.append(f"after the assignment of '{name}' the state holds {None if got is None else to_rows(got)}, not the assigned {rows}")
        if settable and status != "ok":
            self.fails.append(f"assignment of settable '{name}' failed: {status}")
        if not settable and status != "e:input":
            self.fails.append(f"assignment of non-settable '{name}' gave {status}")
        self.record(f"s:{sid}:{self.rank_of(name)}:{'none' if rows is None else fmt_rows(rows)}", sid, status)
        self.tag("set" if rows is not None else "set-none")

    def op_put_idx(self, sid, name, acc, shape=None):
        """indexed put.  shape: "cells" = any list of coordinates (possibly repeated when accumulating), "cell" = one coordinate
        given as plain integers (what the Gibbs population sampler passes), "row" = a PARTIAL index (one leading integer, the
        value is a whole row: the FastGibbs form)."""
        lv = self.sh.level[name]
        nrows = self.sh.nind if lv == "i" else 1
        cells = [(r, c) for r in range(nrows) for c in range(self.sh.d)]
        if shape is None:
            shape = self.rng.choice(["cells", "cells", "cell", "row"])
        if shape == "row" and lv != "i":
            shape = "cell"
        if shape == "cells":
            k = self.rng.randrange(1, len(cells) + 1)
            chosen = self.rng.sample(cells, k)
            if acc and self.rng.random() < 0.3:
                chosen.append(self.rng.choice(chosen))  # duplicate index, well-defined when accumulating
        elif shape == "cell":
            chosen = [self.rng.choice(cells)]
        else:
            r = self.rng.randrange(nrows)
            chosen = [(r, c) for c in range(self.sh.d)]
        vals = [self.rng.randrange(0, 1000) for _ in chosen]
        if acc and self.rng.random() < 0.15:
            vals = [0 for _ in chosen]
        self.do_put_idx(sid, name, acc, [r for r, _ in chosen], [c for _, c in chosen], vals, shape)

    def do_put_idx(self, sid, name, acc, rows_i, cols_i, vals, shape="cells"):
        torch = self.env["torch"]
        import numpy as np
        st = self.states[sid]
        lv = self.sh.level.get(name, "p")
        single = len(vals) == 1
        is_row = (lv == "i" and len(vals) == self.sh.d and len(set(rows_i)) == 1 and cols_i == list(range(self.sh.d)))
        forms = ["lists", "lists", "arrays", "tensors"]
        if single:
            forms += ["ints", "ints", "npints"]
        if is_row:
            forms += ["rowint", "rowint", "rowlist"]
        form = self.pick(forms)
        value = torch.tensor(vals, dtype=torch.int64)
        if form in ("ints", "npints"):
            cast = int if form == "ints" else np.int64
            indices = (cast(rows_i[0]), cast(cols_i[0])) if lv == "i" else (cast(cols_i[0]),)
            value = value[0]        # 0-d value, as the samplers give (torch refuses a (1,) value for a 0-d indexing result)
        elif form == "rowint":
            indices = (rows_i[0],)
        elif form == "rowlist":
            indices = ([rows_i[0]],)
            value = value[None, :]
        else:
            conv = {"lists": list, "arrays": lambda x: np.array(x, dtype=np.int64), "tensors": lambda x: torch.tensor(x, dtype=torch.int64)}[form]
            indices = (conv(rows_i), conv(cols_i)) if lv == "i" else (conv(cols_i),)
        self.tag("put-form-" + form)
        cur = st._values.get(name)
        settable = name in self.sh.by_name and self.sh.by_name[name].kind == "s"
        expect = None
        if settable and cur is not None:
            expect = [list(r) for r in to_rows(cur)]
            for r, c, v in zip(rows_i if lv == "i" else [0] * len(vals), cols_i, vals):
                expect[r][c] = expect[r][c] + v if acc else v
        before_values = self.snapshot(sid)[0]
        status, _ = self.call(lambda: st.put(name, value, indices=indices, accumulate=acc))
        if settable:
            self.check_written(sid, name, expect, status, "indexed put")
            if status == "ok":
                self.check_fork(sid, name, before_values)
        self.record(f"p:{sid}:{self.rank_of(name)}:{int(acc)}:{','.join(map(str, rows_i))}:{','.join(map(str, cols_i))}:{','.join(map(str, vals))}", sid, status)
        self.tag("put-idx-acc" if acc else "put-idx")

    def op_put_acc(self, sid, name, rows=None):
        torch = self.env["torch"]
        st = self.states[sid]
        known = name in self.sh.by_name
        if rows is None:
            rows = self.random_value(name) if known else [[0]]
            if self.rng.random() < 0.15:
                rows = [[0] * len(r) for r in rows]      # adding zero is still an assignment (fork, reset of the children)
        val = rows_tensor(torch, rows, self.sh.level[name]) if known else torch.tensor(rows[0])
        cur = st._values.get(name)
        settable = known and self.sh.by_name[name].kind == "s"
        expect = None if (cur is None or not settable) else [[a + b for a, b in zip(ra, rb)] for ra, rb in zip(to_rows(cur), rows)]
        before_values = self.snapshot(sid)[0]
        status, _ = self.call(lambda: st.put(name, val, accumulate=True))
        if settable:
            self.check_written(sid, name, expect, status, "accumulating put")
            if status == "ok":
                self.check_fork(sid, name, before_values)
        if not known and status != "e:input":
            self.fails.append(f"put on '{name}' (not a variable) gave {status}, not an input error")
        self.record(f"pa:{sid}:{self.rank_of(name)}:{fmt_rows(rows)}", sid, status)
        self.tag("put-acc")

    def check_fork(self, sid, name, before_values):
        """right after a successful assignment of `name`: with auto-fork on, the snapshot holds the assigned variable first and
        every one of its descendants, with the values they had just before (None where nothing was cached); with auto-fork off
        there is no snapshot at all"""
        st = self.states[sid]
        fk = st._last_fork
        if st.auto_fork_type is None:
            if fk is not None:
                self.fails.append(f"an assignment of '{name}' made with auto-fork off left a snapshot behind")
            return
        want = {name} | self.sh.desc(name)
        if fk is None or not list(fk) or list(fk)[0] != name or set(fk) != want:
            self.fails.append(f"the snapshot taken at the assignment of '{name}' covers {None if fk is None else sorted(fk)}, "
                              f"not the variable (first) and its descendants {sorted(want)}")
            return
        got = {k: (None if v is None else to_rows(v)) for k, v in fk.items()}
        if got != {k: before_values[k] for k in got}:
            self.fails.append(f"the snapshot taken at the assignment of '{name}' does not hold the values from just before it")

    def check_written(self, sid, name, expect, status, what):
        """an (indexed / accumulating) put of a settable variable: the stored value is the documented out-of-place result;
        when the current value is unset it is an input error and nothing is assigned"""
        got = self.states[sid]._values[name]
        if expect is None:
            if status != "e:input" or got is not None:
                self.fails.append(f"{what} on the unset '{name}' gave {status} (value afterwards {'set' if got is not None else 'unset'})")
        elif status != "ok" or to_rows(got) != expect:
            self.fails.append(f"{what} on '{name}' gave {status}: the state holds {None if got is None else to_rows(got)}, expected {expect}")

    MASK_DTYPES = ("bool", "bool", "uint8", "int64", "int32", "float32")
    MASK_LAYOUTS = ("flat", "flat", "flat", "strided", "col-right", "col-left", "full-right", "full-left", "scalar")

    def op_revert(self, sid, mask=None):
        torch = self.env["torch"]
        st = self.states[sid]
        had_fork = st._last_fork is not None
        if mask is None:
            status, _ = self.call(lambda: st.revert())
            self.record(f"r:{sid}", sid, status)
            self.tag("revert")
        else:
            # the subset is "True <=> revert" in any numeric type the code converts with `.to(torch.bool)`, in every layout the
            # documentation allows: one entry per individual broadcast to the right (default), the same as a column / a full-shape
            # tensor with either broadcasting rule, a strided view, a 0-d tensor when every individual gets the same decision
            dt = getattr(torch, self.pick(list(self.MASK_DTYPES)))
            layouts = list(self.MASK_LAYOUTS[:-1]) + (["scalar"] if len(set(mask)) == 1 else ["flat"])
            layout = self.pick(layouts)
            self.tag("mask-" + str(dt).replace("torch.", ""))
            self.tag("mask-layout-" + layout)
            flat = torch.tensor([int(b) for b in mask]).to(dt)
            kw = {}
            if layout == "strided":
                m = torch.stack([flat, (1 - flat.to(torch.int64)).to(dt)], dim=1)[:, 0]
            elif layout.startswith("col"):
                m = flat[:, None]
            elif layout.startswith("full"):
                m = flat[:, None].expand(len(mask), self.sh.d)
                if self.pick([True, False]):
                    m = m.clone()
            elif layout == "scalar":
                m = flat[0]
            else:
                m = flat
            if layout.endswith("-left"):
                kw = dict(right_broadcasting=False)
            status, _ = self.call(lambda: st.revert(m, **kw))
            self.record(f"rp:{sid}:{''.join('1' if b else '0' for b in mask)}", sid, status)
            self.tag("revert-partial")
        if had_fork and status != "ok":
            self.fails.append(f"revert with a fork failed: {status}")
        if not had_fork and status != "e:input":
            self.fails.append(f"revert without a fork gave {status}")

    def op_clone(self, src, dst, noauto, keepfork, how=None):
        st = self.states[src]
        if how is None:
            # copy.deepcopy(state) is a clone that keeps the mode and the pending fork
            how = self.pick(["clone", "clone", "deepcopy"] if (keepfork and not noauto) else ["clone"])
        if how == "deepcopy":
            import copy
            status, new = self.call(lambda: copy.deepcopy(st))
        else:
            status, new = self.call(lambda: st.clone(disable_auto_fork=noauto, keep_last_fork=keepfork))
        if status == "ok":
            self.states[dst] = new
            # a copy is a copy: same values; the pending fork only if asked for; the mode unless switched off
            old_fork = None if st._last_fork is None else [(k, None if v is None else to_rows(v)) for k, v in st._last_fork.items()]
            want = (self.snapshot(src)[0], old_fork if keepfork else None, None if noauto else st.auto_fork_type)
            if self.snapshot(dst) != want:
                self.fails.append(f"{how}(disable_auto_fork={noauto}, keep_last_fork={keepfork}) of a state is not a copy of its values"
                                  " / requested fork / mode")
        else:
            self.fails.append(f"{how} of a state failed: {status}")
        self.record(f"c:{src}:{dst}:{int(noauto)}:{int(keepfork)}", dst if status == "ok" else src, status)
        self.tag("clone" if how == "clone" else "clone-deepcopy")

    def op_precompute(self, sid):
        st = self.states[sid]
        status, _ = self.call(lambda: st.precompute_all())
        self.record(f"pc:{sid}", sid, status)
        self.tag("precompute")

    def fork_type(self, on):
        return self.env["StateForkType"].REF if on == 1 else (self.env["StateForkType"].COPY if on == 2 else None)

    def mode_code(self, t):
        return 0 if t is None else (1 if t is self.env["StateForkType"].REF else 2)

    def log_mode(self, on):
        """the request line only says on / off; REF (1) or COPY (2) goes to the log so that a replay uses the same type"""
        at = str(len(self.ops))
        if self.forced is not None and self.forced.get(at) and not self.picks.get(at):
            on = self.forced[at][0]
        self.picks.setdefault(at, []).append(on)
        return on

    def op_mode(self, sid, on):
        """on: 0 = off, 1 = REF, 2 = COPY, "on" = REF or COPY, "any" """
        st = self.states[sid]
        if on == "any":
            on = self.rng.choice([0, 1, 2])
        elif on == "on":
            on = self.rng.choice([1, 2])
        on = self.log_mode(on)
        st.auto_fork_type = self.fork_type(on)
        self.record(f"m:{sid}:{1 if on else 0}", sid, "ok")
        self.tag("mode")

    def op_with_mode(self, sid, on, body, leave_by_exception=False):
        """`with state.auto_fork(type): body` = switch, body, switch back to whatever the mode was - also when the block is
        left by an exception."""
        st = self.states[sid]
        prev = st.auto_fork_type

        class _Leave(Exception):
            pass
        on = self.log_mode(on)
        default_form = on == 1 and self.pick([True, False])
        try:
            with (st.auto_fork() if default_form else st.auto_fork(self.fork_type(on))):
                self.record(f"m:{sid}:{1 if on else 0}", sid, "ok")
                body()
                if leave_by_exception:
                    raise _Leave()
        except _Leave:
            pass
        if st.auto_fork_type is not prev:
            self.fails.append(f"the auto_fork context manager left the mode {st.auto_fork_type} instead of restoring {prev}")
        self.log_mode(self.mode_code(st.auto_fork_type))
        self.record(f"m:{sid}:{0 if st.auto_fork_type is None else 1}", sid, "ok")
        self.tag("mode-context" + ("-exception" if leave_by_exception else ""))

    def op_clear(self, sid):
        st = self.states[sid]
        status, _ = self.call(lambda: st.clear())
        self.record(f"cl:{sid}", sid, status)
        self.tag("clear")

    # ---- operations that must change nothing (no model op: the next recorded pattern / outputs would show a difference)
    def snapshot(self, sid):
        st = self.states[sid]
        rows = lambda v: None if v is None else to_rows(v)  # noqa
        return ({k: rows(v) for k, v in st._values.items()},
                None if st._last_fork is None else [(k, rows(v)) for k, v in st._last_fork.items()],
                st.auto_fork_type)

    def op_to_device(self, sid):
        st = self.states[sid]
        before = self.snapshot(sid)
        status, _ = self.call(lambda: st.to_device(self.env["torch"].device("cpu")))
        if status != "ok":
            self.fails.append(f"to_device(cpu) failed: {status}")
        elif self.snapshot(sid) != before:
            self.fails.append("to_device(cpu) changed the values, the pending fork or the fork mode of the state")
        self.tag("to-device")

    def op_delete(self, sid, name):
        """removing a key is refused (directly or through the inherited pop / popitem) and changes nothing"""
        st = self.states[sid]
        before = self.snapshot(sid)
        how = self.rng.choice(["del", "del", "popitem"])      # (not logged: this op is not part of the request line)
        if how == "del":
            status, _ = self.call(lambda: st.__delitem__(name))
        else:
            # popitem reads the first variable of the iteration order before trying to delete it: only when that read is a no-op
            first = next(iter(st._values))
            if st._values[first] is None:
                status, _ = self.call(lambda: st.__delitem__(name))
            else:
                status, _ = self.call(lambda: st.popitem())
        if status != "e:other:NotImplementedError":
            self.fails.append(f"removal of a variable gave {status}")
        if self.snapshot(sid) != before or len(st) != len(self.sh.names):
            self.fails.append("an attempted removal of a variable changed the state")
        self.tag("delete")

    # ---- precondition of a partial revert, decided on the real state
    def partial_revert_allowed(self, sid):
        st = self.states[sid]
        fk = st._last_fork
        if fk is None:
            return None
        keys = list(fk.keys())
        if not keys or keys[0] not in self.sh.level:
            return None                  # (malformed snapshot: reported by check_fork at the assignment)
        i = keys[0]
        if self.sh.level[i] != "i":
            return None
        if fk[i] is None or st._values[i] is None:
            pass  # either side unset: everything becomes None, allowed
        ok = self.sh.rowlocal(i)
        for k in keys[1:]:
            if fk[k] is not None and st._values[k] is not None and k not in ok:
                return None
        return i

    def request_line(self):
        return f"hist nind={self.sh.nind} d={self.sh.d} p={P} nodes={self.sh.line_nodes()} ops={';'.join(self.ops)}"


UNKNOWN = "no_such_variable"


def random_history(runner: Runner, length, sampler_like=False):
    rng, sh = runner.rng, runner.sh
    settable = [n for n in sh.names if sh.by_name[n].kind == "s"]
    ind_settable = [n for n in settable if sh.level[n] == "i"]
    next_sid = 1
    # initial assignments so that most reads succeed
    runner.op_mode(0, rng.choice([1, 1, 2, 0]))
    for n in settable:
        if rng.random() < 0.85:
            runner.op_set(0, n, runner.random_value(n))

    def some_name():
        return UNKNOWN if rng.random() < 0.03 else rng.choice(sh.names)

    def one_write(sid):
        """one assignment-like operation on a random variable (used inside mode contexts as well)"""
        n = rng.choice(settable) if (settable and rng.random() < 0.85) else rng.choice(sh.names)
        q = rng.random()
        if q < 0.5:
            runner.op_set(sid, n, None if rng.random() < 0.07 else runner.random_value(n))
        elif q < 0.75:
            runner.op_put_idx(sid, n, rng.random() < 0.6)
        else:
            runner.op_put_acc(sid, n)
        return n

    for _ in range(length):
        sid = rng.choice(list(runner.states))
        r = rng.random()
        if r < 0.28:
            runner.op_get(sid, some_name())
        elif r < 0.42 and settable:
            n = rng.choice(settable)
            q = rng.random()
            if q < 0.07:
                runner.op_set(sid, n, None)
            elif q < 0.17 and runner.states[sid]._values[n] is not None:
                # the very same numbers again (a new tensor): still an assignment - fork, reset of every dependant
                runner.op_set(sid, n, to_rows(runner.states[sid]._values[n]))
            else:
                runner.op_set(sid, n, runner.random_value(n))
        elif r < 0.47:
            n = some_name()  # maybe non-settable, maybe not a variable at all
            if n == UNKNOWN and rng.random() < 0.5:
                runner.op_put_acc(sid, n)
            else:
                runner.op_set(sid, n, runner.random_value(n) if n != UNKNOWN else [[1]])
        elif r < 0.55 and settable:
            n = rng.choice(settable) if rng.random() < 0.85 else rng.choice(sh.names)
            if rng.random() < 0.6:
                runner.op_put_idx(sid, n, rng.random() < 0.5)
            else:
                runner.op_put_acc(sid, n)
        elif r < 0.63:
            runner.op_revert(sid)
        elif r < 0.76:
            i = runner.partial_revert_allowed(sid)
            if i is not None:
                runner.op_revert(sid, random_mask(rng, sh.nind))
            elif ind_settable:
                # a sampler-like step: propose, read individual-level descendants, partial revert
                n = rng.choice(ind_settable)
                if runner.states[sid].auto_fork_type is None:
                    runner.op_mode(sid, "on")
                if rng.random() < 0.5 or runner.states[sid]._values[n] is None:
                    runner.op_set(sid, n, runner.random_value(n))
                elif rng.random() < 0.5:
                    runner.op_put_acc(sid, n)
                else:
                    runner.op_put_idx(sid, n, True)
                ok = sorted(sh.rowlocal(n))
                for k in rng.sample(ok, min(len(ok), rng.randrange(0, 3))):
                    runner.op_get(sid, k)
                if rng.random() < 0.15:
                    runner.op_to_device(sid)
                if runner.partial_revert_allowed(sid) is not None:
                    runner.op_revert(sid, random_mask(rng, sh.nind))
        elif r < 0.79 and len(settable) >= 2:
            # macro: forked assignment of A, un-forked assignment of another variable B, revert, read common descendants
            a, b = rng.sample(settable, 2)
            runner.op_mode(sid, "on")
            runner.op_set(sid, a, runner.random_value(a))
            for k in rng.sample(sh.names, min(len(sh.names), rng.randrange(0, 3))):
                runner.op_get(sid, k)
            if rng.random() < 0.5:
                runner.op_mode(sid, 0)
                runner.op_set(sid, b, runner.random_value(b))
                if rng.random() < 0.5:
                    runner.op_mode(sid, 1)
            else:
                # the same through the context manager (as the maximisation step does), possibly left by an exception
                runner.op_with_mode(sid, 0, lambda: runner.op_set(sid, b, runner.random_value(b)), leave_by_exception=rng.random() < 0.3)
            runner.op_revert(sid)
            common = sorted(sh.desc(a) & sh.desc(b)) or sh.names
            for k in rng.sample(common, min(len(common), 3)):
                runner.op_get(sid, k)
        elif r < 0.82:
            # any write inside a temporary mode; afterwards the decision is taken in the restored mode
            runner.op_with_mode(sid, rng.choice([0, 1, 2]), lambda: one_write(sid), leave_by_exception=rng.random() < 0.25)
            if rng.random() < 0.6:
                runner.op_revert(sid)
        elif r < 0.85 and next_sid < 4:
            runner.op_clone(sid, next_sid, rng.random() < 0.4, rng.random() < 0.5)
            next_sid += 1
        elif r < 0.88:
            runner.op_mode(sid, "any")
        elif r < 0.91:
            runner.op_precompute(sid)
        elif r < 0.93:
            if rng.random() < 0.5:
                runner.op_isset(sid, some_name())
            else:
                runner.op_areset(sid, rng.sample(sh.names, min(len(sh.names), rng.randrange(1, 4))))
        elif r < 0.94:
            runner.op_clear(sid)
        elif r < 0.96:
            runner.op_to_device(sid)
        elif r < 0.97:
            runner.op_delete(sid, rng.choice(sh.names))
        elif r < 0.98:
            runner.op_contains(sid, some_name())
        else:
            runner.op_get(sid, rng.choice(sh.names))
    # final sweep: read everything on every state
    for sid in list(runner.states):
        for n in sh.names:
            if rng.random() < 0.5:
                runner.op_get(sid, n)


def random_mask(rng, nind):
    """per-individual decisions; the uniform ones (everybody / nobody reverted) are boundary cases worth more than chance"""
    q = rng.random()
    if q < 0.12:
        return [True] * nind
    if q < 0.24:
        return [False] * nind
    return [rng.random() < 0.5 for _ in range(nind)]


def sampler_history(runner: Runner, steps):
    """C02-shaped histories: proposal / reads / decision, population and individual level."""
    rng, sh = runner.rng, runner.sh
    settable = [n for n in sh.names if sh.by_name[n].kind == "s"]
    runner.op_mode(0, 1)
    for n in settable:
        runner.op_set(0, n, runner.random_value(n))
    runner.op_precompute(0)
    for _ in range(steps):
        n = rng.choice(settable)
        before_reads = rng.sample(sh.names, min(len(sh.names), rng.randrange(0, 4)))
        for k in before_reads:
            runner.op_get(0, k)
        runner.op_set(0, n, runner.random_value(n))
        decision = rng.choice(["accept", "reject", "partial", "partial"]) if sh.level[n] == "i" else rng.choice(["accept", "reject"])
        if decision == "partial":
            pool = sorted(sh.rowlocal(n))
        else:
            pool = sh.names
        for k in rng.sample(pool, min(len(pool), rng.randrange(0, 5))):
            runner.op_get(0, k)
        if decision == "reject":
            runner.op_revert(0)
        elif decision == "partial":
            if runner.partial_revert_allowed(0) is not None:
                runner.op_revert(0, [rng.random() < 0.5 for _ in range(sh.nind)])
            else:
                runner.op_revert(0)
        for k in rng.sample(sh.names, min(len(sh.names), rng.randrange(1, 6))):
            runner.op_get(0, k)
    for n in sh.names:
        runner.op_get(0, n)


# ---------------------------------------------------------------------------------------------
# real-tensor oracle on real models (no Lean involved: the property predicate itself, bitwise)
# ---------------------------------------------------------------------------------------------
REAL_KINDS = [
    ("logistic", dict(dimension=3, source_dimension=2)),
    ("logistic", dict(dimension=3, source_dimension=2, obs_models="gaussian-scalar")),
    ("linear", dict(dimension=3, source_dimension=2)),
    ("shared_speed_logistic", dict(dimension=3, source_dimension=2)),
    ("logistic", dict(dimension=1)),
    ("joint", dict(dimension=1)),
]


REAL_KINDS_MORE = [
    # kinds the first table does not have: clusters (the individual sampler then reads a per-cluster regularity between proposal
    # and decision), several features without sources, one source, binary outcomes, a joint model with sources
    ("mixture_logistic", dict(dimension=3, source_dimension=2, n_clusters=2)),
    ("mixture_logistic", dict(dimension=3, source_dimension=1, n_clusters=3)),
    ("logistic", dict(dimension=3, source_dimension=0)),
    ("logistic", dict(dimension=2, source_dimension=1)),
    ("logistic", dict(dimension=3, source_dimension=2, obs_models="bernoulli")),
    ("linear", dict(dimension=1)),
    ("shared_speed_logistic", dict(dimension=3, source_dimension=0)),
    ("joint", dict(dimension=2, source_dimension=1)),
]
COHORTS = ["full", "full", "one", "two-reversed", "missing"]


def cohort_frame(model_name, kw, cohort="full", rng=None):
    """The mock table of the model kind, possibly reduced / altered: "one" = a single individual, "two-reversed" = two individuals
    listed in reverse order, "missing" = values missing inside visits.  (The mock cohort already has an individual with one visit.)"""
    import numpy as np
    import pandas as pd
    from . import core
    dim = kw.get("dimension", 3)
    if model_name == "joint":
        df = pd.read_csv(core.REPO / "tests/_data/data_mock/data_tiny_joint.csv", sep=";")
        ycols = [c for c in df.columns if c not in ("ID", "TIME", "EVENT_TIME", "EVENT_BOOL")][:dim]
        df = df[["ID", "TIME", "EVENT_TIME", "EVENT_BOOL"] + ycols]
    else:
        df = pd.read_csv(core.REPO / "tests/_data/data_mock/multivariate_data.csv")
        ycols = list(df.columns[2: 2 + dim])
        df = df[["ID", "TIME"] + ycols]
    if kw.get("obs_models") == "bernoulli":
        # (not the median: with exactly half of the outcomes positive the initial log_g is 0 and so is the scale of its sampler)
        df[ycols] = (df[ycols] > df[ycols].quantile(0.6)).astype(float)
    ids = list(dict.fromkeys(df["ID"]))
    # (the joint reader refuses a cohort without any observed event: keep an individual whose event is observed)
    with_event = list(dict.fromkeys(df.loc[df["EVENT_BOOL"] > 0, "ID"])) if model_name == "joint" else ids
    if cohort == "one":
        df = df[df["ID"] == rng.choice(with_event)]
    elif cohort == "two-reversed":
        first = rng.choice(with_event)
        two = [first, rng.choice([i for i in ids if i != first])]
        rng.shuffle(two)
        df = pd.concat([df[df["ID"] == two[1]], df[df["ID"] == two[0]]])
    elif cohort == "missing" and len(ycols) > 1:
        df = df.copy()
        for i in range(len(df)):
            if rng.random() < 0.3:
                df.iloc[i, df.columns.get_loc(rng.choice(ycols))] = np.nan
    return df.reset_index(drop=True), ("joint" if model_name == "joint" else "visit")


def real_state(env, model_name, kw, cohort="full", rng=None):
    """A real model initialised on its whole mock cohort, and its state loaded with the data and individual variables of
    `cohort` (the whole one by default).  Returns (model, state, dataset in the state)."""
    from leaspy.io.data import Data, Dataset
    from leaspy.models import model_factory
    from . import core
    m = model_factory(model_name, **kw)
    df, layout = cohort_frame(model_name, kw)
    ds = Dataset(Data.from_dataframe(df, layout) if layout == "joint" else Data.from_dataframe(df))
    with core.quiet():
        m.initialize(ds)
        st = m.state
        # (a third cluster can not be initialised from the 5-individual mock cohort: its tau_mean comes out nan; such a
        # parameter is written by hand - the mean of the other clusters' - as a user would, so that the kind is usable)
        torch = env["torch"]
        with st.auto_fork(None):
            for p_ in m.parameters:
                v = st[p_]
                if torch.is_floating_point(v) and bool(torch.isnan(v).any()) and not bool(torch.isnan(v).all()):
                    st[p_] = torch.where(torch.isnan(v), v[~torch.isnan(v)].mean(), v)
        if cohort != "full":
            df2, _ = cohort_frame(model_name, kw, cohort, rng)
            ds = Dataset(Data.from_dataframe(df2, layout) if layout == "joint" else Data.from_dataframe(df2))
        m.put_data_variables(st, ds)
        m.put_individual_parameters(st, ds)
    return m, st, ds


def values_equal(torch, a, b):
    from leaspy.utils.weighted_tensor import WeightedTensor
    if isinstance(a, WeightedTensor) or isinstance(b, WeightedTensor):
        if not (isinstance(a, WeightedTensor) and isinstance(b, WeightedTensor)):
            return False
        if (a.weight is None) != (b.weight is None):
            return False
        if a.weight is not None and not torch.equal(a.weight, b.weight):
            return False
        va, vb = a.weighted_value, b.weighted_value
    else:
        va, vb = a, b
    if va.shape != vb.shape or va.dtype != vb.dtype:
        return False
    # bitwise, NaN == NaN
    return bool(torch.equal(torch.nan_to_num(va, nan=12345.678), torch.nan_to_num(vb, nan=12345.678))) and \
        bool(torch.equal(torch.isnan(va), torch.isnan(vb)))


def from_scratch(env, st, name):
    """Value of `name` on a fresh State holding only the current independent values."""
    from leaspy.variables.specs import LinkedVariable
    fresh = env["State"](st.dag)
    for k, var in st.dag.items():
        if not isinstance(var, LinkedVariable) and var.is_settable:
            v = st._values[k]
            fresh._values[k] = None if v is None else (v.clone() if hasattr(v, "clone") else __import__("copy").deepcopy(v))
    return fresh[name]


def fractional_weights(env, rng, st):
    """Weights are relative weights, not only 0/1 masks (WeightedTensor contract): some visits count half. Returns True if done."""
    try:
        from leaspy.utils.weighted_tensor import WeightedTensor
        torch = env["torch"]
        t = st["t"]
        if isinstance(t, WeightedTensor) and t.weight is not None:
            half = torch.tensor([[rng.random() < 0.3 for _ in range(t.value.shape[1])] for _ in range(t.value.shape[0])])
            w = t.weight.to(torch.float32) * torch.where(half, torch.tensor(0.5), torch.tensor(1.0))
            st["t"] = WeightedTensor(t.value.clone(), w)
            return True
    except Exception:  # noqa
        pass
    return False


class LayoutEnvelope:
    """Bitwise equality with a from-scratch evaluation presupposes that the recomputation runs the same kernels.  torch.matmul
    picks its BLAS path by memory layout: once an independent value has been held in a non-contiguous layout (the table form of
    put_individual_latent_variables hands over the column-major array of the DataFrame - the mixture model initialises its
    individual variables that way), rows cached from that layout and rows recomputed from the contiguous tensor a later partial
    revert produces may differ in the last bit.  From then on a read that is not bitwise equal is compared within
    `LAYOUT_ENVELOPE` (same dtype / shape / weights / non-finite pattern) and counted; before that, and for every other cause,
    the comparison stays bitwise.  Users: set `self.env`, `self.layout_seen = False`, `self.envelope_reads = 0`."""

    LAYOUT_ENVELOPE = 16 * 2.0 ** -23      # 16 ulp of float32 relative to max(1, largest finite magnitude) of the value

    def note_layouts(self, st):
        if self.layout_seen:
            return
        from leaspy.utils.weighted_tensor import WeightedTensor
        from leaspy.variables.specs import LinkedVariable
        for k, var in st.dag.items():
            v = st._values[k]
            if v is None or isinstance(var, LinkedVariable):
                continue
            t = v.value if isinstance(v, WeightedTensor) else v
            if t.ndim >= 2 and not t.is_contiguous():
                self.layout_seen = True
                return

    def within_layout_envelope(self, got, want):
        torch = self.env["torch"]
        from leaspy.utils.weighted_tensor import WeightedTensor
        if isinstance(got, WeightedTensor) != isinstance(want, WeightedTensor):
            return False
        if isinstance(got, WeightedTensor):
            if (got.weight is None) != (want.weight is None) or (got.weight is not None and not torch.equal(got.weight, want.weight)):
                return False
            got, want = got.weighted_value, want.weighted_value
        if got.shape != want.shape or got.dtype != want.dtype or not torch.is_floating_point(got):
            return False
        fin = torch.isfinite(want)
        if not torch.equal(fin, torch.isfinite(got)) or not torch.equal(torch.nan_to_num(got[~fin], nan=1.5), torch.nan_to_num(want[~fin], nan=1.5)):
            return False
        if not bool(fin.any()):
            return True
        scale = max(1.0, float(want[fin].abs().max()))
        return bool(((got[fin].double() - want[fin].double()).abs() <= self.LAYOUT_ENVELOPE * scale).all())


class RealOracle(LayoutEnvelope):
    """Histories on the state of a real model; every read is compared bitwise with a from-scratch evaluation on a fresh State.
    cohort: which individuals / observations the state holds (see `cohort_frame`)."""

    KINDS = ["pop-accept", "pop-reject", "ind-accept", "ind-reject", "ind-partial", "ind-partial", "clone", "data-mask",
             # histories through the other public entry points that write a state
             "param", "param-after-proposal", "unset-ind", "unset-pop", "data-reset", "center", "device", "deepcopy",
             "put-index", "put-weighted", "mapping", "clear", "save"]

    def __init__(self, env, model_name, kw, rng, cohort="full"):
        self.env, self.rng = env, rng
        self.model_name, self.kw, self.cohort = model_name, kw, cohort
        self.ambient = None
        quiet = __import__("harness.core", fromlist=["quiet"]).quiet
        # which variables carry the individual axis is read off the WHOLE mock cohort (5 or 17 individuals: no other axis has
        # that length), not off a cohort of one or two individuals where the length of the axis says nothing
        if cohort != "full":
            _, full_st, full_ds = real_state(env, model_name, kw)
            with quiet():
                full_st.precompute_all()
            n_full = full_ds.n_individuals
            self.ind_axis = {k for k, v in full_st._values.items()
                             if v is not None and v.ndim >= 1 and v.shape[0] == n_full and n_full not in tuple(v.shape[1:])}
        self.model, self.st, self.ds = real_state(env, model_name, kw, cohort, rng)
        self.frac_weights = fractional_weights(env, rng, self.st) if rng.random() < 0.5 else False
        self.st.auto_fork_type = env["StateForkType"].REF if rng.random() < 0.7 else env["StateForkType"].COPY
        from leaspy.variables.specs import DataVariable, IndividualLatentVariable, LinkedVariable, ModelParameter, PopulationLatentVariable
        dag = self.st.dag
        self.pop = list(dag.sorted_variables_by_type.get(PopulationLatentVariable, {}))
        self.ind = list(dag.sorted_variables_by_type.get(IndividualLatentVariable, {}))
        self.params = list(dag.sorted_variables_by_type.get(ModelParameter, {}))
        self.data = list(dag.sorted_variables_by_type.get(DataVariable, {}))
        self.linked = [k for k, v in dag.items() if isinstance(v, LinkedVariable)]
        self.n_ind = self.ds.n_individuals
        with quiet():
            self.st.precompute_all()
        if cohort == "full":
            self.ind_axis = {k for k, v in self.st._values.items()
                             if v is not None and v.ndim >= 1 and v.shape[0] == self.n_ind and self.n_ind not in tuple(v.shape[1:])}
        self.fails, self.log, self.reads = [], [], 0
        self.kinds_done = {}
        self.layout_seen, self.envelope_reads = False, 0

    def rowlocal(self, i):
        dag = self.st.dag
        d = set(dag.sorted_children[i])
        ok = set()
        for n in dag.sorted_variables_names:
            if n in d and n in self.ind_axis:
                if all((p not in d and p != i) or p in ok or p == i for p in dag.direct_ancestors[n]):
                    ok.add(n)
        return ok

    def check_read(self, st, name, ctx):
        torch = self.env["torch"]
        from leaspy.utils.weighted_tensor import WeightedTensor
        self.reads += 1
        self.note_layouts(st)
        api = self.rng.choice(["item", "item", "tensor", "tensors", "mapping-get", "aslists"])
        sentinel = object()
        acc = {"item": lambda s_: s_[name], "tensor": lambda s_: s_.get_tensor_value(name),
               "tensors": lambda s_: s_.get_tensor_values([name])[0], "mapping-get": lambda s_: s_.get(name, sentinel),
               "aslists": lambda s_: s_._get_value_as_dict_of_lists(name)}[api]
        try:
            got = acc(st)
        except Exception as e:  # noqa
            got = e
        if got is sentinel:
            self.fails.append(f"[{ctx}] read of '{name}' through Mapping.get was answered with the caller's default")
            return
        try:
            want = from_scratch(self.env, st, name)
            if api in ("tensor", "tensors", "aslists"):
                want = want.weighted_value if isinstance(want, WeightedTensor) else want
            if api == "aslists":
                # documented export: scalars and vectors as one list, matrices column by column, more axes refused
                if want.ndim > 2:
                    want = ValueError("more than 2 axes")
                elif want.ndim == 2 and want.shape[1] > 1:
                    want = {f"{name}_{i}": want[:, i].tolist() for i in range(want.shape[1])}
                else:
                    want = {name: want.reshape(-1).tolist()}
        except Exception as e:  # noqa
            want = e
        if isinstance(got, Exception) or isinstance(want, Exception):
            if type(got) is not type(want):
                self.fails.append(f"[{ctx}] read of '{name}' ({api}): got {type(got).__name__}, from scratch {type(want).__name__}")
            return
        if api == "aslists":
            same = list(got) == list(want) and all(
                len(a) == len(b) and all((x == y) or (x != x and y != y) for x, y in zip(a, b)) for a, b in zip(got.values(), want.values()))
        else:
            same = values_equal(torch, got, want)
        if not same and self.layout_seen:
            g2, w2 = (st[name], from_scratch(self.env, st, name)) if api == "aslists" else (got, want)
            if self.within_layout_envelope(g2, w2):
                self.envelope_reads += 1
                return
        if not same:
            detail = ""
            try:
                a_ = (got.weighted_value if isinstance(got, WeightedTensor) else got) if api != "aslists" else None
                b_ = (want.weighted_value if isinstance(want, WeightedTensor) else want) if api != "aslists" else None
                if a_ is not None and a_.shape == b_.shape:
                    d_ = (a_.double() - b_.double()).abs()
                    d_ = torch.nan_to_num(d_, nan=float("inf"))
                    detail = (f"; max |difference| {float(d_.max()):.3g} at magnitude {float(torch.nan_to_num(b_.double().abs(), nan=0.0, posinf=0.0).max()):.3g}, "
                              f"{int((d_ > 0).sum())} of {d_.numel()} entries")
            except Exception:  # noqa
                pass
            self.fails.append(f"[{ctx}] stale or corrupted read of '{name}' ({api}: differs bitwise from a from-scratch evaluation{detail})")

    def read_some(self, st, ctx, k=5, pool=None):
        pool = list(st.dag.sorted_variables_names) if pool is None else pool
        for n in self.rng.sample(pool, min(len(pool), k)):
            self.check_read(st, n, ctx)

    def propose(self, name, extreme=False, st=None):
        torch = self.env["torch"]
        cur = (st or self.st)[name]
        scale = 0.05 if not extreme else self.rng.choice([30.0, 95.0, 1e3])
        noise = torch.tensor([[self.rng.gauss(0, 1) for _ in range(cur[0].numel() if cur.ndim > 1 else 1)]
                              for _ in range(cur.shape[0] if cur.ndim >= 1 else 1)], dtype=cur.dtype).reshape(cur.shape)
        new = cur + scale * noise
        if extreme and cur.ndim >= 1 and self.rng.random() < 0.7:
            # extreme only for some entries
            keep = torch.tensor([self.rng.random() < 0.6 for _ in range(cur.shape[0])]).reshape((-1,) + (1,) * (cur.ndim - 1))
            new = torch.where(keep, cur + 0.05 * noise, new)
        return new

    def new_parameter_value(self, name, extreme):
        torch, rng = self.env["torch"], self.rng
        cur = self.st[name]
        if extreme:
            # boundary values of a parameter: what an update rule yields on a collapsed / diverged iteration
            return torch.full_like(cur, rng.choice([0.0, float("inf"), float("nan"), 1e-30, 1e30]))
        g = torch.tensor([rng.gauss(0, 1) for _ in range(max(cur.numel(), 1))], dtype=cur.dtype).reshape(cur.shape)
        if name.endswith("_std") or name in ("noise_std", "probs"):
            return cur * torch.exp(0.1 * g)
        return cur + 0.1 * g

    # ---- histories through the other entry points (each returns after its own reads)
    def other_kind(self, kind, ctx, extreme):
        torch, rng, st, model = self.env["torch"], self.rng, self.st, self.model
        LIE = self.env["LIE"]
        from leaspy.utils.weighted_tensor import WeightedTensor
        quiet = __import__("harness.core", fromlist=["quiet"]).quiet
        if kind in ("param", "param-after-proposal"):
            # a model parameter is rewritten the way the maximisation step does it (auto-fork switched off for the block);
            # a proposal pending at that moment can no longer be rejected
            pending = kind == "param-after-proposal"
            if pending:
                var = rng.choice(self.ind + self.pop)
                st[var] = self.propose(var)
                self.read_some(st, ctx + " after proposal", 2, sorted(self.rowlocal(var)) if var in self.ind else None)
            ps = rng.sample(self.params, min(len(self.params), rng.randrange(1, 3)))
            sane = {p: st[p].clone() for p in ps}
            new = {p: self.new_parameter_value(p, extreme) for p in ps}
            mode_before = st.auto_fork_type
            with st.auto_fork(None):
                if rng.random() < 0.5:
                    for p, v in new.items():
                        st[p] = v
                else:
                    st.update(new)
            if st.auto_fork_type is not mode_before:
                self.fails.append(f"[{ctx}] the fork mode is {st.auto_fork_type} after an auto_fork(None) block, it was {mode_before}")
            for p, v in new.items():
                if not values_equal(torch, st[p], v):
                    self.fails.append(f"[{ctx}] parameter '{p}' does not hold the assigned value")
            self.read_some(st, ctx + " after the parameter update", 5)
            self.read_some(st, ctx + " after the parameter update", 3, list(set().union(*[st.dag.sorted_children[p] for p in ps])))
            if pending or rng.random() < 0.5:
                try:
                    st.revert()
                    self.fails.append(f"[{ctx}] revert() after an assignment made with auto-fork off did not raise")
                except LIE:
                    pass
                self.read_some(st, ctx + " after the refused revert", 5)
            if extreme:
                with st.auto_fork(None):
                    st.update(sane)
                self.read_some(st, ctx + " after the parameters were put back", 4)
        elif kind == "unset-ind":
            saved = {v: st[v].clone() for v in self.ind}
            which = rng.choice(["all", "one"])
            if which == "all":
                st.put_individual_latent_variables(None)
            else:
                st[rng.choice(self.ind)] = None
            self.read_some(st, ctx + " individual variables unset", 6)
            self.read_some(st, ctx + " individual variables unset", 2, self.ind)
            how = rng.choice(["mode", "mean", "samples", "model", "table", "saved"])
            try:
                with quiet():
                    if how in ("mode", "mean", "samples"):
                        st.put_individual_latent_variables(how, n_individuals=self.n_ind)
                    elif how == "model":
                        model.put_individual_parameters(st, self.ds)
                    elif how == "table":
                        import pandas as pd
                        cols = {"tau": saved["tau"][:, 0].tolist(), "xi": saved["xi"][:, 0].tolist()}
                        if "sources" in saved:
                            for j in range(saved["sources"].shape[1]):
                                cols[f"sources_{j}"] = saved["sources"][:, j].tolist()
                        st.put_individual_latent_variables(df=pd.DataFrame(cols))
            except Exception:  # noqa  (e.g. a prior without closed-form mode): not this property's matter, put the old values back
                how = "saved"
            for v in self.ind:
                if how == "saved" or not st.is_variable_set(v):
                    st[v] = saved[v]
            self.read_some(st, ctx + f" individual variables set again ({how})", 6)
        elif kind == "unset-pop":
            saved = {v: st[v].clone() for v in self.pop}
            if rng.random() < 0.5:
                st.put_population_latent_variables(None)
            else:
                st[rng.choice(self.pop)] = None
            self.read_some(st, ctx + " population variables unset", 6)
            how = rng.choice(["mode", "mean", "saved"])
            try:
                if how != "saved":
                    st.put_population_latent_variables(how)
            except Exception:  # noqa
                how = "saved"
            for v in self.pop:
                if how == "saved" or not st.is_variable_set(v):
                    st[v] = saved[v]
            self.read_some(st, ctx + f" population variables set again ({how})", 6)
        elif kind == "data-reset":
            model.reset_data_variables(st)
            self.read_some(st, ctx + " data unset", 5)
            self.read_some(st, ctx + " data unset", 2, self.data)
            model.put_data_variables(st, self.ds)
            if self.frac_weights:
                fractional_weights(self.env, rng, st)
            self.read_some(st, ctx + " data set again", 6)
        elif kind == "center":
            f = getattr(model, "_center_xi_realizations", None)
            if f is not None and st.is_variable_set("xi"):
                with st.auto_fork(None):
                    f(st)
                self.read_some(st, ctx, 8)
        elif kind in ("device", "deepcopy"):
            # a proposal is pending; the state is moved to (the same) device / deep-copied; then the decision is taken
            var = rng.choice(self.ind + self.pop)
            old = st[var].clone()
            self.read_some(st, ctx + " before", 2)
            prop = self.propose(var, extreme)
            st[var] = prop
            self.read_some(st, ctx + " after proposal", 2, sorted(self.rowlocal(var)) if var in self.ind else None)
            target = st
            if kind == "device":
                if rng.random() < 0.5:
                    st.to_device(torch.device("cpu"))
                else:
                    model.move_to_device(torch.device("cpu"))
            else:
                import copy
                target = copy.deepcopy(st)
            if var in self.ind and rng.random() < 0.5:
                rejected = torch.tensor([rng.random() < 0.5 for _ in range(self.n_ind)])
                target.revert(rejected)
                want = torch.where(rejected.reshape((-1,) + (1,) * (old.ndim - 1)), old, prop)
            else:
                target.revert()
                want = old
            if not values_equal(torch, target[var], want):
                self.fails.append(f"[{ctx}] '{var}' is not what the decision makes it")
            self.read_some(target, ctx + " after the decision", 6)
            if target is not st:
                if not values_equal(torch, st[var], prop):
                    self.fails.append(f"[{ctx}] a decision on a deep copy changed the original")
                self.read_some(st, ctx + " original of the deep copy", 3)
                st.revert()
        elif kind == "put-index":
            # proposals the way the population samplers make them: out-of-place accumulation at one coordinate given as plain
            # integers, or at one leading index (a whole row)
            var = rng.choice(self.pop)
            cur = st[var]
            old = cur.clone()
            full = tuple(rng.randrange(n) for n in cur.shape)
            idx = full if (cur.ndim < 2 or rng.random() < 0.5) else full[:1]
            change = torch.tensor([rng.gauss(0, 0.05) for _ in range(max(1, int(torch.tensor(cur.shape[len(idx):]).prod()) if cur.ndim > len(idx) else 1))],
                                  dtype=cur.dtype).reshape(cur.shape[len(idx):])
            if rng.random() < 0.15:
                change = torch.zeros_like(change)
            acc = rng.random() < 0.8
            st.put(var, change, indices=idx, accumulate=acc)
            want = old.clone()
            want[idx] = (old[idx] + change) if acc else change
            if not values_equal(torch, st[var], want):
                self.fails.append(f"[{ctx}] put('{var}', indices={idx}, accumulate={acc}) does not hold the documented value")
            if not values_equal(torch, cur, old):
                self.fails.append(f"[{ctx}] put('{var}', indices={idx}) modified the previous value in place")
            self.read_some(st, ctx + " after the indexed put", 4)
            if rng.random() < 0.5:
                st.revert()
                if not values_equal(torch, st[var], old):
                    self.fails.append(f"[{ctx}] '{var}' differs from its value before the rejected indexed put")
            self.read_some(st, ctx + " after the decision", 6)
        elif kind == "put-weighted":
            # indexed put on a weighted (masked) variable: values change out of place, weights stay
            name = rng.choice([d for d in self.data if isinstance(st._values.get(d), WeightedTensor)] or [None])
            if name is not None:
                cur = st[name]
                k = rng.randrange(1, 4)
                idx = tuple([rng.randrange(n) for _ in range(k)] for n in cur.shape)
                vals = torch.tensor([rng.random() for _ in range(k)], dtype=cur.value.dtype)
                old_v, old_w = cur.value.clone(), None if cur.weight is None else cur.weight.clone()
                st.put(name, vals, indices=idx, accumulate=False)
                new = st[name]
                want = old_v.index_put(tuple(torch.tensor(i) for i in idx), vals)
                if not (isinstance(new, WeightedTensor) and torch.equal(torch.nan_to_num(new.value), torch.nan_to_num(want))
                        and ((new.weight is None) == (old_w is None)) and (old_w is None or torch.equal(new.weight, old_w))):
                    self.fails.append(f"[{ctx}] indexed put on the weighted '{name}' does not give the documented value / keeps the weights")
                if not torch.equal(torch.nan_to_num(cur.value), torch.nan_to_num(old_v)):
                    self.fails.append(f"[{ctx}] indexed put on the weighted '{name}' modified the previous value in place")
                self.read_some(st, ctx + " after the put", 4)
                if rng.random() < 0.6:
                    st.revert()
                self.read_some(st, ctx + " after the decision", 6)
        elif kind == "clear":
            # clear(): hyper-parameters back to their canonical value, everything else unset, no fork; then every independent
            # value is assigned again (auto-fork off, as a loader does)
            from leaspy.variables.specs import Hyperparameter, LinkedVariable
            saved = {k: st._values[k] for k, v in st.dag.items() if not isinstance(v, (Hyperparameter, LinkedVariable))}
            if rng.random() < 0.5:
                v = rng.choice(self.ind + self.pop)
                st[v] = self.propose(v)               # a pending proposal does not survive a clear
            st.clear()
            if st._last_fork is not None:
                self.fails.append(f"[{ctx}] a fork survives clear()")
            self.read_some(st, ctx + " after clear()", 6)
            try:
                st.revert()
                self.fails.append(f"[{ctx}] revert() after clear() did not raise")
            except LIE:
                pass
            with st.auto_fork(None):
                for k in rng.sample(list(saved), len(saved)):
                    if saved[k] is not None:
                        st[k] = saved[k]
                    if rng.random() < 0.2:
                        self.read_some(st, ctx + " while the values are assigned again", 2)
            self.read_some(st, ctx + " after the values were assigned again", 8)
        elif kind == "save":
            # State.save: the tracked variables go to <name>.csv (one row per call, the iteration first): what is written is a
            # read like any other
            import csv
            import tempfile
            pool = [n for n in st.dag.sorted_variables_names]
            chosen = rng.sample(pool, 3)
            prev_tracked = set(st.tracked_variables)
            st.untrack_variables(list(prev_tracked))
            st.track_variables(chosen + ["not_a_variable"])
            try:
                if rng.random() < 0.5:
                    v = rng.choice(self.ind + self.pop)
                    st[v] = self.propose(v)
                    if rng.random() < 0.5:
                        st.revert()
                with tempfile.TemporaryDirectory(prefix="verif-c01-") as tmp:
                    it = rng.randrange(0, 1000)
                    wants = {}
                    for n in chosen:
                        try:
                            w = from_scratch(self.env, st, n)
                            w = w.weighted_value if isinstance(w, WeightedTensor) else w
                            wants[n] = w
                        except Exception as e:  # noqa
                            wants[n] = e
                    savable = all(not isinstance(w, Exception) and w.ndim <= 2 for w in wants.values())
                    try:
                        st.save(tmp, iteration=it)
                        err = None
                    except Exception as e:  # noqa
                        err = e
                    if savable and err is not None:
                        self.fails.append(f"[{ctx}] save() of {chosen} raised {type(err).__name__}: {err}")
                    elif not savable and err is None:
                        self.fails.append(f"[{ctx}] save() of {chosen} succeeded although one of them can not be evaluated / exported")
                    elif savable:
                        import os
                        for n, w in wants.items():
                            self.reads += 1
                            cols = {n: w.reshape(-1).tolist()} if not (w.ndim == 2 and w.shape[1] > 1) else \
                                {f"{n}_{i}": w[:, i].tolist() for i in range(w.shape[1])}
                            for cn, vals in cols.items():
                                path = os.path.join(tmp, f"{cn}.csv")
                                rows = list(csv.reader(open(path))) if os.path.exists(path) else []
                                got = [float(x) for x in rows[-1]] if rows else None
                                exp = [float(it)] + [float(x) for x in vals]
                                if got is None or len(got) != len(exp) or any(not (a == b or (a != a and b != b)) for a, b in zip(got, exp)):
                                    self.fails.append(f"[{ctx}] save(): the row written for '{cn}' is not the iteration followed by the "
                                                      "from-scratch value")
            finally:
                st.untrack_variables(chosen + ["not_a_variable"])
                st.track_variables(list(prev_tracked))
        elif kind == "mapping":
            # the inherited mapping interface: update() = assignments in order; items() / values() = reads of every variable
            vs = rng.sample(self.ind + self.pop, 2)
            st.update({v: self.propose(v) for v in vs})
            if rng.random() < 0.5:
                st.revert()                      # only the last assignment of the update can be undone
            try:
                got = dict(st.items()) if rng.random() < 0.5 else dict(zip(st.keys(), st.values()))
            except Exception as e:  # noqa
                got = e
            if isinstance(got, Exception):
                try:
                    for n in st.dag:
                        from_scratch(self.env, st, n)
                    self.fails.append(f"[{ctx}] items() raised {type(got).__name__} although every variable can be evaluated")
                except Exception:  # noqa
                    pass
            else:
                for n in rng.sample(list(got), min(len(got), 8)):
                    self.reads += 1
                    w = from_scratch(self.env, st, n)
                    if values_equal(torch, got[n], w):
                        continue
                    self.note_layouts(st)
                    if self.layout_seen and self.within_layout_envelope(got[n], w):
                        self.envelope_reads += 1
                        continue
                    self.fails.append(f"[{ctx}] items()['{n}'] differs bitwise from a from-scratch evaluation")

    def run(self, steps):
        torch, rng, st = self.env["torch"], self.rng, self.st
        names = list(st.dag.sorted_variables_names)
        for step in range(steps):
            kind = rng.choice(self.KINDS)
            extreme = rng.random() < 0.35
            ctx = f"{self.model_name} {self.cohort} step {step} {kind}{' extreme' if extreme else ''}"
            self.log.append(ctx)
            self.kinds_done[kind] = self.kinds_done.get(kind, 0) + 1
            try:
                if kind not in self.KINDS[:8]:
                    self.other_kind(kind, ctx, extreme)
                    continue
                if kind == "clone":
                    c = st.clone(disable_auto_fork=rng.random() < 0.5, keep_last_fork=rng.random() < 0.5)
                    v = rng.choice(self.ind + self.pop)
                    c[v] = self.propose(v) if c.is_variable_set(v) else c[v]
                    for k in rng.sample(names, 4):
                        self.check_read(c, k, ctx + " (clone)")
                        self.check_read(st, k, ctx + " (original after clone write)")
                    continue
                if kind == "data-mask":
                    # the observations are assigned again with the very same numbers but another mask (a score that was 0 is
                    # now missing, as a re-loaded table would give): everything computed from them must follow
                    from leaspy.utils.weighted_tensor import WeightedTensor
                    y = st["y"] if "y" in st.dag else None
                    if isinstance(y, WeightedTensor) and y.weight is not None and bool((y.weight > 0).any()):
                        for k in rng.sample(names, rng.randrange(1, 5)):
                            self.check_read(st, k, ctx + " before")
                        w = y.weight.clone()
                        on = (w > 0).nonzero(as_tuple=False).tolist()
                        for idx in rng.sample(on, min(len(on), rng.randrange(1, 4))):
                            w[tuple(idx)] = 0
                        st["y"] = WeightedTensor(y.value.clone(), w)
                        keep = rng.random() < 0.5
                        if not keep:
                            for k in rng.sample(names, rng.randrange(0, 3)):
                                self.check_read(st, k, ctx + " after re-assignment")
                            st.revert()
                        for k in rng.sample(names, min(len(names), 6)):
                            self.check_read(st, k, ctx + (" kept" if keep else " reverted"))
                        for k in ("n_obs", "n_obs_per_ft", "nll_attach_ind", "nll_attach"):
                            if k in st.dag:
                                self.check_read(st, k, ctx + (" kept" if keep else " reverted"))
                    continue
                var = rng.choice(self.pop if kind.startswith("pop") else self.ind)
                if kind == "ind-partial" and any(st._values.get(v) is not None and st._values[v].ndim < 2 for v in self.ind):
                    # an individual variable without its trailing axis (shape (n,) instead of (n, 1): what the mixture model's prior
                    # mode / mean initialisation produces, finding F121) broadcasts against (n, n_visits) tensors along the WRONG
                    # axis when n = n_visits: the documented precondition of a per-individual revert ("valid broadcasting for the
                    # forked node and all of its children") does not hold for such a state — the proposal is rejected as a whole
                    kind = "ind-reject"
                    self.kinds_done["ind-partial-skipped:1-d individual variable (F121 family)"] = \
                        self.kinds_done.get("ind-partial-skipped:1-d individual variable (F121 family)", 0) + 1
                for k in rng.sample(names, rng.randrange(0, 4)):
                    self.check_read(st, k, ctx + " before")
                old = st[var].clone()
                prop = self.propose(var, extreme)
                st[var] = prop
                if kind == "ind-partial":
                    pool = sorted(self.rowlocal(var))
                else:
                    pool = names
                for k in rng.sample(pool, min(len(pool), rng.randrange(0, 5))):
                    self.check_read(st, k, ctx + " after proposal")
                if kind.endswith("reject"):
                    st.revert()
                    if not values_equal(torch, st[var], old):
                        self.fails.append(f"[{ctx}] '{var}' differs from its value before the rejected proposal")
                elif kind == "ind-partial":
                    rejected = torch.tensor([rng.random() < 0.5 for _ in range(self.n_ind)])
                    st.revert(rejected.to(rng.choice([torch.bool, torch.bool, torch.uint8, torch.int64, torch.float32])))
                    want = torch.where(rejected.reshape((-1,) + (1,) * (old.ndim - 1)), old, prop)
                    if not values_equal(torch, st[var], want):
                        self.fails.append(f"[{ctx}] '{var}' is not old-on-rejected / proposed-on-accepted after the partial revert")
                else:
                    if not values_equal(torch, st[var], prop):
                        self.fails.append(f"[{ctx}] accepted proposal of '{var}' not held")
                for k in rng.sample(names, min(len(names), 8)):
                    self.check_read(st, k, ctx + " after decision")
            except Exception as e:  # noqa
                self.fails.append(f"[{ctx}] operation raised {type(e).__name__}: {e}")
                break


# ---------------------------------------------------------------------------------------------
# read spy: the property's predicate on the reads the public API itself performs (fit, personalisation, estimation)
# ---------------------------------------------------------------------------------------------
class ReadSpy(LayoutEnvelope):
    """Call-through wrapper on State.__getitem__: while it is installed, every `stride`-th read of a derived variable - on
    whatever State object the library works on (the model's, a clone, a per-individual copy) - is compared bitwise with a
    from-scratch evaluation on a fresh State holding the same independent values.  The library chooses the histories (sampler
    sweeps in random order, partial reverts, parameter updates with auto-fork off, re-centring, clones, unset data ...)."""

    def __init__(self, env, stride):
        self.env, self.stride = env, max(1, stride)
        self.count = self.checked = 0
        self.fails, self.busy = [], False
        self.states = set()
        self.layout_seen, self.envelope_reads = False, 0

    def __enter__(self):
        State, torch = self.env["State"], self.env["torch"]
        from leaspy.variables.specs import LinkedVariable
        self.orig = State.__getitem__
        spy = self

        def getitem(st, name, _orig=self.orig):
            value = _orig(st, name)
            if spy.busy:
                return value
            spy.count += 1
            spy.states.add(id(st))
            spy.note_layouts(st)
            if spy.count % spy.stride or len(spy.fails) > 5 or not isinstance(st.dag[name], LinkedVariable):
                return value
            spy.busy = True
            try:
                want = from_scratch(spy.env, st, name)
                spy.checked += 1
                if values_equal(torch, value, want):
                    pass
                elif spy.layout_seen and spy.within_layout_envelope(value, want):
                    spy.envelope_reads += 1
                else:
                    spy.fails.append(f"read #{spy.count} of '{name}' differs bitwise from a from-scratch evaluation on the independent "
                                     "values the state held at that moment")
            except Exception as e:  # noqa
                spy.fails.append(f"read #{spy.count} of '{name}' succeeded but the from-scratch evaluation raised {type(e).__name__}: {e}")
            finally:
                spy.busy = False
            return value
        State.__getitem__ = getitem
        return self

    def __exit__(self, *exc):
        self.env["State"].__getitem__ = self.orig
        return False


def api_read_spy(env, rng, model_name, kw, cohort, stride):
    """One model kind through the public API with the read spy on: fit (MCMC-SAEM, a few iterations, samplers / annealing varied),
    then sampling-based and optimiser-based personalisation and an estimation on the same object.  Returns (fails, stats)."""
    from leaspy.io.data import Data
    from leaspy.models import model_factory
    from . import core
    df, layout = cohort_frame(model_name, kw, cohort, rng)
    df["ID"] = df["ID"].astype(str)          # (individual parameters are keyed by string identifiers)
    data = Data.from_dataframe(df, layout) if layout == "joint" else Data.from_dataframe(df)
    model = model_factory(model_name, **kw)
    n_iter = rng.choice([3, 4, 6])
    fit_kw = dict(n_iter=n_iter, n_burn_in_iter=rng.randrange(0, n_iter), seed=rng.randrange(0, 1000), progress_bar=False,
                  sampler_pop=rng.choice(["Gibbs", "FastGibbs", "Metropolis-Hastings"]))
    if rng.random() < 0.4:
        fit_kw["annealing"] = dict(do_annealing=True, n_plateau=2, n_iter=2, initial_temperature=3.0)
    if rng.random() < 0.4:
        fit_kw["sampler_ind_params"] = dict(acceptation_history_length=rng.choice([1, 2]), mean_acceptation_rate_target_bounds=[0.2, 0.4],
                                            adaptive_std_factor=0.1)
    stats, fails = {"fit": dict(fit_kw)}, []
    with ReadSpy(env, stride) as spy:
        stage = "fit"
        try:
            with core.quiet():
                model.fit(data, "mcmc_saem", **fit_kw)
                stage = "personalize"
                algo = rng.choice(["mean_posterior", "mode_posterior", "scipy_minimize"])
                stats["personalize"] = algo
                pkw = dict(seed=rng.randrange(0, 1000), progress_bar=False)
                if algo != "scipy_minimize":
                    pkw.update(n_iter=rng.choice([3, 5]), n_burn_in_iter=1)
                ips = model.personalize(data, algo, **pkw)
                stage = "estimate"
                ids = list(dict.fromkeys(df["ID"]))
                some = ids[0]
                ages = sorted(float(t) for t in df.loc[df["ID"] == some, "TIME"])[:2]
                model.estimate({some: [ages[0] - 1.0] + ages}, ips)
        except Exception as e:  # noqa
            from leaspy.exceptions import LeaspyConvergenceError
            if isinstance(e, LeaspyConvergenceError):
                stats["did_not_converge"] = stage       # a variance collapsed on the tiny cohort: not this property's matter
            else:
                stats["aborted"] = f"{stage}: {type(e).__name__}: {e}"[:300]
    fails = [f"[{model_name} {cohort}, {stats.get('fit')}, {stats.get('personalize')}] {f}" for f in spy.fails]
    stats.update(reads=spy.count, checked=spy.checked, states=len(spy.states), within_layout_envelope=spy.envelope_reads)
    return fails, stats
