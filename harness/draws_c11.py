"""Draw-program recorder for C11 (not a check by itself; used by c11_repro.py).

While ONE seeded public call sequence (model construction / load + `fit` / `personalize` / `simulate`) runs on the real
code, every event that touches a random generator is recorded, in order:

    generators      0 = python `random` (hidden `random._inst`), 1 = numpy global `RandomState` (`np.random.mtrand._rand`),
                    2 = torch default generator, 3, 4, … = generator OBJECTS (`torch.Generator`, `np.random.RandomState`,
                    `np.random.default_rng`, `random.Random`) in order of first appearance
    s<g>.<v>.<c>    seeding: `random.seed(a)`, `np.random.seed(a)`, `torch.manual_seed(a)`, `Generator.manual_seed(a)`, creation of a
                    `torch.Generator()` (its default seed is a constant); v = `r` when the value IS the seed of the run, else `c<value>`
    e<g>.<c>        seeding from the clock / the OS: `random.seed()`, `np.random.seed(None)`, `torch.seed()`, `Generator.seed()`
    d<g>.<k>.<n>.<c> a draw: k = stable code of (function name, result dtype), n = number of values drawn
                    torch: every torch function / Tensor method seen by a `TorchFunctionMode` whose name is in `TORCH_DRAWS`, or — for a
                    name never seen before — whose first call moves the generator; numpy / python: call-through wrappers on the module
                    attributes (`np.random.normal`, `random.shuffle`, …); scipy: `rv_generic.rvs`, `gaussian_kde.resample`
    g<g>.<slot>.<c> state read (`get_rng_state`, `np.random.get_state`, `random.getstate`); slot = identity of the CONTENT
    p<g>.<slot>.<c> state written (`set_rng_state`, …) from that content (a content never read in this run gets a fresh slot)
    u<g>.<c>        the recorder cannot vouch for generator g: its state moved between two recorded events (a draw from C code, from a
                    function captured before the wrappers were installed, another thread …), or a generator object whose draws are
                    invisible (numpy / python generator objects) was created.  Always a defect for the analysis (fail-closed).
    n<tag>.<c>      not a generator event: a logging action of `FitOutputManager` starts (tag 0 P(rint) 1 S(ave) 2 paTients 3 Convergence)

    <c> call-site class of the event: l(ogging) when ANY frame of the stack is in `fit_output_manager.py` / `io/logs/`; otherwise by the
        innermost leaspy frame that decides: s(ampler) `samplers/`, i(nitialization) a function of `models/` whose name contains
        `initial`, a(lgorithm) `algo/`, `models/` otherwise; frames of `variables/`, `utils/`, `io/` defer to their caller; o(ther) when no
        leaspy frame decides.  The (file, function) of the innermost leaspy frame is kept for the reports.

Continuity (what makes the record fail-closed): after every recorded event of generator g its fingerprint is stored; before the next one,
and at the end of the run, it is compared — a generator that moved without a recorded event yields `u<g>`.
Fingerprints of the three global generators right after the LAST seeding that precedes the first draw (`fp_start`) and at the end
(`fp_end`) are kept: the same seeded subject must show the same two fingerprints whatever happened before.

Results stay bit-identical with the recorder on: every wrapper calls through with the caller's arguments; reading a generator state
does not move it.  Draws made in OTHER processes (joblib / loky workers) are outside the record.
"""
from __future__ import annotations

import random as _pyrandom
import sys
import zlib

import numpy as _np
import torch
from torch.overrides import TorchFunctionMode

PY, NP, TORCH = 0, 1, 2
GEN_NAMES = {0: "python", 1: "numpy", 2: "torch"}

TORCH_DRAWS = {
    "randn", "rand", "normal", "randint", "randperm", "multinomial", "bernoulli", "poisson", "binomial", "rand_like", "randn_like",
    "randint_like", "_standard_gamma", "_sample_dirichlet", "rrelu", "dropout", "feature_dropout", "alpha_dropout", "native_dropout",
    "normal_", "uniform_", "random_", "bernoulli_", "exponential_", "geometric_", "cauchy_", "log_normal_", "rrelu_", "dropout_",
    "_fused_dropout", "rrelu_with_noise", "fractional_max_pool2d", "fractional_max_pool3d",
}
PY_AMOUNT = {"shuffle": lambda a, k, r: len(a[0]) if a else 0,
             "sample": lambda a, k, r: len(r) if r is not None else 0,
             "choices": lambda a, k, r: len(r) if r is not None else 0,
             "randbytes": lambda a, k, r: len(r) if r is not None else 0}
LOGGING_FILES = ("/algo/fit/fit_output_manager.py", "/io/logs/")
LOG_ACTIONS = {"print_algo_statistics": 0, "save_model_parameters_convergence": 1, "save_plot_patient_reconstructions": 2,
               "save_plot_convergence_model_parameters": 3}


def kind_code(name: str) -> int:
    """stable number of a draw function (+ dtype); the model treats it as an opaque request descriptor"""
    return zlib.crc32(name.encode()) % 99991


def _fp_bytes(b) -> int:
    return zlib.crc32(b)


_PY_GETSTATE = _pyrandom._inst.getstate                # the originals: the module attributes are wrapped while a recorder is on
_NP_GETSTATE = _np.random.mtrand._rand.get_state


def fp_python() -> int:
    return hash(_PY_GETSTATE())


def fp_numpy() -> int:
    st = _NP_GETSTATE(legacy=False)
    s = st["state"]
    return hash((_fp_bytes(s["key"].tobytes()), int(s["pos"]), int(st["has_gauss"]), float(st["gauss"])))


def fp_torch(gen=None) -> int:
    g = torch.default_generator if gen is None else gen
    return _fp_bytes(torch._C.Generator.get_state(g).numpy().tobytes())      # the base method: never a recorded event


def global_fingerprints():
    return (fp_python(), fp_numpy(), fp_torch())


class Event:
    __slots__ = ("op", "g", "a", "b", "cls", "site", "why")

    def __init__(self, op, g, a, b, cls, site, why=None):
        self.op, self.g, self.a, self.b, self.cls, self.site, self.why = op, g, a, b, cls, site, why

    def text(self, run_seed) -> str:
        op, c = self.op, self.cls
        if op == "s":
            v = "r" if (run_seed is not None and self.a == run_seed) else f"c{self.a}"
            return f"s{self.g}.{v}.{c}"
        if op in ("e", "u"):
            return f"{op}{self.g}.{c}"
        if op == "d":
            return f"d{self.g}.{self.a}.{self.b}.{c}"
        if op in ("g", "p"):
            return f"{op}{self.g}.{self.a}.{c}"
        return f"n{self.a}.{c}"

    def describe(self) -> str:
        names = {"s": "seed", "e": "entropy-seed", "d": "draw", "g": "get-state", "p": "set-state", "u": "unvouched", "n": "log-action"}
        gname = GEN_NAMES.get(self.g, f"object#{self.g}") if self.g is not None else "-"
        extra = f" {self.why}" if self.why else ""
        amt = f" x{self.b}" if self.op == "d" else (f" value={self.a}" if self.op == "s" else "")
        return f"{names[self.op]} {gname}{amt} [{self.cls}] at {self.site[0]}:{self.site[1]}{extra}"


def _seed_value(v):
    if isinstance(v, bool):
        return int(v)
    if isinstance(v, int):
        return v if v >= 0 else (1 << 64) + v
    try:
        import numbers
        if isinstance(v, numbers.Integral):
            return int(v)
    except Exception:  # noqa
        pass
    return zlib.crc32(repr(v).encode()) + (1 << 40)      # not an integer: some constant that is not the run's seed


class DrawRecorder(TorchFunctionMode):
    """`with DrawRecorder(run_seed) as rec: <one seeded run>`; then `rec.program()` / `rec.signature()` / `rec.fp_start` / `rec.fp_end`."""

    def __init__(self, run_seed=None):
        super().__init__()
        self.run_seed = run_seed
        self.events: list[Event] = []
        self.fp = {}                    # generator id -> fingerprint after its last recorded event
        self.local = {}                 # id(generator object) -> generator id
        self.keep = []                  # generator objects stay alive: ids are never reused
        self.slots = {}                 # (family, content fingerprint) -> slot
        self.fp_start = None
        self.fp_end = None
        self._first_draw_seen = False
        self._kind_of = {}              # torch callable -> None (never a draw) | name (a draw)
        self._depth = 0                 # > 0 inside a recorded numpy / python / scipy call (nested calls are part of it)
        self._patched = []              # (owner, attribute, original)
        self._rebind = {}               # id(original) -> (original, wrapper)
        self._rebound = []              # (module dict, name, original)
        self.n_torch_calls = 0
        self.learned = []

    # ------------------------------------------------------------------ call sites
    @staticmethod
    def _site():
        f = sys._getframe(2)
        inner = None
        cls = None
        logging = False
        while f is not None:
            fn = f.f_code.co_filename
            i = fn.find("/leaspy/")
            if i >= 0 and "/site-packages/" not in fn:
                rel = fn[i + 7:]
                func = f.f_code.co_name
                if inner is None:
                    inner = (rel.lstrip("/"), func)
                if any(rel.startswith(p) or p in rel for p in LOGGING_FILES):
                    logging = True
                    break
                if cls is None:
                    if rel.startswith("/samplers/"):
                        cls = "s"
                    elif rel.startswith("/models/"):
                        cls = "i" if "initial" in func.lower() else "a"
                    elif rel.startswith("/algo/"):
                        cls = "a"
            f = f.f_back
        if logging:
            cls = "l"
        return (cls or "o"), (inner or ("<outside leaspy>", "?"))

    # ------------------------------------------------------------------ bookkeeping
    def _fingerprint(self, g, obj=None):
        if g == PY:
            return fp_python()
        if g == NP:
            return fp_numpy()
        if g == TORCH:
            return fp_torch()
        return fp_torch(obj) if obj is not None else None

    def _emit(self, op, g, a, b, cls, site, why=None):
        self.events.append(Event(op, g, a, b, cls, site, why))

    def _before(self, g, cls, site, obj=None):
        """continuity: generator g must be where its last recorded event left it"""
        cur = self._fingerprint(g, obj)
        if g in self.fp and cur != self.fp[g]:
            self._emit("u", g, None, None, cls, site, "moved since its last recorded event")
        return cur

    def _after(self, g, obj=None):
        self.fp[g] = self._fingerprint(g, obj)

    def _note_first_draw(self):
        if not self._first_draw_seen:
            self._first_draw_seen = True
            if self.fp_start is None:
                self.fp_start = tuple(self.fp.get(g) for g in (PY, NP, TORCH))

    def _slot(self, family, content_fp, create):
        key = (family, content_fp)
        if key not in self.slots:
            if not create:
                self.slots[("unknown", len(self.slots))] = len(self.slots)     # burn a fresh number
                return len(self.slots) - 1
            self.slots[key] = len(self.slots)
        return self.slots[key]

    def _gen_id(self, obj):
        if obj is None or obj is torch.default_generator:
            return TORCH, None
        k = id(obj)
        if k not in self.local:
            self.local[k] = 3 + len(self.local)
            self.keep.append(obj)
        return self.local[k], obj

    # ------------------------------------------------------------------ torch: the mode
    def __torch_function__(self, func, types, args=(), kwargs=None):
        kwargs = kwargs or {}
        self.n_torch_calls += 1
        try:
            kd = self._kind_of[func]
        except KeyError:
            kd = "?"
        except TypeError:
            return func(*args, **kwargs)
        if kd is None:
            return func(*args, **kwargs)
        name = getattr(func, "__name__", None) or str(func)
        if kd == "?" and name not in TORCH_DRAWS:
            # a name never seen: does its first call move a generator?
            pre = (fp_torch(),) + tuple(fp_torch(o) for o in self.keep if isinstance(o, torch._C.Generator))
            out = func(*args, **kwargs)
            post = (fp_torch(),) + tuple(fp_torch(o) for o in self.keep if isinstance(o, torch._C.Generator))
            if pre == post:
                self._kind_of[func] = None
                return out
            self._kind_of[func] = name
            self.learned.append(name)
            cls, site = self._site()
            g, obj = self._gen_id(kwargs.get("generator"))
            if g in self.fp and pre[0] != self.fp.get(TORCH) and g == TORCH:
                self._emit("u", g, None, None, cls, site, "moved since its last recorded event")
            self._record_torch_draw(name, out, args, g, obj, cls, site)
            return out
        self._kind_of[func] = name
        cls, site = self._site()
        g, obj = self._gen_id(kwargs.get("generator"))
        if g >= 3 and g not in self.fp:
            # a generator object the recorder did not see being created in this run
            self._emit("u", g, None, None, cls, site, "a torch.Generator object that was not created in the recorded run")
        self._before(g, cls, site, obj)
        out = func(*args, **kwargs)
        self._record_torch_draw(name, out, args, g, obj, cls, site)
        return out

    def _record_torch_draw(self, name, out, args, g, obj, cls, site):
        t = out if isinstance(out, torch.Tensor) else (args[0] if args and isinstance(args[0], torch.Tensor) else None)
        if isinstance(out, (tuple, list)) and out and isinstance(out[0], torch.Tensor):
            t = out[0]
        amount = int(t.numel()) if t is not None else 1
        dtype = str(t.dtype).replace("torch.", "") if t is not None else "-"
        self._note_first_draw()
        self._after(g, obj)
        self._emit("d", g, kind_code(f"torch.{name}.{dtype}"), amount, cls, site, f"torch.{name}[{dtype}]")

    # ------------------------------------------------------------------ wrappers (module attributes)
    def _patch(self, owner, attr, new):
        orig = owner.__dict__[attr] if isinstance(owner, type) else getattr(owner, attr)
        self._patched.append((owner, attr, orig))
        setattr(owner, attr, new)
        if not isinstance(owner, type) and not isinstance(orig, type):
            self._rebind[id(orig)] = (orig, new)

    _captures = (None, [])          # (len(sys.modules), [(module dict, name, original)]): who did `from random import shuffle`

    @classmethod
    def _find_captures(cls, originals):
        """module globals that hold one of the wrapped functions under their own name (`from random import shuffle`,
        `from numpy.random import normal`, `from torch import manual_seed`): they are re-bound for the duration of the record"""
        if cls._captures[0] != len(sys.modules):
            found = []
            skip = ("random", "numpy.random", "numpy.random.mtrand", "torch", "torch.random", __name__)
            for mname, mod in list(sys.modules.items()):
                d = getattr(mod, "__dict__", None)
                if d is None or mname in skip:
                    continue
                try:
                    items = list(d.items())
                except Exception:  # noqa
                    continue
                for k, v in items:
                    if id(v) in originals and originals[id(v)][0] is v:
                        found.append((d, k, v))
            cls._captures = (len(sys.modules), found)
        return cls._captures[1]

    def _wrap_global(self, g, family, name, orig):
        rec = self

        def seed_like(*a, **k):
            if rec._depth:
                return orig(*a, **k)
            cls, site = rec._site()
            rec._before(g, cls, site)
            rec._depth += 1
            try:
                out = orig(*a, **k)
            finally:
                rec._depth -= 1
            v = a[0] if a else k.get("seed", k.get("a"))
            rec._after(g)
            if v is None:
                rec._emit("e", g, None, None, cls, site, f"{family}.{name}()")
            else:
                rec._emit("s", g, _seed_value(v), None, cls, site, f"{family}.{name}")
            return out

        def get_like(*a, **k):
            if rec._depth:
                return orig(*a, **k)
            cls, site = rec._site()
            rec._before(g, cls, site)
            out = orig(*a, **k)
            rec._emit("g", g, rec._slot(family, rec._fingerprint(g), True), None, cls, site, f"{family}.{name}")
            return out

        def set_like(*a, **k):
            if rec._depth:
                return orig(*a, **k)
            cls, site = rec._site()
            rec._before(g, cls, site)
            out = orig(*a, **k)
            rec._after(g)
            rec._emit("p", g, rec._slot(family, rec.fp[g], False), None, cls, site, f"{family}.{name}")
            return out

        def draw_like(*a, **k):
            if rec._depth:
                return orig(*a, **k)
            cls, site = rec._site()
            rec._before(g, cls, site)
            rec._depth += 1
            try:
                out = orig(*a, **k)
            finally:
                rec._depth -= 1
            rec._note_first_draw()
            rec._after(g)
            if name in PY_AMOUNT and family == "random":
                amount = PY_AMOUNT[name](a, k, out)
            elif name in ("shuffle",):
                amount = len(a[0]) if a else 0
            else:
                try:
                    amount = int(_np.size(out)) if out is not None else 1
                except Exception:  # noqa
                    amount = 1
            rec._emit("d", g, kind_code(f"{family}.{name}"), amount, cls, site, f"{family}.{name}")
            return out

        if name == "seed":
            f = seed_like
        elif name in ("getstate", "get_state"):
            f = get_like
        elif name in ("setstate", "set_state"):
            f = set_like
        else:
            f = draw_like
        f.__name__ = getattr(orig, "__name__", name)
        f.__wrapped__ = orig
        return f

    def _install(self):
        rec = self
        # ---- python `random`: module-level functions are bound methods of the hidden instance
        for name in dir(_pyrandom):
            o = getattr(_pyrandom, name)
            if getattr(o, "__self__", None) is _pyrandom._inst and not name.startswith("_"):
                self._patch(_pyrandom, name, self._wrap_global(PY, "random", name, o))
        # ---- numpy: module-level functions are bound methods of the hidden RandomState
        for name in dir(_np.random):
            o = getattr(_np.random, name)
            if name.startswith("_"):
                continue
            if getattr(o, "__self__", None) is _np.random.mtrand._rand or (
                    name in ("seed", "sample", "ranf") and getattr(o, "__module__", None) == "numpy.random.mtrand"):
                self._patch(_np.random, name, self._wrap_global(NP, "np.random", name, o))
        if hasattr(_np.random, "set_bit_generator"):
            o_sbg = _np.random.set_bit_generator

            def set_bit_generator(*a, **k):
                out = o_sbg(*a, **k)
                cls, site = rec._site()
                rec._after(NP)
                rec._emit("u", NP, None, None, cls, site, "np.random.set_bit_generator: the global numpy generator was replaced")
                return out
            set_bit_generator.__wrapped__ = o_sbg
            self._patch(_np.random, "set_bit_generator", set_bit_generator)
        # ---- generator objects whose draws are invisible: their creation is what gets recorded
        def recording_subclass(orig, label):
            class _M(type(orig)):
                def __instancecheck__(cls, x):
                    return isinstance(x, orig)

                def __subclasscheck__(cls, c):
                    return issubclass(c, orig)

            def __init__(self_, *a, **k):
                orig.__init__(self_, *a, **k)
                if not rec._depth:
                    cls, site = rec._site()
                    if site[0] != "<outside leaspy>":
                        g, _ = rec._gen_id(self_)
                        rec._emit("u", g, None, None, cls, site, f"{label}(...) created: the draws of this object are not recorded")
            return _M(orig.__name__, (orig,), {"__init__": __init__, "__module__": orig.__module__, "__wrapped__": orig})
        for owner, attr, label in ((_pyrandom, "Random", "random.Random"), (_pyrandom, "SystemRandom", "random.SystemRandom"),
                                   (_np.random, "RandomState", "np.random.RandomState"), (_np.random, "Generator", "np.random.Generator")):
            try:
                self._patch(owner, attr, recording_subclass(getattr(owner, attr), label))
            except Exception:  # noqa  (not subclassable here: creation of such objects stays invisible)
                pass
        o_rng = _np.random.default_rng

        def default_rng(*a, **k):
            out = o_rng(*a, **k)
            if not rec._depth:
                cls, site = rec._site()
                if site[0] != "<outside leaspy>":
                    g, _ = rec._gen_id(out)
                    rec._emit("u", g, None, None, cls, site, "np.random.default_rng(...) created: the draws of this object are not recorded")
            return out
        default_rng.__wrapped__ = o_rng
        self._patch(_np.random, "default_rng", default_rng)
        # ---- torch global generator (python functions of torch.random, re-exported by torch)
        o_manual, o_seed, o_get, o_set = torch.random.manual_seed, torch.random.seed, torch.random.get_rng_state, torch.random.set_rng_state

        def manual_seed(seed):
            cls, site = rec._site()
            rec._before(TORCH, cls, site)
            out = o_manual(seed)
            rec._after(TORCH)
            rec._emit("s", TORCH, _seed_value(seed), None, cls, site, "torch.manual_seed")
            return out

        def seed():
            cls, site = rec._site()
            rec._before(TORCH, cls, site)
            out = o_seed()
            rec._after(TORCH)
            rec._emit("e", TORCH, None, None, cls, site, "torch.seed()")
            return out

        def get_rng_state():
            cls, site = rec._site()
            rec._before(TORCH, cls, site)
            out = o_get()
            rec._emit("g", TORCH, rec._slot("torch", _fp_bytes(out.numpy().tobytes()), True), None, cls, site, "torch.get_rng_state")
            return out

        def set_rng_state(new_state):
            cls, site = rec._site()
            rec._before(TORCH, cls, site)
            out = o_set(new_state)
            rec._after(TORCH)
            rec._emit("p", TORCH, rec._slot("torch", rec.fp[TORCH], False), None, cls, site, "torch.set_rng_state")
            return out
        for mod in (torch, torch.random):
            self._patch(mod, "manual_seed", manual_seed)
            self._patch(mod, "seed", seed)
            self._patch(mod, "get_rng_state", get_rng_state)
            self._patch(mod, "set_rng_state", set_rng_state)
        # ---- torch.Generator objects: a recording subclass (isinstance keeps working for every generator)
        base = torch._C.Generator

        class _Meta(type(base)):
            def __instancecheck__(cls, x):
                return isinstance(x, base)

        class RecGenerator(base, metaclass=_Meta):
            def __init__(self_, *a, **k):
                super().__init__()
                cls, site = rec._site()
                g, _ = rec._gen_id(self_)
                rec._after(g, self_)
                # the default seed of a fresh torch.Generator is a constant of the library
                rec._emit("s", g, _seed_value(base.initial_seed(self_)), None, cls, site, "torch.Generator() created")

            def manual_seed(self_, seed):
                cls, site = rec._site()
                g, _ = rec._gen_id(self_)
                out = base.manual_seed(self_, seed)
                rec._after(g, self_)
                rec._emit("s", g, _seed_value(seed), None, cls, site, "Generator.manual_seed")
                return out

            def seed(self_):
                cls, site = rec._site()
                g, _ = rec._gen_id(self_)
                out = base.seed(self_)
                rec._after(g, self_)
                rec._emit("e", g, None, None, cls, site, "Generator.seed()")
                return out

            def set_state(self_, new_state):
                cls, site = rec._site()
                g, _ = rec._gen_id(self_)
                out = base.set_state(self_, new_state)
                rec._after(g, self_)
                rec._emit("p", g, rec._slot("torch", rec.fp[g], False), None, cls, site, "Generator.set_state")
                return out

            def get_state(self_):
                out = base.get_state(self_)
                if id(self_) in rec.local:
                    cls, site = rec._site()
                    rec._emit("g", rec.local[id(self_)], rec._slot("torch", _fp_bytes(out.numpy().tobytes()), True), None, cls, site,
                              "Generator.get_state")
                return out
        RecGenerator.__name__ = "Generator"
        self._patch(torch, "Generator", RecGenerator)
        # ---- scipy: draws go to the hidden RandomState object directly (no module attribute in between)
        try:
            from scipy.stats import _distn_infrastructure as _di
            from scipy.stats import gaussian_kde as _kde
            for owner, attr in ((_di.rv_generic, "rvs"), (_di.rv_discrete, "rvs"), (_di.rv_continuous, "rvs"), (_kde, "resample")):
                if attr not in owner.__dict__:
                    continue
                orig = owner.__dict__[attr]

                def make(orig=orig, owner=owner, attr=attr):
                    def wrapped(self_, *a, **k):
                        if rec._depth:
                            return orig(self_, *a, **k)
                        rs = k.get("random_state", k.get("seed"))
                        own = getattr(self_, "_random_state", None)
                        cls, site = rec._site()
                        is_global = rs is None and (own is None or own is _np.random.mtrand._rand)
                        if is_global:
                            rec._before(NP, cls, site)
                        rec._depth += 1
                        try:
                            out = orig(self_, *a, **k)
                        finally:
                            rec._depth -= 1
                        label = f"scipy.{getattr(self_, 'name', type(self_).__name__)}.{attr}"
                        if is_global:
                            rec._note_first_draw()
                            rec._after(NP)
                            try:
                                amount = int(_np.size(out))
                            except Exception:  # noqa
                                amount = 1
                            rec._emit("d", NP, kind_code(label), amount, cls, site, label)
                        elif isinstance(rs, int) and not isinstance(rs, bool):
                            # a private generator seeded with a constant, consumed on the spot
                            g = 3 + len(rec.local)
                            rec.local[("scipy-int-seed", len(rec.local))] = g
                            rec._emit("s", g, _seed_value(rs), None, cls, site, f"{label}(random_state={rs})")
                            rec._emit("d", g, kind_code(label), int(_np.size(out)), cls, site, label)
                        elif site[0] != "<outside leaspy>":
                            g, _ = rec._gen_id(rs if rs is not None else own)
                            rec._emit("u", g, None, None, cls, site, f"{label} with its own random_state: draws not recorded")
                        return out
                    wrapped.__wrapped__ = orig
                    return wrapped
                self._patch(owner, attr, make())
        except Exception:  # noqa  (scipy layout changed: the continuity check still reports the movement)
            pass
        # ---- references captured by `from … import …` before the wrappers existed
        for d, k, v in self._find_captures(self._rebind):
            if d.get(k) is v:
                d[k] = self._rebind[id(v)][1]
                self._rebound.append((d, k, v))
        # ---- logging actions (markers only)
        try:
            from leaspy.algo.fit.fit_output_manager import FitOutputManager
            for attr, tag in LOG_ACTIONS.items():
                if attr not in FitOutputManager.__dict__:
                    continue
                orig = FitOutputManager.__dict__[attr]

                def make(orig=orig, tag=tag, attr=attr):
                    def wrapped(self_, *a, **k):
                        rec._emit("n", None, tag, None, "l", ("algo/fit/fit_output_manager.py", attr))
                        return orig(self_, *a, **k)
                    wrapped.__wrapped__ = orig
                    wrapped.__name__ = attr
                    return wrapped
                self._patch(FitOutputManager, attr, make())
        except Exception:  # noqa
            pass

    def __enter__(self):
        for g in (PY, NP, TORCH):
            self.fp[g] = self._fingerprint(g)
        self.fp_before = tuple(self.fp[g] for g in (PY, NP, TORCH))
        self._install()
        return super().__enter__()

    def __exit__(self, *exc):
        r = super().__exit__(*exc)
        for d, k, v in self._rebound:
            d[k] = v
        self._rebound = []
        for owner, attr, orig in reversed(self._patched):
            setattr(owner, attr, orig)
        self._patched = []
        # continuity at the end of the run
        for g in (PY, NP, TORCH):
            cur = self._fingerprint(g)
            if cur != self.fp[g]:
                self._emit("u", g, None, None, "o", ("<end of run>", "?"), "moved after its last recorded event")
                self.fp[g] = cur
        for k, g in list(self.local.items()):
            obj = next((o for o in self.keep if id(o) == k), None)
            if isinstance(obj, torch._C.Generator) and g in self.fp and fp_torch(obj) != self.fp[g]:
                self._emit("u", g, None, None, "o", ("<end of run>", "?"), "generator object moved after its last recorded event")
        self.fp_end = tuple(self.fp[g] for g in (PY, NP, TORCH))
        if self.fp_start is None:
            self.fp_start = self.fp_end
        return r

    # ------------------------------------------------------------------ results
    def program(self) -> str:
        return ",".join(e.text(self.run_seed) for e in self.events) or "_"

    def signature(self):
        """what must not depend on logging settings / process history: every generator event (notes excluded) with generator, kind,
        amount and call-site class"""
        return [e.text(self.run_seed) for e in self.events if e.op != "n"]

    def sites(self):
        return [f"{e.site[0]}:{e.site[1]}" for e in self.events if e.op != "n"]

    def counts(self):
        c = {}
        for e in self.events:
            k = f"{e.op}:{GEN_NAMES.get(e.g, 'object') if e.g is not None else 'log'}:{e.cls}"
            c[k] = c.get(k, 0) + 1
        return c

    def describe(self, i) -> str:
        return self.events[i].describe() if 0 <= i < len(self.events) else "<end>"


def first_difference(a, b):
    for i, (x, y) in enumerate(zip(a, b)):
        if x != y:
            return i
    return min(len(a), len(b)) if len(a) != len(b) else None
