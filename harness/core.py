"""Shared plumbing for every property check.

A property module (harness/cXX_*.py) defines

    PROP      = "C15"
    LEAN      = dict(props="LeaspyVerif.Props.C15", driver="drivers/C15.lean",
                     extra_modules=["LeaspyVerif.Model.Dag"])
    def run(chk: Check) -> None          # generate cases, call impl + model, record
    def replay(chk: Check, case) -> None # re-run one recorded case

and uses the `Check` object below to (1) build / audit the Lean side, (2) talk to the
Lean driver, (3) record cases, correspondence disagreements and property failures observed on
the real implementation, (4) produce the verdict, the evidence file and the replay files.

Verdict (DESIGN.md §2.3):
  * property predicate fails on the implementation, not a listed finding  -> VIOLATION replay=<case>
  * listed finding reproduces                                              -> KNOWN-FINDING line, exit 0
  * Lean build / audit / correspondence broken and no failing input found  -> VIOLATION ... no-failing-input-found
  * infrastructure problem (timeout, driver crash for non-model reasons)   -> exit 2, no VIOLATION line
"""
from __future__ import annotations

import contextlib
import fcntl
import hashlib
import json
import os
import random
import re
import struct
import subprocess
import sys
import tempfile
import time
import traceback
from fractions import Fraction
from pathlib import Path

ROOT = Path(__file__).resolve().parent.parent
LEAN_DIR = ROOT / "lean"
# scratch evaluations (seeded changes, mutated worktrees) must not overwrite the committed evidence: they redirect
EVIDENCE_DIR = Path(os.environ.get("VERIF_EVIDENCE_DIR", ROOT / "evidence"))
REPLAY_DIR = Path(os.environ.get("VERIF_REPLAY_DIR", ROOT / "replays"))
CORPUS_DIR = ROOT / "corpus"
FINDINGS_FILE = ROOT / "known_findings.json"
REPO = Path(os.environ.get("LEASPY_REPO", "/repo"))

ALLOWED_AXIOMS = {"propext", "Classical.choice", "Quot.sound"}
FORBIDDEN_RE = re.compile(
    r"\bsorry\b|\badmit\b|^\s*axiom\s|native_decide|bv_decide|implemented_by|\bunsafe\s|maxHeartbeats\s+0\b"
)

TRUSTED_BASE_COMMON = [
    "Lean 4.33 kernel (lake build re-checks every proof term; thorough tier re-checks .olean files with leanchecker)",
    "axioms allowed: propext, Classical.choice, Quot.sound (audited with #print axioms on every property theorem)",
    "hand-written Lean model of the anchored code + this differential correspondence harness (python, in-process with /repo/src)",
    "IEEE rounding, torch/numpy/pandas kernels are exercised through the real code but not modelled",
]


@contextlib.contextmanager
def quiet():
    """Silence leaspy's prints (seed / timing banners) and warnings around calls into the implementation."""
    import io
    import warnings
    with warnings.catch_warnings():
        warnings.simplefilter("ignore")
        with contextlib.redirect_stdout(io.StringIO()), contextlib.redirect_stderr(io.StringIO()):
            yield


class Infra(Exception):
    """Infrastructure failure: exit 2, never a VIOLATION."""


# ----------------------------------------------------------------------------
# number formatting shared with Lean's Proto.lean
# ----------------------------------------------------------------------------
def fmt_rat(q) -> str:
    q = Fraction(q)
    return str(q.numerator) if q.denominator == 1 else f"{q.numerator}/{q.denominator}"


def parse_rat(s: str) -> Fraction:
    return Fraction(s)


def fmt_float(x: float) -> str:
    return "f%d" % struct.unpack("<Q", struct.pack("<d", float(x)))[0]


def parse_float(s: str) -> float:
    assert s.startswith("f"), s
    return struct.unpack("<d", struct.pack("<Q", int(s[1:])))[0]


def fmt_list(xs, f=str, sep=",") -> str:
    xs = list(xs)
    return sep.join(f(x) for x in xs) if xs else "_"


def fmt_list2(xss, f=str) -> str:
    xss = list(xss)
    return ";".join(fmt_list(xs, f) for xs in xss) if xss else "_"


def split_ne(s: str, sep=","):
    return [] if s in ("_", "") else s.split(sep)


def float_to_fraction(x: float) -> Fraction:
    return Fraction(float(x))


# ----------------------------------------------------------------------------
class Check:
    def __init__(self, prop: str, tier: str, seed: int, lean: dict, budget_s: float | None = None):
        self.prop = prop
        self.tier = tier
        self.seed = seed
        self.lean = lean
        self.rng = random.Random(f"{prop}:{seed}")
        self.t0 = time.time()
        self.budget_s = budget_s
        self.evaluations = 0
        self.nontrivial_keys: set[str] = set()
        self.hist: dict[str, dict[str, int]] = {}
        self.samples: list = []
        self.max_samples = 6
        self.disagreements: list[dict] = []
        self.impl_failures: list[dict] = []  # each: {case, what, finding}
        self.known_hits: dict[str, str] = {}  # finding id -> text
        self.notes: list[str] = []
        self.build_ok = None
        self.audit_ok = None
        self.build_log = ""
        self.theorems: list[str] = []
        self.axioms_seen: dict[str, list[str]] = {}
        self.leanchecker_ok = None
        self.extra_cov: dict = {}
        self.assumptions: list[str] = []
        self.rule = ""
        self.exhaustive = False
        self.model_lines_run = 0
        self._tmp = tempfile.mkdtemp(prefix=f"verif_{prop}_")
        self.findings = [f for f in load_findings() if f["property"] == prop]

    # ------------------------------------------------------------------ time
    def elapsed(self) -> float:
        return time.time() - self.t0

    def time_left(self) -> float:
        return float("inf") if self.budget_s is None else self.budget_s - self.elapsed()

    # ------------------------------------------------------------------ lean
    def _lake(self, args, timeout=3600):
        env = dict(os.environ)
        lockf = LEAN_DIR / ".lake_verif.lock"
        with open(lockf, "w") as lf:
            fcntl.flock(lf, fcntl.LOCK_EX)
            try:
                p = subprocess.run(["lake"] + args, cwd=LEAN_DIR, env=env, capture_output=True, text=True, timeout=timeout)
            finally:
                fcntl.flock(lf, fcntl.LOCK_UN)
        return p

    def lean_build(self) -> bool:
        mods = [self.lean["props"]] + list(self.lean.get("extra_modules", []))
        try:
            p = self._lake(["build"] + mods)
        except subprocess.TimeoutExpired:
            raise Infra("lake build timed out")
        self.build_log = (p.stdout + p.stderr)[-6000:]
        self.build_ok = p.returncode == 0
        return self.build_ok

    def props_file(self) -> Path:
        return LEAN_DIR / (self.lean["props"].replace(".", "/") + ".lean")

    def lean_sources(self) -> list[Path]:
        """Props file + the model/lemma files it (transitively) imports inside this project."""
        seen, todo = [], [self.props_file()]
        drv = self.lean.get("driver")
        if drv:
            todo.append(LEAN_DIR / drv)
        while todo:
            f = todo.pop()
            if f in seen or not f.exists():
                continue
            seen.append(f)
            for m in re.findall(r"^\s*import\s+(LeaspyVerif[\w.]*)", f.read_text(), flags=re.M):
                todo.append(LEAN_DIR / (m.replace(".", "/") + ".lean"))
        return seen

    def audit(self) -> bool:
        """No sorry/axiom/native_decide in sources; every `theorem` of the Props file depends on allowed axioms only."""
        ok = True
        problems = []
        for f in self.lean_sources():
            txt = f.read_text()
            # strip comments (block and line) before grepping
            stripped = re.sub(r"/-.*?-/", "", txt, flags=re.S)
            stripped = re.sub(r"--.*", "", stripped)
            for ln in stripped.splitlines():
                if FORBIDDEN_RE.search(ln):
                    ok = False
                    problems.append(f"{f.name}: forbidden token in: {ln.strip()[:120]}")
        props_txt = self.props_file().read_text()
        props_txt = re.sub(r"/-.*?-/", "", props_txt, flags=re.S)   # theorem names are read outside comments only
        props_txt = re.sub(r"--.*", "", props_txt)
        ns = re.search(r"^namespace\s+([\w.]+)", props_txt, flags=re.M)
        prefix = (ns.group(1) + ".") if ns else ""
        names = re.findall(r"^\s*(?:@\[[^\]]*\]\s*)?theorem\s+([\w.']+)", props_txt, flags=re.M)
        self.theorems = [prefix + n for n in names]
        expected = self.lean.get("theorems")
        if expected is not None:
            missing = [t for t in expected if (prefix + t) not in self.theorems]
            if missing:
                ok = False
                problems.append(f"property theorems missing from {self.props_file().name}: {missing}")
        if not self.theorems:
            ok = False
            problems.append("no theorem in props file")
        src = f"import {self.lean['props']}\n" + "".join(f"#print axioms {t}\n" for t in self.theorems)
        af = Path(self._tmp) / "Audit.lean"
        af.write_text(src)
        try:
            p = self._lake(["env", "lean", str(af)], timeout=1800)
        except subprocess.TimeoutExpired:
            raise Infra("axiom audit timed out")
        out = p.stdout + p.stderr
        if p.returncode != 0:
            ok = False
            problems.append("audit file failed to elaborate: " + out[-800:])
        # parse "'name' depends on axioms: [a, b]" / "'name' does not depend on any axioms"
        for m in re.finditer(r"'([^']+)' depends on axioms: \[([^\]]*)\]", out.replace("\n", " ")):
            axs = [a.strip() for a in m.group(2).split(",") if a.strip()]
            self.axioms_seen[m.group(1)] = axs
            bad = [a for a in axs if a not in ALLOWED_AXIOMS]
            if bad:
                ok = False
                problems.append(f"{m.group(1)} depends on non-allowed axioms {bad}")
        for m in re.finditer(r"'([^']+)' does not depend on any axioms", out):
            self.axioms_seen[m.group(1)] = []
        unaudited = [t for t in self.theorems if t not in self.axioms_seen]
        if unaudited:
            ok = False
            problems.append(f"no axiom report for {unaudited[:5]}")
        self.audit_ok = ok
        self.audit_problems = problems
        return ok

    def leanchecker(self) -> bool:
        try:
            p = self._lake(["env", "leanchecker", self.lean["props"]], timeout=3600)
        except subprocess.TimeoutExpired:
            self.notes.append("leanchecker timed out (not counted)")
            self.leanchecker_ok = None
            return True
        self.leanchecker_ok = p.returncode == 0
        if not self.leanchecker_ok:
            self.notes.append("leanchecker: " + (p.stdout + p.stderr)[-500:])
        return self.leanchecker_ok

    def model(self, lines: list[str], timeout=1800) -> list[str]:
        """Run the Lean driver on request lines; one response per line."""
        if not lines:
            return []
        for l in lines:
            assert "\n" not in l
        inp = "\n".join(lines) + "\n"
        try:
            p = self._run_driver(inp, timeout)
        except subprocess.TimeoutExpired:
            raise Infra("lean driver timed out")
        out = p.stdout.split("\n")
        if out and out[-1] == "":
            out.pop()
        if p.returncode != 0 or len(out) != len(lines):
            # a driver that does not even run means the model side is broken (treated like a broken build)
            self.build_ok = False
            self.build_log += "\n[driver] rc=%s stderr=%s (got %d lines for %d)" % (p.returncode, p.stderr[-1500:], len(out), len(lines))
            return ["err:driver"] * len(lines)
        self.model_lines_run += len(lines)
        return out

    def _run_driver(self, inp: str, timeout):
        # `lake env` only sets LEAN_PATH etc.; no lock needed (read-only on .olean files)
        return subprocess.run(["lake", "env", "lean", "--run", self.lean["driver"]], cwd=LEAN_DIR, input=inp,
                              capture_output=True, text=True, timeout=timeout)

    # ------------------------------------------------------------- recording
    def case(self, key, nontrivial: bool = True, sample=None, tags: dict | None = None):
        self.evaluations += 1
        if nontrivial:
            self.nontrivial_keys.add(hashlib.sha1(repr(key).encode()).hexdigest())
        if sample is not None and len(self.samples) < self.max_samples:
            self.samples.append(sample)
        for k, v in (tags or {}).items():
            self.tag(k, v)

    def tag(self, k, v, n=1):
        h = self.hist.setdefault(k, {})
        h[str(v)] = h.get(str(v), 0) + n

    def disagree(self, case, impl, model, what="output"):
        self.disagreements.append({"case": case, "impl": impl, "model": model, "what": what})

    def impl_failure(self, case, what: str, finding: str | None = None):
        """The property's own predicate fails on the real implementation for this case.
        `finding` = id of the known finding whose *specific region* this case falls in (else None)."""
        self.impl_failures.append({"case": case, "what": what, "finding": finding})

    def known_finding_reproduces(self, fid: str, text: str):
        self.known_hits[fid] = text

    def note(self, s: str):
        self.notes.append(s)

    # --------------------------------------------------------------- verdict
    def _write_replay(self, name: str, payload: dict) -> Path:
        d = REPLAY_DIR / self.prop
        d.mkdir(parents=True, exist_ok=True)
        p = d / f"{name}.json"
        p.write_text(json.dumps(payload, indent=1, default=str))
        return p

    def finish(self) -> int:
        listed = {f["id"]: f for f in self.findings if f.get("status") == "finding"}
        lines = []
        rc = 0
        violations = 0
        # 1. property failures on the implementation
        new_fail = []
        for f in self.impl_failures:
            if f["finding"] and f["finding"] in listed:
                self.known_hits.setdefault(f["finding"], f["what"])
            else:
                new_fail.append(f)
        for fid, text in sorted(self.known_hits.items()):
            if fid in listed:
                lines.append(f"KNOWN-FINDING: property={self.prop} {fid} {listed[fid].get('where','')}: {text}")
        if new_fail:
            f = new_fail[0]
            p = self._write_replay(f"seed{self.seed}-{self.tier}-impl", {
                "property": self.prop, "kind": "impl_failure", "what": f["what"], "case": f["case"],
                "other_failures": [{"what": g["what"], "case": g["case"]} for g in new_fail[1:6]],
                "n_failures": len(new_fail)})
            lines.append(f"VIOLATION property={self.prop} replay={p}")
            violations = len(new_fail)
            rc = 1
        else:
            broken = []
            if self.build_ok is False:
                broken.append(("lean-build", self.build_log[-3000:]))
            if self.audit_ok is False:
                broken.append(("axiom-audit", "; ".join(getattr(self, "audit_problems", []))[:3000]))
            if self.leanchecker_ok is False:
                broken.append(("leanchecker", "\n".join(self.notes)[-2000:]))
            if self.disagreements:
                broken.append(("correspondence", f"{len(self.disagreements)} model/implementation disagreements"))
            if broken:
                p = self._write_replay(f"seed{self.seed}-{self.tier}-broken", {
                    "property": self.prop, "kind": "no-failing-input-found",
                    "no_longer_checks": [b[0] for b in broken],
                    "theorems": self.theorems,
                    "correspondence": f"harness/{self.lean.get('harness','')} vs {self.lean.get('driver')}",
                    "detail": {b[0]: b[1] for b in broken},
                    "disagreements": self.disagreements[:10]})
                lines.append(f"VIOLATION property={self.prop} replay={p} no-failing-input-found")
                violations = max(1, len(self.disagreements))
                rc = 1
        self._write_evidence(violations)
        for n in self.notes[:20]:
            print("NOTE", n)
        for l in lines:
            print(l)
        if rc == 0:
            print(f"OK property={self.prop} tier={self.tier} seed={self.seed} evaluations={self.evaluations} "
                  f"nontrivial={len(self.nontrivial_keys)} theorems={len(self.theorems)} wall={self.elapsed():.1f}s")
        sys.stdout.flush()
        try:
            import shutil
            shutil.rmtree(self._tmp, ignore_errors=True)
        except Exception:
            pass
        return rc

    def anchor_drift(self) -> list[str]:
        """Files anchoring this property (properties.jsonl) whose content differs from the version the model was last
        reviewed against (tools/anchor_hashes.json). Informational: recorded in the evidence, never a verdict."""
        try:
            base = json.loads((ROOT / "tools" / "anchor_hashes.json").read_text())
            files = []
            for l in (ROOT / "properties.jsonl").read_text().splitlines():
                if l.strip():
                    d = json.loads(l)
                    if d["id"] == self.prop:
                        files = d["anchors"]["files"]
            changed = []
            for f in files:
                fp = REPO / f
                h = hashlib.sha256(fp.read_bytes()).hexdigest()[:16] if fp.exists() else "missing"
                if base.get(f) != h:
                    changed.append(f)
            return changed
        except Exception as e:  # noqa
            return [f"(anchor hashes unavailable: {type(e).__name__})"]

    def _write_evidence(self, violations: int):
        n_thm = len(self.theorems)
        obligations = n_thm + 2  # theorems + axiom/sorry audit + correspondence
        discharged = 0
        if self.build_ok:
            discharged += n_thm
        if self.audit_ok:
            discharged += 1
        if not self.disagreements and self.model_lines_run > 0:
            discharged += 1
        checker = f"cd lean && lake build {self.lean['props']} && lake env lean <generated #print axioms file>"
        if self.tier == "thorough":
            checker += f" && lake env leanchecker {self.lean['props']}"
        cov = {
            "obligations": obligations,
            "discharged": discharged,
            "checker_cmd": checker,
            "trusted_base": TRUSTED_BASE_COMMON + list(self.lean.get("trusted_extra", [])),
            "theorems": self.theorems,
            "axioms": sorted({a for v in self.axioms_seen.values() for a in v}),
            "leanchecker": self.leanchecker_ok,
            "evaluations": self.evaluations,
            "distinct_nontrivial": len(self.nontrivial_keys),
            "rule": self.rule,
            "samples": self.samples or ["(no case recorded)"],
            "model_lines_run": self.model_lines_run,
            "disagreements": len(self.disagreements),
            "impl_property_failures": len(self.impl_failures),
            "known_findings_reproduced": sorted(self.known_hits),
            "input_distribution": self.hist,
            "exhaustive": self.exhaustive,
            "anchored_files_changed_since_model_review": self.anchor_drift(),
            "notes": self.notes[:40],
        }
        cov.update(self.extra_cov)
        ev = {
            "property_id": self.prop,
            "tier": self.tier,
            "seed": self.seed,
            "level": "proof",
            "coverage": cov,
            "assumptions": self.assumptions or list(self.lean.get("assumptions", [])),
            "wall_s": round(self.elapsed(), 2),
            "violations": violations,
        }
        EVIDENCE_DIR.mkdir(exist_ok=True)
        (EVIDENCE_DIR / f"{self.prop}.json").write_text(json.dumps(ev, indent=1, default=str))


def load_findings() -> list[dict]:
    out = []
    if FINDINGS_FILE.exists():
        out += json.loads(FINDINGS_FILE.read_text())["findings"]
    d = ROOT / "known_findings.d"
    if d.is_dir():
        for f in sorted(d.glob("*.json")):
            out += json.loads(f.read_text())["findings"]
    return out


def load_corpus(prop: str) -> list:
    d = CORPUS_DIR / prop
    out = []
    if d.is_dir():
        for f in sorted(d.glob("*.json")):
            out.append(json.loads(f.read_text()))
    return out


def _anchor_files(prop: str) -> list[str]:
    for l in (ROOT / "properties.jsonl").read_text().splitlines():
        if l.strip():
            d = json.loads(l)
            if d["id"] == prop:
                return [f for f in d["anchors"]["files"] if f.endswith(".py")]
    return []


def _start_coverage(chk):
    """Statement coverage of the property's anchored source files while the harness drives the implementation
    (thorough tier, or VERIF_COVERAGE=1): tells the reader how much of the anchored code the generated cases reach.
    Informational only; any problem with the measurement is ignored."""
    try:
        import coverage
        files = [str(REPO / f) for f in _anchor_files(chk.prop)]
        cov = coverage.Coverage(include=files, data_file=None, branch=False)
        cov.start()
        return cov
    except Exception:  # noqa
        return None


def _ranges(nums) -> str:
    """[3,4,5,9] -> '3-5,9'"""
    out, start, prev = [], None, None
    for n in sorted(nums):
        if start is None:
            start = prev = n
        elif n == prev + 1:
            prev = n
        else:
            out.append(f"{start}-{prev}" if prev > start else f"{start}")
            start = prev = n
    if start is not None:
        out.append(f"{start}-{prev}" if prev > start else f"{start}")
    return ",".join(out)


def _stop_coverage(chk, cov):
    if cov is None:
        return
    try:
        cov.stop()
        out = {}
        for f in _anchor_files(chk.prop):
            try:
                _, stmts, _, missing, _ = cov.analysis2(str(REPO / f))
                out[f] = {"statements": len(stmts), "executed": len(stmts) - len(missing),
                          "missing_lines": _ranges(missing)}
            except Exception:  # noqa  (file never imported)
                out[f] = {"statements": None, "executed": 0}
        chk.extra_cov["anchored_statement_coverage"] = out
    except Exception:  # noqa
        pass


def main_for(module, argv=None):
    """Entry point used by ./check: python -m harness.run Cxx --tier quick [--replay path]."""
    import argparse
    ap = argparse.ArgumentParser()
    ap.add_argument("--tier", default=os.environ.get("VERIF_TIER", "quick"), choices=["quick", "thorough"])
    ap.add_argument("--replay", default=None)
    ap.add_argument("--budget", type=float, default=None)
    a = ap.parse_args(argv)
    seed = int(os.environ.get("VERIF_SEED", "1"))
    chk = Check(module.PROP, a.tier, seed, dict(module.LEAN), budget_s=a.budget)
    try:
        chk.lean_build()
        if chk.build_ok:
            chk.audit()
            if a.tier == "thorough" and not a.replay and os.environ.get("VERIF_NO_LEANCHECKER") != "1":
                chk.leanchecker()
        if a.replay:
            payload = json.loads(Path(a.replay).read_text())
            module.replay(chk, payload)
        else:
            cov = _start_coverage(chk) if (a.tier == "thorough" or os.environ.get("VERIF_COVERAGE") == "1") else None
            try:
                module.run(chk)
            finally:
                _stop_coverage(chk, cov)
        return chk.finish()
    except Infra as e:
        print(f"INFRA-ERROR property={module.PROP}: {e}")
        return 2
    except Exception:
        traceback.print_exc()
        print(f"INFRA-ERROR property={module.PROP}: harness exception (see traceback)")
        return 2
