/-
Real-number instance of the `exp`/`log` provider of `Model/Traj.lean` and the elementary facts
about the sigmoid shared by `Props/C09.lean` and `Props/C10.lean`.
-/
import LeaspyVerif.Model.Traj
import Mathlib.Analysis.SpecialFunctions.Exp
import Mathlib.Analysis.SpecialFunctions.Log.Basic
import Mathlib.Tactic.Ring
import Mathlib.Tactic.Linarith
import Mathlib.Tactic.Positivity
import Mathlib.Tactic.FieldSimp

namespace LeaspyVerif.TrajReal
open LeaspyVerif.Traj

noncomputable instance instExpLogReal : ExpLog ℝ := ⟨Real.exp, Real.log⟩

@[simp] theorem exp_eq (x : ℝ) : (ExpLog.exp x : ℝ) = Real.exp x := rfl
@[simp] theorem log_eq (x : ℝ) : (ExpLog.log x : ℝ) = Real.log x := rfl

theorem sigmoid_eq (x : ℝ) : sigmoid x = 1 / (1 + Real.exp (-x)) := rfl

theorem sigmoid_pos (x : ℝ) : 0 < sigmoid x := by
  rw [sigmoid_eq]; positivity

theorem sigmoid_lt_one (x : ℝ) : sigmoid x < 1 := by
  rw [sigmoid_eq]
  have h : 0 < Real.exp (-x) := Real.exp_pos _
  rw [div_lt_one (by linarith)]
  linarith

theorem sigmoid_mono {x y : ℝ} (h : x ≤ y) : sigmoid x ≤ sigmoid y := by
  rw [sigmoid_eq, sigmoid_eq]
  have hx : 0 < Real.exp (-x) := Real.exp_pos _
  have hy : 0 < Real.exp (-y) := Real.exp_pos _
  have : Real.exp (-y) ≤ Real.exp (-x) := Real.exp_le_exp.mpr (by linarith)
  exact one_div_le_one_div_of_le (by linarith) (by linarith)

theorem sigmoid_strictMono {x y : ℝ} (h : x < y) : sigmoid x < sigmoid y := by
  rw [sigmoid_eq, sigmoid_eq]
  have hy : 0 < Real.exp (-y) := Real.exp_pos _
  have : Real.exp (-y) < Real.exp (-x) := Real.exp_lt_exp.mpr (by linarith)
  exact one_div_lt_one_div_of_lt (by linarith) (by linarith)

/-- `sigmoid(-log g) = 1/(1+g)` for `g > 0` -/
theorem sigmoid_neg_log {g : ℝ} (hg : 0 < g) : sigmoid (-Real.log g) = 1 / (1 + g) := by
  rw [sigmoid_eq, neg_neg, Real.exp_log hg]

end LeaspyVerif.TrajReal
