/-
Lemmas for `Model/Draws.lean` (used by `Props/C11.lean`): the invariant of the seeded-first analysis and its preservation.
-/
import LeaspyVerif.Model.Draws

namespace LeaspyVerif.Draws

/-- two worlds agree on everything the run has determined so far -/
def Agree {S : Type} (k : Known) (w w' : World S) : Prop :=
  (∀ g, k.gens g = true → w.gen g = w'.gen g) ∧ (∀ s, k.slots s = true → w.slot s = w'.slot s)

theorem agree_nothing {S : Type} (w w' : World S) : Agree Known.nothing w w' :=
  ⟨fun _ h => by simp [Known.nothing] at h, fun _ h => by simp [Known.nothing] at h⟩

theorem upd_same {α : Type} (f : Nat → α) (i : Nat) (x : α) : upd f i x i = x := by simp [upd]

theorem upd_other {α : Type} (f : Nat → α) (i j : Nat) (x : α) (h : j ≠ i) : upd f i x j = f j := by simp [upd, h]

/-- an accepted event hands the same value to the program in both worlds, and the worlds keep agreeing -/
theorem step_agree {S V : Type} (I : Interp S V) (seed : Nat) (k k' : Known) (o : Op) (w w' : World S)
    (hk : k.after o = some k') (h : Agree k w w') :
    (step I seed w o).2 = (step I seed w' o).2 ∧ Agree k' (step I seed w o).1 (step I seed w' o).1 := by
  obtain ⟨hg, hs⟩ := h
  cases o with
  | seed g v =>
    simp only [Known.after, Option.some.injEq] at hk; subst hk
    refine ⟨rfl, ?_, hs⟩
    intro j hj
    by_cases hjg : j = g
    · subst hjg; simp [step, upd]
    · have : k.gens j = true := by simpa [upd, hjg] using hj
      simp [step, upd, hjg, hg j this]
  | entropy g =>
    simp only [Known.after, Option.some.injEq] at hk; subst hk
    refine ⟨rfl, ?_, hs⟩
    intro j hj
    by_cases hjg : j = g
    · subst hjg; simp [upd] at hj
    · have : k.gens j = true := by simpa [upd, hjg] using hj
      simp [step, upd, hjg, hg j this]
  | draw g kd n =>
    by_cases hkg : k.gens g = true
    · simp only [Known.after, hkg, ↓reduceIte, Option.some.injEq] at hk; subst hk
      have e := hg g hkg
      refine ⟨by simp [step, e], ?_, hs⟩
      intro j hj
      by_cases hjg : j = g
      · subst hjg; simp [step, upd, e]
      · simp [step, upd, hjg, hg j hj]
    · simp [Known.after, hkg] at hk
  | save g s =>
    simp only [Known.after, Option.some.injEq] at hk; subst hk
    refine ⟨rfl, hg, ?_⟩
    intro j hj
    by_cases hjs : j = s
    · subst hjs
      have : k.gens g = true := by simpa [upd] using hj
      simp [step, upd, hg g this]
    · have : k.slots j = true := by simpa [upd, hjs] using hj
      simp [step, upd, hjs, hs j this]
  | restore g s =>
    simp only [Known.after, Option.some.injEq] at hk; subst hk
    refine ⟨rfl, ?_, hs⟩
    intro j hj
    by_cases hjg : j = g
    · subst hjg
      have : k.slots s = true := by simpa [upd] using hj
      simp [step, upd, hs s this]
    · have : k.gens j = true := by simpa [upd, hjg] using hj
      simp [step, upd, hjg, hg j this]
  | unknown g => simp [Known.after] at hk
  | note t =>
    simp only [Known.after, Option.some.injEq] at hk; subst hk
    exact ⟨rfl, hg, hs⟩

/-- an accepted list of operations draws the same values from any two worlds that agree on what is known -/
theorem execOps_agree {S V : Type} (I : Interp S V) (seed : Nat) (os : List Op) :
    ∀ (k : Known) (i : Nat) (w w' : World S), firstBadOps k i os = none → Agree k w w' →
      (execOps I seed w os).2 = (execOps I seed w' os).2 := by
  induction os with
  | nil => intros; rfl
  | cons o os ih =>
    intro k i w w' hb ha
    simp only [firstBadOps] at hb
    cases hk : k.after o with
    | none => simp [hk] at hb
    | some k' =>
      simp only [hk] at hb
      obtain ⟨h1, h2⟩ := step_agree I seed k k' o w w' hk ha
      simp only [execOps]
      rw [h1, ih k' (i + 1) _ _ hb h2]

theorem inert_note (t : Nat) : (Op.note t).inert = true := rfl

theorem inert_iff_note (o : Op) : o.inert = true ↔ ∃ t, o = .note t := by
  cases o <;> simp [Op.inert]

/-- notes do nothing -/
theorem execOps_filter_inert {S V : Type} (I : Interp S V) (seed : Nat) (os : List Op) :
    ∀ w : World S, execOps I seed w (os.filter (fun o => !o.inert)) = execOps I seed w os := by
  induction os with
  | nil => intro w; rfl
  | cons o os ih =>
    intro w
    rw [List.filter_cons]
    by_cases h : o.inert = true
    · obtain ⟨t, rfl⟩ := (inert_iff_note o).1 h
      simp only [h, Bool.not_true, Bool.false_eq_true, ↓reduceIte, ih]
      simp [execOps, step, consOpt]
    · have h' : o.inert = false := by simpa using h
      simp only [h', Bool.not_false, ↓reduceIte, execOps, ih]

theorem strip_ops (p : Prog) : (strip p).ops = p.ops.filter (fun o => !o.inert) := by
  induction p with
  | nil => rfl
  | cons e p ih =>
    simp only [strip, Prog.ops] at ih ⊢
    by_cases h : e.op.inert = true <;> simp [List.filter, h, ih]

/-- the analysis does not look at notes either (the index of the first defect does move, its existence does not) -/
theorem firstBadOps_filter_inert (os : List Op) :
    ∀ (k : Known) (i j : Nat), (firstBadOps k i (os.filter (fun o => !o.inert))).isNone = (firstBadOps k j os).isNone := by
  induction os with
  | nil => intros; rfl
  | cons o os ih =>
    intro k i j
    rw [List.filter_cons]
    by_cases h : o.inert = true
    · obtain ⟨t, rfl⟩ := (inert_iff_note o).1 h
      simp only [h, Bool.not_true, Bool.false_eq_true, ↓reduceIte]
      simpa [firstBadOps, Known.after] using ih k i (j + 1)
    · have h' : o.inert = false := by simpa using h
      simp only [h', Bool.not_false, ↓reduceIte, firstBadOps]
      cases hk : k.after o with
      | none => rfl
      | some k' => simpa using ih k' (i + 1) (j + 1)

/-- the code run from two agreeing worlds: same recorded program, same values, same result — provided the program recorded
    from the first world is accepted -/
theorem runCode_agree {S V R : Type} (I : Interp S V) (seed : Nat) (c : Code V R) :
    ∀ (k : Known) (i : Nat) (w w' : World S), firstBadOps k i (runCode I seed c w).1.ops = none → Agree k w w' →
      runCode I seed c w' = runCode I seed c w := by
  induction c with
  | ret r => intros; rfl
  | ev e kont ih =>
    intro k i w w' hb ha
    simp only [runCode, Prog.ops, List.map_cons, firstBadOps] at hb
    cases hk : k.after e.op with
    | none => simp [hk] at hb
    | some k' =>
      simp only [hk] at hb
      obtain ⟨h1, h2⟩ := step_agree I seed k k' e.op w w' hk ha
      simp only [runCode]
      rw [← h1]
      rw [ih (step I seed w e.op).2 k' (i + 1) (step I seed w e.op).1 (step I seed w' e.op).1 hb h2]

/-- the recorded program of a run replays to the values the run drew -/
theorem runCode_trace {S V R : Type} (I : Interp S V) (seed : Nat) (c : Code V R) :
    ∀ w : World S, (exec I seed w (runCode I seed c w).1).2 = (runCode I seed c w).2.1 := by
  induction c with
  | ret r => intro w; rfl
  | ev e kont ih =>
    intro w
    simp only [runCode, exec, Prog.ops, List.map_cons, execOps]
    have := ih (step I seed w e.op).2 (step I seed w e.op).1
    simp only [exec, Prog.ops] at this
    rw [this]

/-- logging-site events that move no generator leave every generator where it was and draw nothing -/
theorem exec_logging_noop {S V : Type} (I : Interp S V) (seed : Nat) (p : Prog) :
    ∀ w : World S, (∀ e ∈ p, e.site = .logging) → noLoggingDraws p = true →
      (exec I seed w p).1.gen = w.gen ∧ (exec I seed w p).2 = [] := by
  induction p with
  | nil => intro w _ _; exact ⟨rfl, rfl⟩
  | cons e p ih =>
    intro w hs hn
    have he : e.site = .logging := hs e (List.mem_cons_self ..)
    have hs' : ∀ e' ∈ p, e'.site = .logging := fun e' h => hs e' (List.mem_cons_of_mem _ h)
    have hmv : e.op.moves = false := by
      cases hm : e.op.moves with
      | false => rfl
      | true => simp [noLoggingDraws, loggingDraws, List.filter, Ev.loggingMove, he, hm] at hn
    have hn' : noLoggingDraws p = true := by
      simpa [noLoggingDraws, loggingDraws, List.filter, Ev.loggingMove, he, hmv] using hn
    cases ho : e.op with
    | save g s =>
      have := ih { w with slot := upd w.slot s (w.gen g) } hs' hn'
      simpa [exec, Prog.ops, execOps, step, ho, consOpt] using this
    | note t =>
      have := ih w hs' hn'
      simpa [exec, Prog.ops, execOps, step, ho, consOpt] using this
    | seed g v => simp [ho, Op.moves] at hmv
    | entropy g => simp [ho, Op.moves] at hmv
    | draw g k n => simp [ho, Op.moves] at hmv
    | restore g s => simp [ho, Op.moves] at hmv
    | unknown g => simp [ho, Op.moves] at hmv

/-- on the plain fragment the analysis accepts exactly the programs in which every draw comes after a seeding of its generator -/
theorem firstBadOps_plain_iff (os : List Op) :
    ∀ (k : Known) (i : Nat), (∀ o ∈ os, o.plain = true) →
      (firstBadOps k i os = none ↔
        ∀ (idx g kd n : Nat), os[idx]? = some (Op.draw g kd n) → k.gens g = true ∨ ∃ j, j < idx ∧ ∃ v, os[j]? = some (Op.seed g v)) := by
  induction os with
  | nil => intro k i _; simp [firstBadOps]
  | cons o os ih =>
    intro k i hp
    have hp' : ∀ o ∈ os, o.plain = true := fun o h => hp o (List.mem_cons_of_mem _ h)
    have ho := hp o (List.mem_cons_self ..)
    cases o with
    | seed g' v' =>
      simp only [firstBadOps, Known.after]
      rw [ih _ (i + 1) hp']
      constructor
      · intro h idx g kd n hd
        cases idx with
        | zero => simp at hd
        | succ idx =>
          simp only [List.getElem?_cons_succ] at hd
          rcases h idx g kd n hd with h1 | ⟨j, hj, v, hv⟩
          · by_cases hg : g = g'
            · subst hg; exact Or.inr ⟨0, by omega, v', by simp⟩
            · left; simpa [upd, hg] using h1
          · exact Or.inr ⟨j + 1, by omega, v, by simpa using hv⟩
      · intro h idx g kd n hd
        rcases h (idx + 1) g kd n (by simpa using hd) with h1 | ⟨j, hj, v, hv⟩
        · left; simp [upd, h1]
        · cases j with
          | zero =>
            simp at hv
            left; simp [upd, hv.1]
          | succ j => exact Or.inr ⟨j, by omega, v, by simpa using hv⟩
    | draw g' kd' n' =>
      simp only [firstBadOps, Known.after]
      by_cases hk : k.gens g' = true
      · simp only [hk, ↓reduceIte]
        rw [ih _ (i + 1) hp']
        constructor
        · intro h idx g kd n hd
          cases idx with
          | zero => simp at hd; left; rw [← hd.1]; exact hk
          | succ idx =>
            simp only [List.getElem?_cons_succ] at hd
            rcases h idx g kd n hd with h1 | ⟨j, hj, v, hv⟩
            · exact Or.inl h1
            · exact Or.inr ⟨j + 1, by omega, v, by simpa using hv⟩
        · intro h idx g kd n hd
          rcases h (idx + 1) g kd n (by simpa using hd) with h1 | ⟨j, hj, v, hv⟩
          · exact Or.inl h1
          · cases j with
            | zero => simp at hv
            | succ j => exact Or.inr ⟨j, by omega, v, by simpa using hv⟩
      · simp only [hk, Bool.false_eq_true, ↓reduceIte, reduceCtorEq, false_iff]
        intro h
        rcases h 0 g' kd' n' (by simp) with h1 | ⟨j, hj, _⟩
        · exact hk h1
        · omega
    | note t =>
      simp only [firstBadOps, Known.after]
      rw [ih _ (i + 1) hp']
      constructor
      · intro h idx g kd n hd
        cases idx with
        | zero => simp at hd
        | succ idx =>
          simp only [List.getElem?_cons_succ] at hd
          rcases h idx g kd n hd with h1 | ⟨j, hj, v, hv⟩
          · exact Or.inl h1
          · exact Or.inr ⟨j + 1, by omega, v, by simpa using hv⟩
      · intro h idx g kd n hd
        rcases h (idx + 1) g kd n (by simpa using hd) with h1 | ⟨j, hj, v, hv⟩
        · exact Or.inl h1
        · cases j with
          | zero => simp at hv
          | succ j => exact Or.inr ⟨j, by omega, v, by simpa using hv⟩
    | entropy g => simp [Op.plain] at ho
    | save g s => simp [Op.plain] at ho
    | restore g s => simp [Op.plain] at ho
    | unknown g => simp [Op.plain] at ho

end LeaspyVerif.Draws
