/-
Helper lemmas about `Model/Personalize.lean` used by Props/C17.lean.
(Helper lemmas only: property theorems are in the Props file.)
-/
import LeaspyVerif.Model.Personalize
import LeaspyVerif.Lemmas.IndParams
import Mathlib.Algebra.Order.Field.Basic
import Mathlib.Algebra.BigOperators.Group.List.Basic

namespace LeaspyVerif.Personalize
open LeaspyVerif.IndParams

/-! ### kept draws -/

theorem keptFrom_eq_drop {β : Type} (nBurn : Nat) (k : Nat) (xs : List β) :
    keptFrom nBurn k xs = xs.drop (nBurn + 1 - k) := by
  induction xs generalizing k with
  | nil => simp [keptFrom]
  | cons x xs ih =>
    simp only [keptFrom, isBurnIn]
    by_cases h : k ≤ nBurn
    · have e : nBurn + 1 - k = (nBurn + 1 - (k + 1)) + 1 := by omega
      simp only [h, decide_true, if_true, ih]
      rw [e, List.drop_succ_cons]
    · have e : nBurn + 1 - k = 0 := by omega
      have e' : nBurn + 1 - (k + 1) = 0 := by omega
      simp [h, ih, e, e']

theorem kept_eq_drop' {β : Type} (nBurn : Nat) (xs : List β) : kept nBurn xs = xs.drop nBurn := by
  simp [kept, keptFrom_eq_drop]

/-! ### sum -/

theorem sum_eq_list_sum {α : Type} [Field α] (l : List α) : Personalize.sum l = l.sum := by
  unfold Personalize.sum
  rw [List.sum_eq_foldl]

/-! ### argmin -/

theorem argminFrom_spec {α : Type} [LinearOrder α] (L : List α) (xs : List α) :
    ∀ (pre : List α) (best : α) (bi i : Nat),
      pre ++ xs = L → i = pre.length → bi < i → L[bi]? = some best →
      (∀ (j : Nat) (x : α), pre[j]? = some x → best ≤ x) →
      (∀ (j : Nat) (x : α), j < bi → pre[j]? = some x → best < x) →
      ∃ m, L[argminFrom best bi i xs]? = some m ∧
        (∀ (j : Nat) (x : α), L[j]? = some x → m ≤ x) ∧
        (∀ (j : Nat) (x : α), j < argminFrom best bi i xs → L[j]? = some x → m < x) := by
  induction xs with
  | nil =>
    intro pre best bi i hL hi hbi hb hle hlt
    simp only [List.append_nil] at hL
    subst hL
    exact ⟨best, by simpa [argminFrom] using hb, hle, by simpa [argminFrom] using hlt⟩
  | cons x xs ih =>
    intro pre best bi i hL hi hbi hb hle hlt
    have hL' : (pre ++ [x]) ++ xs = L := by simpa using hL
    have hx : L[i]? = some x := by subst hL; subst hi; simp
    have hpre : ∀ (j : Nat) (y : α), (pre ++ [x])[j]? = some y → pre[j]? = some y ∨ (j = i ∧ y = x) := by
      intro j y hj
      by_cases hjl : j < pre.length
      · left; rwa [List.getElem?_append_left hjl] at hj
      · right
        rw [List.getElem?_append_right (by omega)] at hj
        have : j - pre.length = 0 := by
          by_contra hne
          have : (1 : Nat) ≤ j - pre.length := by omega
          simp [List.getElem?_eq_none, this] at hj
        rw [this] at hj
        simp at hj
        exact ⟨by omega, hj.symm⟩
    unfold argminFrom
    by_cases hxb : x < best
    · simp only [hxb, if_true]
      refine ih (pre ++ [x]) x i (i + 1) hL' (by simp [hi]) (by omega) hx ?_ ?_
      · intro j y hj
        rcases hpre j y hj with h | ⟨_, h⟩
        · exact le_of_lt (lt_of_lt_of_le hxb (hle j y h))
        · exact le_of_eq h.symm
      · intro j y hji hj
        rcases hpre j y hj with h | ⟨h, _⟩
        · exact lt_of_lt_of_le hxb (hle j y h)
        · omega
    · simp only [hxb, if_false]
      refine ih (pre ++ [x]) best bi (i + 1) hL' (by simp [hi]) (by omega) hb ?_ ?_
      · intro j y hj
        rcases hpre j y hj with h | ⟨_, h⟩
        · exact hle j y h
        · rw [h]; exact not_lt.mp hxb
      · intro j y hji hj
        rcases hpre j y hj with h | ⟨h, _⟩
        · exact hlt j y hji h
        · omega

theorem argmin_spec {α : Type} [LinearOrder α] (L : List α) (r : Nat) (h : argmin L = some r) :
    ∃ m, L[r]? = some m ∧ (∀ (j : Nat) (x : α), L[j]? = some x → m ≤ x) ∧ (∀ (j : Nat) (x : α), j < r → L[j]? = some x → m < x) := by
  cases L with
  | nil => simp [argmin] at h
  | cons x xs =>
    simp only [argmin, Option.some.injEq] at h
    subst h
    refine argminFrom_spec (x :: xs) xs [x] x 0 1 rfl rfl (by omega) rfl ?_ ?_
    · intro j y hj
      cases j with
      | zero => simp at hj; exact le_of_eq hj
      | succ j => simp at hj
    · intro j y hj; omega

theorem argmin_isSome {α : Type} [LinearOrder α] (L : List α) (h : L ≠ []) : ∃ r, argmin L = some r := by
  cases L with
  | nil => exact absurd rfl h
  | cons x xs => exact ⟨_, rfl⟩

end LeaspyVerif.Personalize
