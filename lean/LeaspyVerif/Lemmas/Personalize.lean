/-
Helper lemmas about `Model/Personalize.lean` used by Props/C17.lean.
(Helper lemmas only: property theorems are in the Props file.)
-/
import LeaspyVerif.Model.Personalize
import LeaspyVerif.Lemmas.IndParams
import Mathlib.Algebra.Order.Field.Basic
import Mathlib.Algebra.BigOperators.Group.List.Basic

namespace LeaspyVerif.Personalize
open LeaspyVerif.IndParams

/-! ### kept draws -/

theorem keptFrom_eq_drop {β : Type} (nBurn : Nat) (k : Nat) (xs : List β) :
    keptFrom nBurn k xs = xs.drop (nBurn + 1 - k) := by
  induction xs generalizing k with
  | nil => simp [keptFrom]
  | cons x xs ih =>
    simp only [keptFrom, isBurnIn]
    by_cases h : k ≤ nBurn
    · have e : nBurn + 1 - k = (nBurn + 1 - (k + 1)) + 1 := by omega
      simp only [h, decide_true, if_true, ih]
      rw [e, List.drop_succ_cons]
    · have e : nBurn + 1 - k = 0 := by omega
      have e' : nBurn + 1 - (k + 1) = 0 := by omega
      simp [h, ih, e, e']

theorem kept_eq_drop' {β : Type} (nBurn : Nat) (xs : List β) : kept nBurn xs = xs.drop nBurn := by
  simp [kept, keptFrom_eq_drop]

/-! ### sum -/

theorem sum_eq_list_sum {α : Type} [Field α] (l : List α) : Personalize.sum l = l.sum := by
  unfold Personalize.sum
  rw [List.sum_eq_foldl]

/-! ### argmin -/

theorem argminFrom_spec {α : Type} [LinearOrder α] (L : List α) (xs : List α) :
    ∀ (pre : List α) (best : α) (bi i : Nat),
      pre ++ xs = L → i = pre.length → bi < i → L[bi]? = some best →
      (∀ (j : Nat) (x : α), pre[j]? = some x → best ≤ x) →
      (∀ (j : Nat) (x : α), j < bi → pre[j]? = some x → best < x) →
      ∃ m, L[argminFrom best bi i xs]? = some m ∧
        (∀ (j : Nat) (x : α), L[j]? = some x → m ≤ x) ∧
        (∀ (j : Nat) (x : α), j < argminFrom best bi i xs → L[j]? = some x → m < x) := by
  induction xs with
  | nil =>
    intro pre best bi i hL hi hbi hb hle hlt
    simp only [List.append_nil] at hL
    subst hL
    exact ⟨best, by simpa [argminFrom] using hb, hle, by simpa [argminFrom] using hlt⟩
  | cons x xs ih =>
    intro pre best bi i hL hi hbi hb hle hlt
    have hL' : (pre ++ [x]) ++ xs = L := by simpa using hL
    have hx : L[i]? = some x := by subst hL; subst hi; simp
    have hpre : ∀ (j : Nat) (y : α), (pre ++ [x])[j]? = some y → pre[j]? = some y ∨ (j = i ∧ y = x) := by
      intro j y hj
      by_cases hjl : j < pre.length
      · left; rwa [List.getElem?_append_left hjl] at hj
      · right
        rw [List.getElem?_append_right (by omega)] at hj
        have : j - pre.length = 0 := by
          by_contra hne
          have : (1 : Nat) ≤ j - pre.length := by omega
          simp [List.getElem?_eq_none, this] at hj
        rw [this] at hj
        simp at hj
        exact ⟨by omega, hj.symm⟩
    unfold argminFrom
    by_cases hxb : x < best
    · simp only [hxb, if_true]
      refine ih (pre ++ [x]) x i (i + 1) hL' (by simp [hi]) (by omega) hx ?_ ?_
      · intro j y hj
        rcases hpre j y hj with h | ⟨_, h⟩
        · exact le_of_lt (lt_of_lt_of_le hxb (hle j y h))
        · exact le_of_eq h.symm
      · intro j y hji hj
        rcases hpre j y hj with h | ⟨h, _⟩
        · exact lt_of_lt_of_le hxb (hle j y h)
        · omega
    · simp only [hxb, if_false]
      refine ih (pre ++ [x]) best bi (i + 1) hL' (by simp [hi]) (by omega) hb ?_ ?_
      · intro j y hj
        rcases hpre j y hj with h | ⟨_, h⟩
        · exact hle j y h
        · rw [h]; exact not_lt.mp hxb
      · intro j y hji hj
        rcases hpre j y hj with h | ⟨h, _⟩
        · exact hlt j y hji h
        · omega

theorem argmin_spec {α : Type} [LinearOrder α] (L : List α) (r : Nat) (h : argmin L = some r) :
    ∃ m, L[r]? = some m ∧ (∀ (j : Nat) (x : α), L[j]? = some x → m ≤ x) ∧ (∀ (j : Nat) (x : α), j < r → L[j]? = some x → m < x) := by
  cases L with
  | nil => simp [argmin] at h
  | cons x xs =>
    simp only [argmin, Option.some.injEq] at h
    subst h
    refine argminFrom_spec (x :: xs) xs [x] x 0 1 rfl rfl (by omega) rfl ?_ ?_
    · intro j y hj
      cases j with
      | zero => simp at hj; exact le_of_eq hj
      | succ j => simp at hj
    · intro j y hj; omega

theorem argmin_isSome {α : Type} [LinearOrder α] (L : List α) (h : L ≠ []) : ∃ r, argmin L = some r := by
  cases L with
  | nil => exact absurd rfl h
  | cons x xs => exact ⟨_, rfl⟩

/-! ### alignment (`from_pytorch`) -/

section align
variable {q : Type}

/-- the first row of every tensor, as stored values -/
def headsOf (est : List (Name × List (List q))) : List (Name × Val q) :=
  est.filterMap (fun kt => kt.2.head?.map (fun r => (kt.1, Val.vec r)))

/-- the first row of every tensor, as handed to `add` -/
def rawHeadsOf (est : List (Name × List (List q))) : List (Name × RawVal q) :=
  est.filterMap (fun kt => kt.2.head?.map (fun r => (kt.1, RawVal.list (r.map RawElem.num))))

def tailsOf (est : List (Name × List (List q))) : List (Name × List (List q)) :=
  est.map (fun kt => (kt.1, kt.2.tail))

def colsOf (est : List (Name × List (List q))) : List (Name × List (RawVal q)) :=
  est.map (fun kt => (kt.1, tensorRows (Tensor.d2 kt.2)))

/-- the per-individual dictionaries `from_pytorch` builds -/
def alignRows : List String → List (Name × List (List q)) → List (String × List (Name × Val q))
  | [], _ => []
  | s :: is, est => (s, headsOf est) :: alignRows is (tailsOf est)

theorem splitHeads_cons (k : Name) (v : RawVal q) (rest : List (RawVal q))
    (cols : List (Name × List (RawVal q))) :
    splitHeads ((k, v :: rest) :: cols)
      = (splitHeads cols).map (fun p => ((k, v) :: p.1, (k, rest) :: p.2)) := by
  unfold splitHeads
  rw [List.mapM_cons]
  cases List.mapM (fun (kc : Name × List (RawVal q)) => match kc.2 with
      | v :: rest => some ((kc.1, v), (kc.1, rest))
      | [] => none) cols with
  | none => rfl
  | some a => rfl

theorem colsOf_cons (k : Name) (r : List q) (rows : List (List q)) (est : List (Name × List (List q))) :
    colsOf ((k, r :: rows) :: est)
      = (k, RawVal.list (r.map RawElem.num) :: tensorRows (Tensor.d2 rows)) :: colsOf est := rfl

theorem rawHeadsOf_cons (k : Name) (r : List q) (rows : List (List q)) (est : List (Name × List (List q))) :
    rawHeadsOf ((k, r :: rows) :: est) = (k, RawVal.list (r.map RawElem.num)) :: rawHeadsOf est := rfl

theorem headsOf_cons (k : Name) (r : List q) (rows : List (List q)) (est : List (Name × List (List q))) :
    headsOf ((k, r :: rows) :: est) = (k, Val.vec r) :: headsOf est := rfl

theorem tailsOf_cons (k : Name) (r : List q) (rows : List (List q)) (est : List (Name × List (List q))) :
    tailsOf ((k, r :: rows) :: est) = (k, rows) :: tailsOf est := rfl

theorem splitHeads_colsOf (est : List (Name × List (List q))) (h : ∀ kt ∈ est, kt.2 ≠ []) :
    splitHeads (colsOf est) = some (rawHeadsOf est, colsOf (tailsOf est)) := by
  induction est with
  | nil => rfl
  | cons kt est ih =>
    have ih' := ih (fun kt' hk => h kt' (List.mem_cons_of_mem _ hk))
    obtain ⟨k, rows⟩ := kt
    cases rows with
    | nil => exact absurd rfl (h (k, []) (List.mem_cons_self))
    | cons r rows =>
      rw [colsOf_cons, splitHeads_cons, ih', rawHeadsOf_cons, tailsOf_cons]
      rfl

theorem mapM_elemNum (r : List q) : (r.map RawElem.num).mapM elemNum = some r := by
  induction r with
  | nil => rfl
  | cons x r ih =>
    rw [List.map_cons, List.mapM_cons, ih]
    rfl

theorem checkVal_row (r : List q) (hr : r ≠ []) :
    checkVal (RawVal.list (r.map RawElem.num)) = some (Val.vec r) := by
  have : (r.map (RawElem.num (q := q))).isEmpty = false := by
    cases r with
    | nil => exact absurd rfl hr
    | cons x r => rfl
  simp only [checkVal, this, mapM_elemNum]
  rfl

theorem checkDict_cons (k : Name) (v : RawVal q) (d : List (Name × RawVal q)) :
    checkDict ((k, v) :: d)
      = (checkVal v).bind (fun v' => (checkDict d).map (fun vs => (k, v') :: vs)) := by
  unfold checkDict
  rw [List.mapM_cons]
  cases checkVal v with
  | none => rfl
  | some v' =>
    cases List.mapM (fun (kv : Name × RawVal q) => (checkVal kv.2).map (fun v => (kv.1, v))) d with
    | none => rfl
    | some vs => rfl

theorem checkDict_rawHeadsOf (est : List (Name × List (List q))) (h : ∀ kt ∈ est, ∀ r ∈ kt.2, r ≠ []) :
    checkDict (rawHeadsOf est) = some (headsOf est) := by
  induction est with
  | nil => rfl
  | cons kt est ih =>
    have ih' := ih (fun kt' hk => h kt' (List.mem_cons_of_mem _ hk))
    obtain ⟨k, rows⟩ := kt
    cases rows with
    | nil => exact ih'
    | cons r rows =>
      have hr : r ≠ [] := h (k, r :: rows) List.mem_cons_self r List.mem_cons_self
      rw [rawHeadsOf_cons, checkDict_cons, checkVal_row r hr, headsOf_cons]
      simp [ih']

theorem shapes_headsOf (w : Name → Nat) (est : List (Name × List (List q)))
    (h : ∀ kt ∈ est, kt.2 ≠ [] ∧ ∀ r ∈ kt.2, r.length = w kt.1) :
    (headsOf est).map (fun kv => (kv.1, shapeOf kv.2)) = est.map (fun kt => (kt.1, [w kt.1])) := by
  induction est with
  | nil => rfl
  | cons kt est ih =>
    have ih' := ih (fun kt' hk => h kt' (List.mem_cons_of_mem _ hk))
    obtain ⟨k, rows⟩ := kt
    cases rows with
    | nil => exact absurd rfl (h (k, []) List.mem_cons_self).1
    | cons r rows =>
      have hr : r.length = w k := (h (k, r :: rows) List.mem_cons_self).2 r List.mem_cons_self
      rw [headsOf_cons, List.map_cons, List.map_cons, ih']
      simp [shapeOf, hr]

theorem lookup_of_mem_nodupKeys {β : Type} (sh : List (Name × β)) (hn : NodupKeys sh) :
    ∀ kv ∈ sh, sh.lookup kv.1 = some kv.2 := by
  induction sh with
  | nil => intro kv hk; simp at hk
  | cons a sh ih =>
    intro kv hk
    obtain ⟨ak, av⟩ := a
    obtain ⟨k, v⟩ := kv
    simp only [NodupKeys, List.map_cons, List.nodup_cons] at hn
    rw [List.lookup_cons]
    rcases List.mem_cons.mp hk with e | hk'
    · cases e; simp
    · have hne : k ≠ ak := by
        intro e; apply hn.1; rw [← e]; exact List.mem_map_of_mem (f := (·.1)) hk'
      have : (k == ak) = false := by simpa using hne
      simp only [this]
      exact ih hn.2 (k, v) hk'

theorem dictEq_self {β : Type} [BEq β] [LawfulBEq β] (sh : List (Name × β)) (hn : NodupKeys sh) :
    dictEq sh sh = true := by
  simp only [dictEq, beq_self_eq_true, Bool.true_and, List.all_eq_true]
  intro kv hk
  simp [lookup_of_mem_nodupKeys sh hn kv hk]

theorem nodupKeys_shapes (w : Name → Nat) (est : List (Name × List (List q))) (hn : NodupKeys est) :
    NodupKeys (est.map (fun kt => (kt.1, [w kt.1]))) := by
  simpa [NodupKeys, List.map_map, Function.comp_def] using hn

theorem tailsOf_keys (est : List (Name × List (List q))) :
    (tailsOf est).map (·.1) = est.map (·.1) := by
  simp [tailsOf, List.map_map, Function.comp_def]

theorem tailsOf_shapes (w : Name → Nat) (est : List (Name × List (List q))) :
    (tailsOf est).map (fun kt => (kt.1, [w kt.1])) = est.map (fun kt => (kt.1, [w kt.1])) := by
  simp [tailsOf, List.map_map, Function.comp_def]

/-- the induction behind `from_pytorch` -/
theorem fromTorchRows_spec (w : Name → Nat) (is : List String) :
    ∀ (c : Container q) (est : List (Name × List (List q))),
      is.Nodup → (∀ s ∈ is, s ∉ c.ids) → NodupKeys est →
      (∀ kt ∈ est, kt.2.length = is.length ∧ ∀ r ∈ kt.2, r.length = w kt.1 ∧ 0 < w kt.1) →
      (c.shapes = none ∨ c.shapes = some (est.map (fun kt => (kt.1, [w kt.1])))) →
      ∃ c', fromTorchRows c (is.map RawId.str) (colsOf est) = .ok c' ∧
        c'.ids = c.ids ++ is ∧ c'.params = c.params ++ alignRows is est ∧
        c'.shapes = if is = [] then c.shapes else some (est.map (fun kt => (kt.1, [w kt.1]))) := by
  induction is with
  | nil =>
    intro c est _ _ _ _ _
    exact ⟨c, by simp [fromTorchRows], by simp, by simp [alignRows], by simp⟩
  | cons s is ih =>
    intro c est hnd hnew hn hrows hsh
    have hne : ∀ kt ∈ est, kt.2 ≠ [] := by
      intro kt hk e
      have := (hrows kt hk).1
      rw [e] at this; simp at this
    have hrne : ∀ kt ∈ est, ∀ r ∈ kt.2, r ≠ [] := by
      intro kt hk r hr e
      have := (hrows kt hk).2 r hr
      rw [e] at this; simp at this; omega
    have hshape := shapes_headsOf w est (fun kt hk => ⟨hne kt hk, fun r hr => ((hrows kt hk).2 r hr).1⟩)
    have hsc : s ∉ c.ids := hnew s List.mem_cons_self
    -- the container after adding `s`
    let c1 : Container q :=
      { ids := c.ids ++ [s], params := c.params ++ [(s, headsOf est)],
        shapes := some (est.map (fun kt => (kt.1, [w kt.1]))) }
    have hadd : add c (RawId.str s) (RawParams.dict (rawHeadsOf est)) = .ok c1 := by
      rcases hsh with h0 | h1
      · simp [add, hsc, checkDict_rawHeadsOf est hrne, h0, hshape, c1]
      · have hde := dictEq_self _ (nodupKeys_shapes w est hn)
        simp [add, hsc, checkDict_rawHeadsOf est hrne, h1, hshape, hde, c1]
    have hnd' := List.nodup_cons.mp hnd
    obtain ⟨c', hc', hids, hpar, hshp⟩ := ih c1 (tailsOf est) hnd'.2
      (by
        intro t ht
        simp only [c1, List.mem_append, List.mem_singleton, not_or]
        refine ⟨hnew t (List.mem_cons_of_mem _ ht), ?_⟩
        rintro rfl; exact hnd'.1 ht)
      (by simpa [NodupKeys, tailsOf_keys] using hn)
      (by
        intro kt hk
        simp only [tailsOf, List.mem_map] at hk
        obtain ⟨kt0, hk0, rfl⟩ := hk
        have h0 := hrows kt0 hk0
        refine ⟨by simp [h0.1], ?_⟩
        intro r hr
        exact h0.2 r (List.mem_of_mem_tail hr))
      (by right; simp [c1, tailsOf_shapes])
    refine ⟨c', ?_, ?_, ?_, ?_⟩
    · simp only [List.map_cons, fromTorchRows, splitHeads_colsOf est hne, hadd]
      exact hc'
    · simp [hids, c1]
    · simp [hpar, c1, alignRows]
    · rw [hshp]
      by_cases he : is = []
      · simp [he, c1]
      · simp [he, tailsOf_shapes]

theorem alignRows_keys (is : List String) :
    ∀ est : List (Name × List (List q)), (alignRows is est).map (·.1) = is := by
  induction is with
  | nil => intro est; rfl
  | cons s is ih => intro est; simp [alignRows, ih]

theorem alignRows_get (is : List String) :
    ∀ (est : List (Name × List (List q))) (i : Nat) (id : String), is[i]? = some id →
      (alignRows is est)[i]? =
        some (id, est.filterMap (fun kt => kt.2[i]?.map (fun r => (kt.1, Val.vec r)))) := by
  induction is with
  | nil => intro est i id h; simp at h
  | cons s is ih =>
    intro est i id h
    cases i with
    | zero =>
      simp at h; subst h
      simp [alignRows, headsOf, List.head?_eq_getElem?]
    | succ i =>
      simp at h
      simp only [alignRows, List.getElem?_cons_succ]
      rw [ih (tailsOf est) i id h]
      simp [tailsOf, List.filterMap_map]

end align

end LeaspyVerif.Personalize
