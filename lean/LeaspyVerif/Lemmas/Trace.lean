/-
Lemmas for the recorded-program model (`Model/Trace.lean`): the invariant that links the dependence types to two
evaluations of the same program, and its preservation node by node.  Used by `Props/C07.lean`.
-/
import LeaspyVerif.Model.Trace
namespace LeaspyVerif.Trace

variable {φ ρ : Type}

def Ok (j j' : Nat) : Ty → Val ρ → Val ρ → Prop
  | .pop, v, v' => ∃ r, v = .un r ∧ v' = .un r
  | .ind, v, v' => ∃ g g', v = .ba g ∧ v' = .ba g' ∧ g j = g' j'
  | .mixed, _, _ => True

@[simp] theorem at_un (r : ρ) (j : Nat) : (Val.un r).at j = r := rfl
@[simp] theorem at_ba (g : Nat → ρ) (j : Nat) : (Val.ba g).at j = g j := rfl

def EnvOk (j j' : Nat) (tys : List Ty) (env env' : List (Val ρ)) : Prop :=
  tys.length = env.length ∧ tys.length = env'.length ∧
  ∀ (k : Nat) (t : Ty) (v v' : Val ρ), tys[k]? = some t → env[k]? = some v → env'[k]? = some v' → Ok j j' t v v'

theorem envOk_snoc {j j' : Nat} {tys : List Ty} {env env' : List (Val ρ)} {t : Ty} {v v' : Val ρ}
    (h : EnvOk j j' tys env env') (hv : Ok j j' t v v') : EnvOk j j' (tys ++ [t]) (env ++ [v]) (env' ++ [v']) := by
  obtain ⟨h1, h2, h3⟩ := h
  refine ⟨by simp [h1], by simp [h2], ?_⟩
  intro k t0 v0 v0' ht hv0 hv0'
  by_cases hk : k < tys.length
  · rw [List.getElem?_append_left hk] at ht
    rw [List.getElem?_append_left (by omega)] at hv0 hv0'
    exact h3 k t0 v0 v0' ht hv0 hv0'
  · have hk' : k = tys.length := by
      have := (List.getElem?_eq_some_iff.mp ht).1
      simp at this; omega
    subst hk'
    simp at ht
    rw [h1] at hv0; rw [h2] at hv0'
    simp at hv0 hv0'
    subst ht hv0 hv0'
    exact hv

theorem join_cons_ne_mixed {t : Ty} {ts : List Ty} (h : join (t :: ts) ≠ .mixed) : t ≠ .mixed ∧ join ts ≠ .mixed := by
  cases t <;> simp [join] at h ⊢
  · exact h
  · intro h'; simp [h'] at h

theorem arg_ok {S : Sem φ ρ} {n n' j j' : Nat} {tys : List Ty} {env env' : List (Val ρ)}
    (h : EnvOk j j' tys env env') (a : Arg) (hne : argTy tys a ≠ .mixed) :
    ∃ v v', resolve S n env a = some v ∧ resolve S n' env' a = some v' ∧ Ok j j' (argTy tys a) v v' := by
  obtain ⟨h1, h2, h3⟩ := h
  unfold argTy at hne ⊢
  cases ht : tys[a.id]? with
  | none => simp [ht] at hne
  | some t0 =>
    have hlt : a.id < tys.length := (List.getElem?_eq_some_iff.mp ht).1
    have hv : env[a.id]? = some env[a.id] := List.getElem?_eq_getElem (by omega)
    have hv' : env'[a.id]? = some env'[a.id] := List.getElem?_eq_getElem (by omega)
    have hok := h3 a.id t0 _ _ ht hv hv'
    simp only [ht] at hne ⊢
    unfold resolve
    rw [hv, hv']
    by_cases hw : a.whole
    · simp only [hw, if_true] at hne ⊢
      by_cases hp : t0 = .pop
      · subst hp
        obtain ⟨r, e1, e2⟩ := hok
        refine ⟨.un r, .un r, ?_, ?_, ?_⟩
        · simp [e1, wholeOf]
        · simp [e2, wholeOf]
        · simp; exact ⟨r, rfl, rfl⟩
      · simp [hp] at hne
    · simp only [hw] at hne ⊢
      exact ⟨_, _, rfl, rfl, hok⟩

theorem args_ok {S : Sem φ ρ} {n n' j j' : Nat} {tys : List Ty} {env env' : List (Val ρ)}
    (h : EnvOk j j' tys env env') (args : List Arg) (hne : join (args.map (argTy tys)) ≠ .mixed) :
    (args.filterMap (resolve S n env)).map (·.at j) = (args.filterMap (resolve S n' env')).map (·.at j') ∧
    (∀ i i', join (args.map (argTy tys)) = .pop →
      (args.filterMap (resolve S n env)).map (·.at i) = (args.filterMap (resolve S n' env')).map (·.at i')) ∧
    (join (args.map (argTy tys)) = .pop →
      (args.filterMap (resolve S n env)).any Val.isBa = false ∧ (args.filterMap (resolve S n' env')).any Val.isBa = false) ∧
    (join (args.map (argTy tys)) = .ind →
      (args.filterMap (resolve S n env)).any Val.isBa = true ∧ (args.filterMap (resolve S n' env')).any Val.isBa = true) := by
  induction args with
  | nil => simp [join]
  | cons a rest ih =>
    simp only [List.map_cons] at hne
    obtain ⟨hne1, hne2⟩ := join_cons_ne_mixed hne
    obtain ⟨ih1, ih2, ih3, ih4⟩ := ih hne2
    obtain ⟨v, v', e, e', hok⟩ := arg_ok (S := S) (n := n) (n' := n') h a hne1
    simp only [List.map_cons, List.filterMap_cons, e, e']
    cases hta : argTy tys a with
    | mixed => exact absurd hta hne1
    | pop =>
      rw [hta] at hok
      obtain ⟨r, rfl, rfl⟩ := hok
      simp only [join, at_un, List.any_cons, Val.isBa, Bool.false_or]
      refine ⟨by rw [ih1], ?_, ih3, ih4⟩
      intro i i' hp
      rw [ih2 i i' hp]
    | ind =>
      rw [hta] at hok
      obtain ⟨g, g', rfl, rfl, hg⟩ := hok
      simp only [join, at_ba, List.any_cons, Val.isBa, Bool.true_or]
      refine ⟨by rw [ih1, hg], ?_, ?_, ?_⟩
      · intro i i' hp
        first | (cases hp) | (split at hp <;> simp at hp)
      · intro hp
        first | (cases hp) | (split at hp <;> simp at hp)
      · intro _; exact ⟨trivial, trivial⟩

/-- one node -/
theorem node_ok (S : Sem φ ρ) (n n' j j' : Nat) (L L' : Inputs ρ)
    (hpop : ∀ k, L.pop k = L'.pop k) (hind : ∀ k, L.ind k j = L'.ind k j')
    {tys : List Ty} {env env' : List (Val ρ)} (h : EnvOk j j' tys env env') (nd : Node φ) :
    Ok j j' (typeNode tys nd) (evalNode S n L env nd) (evalNode S n' L' env' nd) := by
  cases nd with
  | pop k => exact ⟨_, rfl, by simp [evalNode, hpop]⟩
  | ind k => exact ⟨_, _, rfl, rfl, hind k⟩
  | unk k => trivial
  | op f args =>
    simp only [typeNode]
    cases hj : join (args.map (argTy tys)) with
    | mixed => trivial
    | pop =>
      obtain ⟨_, a2, a3, _⟩ := args_ok (S := S) (n := n) (n' := n') h args (by rw [hj]; simp)
      obtain ⟨b1, b2⟩ := a3 hj
      simp only [evalNode, b1, b2]
      refine ⟨_, rfl, ?_⟩
      simp [a2 0 0 hj]
    | ind =>
      obtain ⟨a1, _, _, a4⟩ := args_ok (S := S) (n := n) (n' := n') h args (by rw [hj]; simp)
      obtain ⟨b1, b2⟩ := a4 hj
      simp only [evalNode, b1, b2]
      refine ⟨_, _, rfl, rfl, ?_⟩
      simp only [a1]
  | escape a =>
    simp only [typeNode]
    by_cases hp : tys[a]? = some .pop
    · simp only [hp, if_true]
      obtain ⟨h1, h2, h3⟩ := h
      have hlt : a < tys.length := (List.getElem?_eq_some_iff.mp hp).1
      have hv : env[a]? = some env[a] := List.getElem?_eq_getElem (by omega)
      have hv' : env'[a]? = some env'[a] := List.getElem?_eq_getElem (by omega)
      have := h3 a _ _ _ hp hv hv'
      simp only [evalNode, hv, hv']
      exact this
    · simp only [hp]; trivial

theorem run_ok (S : Sem φ ρ) (n n' j j' : Nat) (L L' : Inputs ρ)
    (hpop : ∀ k, L.pop k = L'.pop k) (hind : ∀ k, L.ind k j = L'.ind k j')
    (nodes : List (Node φ)) : ∀ (tys : List Ty) (env env' : List (Val ρ)), EnvOk j j' tys env env' →
      EnvOk j j' (typesFrom nodes tys) (run S n L nodes env) (run S n' L' nodes env') := by
  induction nodes with
  | nil => intro tys env env' h; exact h
  | cons nd rest ih =>
    intro tys env env' h
    exact ih _ _ _ (envOk_snoc h (node_ok S n n' j j' L L' hpop hind h nd))



theorem run_length {S : Sem φ ρ} {n : Nat} {L : Inputs ρ} (nodes : List (Node φ)) :
    ∀ env : List (Val ρ), (run S n L nodes env).length = env.length + nodes.length := by
  induction nodes with
  | nil => intro env; simp [run]
  | cons nd rest ih => intro env; simp [run, ih]; omega

theorem typesFrom_length (nodes : List (Node φ)) :
    ∀ tys : List Ty, (typesFrom nodes tys).length = tys.length + nodes.length := by
  induction nodes with
  | nil => intro tys; simp [typesFrom]
  | cons nd rest ih => intro tys; simp [typesFrom, ih]; omega

/-- the whole program, from the empty environment -/
theorem eval_ok (S : Sem φ ρ) (n n' j j' : Nat) (L L' : Inputs ρ)
    (hpop : ∀ k, L.pop k = L'.pop k) (hind : ∀ k, L.ind k j = L'.ind k j') (p : Prog φ) :
    EnvOk j j' (types p) (eval S n L p) (eval S n' L' p) :=
  run_ok S n n' j j' L L' hpop hind p.nodes [] [] [] ⟨rfl, rfl, by intro k t v v' h; simp at h⟩

/-- outputs typed `ind` or `pop` agree at rows `j` / `j'` -/
theorem outAt_eq_of_type (S : Sem φ ρ) (n n' j j' : Nat) (L L' : Inputs ρ)
    (hpop : ∀ k, L.pop k = L'.pop k) (hind : ∀ k, L.ind k j = L'.ind k j') (p : Prog φ) (o : Nat)
    (ht : (types p)[o]? = some .ind ∨ (types p)[o]? = some .pop) :
    outAt S n L p o j = outAt S n' L' p o j' := by
  obtain ⟨h1, h2, h3⟩ := eval_ok S n n' j j' L L' hpop hind p
  have hlt : o < (types p).length := by
    rcases ht with h | h <;> exact (List.getElem?_eq_some_iff.mp h).1
  have hv : (eval S n L p)[o]? = some (eval S n L p)[o] := List.getElem?_eq_getElem (by omega)
  have hv' : (eval S n' L' p)[o]? = some (eval S n' L' p)[o] := List.getElem?_eq_getElem (by omega)
  unfold outAt
  rw [hv, hv']
  rcases ht with h | h
  · obtain ⟨g, g', e, e', hg⟩ := h3 o _ _ _ h hv hv'
    simp [e, e', hg]
  · obtain ⟨r, e, e'⟩ := h3 o _ _ _ h hv hv'
    simp [e, e']

theorem outsLocal_type {p : Prog φ} (h : outsLocal p = true) {o : Nat} (ho : o ∈ p.outs) :
    (types p)[o]? = some .ind ∨ (types p)[o]? = some .pop := by
  unfold outsLocal at h
  have := List.all_eq_true.mp h o ho
  simpa using this

end LeaspyVerif.Trace
