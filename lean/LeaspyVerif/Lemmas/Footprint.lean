/-
Helper lemmas for the footprint theorems of C13 (`Props/C13.lean`): frame properties of the `State` operations
(`Model/State.lean`) and soundness of the abstract interpreter of `Model/Footprint.lean`.  Core Lean only.
-/
import LeaspyVerif.Model.Footprint

namespace LeaspyVerif.Footprint
open LeaspyVerif.State

variable {V M : Type}

/-! ### the abstract store -/

theorem AbsStore.get_erase (α : AbsStore) (k j : Nat) :
    (α.erase k).get j = if j = k then none else α.get j := by
  induction α with
  | nil => simp [AbsStore.erase, AbsStore.get]
  | cons p r ih =>
    obtain ⟨k', a⟩ := p
    simp only [AbsStore.erase] at ih ⊢
    by_cases hk : k' = k
    · subst hk
      simp only [List.filter_cons, bne_self_eq_false, Bool.false_eq_true, if_false]
      rw [ih]
      by_cases hj : j = k'
      · simp [hj]
      · have : ¬ k' = j := fun e => hj e.symm
        simp [hj, AbsStore.get, this]
    · have hne : (k' != k) = true := by simp [hk]
      simp only [List.filter_cons, hne, if_true, AbsStore.get]
      rw [ih]
      by_cases hj : k' = j
      · subst hj; simp [hk]
      · simp [hj]

theorem AbsStore.get_set (α : AbsStore) (k : Nat) (x : Option Abs) (j : Nat) :
    (α.set k x).get j = if j = k then x else α.get j := by
  cases x with
  | none => simp only [AbsStore.set]; rw [AbsStore.get_erase]
  | some a =>
    simp only [AbsStore.set, AbsStore.get]
    by_cases hj : k = j
    · subst hj; simp
    · have : ¬ j = k := fun e => hj e.symm
      simp only [hj, if_false, this]
      rw [AbsStore.get_erase]; simp [this]

/-! ### frame properties of the state operations -/

theorem compute_ok_linked {g : Graph V} {c : Cache V} {a : Nat} {v : V} (h : compute g c a = .ok v) :
    g.kind a = .linked := by
  unfold compute at h
  cases hk : g.kind a with
  | indep b => rw [hk] at h; cases h
  | linked => rfl

/-- Walking a list of nodes only fills entries that were empty, and only at linked nodes. -/
theorem walk_frame (g : Graph V) : ∀ (l : List Nat) (c : Cache V) (j : Nat),
    (g.kind j ≠ .linked ∨ c j ≠ none) → (walk g l c).1 j = c j := by
  intro l
  induction l with
  | nil => intro c j _; rfl
  | cons a l ih =>
    intro c j hj
    unfold walk
    cases hca : c a with
    | some w => simp only; exact ih c j hj
    | none =>
      simp only
      cases hcomp : compute g c a with
      | error e => rfl
      | ok v =>
        simp only
        have hka := compute_ok_linked hcomp
        have hja : j ≠ a := by
          intro e; subst e
          rcases hj with hj | hj
          · exact hj hka
          · exact hj hca
        have hupd : upd c a (some v) j = c j := by simp [upd, hja]
        rw [ih (upd c a (some v)) j (by rw [hupd]; exact hj), hupd]

/-- A read keeps the fork, the mode, every independent value and every cached value. -/
theorem get_frame (g : Graph V) (s : St V) (i : Nat) :
    (State.get g s i).1.fork = s.fork ∧ (State.get g s i).1.mode = s.mode ∧
      ∀ j, (g.kind j ≠ .linked ∨ s.vals j ≠ none) → (State.get g s i).1.vals j = s.vals j := by
  unfold State.get
  by_cases hi : g.n ≤ i
  · simp [hi]
  · simp only [hi, if_false]
    cases hci : s.vals i with
    | some v => simp
    | none =>
      simp only
      have hw := walk_frame g (g.anc i) s.vals
      cases hwalk : walk g (g.anc i) s.vals with
      | mk c e =>
        rw [hwalk] at hw
        simp only at hw
        cases e with
        | some e => exact ⟨rfl, rfl, hw⟩
        | none =>
          simp only
          cases hcomp : compute g c i with
          | error e => exact ⟨rfl, rfl, hw⟩
          | ok v =>
            refine ⟨rfl, rfl, ?_⟩
            intro j hj
            have hki := compute_ok_linked hcomp
            have hji : j ≠ i := by
              intro e; subst e
              rcases hj with hj | hj
              · exact hj hki
              · exact hj hci
            simp only [upd, hji, if_false]
            exact hw j hj

theorem precompute_frame (g : Graph V) (s : St V) :
    (precompute g s).1.fork = s.fork ∧ (precompute g s).1.mode = s.mode ∧
      ∀ j, (g.kind j ≠ .linked ∨ s.vals j ≠ none) → (precompute g s).1.vals j = s.vals j := by
  unfold precompute
  have hw := walk_frame g g.order s.vals
  cases hwalk : walk g g.order s.vals with
  | mk c e =>
    rw [hwalk] at hw
    cases e <;> exact ⟨rfl, rfl, hw⟩

theorem set_settable {g : Graph V} {i : Nat} (h : settable g i = true) (s : St V) (v : Option V) :
    (State.set g s i v).1 =
      { vals := resetAll (upd s.vals i v) (g.desc i)
        fork := if s.mode then some ((i :: g.desc i).map (fun k => (k, s.vals k))) else none
        mode := s.mode } := by
  simp only [settable, Bool.and_eq_true, decide_eq_true_eq, beq_iff_eq] at h
  unfold State.set
  have : ¬ g.n ≤ i := by omega
  simp [this, h.2]

theorem set_not_settable {g : Graph V} {i : Nat} (h : settable g i = false) (s : St V) (v : Option V) :
    (State.set g s i v).1 = s := by
  unfold State.set
  by_cases hi : g.n ≤ i
  · simp [hi]
  · simp only [hi, if_false]
    have hlt : i < g.n := by omega
    cases hk : g.kind i with
    | linked => rfl
    | indep b =>
      cases b with
      | false => rfl
      | true => simp [settable, hlt, hk] at h

theorem restore_not_key {c : Cache V} {F : List (Nat × Option V)} {j : Nat} (h : j ∉ F.map Prod.fst) :
    restore c F j = c j := by
  unfold restore
  have : F.find? (fun p => p.1 == j) = none := by
    rw [List.find?_eq_none]
    intro p hp hpj
    simp only [beq_iff_eq] at hpj
    exact h (by rw [← hpj]; exact List.mem_map_of_mem hp)
  rw [this]

theorem revert_frame (mix : M → V → V → V) (s : St V) (mask : Option M) :
    (revert mix s mask).1.fork = none ∧ (revert mix s mask).1.mode = s.mode ∧
      ∀ j, (∀ F, s.fork = some F → j ∉ F.map Prod.fst) → (revert mix s mask).1.vals j = s.vals j := by
  unfold revert
  cases hf : s.fork with
  | none => exact ⟨hf, rfl, fun _ _ => rfl⟩
  | some F =>
    cases mask with
    | none =>
      refine ⟨rfl, rfl, ?_⟩
      intro j hj
      exact restore_not_key (hj F rfl)
    | some m =>
      refine ⟨rfl, rfl, ?_⟩
      intro j hj
      apply restore_not_key
      have := hj F rfl
      simpa [List.map_map, Function.comp_def] using this

/-! ### what the abstract value of a state claims -/

/-- `a` describes state `s` correctly, relative to the original state `s0` and the protected variables `P` -/
def AbsOK (g : Graph V) (P : List Nat) (s0 : St V) (a : Abs) (s : St V) : Prop :=
  (a.same = true → ∀ p ∈ P, s.vals p = s0.vals p) ∧
  (a.forkFree = true → ∀ F, s.fork = some F → ∀ p ∈ P, p ∉ F.map Prod.fst) ∧
  (∀ r ∈ a.cleared, g.kind r ≠ .linked ∧ s.vals r = none)

/-- a state that differs from `s` only by cache entries of linked nodes that were empty satisfies what `s` satisfies -/
theorem absOK_of_frame {g : Graph V} {P : List Nat} (hP : ∀ p ∈ P, g.kind p ≠ .linked) {s0 s s' : St V} {a : Abs}
    (h : AbsOK g P s0 a s) (hf : s'.fork = s.fork)
    (hv : ∀ j, (g.kind j ≠ .linked ∨ s.vals j ≠ none) → s'.vals j = s.vals j) : AbsOK g P s0 a s' := by
  obtain ⟨h1, h2, h3⟩ := h
  refine ⟨?_, ?_, ?_⟩
  · intro hs p hp; rw [hv p (Or.inl (hP p hp))]; exact h1 hs p hp
  · intro hs F hF; rw [hf] at hF; exact h2 hs F hF
  · intro r hr; obtain ⟨hk, hn⟩ := h3 r hr; exact ⟨hk, by rw [hv r (Or.inl hk)]; exact hn⟩

theorem safeVar_spec {g : Graph V} {P : List Nat} {i : Nat} (h : safeVar g P i = true) :
    ∀ p ∈ P, p ≠ i ∧ p ∉ g.desc i := by
  intro p hp
  simp only [safeVar, List.all_eq_true, Bool.not_eq_eq_eq_not, Bool.not_true] at h
  have hcon : ∀ k ∈ i :: g.desc i, k ≠ p := by
    intro k hk e
    have := h k hk
    subst e
    simp [hp] at this
  exact ⟨fun e => hcon i (by simp) e.symm, fun hd => hcon p (by simp [hd]) rfl⟩

theorem absOK_set {g : Graph V} {P : List Nat} {s0 s : St V} {a : Abs} (h : AbsOK g P s0 a s) (i : Nat)
    (v : Option V) : AbsOK g P s0 (absSet g P i v.isNone a) (State.set g s i v).1 := by
  unfold absSet
  cases hset : settable g i with
  | false => simp only [Bool.false_eq_true, if_false]; rw [set_not_settable hset]; exact h
  | true =>
    simp only [if_true]
    rw [set_settable hset]
    obtain ⟨h1, h2, h3⟩ := h
    have hkind : g.kind i = .indep true := by
      simp only [settable, Bool.and_eq_true, decide_eq_true_eq, beq_iff_eq] at hset; exact hset.2
    refine ⟨?_, ?_, ?_⟩
    · intro hs p hp
      simp only [Bool.and_eq_true] at hs
      obtain ⟨hpi, hpd⟩ := safeVar_spec hs.2 p hp
      simp only [resetAll, hpd, if_false, upd, hpi]
      exact h1 hs.1 p hp
    · intro hs F hF p hp
      simp only at hs
      obtain ⟨hpi, hpd⟩ := safeVar_spec hs p hp
      cases hm : s.mode with
      | false => simp [hm] at hF
      | true =>
        simp only [hm, if_true, Option.some.injEq] at hF
        subst hF
        simp only [List.map_map, List.map_cons, Function.comp_def, List.map_id', List.mem_cons, not_or]
        exact ⟨hpi, by simpa using hpd⟩
    · intro r hr
      cases hv : v with
      | none =>
        simp only [hv, Option.isNone_none, if_true, List.mem_cons] at hr
        rcases hr with hr | hr
        · subst hr
          refine ⟨by rw [hkind]; simp, ?_⟩
          simp only [resetAll, upd]
          split <;> simp
        · obtain ⟨hk, hn⟩ := h3 r hr
          refine ⟨hk, ?_⟩
          simp only [resetAll, upd]
          split
          · rfl
          · split
            · rfl
            · exact hn
      | some w =>
        simp only [hv, Option.isNone_some, Bool.false_eq_true, if_false, List.mem_filter, bne_iff_ne, ne_eq] at hr
        obtain ⟨hk, hn⟩ := h3 r hr.1
        refine ⟨hk, ?_⟩
        simp only [resetAll, upd, hr.2, if_false]
        split
        · rfl
        · exact hn

theorem absOK_put {g : Graph V} {P : List Nat} (hP : ∀ p ∈ P, g.kind p ≠ .linked) {s0 s : St V} {a : Abs}
    (h : AbsOK g P s0 a s) (i : Nat) (t : V → V) (v : V) :
    AbsOK g P s0 (absPut g P i a) (State.put g s i (some t) v).1 := by
  have hg := get_frame g s i
  have hs' : AbsOK g P s0 a (State.get g s i).1 := absOK_of_frame hP h hg.1 hg.2.2
  unfold State.put
  simp only
  cases hres : State.get g s i with
  | mk s' r =>
    rw [hres] at hs'
    simp only at hs'
    have weaken : ∀ {s'' : St V}, AbsOK g P s0 a s'' → settable g i = false → AbsOK g P s0 (absPut g P i a) s'' := by
      intro s'' h'' hns
      simp only [absPut, hns, Bool.false_eq_true, if_false]; exact h''
    cases r with
    | error e =>
      simp only
      cases hset : settable g i with
      | false => exact weaken hs' hset
      | true =>
        simp only [absPut, hset, if_true]
        obtain ⟨h1, h2, h3⟩ := hs'
        refine ⟨?_, ?_, ?_⟩
        · intro hs; simp only [Bool.and_eq_true] at hs; exact h1 hs.1
        · intro hs; simp only [Bool.and_eq_true] at hs; exact h2 hs.1
        · intro r hr
          simp only [List.mem_filter] at hr
          exact h3 r hr.1
    | ok cur =>
      simp only
      have hset' := absOK_set hs' i (some (t cur))
      cases hset : settable g i with
      | false =>
        rw [set_not_settable hset]
        exact weaken hs' hset
      | true =>
        simp only [absSet, hset, if_true, Option.isNone_some, Bool.false_eq_true, if_false] at hset'
        simp only [absPut, hset, if_true]
        obtain ⟨h1, h2, h3⟩ := hset'
        refine ⟨h1, ?_, h3⟩
        intro hs
        simp only [Bool.and_eq_true] at hs
        exact h2 hs.2

theorem absOK_revert {g : Graph V} {P : List Nat} (mix : M → V → V → V) {s0 s : St V} {a : Abs}
    (h : AbsOK g P s0 a s) (mask : Option M) : AbsOK g P s0 (absRevert a) (revert mix s mask).1 := by
  obtain ⟨h1, h2, _⟩ := h
  obtain ⟨hf, _, hv⟩ := revert_frame mix s mask
  refine ⟨?_, ?_, ?_⟩
  · intro hs p hp
    simp only [absRevert, Bool.and_eq_true] at hs
    rw [hv p (fun F hF => h2 hs.2 F hF p hp)]
    exact h1 hs.1 p hp
  · intro _ F hF; rw [hf] at hF; cases hF
  · intro r hr; simp [absRevert] at hr

theorem absOK_clone {g : Graph V} {P : List Nat} {s0 s : St V} {a : Abs} (h : AbsOK g P s0 a s) (x b : Bool) :
    AbsOK g P s0 (absClone a b) (clone s x b) := by
  obtain ⟨h1, h2, h3⟩ := h
  refine ⟨h1, ?_, h3⟩
  intro hs F hF
  cases b with
  | false => simp [clone] at hF
  | true =>
    simp only [absClone, if_true] at hs
    simp only [clone, if_true] at hF
    exact h2 hs F hF

theorem absOK_clear (g : Graph V) (P : List Nat) (s0 s : St V) :
    AbsOK g P s0 { same := false, forkFree := true, cleared := [] } (clear g s) := by
  refine ⟨by simp, ?_, by simp⟩
  intro _ F hF; simp [clear] at hF

/-! ### soundness of the abstract store -/

/-- every claim of the abstract store holds in the concrete one -/
def Sound (g : Graph V) (P : List Nat) (s0 : St V) (α : AbsStore) (σ : Store V) : Prop :=
  ∀ k a, α.get k = some a → ∃ s, σ k = some s ∧ AbsOK g P s0 a s

theorem sound_forget {g : Graph V} {P : List Nat} {s0 : St V} {α : AbsStore} {σ σ' : Store V} (k : Nat)
    (h : Sound g P s0 α σ) (hσ : ∀ j, j ≠ k → σ' j = σ j) : Sound g P s0 (α.set k none) σ' := by
  intro j a hj
  rw [AbsStore.get_set] at hj
  by_cases hjk : j = k
  · simp [hjk] at hj
  · simp only [hjk, if_false] at hj
    obtain ⟨s, hs, hok⟩ := h j a hj
    exact ⟨s, by rw [hσ j hjk]; exact hs, hok⟩

theorem sound_put {g : Graph V} {P : List Nat} {s0 : St V} {α : AbsStore} {σ : Store V} (k : Nat) {a' : Abs}
    {s' : St V} (h : Sound g P s0 α σ) (hok : AbsOK g P s0 a' s') :
    Sound g P s0 (α.set k (some a')) (σ.put k s') := by
  intro j a hj
  rw [AbsStore.get_set] at hj
  by_cases hjk : j = k
  · simp only [hjk, if_true, Option.some.injEq] at hj
    subst hj
    exact ⟨s', by simp [Store.put, hjk], hok⟩
  · simp only [hjk, if_false] at hj
    obtain ⟨s, hs, hok'⟩ := h j a hj
    exact ⟨s, by simp [Store.put, hjk, hs], hok'⟩

/-- an operation that rewrites state `sid` into `f s`, described abstractly by `fa` -/
theorem sound_onState {g : Graph V} {P : List Nat} {s0 : St V} {α : AbsStore} {σ : Store V} (sid : Nat)
    (fa : Abs → Abs) (f : St V → St V) (h : Sound g P s0 α σ)
    (hf : ∀ a s, AbsOK g P s0 a s → AbsOK g P s0 (fa a) (f s)) :
    Sound g P s0 (onState α sid fa)
      (match σ sid with
       | none => σ
       | some s => σ.put sid (f s)) := by
  unfold onState
  cases hα : α.get sid with
  | none =>
    simp only
    intro j a hj
    obtain ⟨s, hs, hok⟩ := h j a hj
    have hjs : j ≠ sid := by intro e; subst e; rw [hα] at hj; cases hj
    cases hσ : σ sid with
    | none => exact ⟨s, hs, hok⟩
    | some s1 => exact ⟨s, by simp [Store.put, hjs, hs], hok⟩
  | some a =>
    simp only
    obtain ⟨s, hs, hok⟩ := h sid a hα
    rw [hs]
    exact sound_put sid h (hf a s hok)

/-- a read-like operation on `sid`: the abstract store is kept -/
theorem sound_keep {g : Graph V} {P : List Nat} {s0 : St V} {α : AbsStore} {σ : Store V} (sid : Nat)
    (f : St V → St V) (h : Sound g P s0 α σ) (hf : ∀ a s, AbsOK g P s0 a s → AbsOK g P s0 a (f s)) :
    Sound g P s0 α
      (match σ sid with
       | none => σ
       | some s => σ.put sid (f s)) := by
  intro j a hj
  obtain ⟨s, hs, hok⟩ := h j a hj
  cases hσ : σ sid with
  | none => exact ⟨s, hs, hok⟩
  | some s1 =>
    simp only
    by_cases hjs : j = sid
    · subst hjs
      rw [hσ] at hs; cases hs
      exact ⟨f s, by simp [Store.put], hf a s hok⟩
    · exact ⟨s, by simp [Store.put, hjs, hs], hok⟩

theorem sound_op {g : Graph V} {P : List Nat} (hP : ∀ p ∈ P, g.kind p ≠ .linked) (mix : M → V → V → V)
    {s0 : St V} {α : AbsStore} {σ : Store V} (h : Sound g P s0 α σ) (o : Op V M) :
    Sound g P s0 (absOp g P α o) (step g mix σ o).1 := by
  cases o with
  | get sid i =>
    have := sound_keep sid (fun s => (State.get g s i).1) h
      (fun a s hok => absOK_of_frame hP hok (get_frame g s i).1 (get_frame g s i).2.2)
    simp only [absOp, step]
    cases hσ : σ sid <;> simpa [hσ] using this
  | isSet sid i =>
    simp only [absOp, step]
    cases hσ : σ sid <;> exact h
  | set sid i v =>
    have := sound_onState sid (absSet g P i v.isNone) (fun s => (State.set g s i v).1) h
      (fun a s hok => absOK_set hok i v)
    simp only [absOp, step]
    cases hσ : σ sid <;> simpa [hσ] using this
  | put sid i t v =>
    cases t with
    | none =>
      have := sound_onState sid (absSet g P i false) (fun s => (State.set g s i (some v)).1) h
        (fun a s hok => by simpa using absOK_set hok i (some v))
      simp only [absOp, step]
      cases hσ : σ sid <;> simpa [hσ, State.put] using this
    | some t =>
      have := sound_onState sid (absPut g P i) (fun s => (State.put g s i (some t) v).1) h
        (fun a s hok => absOK_put hP hok i t v)
      simp only [absOp, step]
      cases hσ : σ sid <;> simpa [hσ] using this
  | revert sid mask =>
    have := sound_onState sid absRevert (fun s => (revert mix s mask).1) h
      (fun a s hok => absOK_revert mix hok mask)
    simp only [absOp, step]
    cases hσ : σ sid <;> simpa [hσ] using this
  | clone src dst x b =>
    simp only [absOp, step]
    cases hα : α.get src with
    | none =>
      simp only
      cases hσ : σ src with
      | none => exact sound_forget dst h (fun _ _ => rfl)
      | some s =>
        simp only
        exact sound_forget dst h (fun j hj => by simp [Store.put, hj])
    | some a =>
      obtain ⟨s, hs, hok⟩ := h src a hα
      simp only [hs]
      exact sound_put dst h (absOK_clone hok x b)
  | precompute sid =>
    have := sound_keep sid (fun s => (precompute g s).1) h
      (fun a s hok => absOK_of_frame hP hok (precompute_frame g s).1 (precompute_frame g s).2.2)
    simp only [absOp, step]
    cases hσ : σ sid <;> simpa [hσ] using this
  | setMode sid m =>
    have := sound_keep sid (fun s => setMode s m) h
      (fun a s hok => absOK_of_frame hP hok rfl (fun _ _ => rfl))
    simp only [absOp, step]
    cases hσ : σ sid <;> simpa [hσ] using this
  | clear sid =>
    have := sound_onState sid (fun _ => { same := false, forkFree := true, cleared := [] }) (fun s => clear g s) h
      (fun a s _ => absOK_clear g P s0 s)
    simp only [absOp, step]
    cases hσ : σ sid <;> simpa [hσ] using this

/-- the abstract result describes the concrete world -/
def SoundRes (g : Graph V) (P : List Nat) (s0 : St V) (attrs0 : Nat → Option V) (r : Res) (w : World V) : Prop :=
  Sound g P s0 r.abs w.store ∧ r.bound = w.bound ∧ (r.attrsWritten = false → w.attrs = attrs0)

theorem sound_ev {g : Graph V} {P : List Nat} (hP : ∀ p ∈ P, g.kind p ≠ .linked) (mix : M → V → V → V)
    {s0 : St V} {attrs0 : Nat → Option V} {r : Res} {w : World V} (h : SoundRes g P s0 attrs0 r w) (e : Ev V M) :
    SoundRes g P s0 attrs0 (absEv g P r e) (stepEv g mix w e) := by
  obtain ⟨h1, h2, h3⟩ := h
  cases e with
  | op o => exact ⟨sound_op hP mix h1 o, h2, h3⟩
  | havoc sid s' =>
    refine ⟨?_, h2, h3⟩
    exact sound_forget sid h1 (fun j hj => by simp [stepEv, hj])
  | shared a b i =>
    refine ⟨?_, h2, h3⟩
    intro k a hk
    simp [absEv, AbsStore.get] at hk
  | bind sid => exact ⟨h1, rfl, h3⟩
  | attr k v => exact ⟨h1, h2, fun hc => by simp [absEv] at hc⟩

theorem sound_analyse {g : Graph V} {P : List Nat} (hP : ∀ p ∈ P, g.kind p ≠ .linked) (mix : M → V → V → V)
    {s0 : St V} {attrs0 : Nat → Option V} : ∀ (h : List (Ev V M)) (r : Res) (w : World V),
    SoundRes g P s0 attrs0 r w → SoundRes g P s0 attrs0 (analyse g P r h) (runEv g mix w h) := by
  intro h
  induction h with
  | nil => intro r w hs; exact hs
  | cons e h ih => intro r w hs; exact ih _ _ (sound_ev hP mix hs e)

theorem sound_init (g : Graph V) (P : List Nat) {w : World V} {s0 : St V} (h0 : w.store 0 = some s0)
    (hb : w.bound = 0) : SoundRes g P s0 w.attrs Res.init w := by
  refine ⟨?_, hb.symm, fun _ => rfl⟩
  intro k a hk
  simp only [Res.init, AbsStore.get] at hk
  by_cases hk0 : 0 = k
  · subst hk0
    simp only [if_true, Option.some.injEq] at hk
    subst hk
    exact ⟨s0, h0, fun _ _ _ => rfl, by simp, by simp⟩
  · simp [hk0] at hk

/-! ### frame of a whole history -/

theorem stepEv_frame (g : Graph V) (mix : M → V → V → V) (w : World V) (e : Ev V M) (k : Nat)
    (h : e.addresses k = false) : (stepEv g mix w e).store k = w.store k := by
  cases e with
  | op o =>
    simp only [Ev.addresses, Bool.and_eq_false_imp, beq_iff_eq, Bool.not_eq_eq_eq_not, Bool.not_false] at h
    simp only [stepEv]
    cases o with
    | isSet sid i => simp only [step]; cases w.store sid <;> rfl
    | get sid i | set sid i v | put sid i t v | revert sid m | precompute sid | setMode sid m | clear sid =>
      have hne : k ≠ sid := by intro e; exact absurd (h (by simp [target, e])) (by simp [isNeutral])
      simp only [step]; cases w.store sid <;> simp [Store.put, hne]
    | clone src dst a b =>
      have hne : k ≠ dst := by intro e; exact absurd (h (by simp [target, e])) (by simp [isNeutral])
      simp only [step]; cases w.store src <;> simp [Store.put, hne]
  | havoc sid s' =>
    simp only [Ev.addresses, beq_eq_false_iff_ne, ne_eq] at h
    have : ¬ k = sid := fun e => h e.symm
    simp [stepEv, this]
  | shared a b i => rfl
  | bind sid => rfl
  | attr j v => rfl

theorem stepEv_model_frame (g : Graph V) (mix : M → V → V → V) (w : World V) (e : Ev V M)
    (h : e.modelLevel = false) : (stepEv g mix w e).bound = w.bound ∧ (stepEv g mix w e).attrs = w.attrs := by
  cases e <;> first | exact ⟨rfl, rfl⟩ | simp [Ev.modelLevel] at h

/-- what a read-only event on state `k` keeps -/
theorem stepEv_reads (g : Graph V) (mix : M → V → V → V) (w : World V) (e : Ev V M) (k : Nat) {s : St V}
    (hs : w.store k = some s) (h : e.readsOnly k = true) :
    ∃ s', (stepEv g mix w e).store k = some s' ∧ s'.fork = s.fork ∧ s'.mode = s.mode ∧
      ∀ j, (g.kind j ≠ .linked ∨ s.vals j ≠ none) → s'.vals j = s.vals j := by
  cases e with
  | op o =>
    cases o with
    | get sid i =>
      simp only [Ev.readsOnly, target, isRead, Bool.and_true, beq_iff_eq] at h
      subst h
      refine ⟨(State.get g s i).1, by simp [stepEv, step, hs, Store.put], ?_⟩
      exact get_frame g s i
    | precompute sid =>
      simp only [Ev.readsOnly, target, isRead, Bool.and_true, beq_iff_eq] at h
      subst h
      refine ⟨(precompute g s).1, by simp [stepEv, step, hs, Store.put], ?_⟩
      exact precompute_frame g s
    | isSet _ _ | set _ _ _ | put _ _ _ _ | revert _ _ | clone _ _ _ _ | setMode _ _ | clear _ =>
      simp [Ev.readsOnly, isRead] at h
  | havoc _ _ | shared _ _ _ | bind _ | attr _ _ => simp [Ev.readsOnly] at h

end LeaspyVerif.Footprint
