/-
Helper lemmas for the `NamedVariables` model (`Model/Specs.lean`), used by Props/C15 part 2.
-/
import LeaspyVerif.Model.Specs
import LeaspyVerif.Lemmas.Dag
import Mathlib.Data.List.Nodup

namespace LeaspyVerif.Specs

theorem has_iff {c : Coll} {n : String} : c.has n = true ↔ ∃ e ∈ c.entries, e.1 = n := by
  unfold Coll.has
  simp [List.any_eq_true]

/-- no name is defined twice, and no explicit entry carries an automatic name -/
def NoDup (c : Coll) : Prop :=
  (c.entries.map (·.1)).Nodup ∧ ∀ a ∈ automaticNames, c.has a = false

/-- every registered individual latent variable is defined, has its two regularity companions, and the first of them
    lists the variable among its dependencies -/
def Good (c : Coll) : Prop :=
  ∀ z ∈ c.indVars, c.has z = true ∧ (∃ m s, (regulIndName z, [z, m, s]) ∈ c.entries) ∧
    (regulName z, [regulIndName z]) ∈ c.entries

theorem refusedName_false {c : Coll} {n : String} (h : refusedName c n = false) :
    n ∉ forbiddenNames ∧ n ∉ automaticNames ∧ c.has n = false := by
  unfold refusedName at h
  simp only [Bool.or_eq_false_iff, List.contains_eq_mem, decide_eq_false_iff_not] at h
  exact ⟨h.1.1, h.1.2, h.2⟩

theorem noDup_push {c : Coll} {e : String × List String} (h : NoDup c) (hr : refusedName c e.1 = false) :
    NoDup (push c e) := by
  obtain ⟨_, ha, hh⟩ := refusedName_false hr
  constructor
  · show ((c.entries ++ [e]).map (·.1)).Nodup
    rw [List.map_append, List.nodup_append]
    refine ⟨h.1, by simp, ?_⟩
    intro a ha' b hb hab
    simp only [List.map_cons, List.map_nil, List.mem_singleton] at hb
    have : c.has e.1 = true := by
      rw [has_iff]
      obtain ⟨e', he', he'a⟩ := List.mem_map.1 ha'
      exact ⟨e', he', by rw [he'a, hab, hb]⟩
    rw [this] at hh
    cases hh
  · intro a haa
    have h1 := h.2 a haa
    cases hpa : (push c e).has a with
    | false => rfl
    | true =>
      rw [has_iff] at hpa
      obtain ⟨e', he', he'a⟩ := hpa
      have : e' ∈ c.entries ++ [e] := he'
      rw [List.mem_append, List.mem_singleton] at this
      rcases this with h2 | h2
      · have : c.has a = true := has_iff.2 ⟨e', h2, he'a⟩
        rw [this] at h1; cases h1
      · subst h2; subst he'a; exact absurd haa ha

theorem mem_push {c : Coll} {e x : String × List String} (h : x ∈ c.entries) : x ∈ (push c e).entries :=
  List.mem_append_left _ h

theorem has_push {c : Coll} {e : String × List String} {n : String} (h : c.has n = true) : (push c e).has n = true := by
  rw [has_iff] at h ⊢
  obtain ⟨x, hx, hn⟩ := h
  exact ⟨x, mem_push hx, hn⟩

/-- `Good` only speaks of membership: it survives any growth of the entries that keeps `indVars` -/
theorem good_mono {c c' : Coll} (h : Good c) (hi : c'.indVars = c.indVars)
    (hm : ∀ x ∈ c.entries, x ∈ c'.entries) : Good c' := by
  intro z hz
  rw [hi] at hz
  obtain ⟨h1, ⟨m, s, h2⟩, h3⟩ := h z hz
  refine ⟨?_, ⟨m, s, hm _ h2⟩, hm _ h3⟩
  rw [has_iff] at h1 ⊢
  obtain ⟨x, hx, hn⟩ := h1
  exact ⟨x, hm _ hx, hn⟩

/-- everything `addPlain` does -/
theorem addPlain_spec : ∀ (comps : List (String × List String)) (c : Coll), NoDup c →
    NoDup (addPlain c comps).1 ∧ (addPlain c comps).1.indVars = c.indVars ∧
    (∀ x ∈ c.entries, x ∈ (addPlain c comps).1.entries) ∧
    (c.entries <+: (addPlain c comps).1.entries) ∧
    ((addPlain c comps).2 = true → ∀ x ∈ comps, x ∈ (addPlain c comps).1.entries) := by
  intro comps
  induction comps with
  | nil => intro c h; exact ⟨h, rfl, fun _ hx => hx, List.prefix_refl _, fun _ _ hx => by cases hx⟩
  | cons e rest ih =>
    intro c h
    obtain ⟨n, deps⟩ := e
    unfold addPlain
    cases hr : refusedName c n with
    | true => simp only [if_true]; exact ⟨h, by trivial, fun _ hx => hx, List.prefix_refl _, fun hf => by cases hf⟩
    | false =>
      simp only [Bool.false_eq_true, if_false]
      have hp : NoDup (push c (n, deps)) := noDup_push h hr
      obtain ⟨a1, a2, a3, a4, a5⟩ := ih (push c (n, deps)) hp
      refine ⟨a1, a2, fun x hx => a3 x (mem_push hx), ?_, ?_⟩
      · exact (List.prefix_append c.entries [(n, deps)]).trans a4
      · intro hok x hx
        rcases List.mem_cons.1 hx with rfl | hx
        · exact a3 _ (by show (n, deps) ∈ c.entries ++ [(n, deps)]; simp)
        · exact a5 hok x hx

theorem register_entries (c : Coll) (name : String) (d : Def) : (register c name d).entries = c.entries := by
  cases d <;> rfl

theorem mem_register_indVars {c : Coll} {name : String} {d : Def} {z : String} :
    z ∈ (register c name d).indVars ↔ z ∈ c.indVars ∨ (z = name ∧ ∃ m s, d = .ind m s) := by
  cases d with
  | ind m s =>
    show z ∈ (if c.indVars.contains name then c.indVars else c.indVars ++ [name]) ↔ _
    by_cases hc : c.indVars.contains name = true
    · simp only [hc, if_true]
      constructor
      · exact Or.inl
      · rintro (h | ⟨rfl, _⟩)
        · exact h
        · simpa using hc
    · simp only [hc, Bool.false_eq_true, if_false, List.mem_append, List.mem_singleton]
      constructor
      · rintro (h | h)
        · exact Or.inl h
        · exact Or.inr ⟨h, m, s, rfl⟩
      · rintro (h | ⟨h, _⟩)
        · exact Or.inl h
        · exact Or.inr h
  | plain => show z ∈ c.indVars ↔ _; simp
  | link deps => show z ∈ c.indVars ↔ _; simp
  | pop m s => show z ∈ c.indVars ↔ _; simp
  | param ded => show z ∈ c.indVars ↔ _; simp

/-- everything `setItem` does, whatever the outcome -/
theorem setItem_spec (c : Coll) (name : String) (d : Def) (h : NoDup c) (hg : Good c) :
    NoDup (setItem c name d).1 ∧ Good (setItem c name d).1 ∧
    (c.entries <+: (setItem c name d).1.entries) ∧
    (∀ z ∈ c.indVars, z ∈ (setItem c name d).1.indVars) ∧
    (refusedName c name = true → setItem c name d = (c, false)) := by
  unfold setItem
  cases hr : refusedName c name with
  | true =>
    simp only [if_true]
    exact ⟨h, hg, List.prefix_refl _, fun _ hz => hz, fun _ => by trivial⟩
  | false =>
    simp only [Bool.false_eq_true, if_false]
    have hp : NoDup (push c (name, ownDeps d)) := noDup_push h hr
    obtain ⟨a1, a2, a3, a4, a5⟩ := addPlain_spec (companions name d) (push c (name, ownDeps d)) hp
    generalize addPlain (push c (name, ownDeps d)) (companions name d) = r at a1 a2 a3 a4 a5 ⊢
    have hpre : c.entries <+: r.1.entries := (List.prefix_append c.entries [(name, ownDeps d)]).trans a4
    have hmem : ∀ x ∈ c.entries, x ∈ r.1.entries := fun x hx => a3 x (mem_push hx)
    have a2' : r.1.indVars = c.indVars := a2
    have hgood : Good r.1 := good_mono hg a2' hmem
    have hself : (name, ownDeps d) ∈ r.1.entries :=
      a3 _ (by show (name, ownDeps d) ∈ c.entries ++ [(name, ownDeps d)]; simp)
    cases hok : r.2 with
    | false =>
      simp only [Bool.false_eq_true, if_false]
      exact ⟨a1, hgood, hpre, fun z hz => by rw [a2']; exact hz, fun hf => by cases hf⟩
    | true =>
      simp only [if_true]
      have hc := a5 hok
      refine ⟨?_, ?_, ?_, ?_, fun hf => by cases hf⟩
      · constructor
        · rw [register_entries]; exact a1.1
        · intro a haa
          have := a1.2 a haa
          unfold Coll.has at this ⊢
          rw [register_entries]; exact this
      · intro z hz
        have hmono : Good r.1 → ∀ z ∈ r.1.indVars,
            (register r.1 name d).has z = true ∧ (∃ m s, (regulIndName z, [z, m, s]) ∈ (register r.1 name d).entries) ∧
            (regulName z, [regulIndName z]) ∈ (register r.1 name d).entries := by
          intro hg' z hz
          have := hg' z hz
          unfold Coll.has at this ⊢
          rw [register_entries]; exact this
        rcases mem_register_indVars.1 hz with hz' | ⟨rfl, m, s, rfl⟩
        · exact hmono hgood z hz'
        · unfold Coll.has
          rw [register_entries]
          refine ⟨?_, ⟨m, s, hc _ (by simp [companions])⟩, hc _ (by simp [companions])⟩
          exact has_iff.2 ⟨_, hself, rfl⟩
      · rw [register_entries]; exact hpre
      · intro z hz
        rw [← a2'] at hz
        exact mem_register_indVars.2 (Or.inl hz)

theorem addAll_spec : ∀ (items : List (String × Def)) (c : Coll), NoDup c → Good c →
    NoDup (addAll c items).1 ∧ Good (addAll c items).1 ∧ (c.entries <+: (addAll c items).1.entries) := by
  intro items
  induction items with
  | nil => intro c h hg; exact ⟨h, hg, List.prefix_refl _⟩
  | cons it rest ih =>
    intro c h hg
    obtain ⟨n, d⟩ := it
    obtain ⟨s1, s2, s3, _, _⟩ := setItem_spec c n d h hg
    unfold addAll
    cases hres : setItem c n d with
    | mk c' ok =>
      rw [hres] at s1 s2 s3
      cases ok with
      | false => exact ⟨s1, s2, s3⟩
      | true =>
        obtain ⟨b1, b2, b3⟩ := ih c' s1 s2
        exact ⟨b1, b2, s3.trans b3⟩

theorem mem_insertSorted {x a : String} : ∀ {l : List String}, x ∈ insertSorted a l ↔ x = a ∨ x ∈ l := by
  intro l
  induction l with
  | nil => simp [insertSorted]
  | cons y ys ih =>
    unfold insertSorted
    by_cases h1 : a < y
    · simp [h1]
    · by_cases h2 : a = y
      · subst h2; simp [h1]
      · simp only [h1, h2, if_false, List.mem_cons, ih]
        constructor
        · rintro (h | h | h)
          · exact Or.inr (Or.inl h)
          · exact Or.inl h
          · exact Or.inr (Or.inr h)
        · rintro (h | h | h)
          · exact Or.inr (Or.inl h)
          · exact Or.inl h
          · exact Or.inr (Or.inr h)

theorem mem_sortNames {x : String} : ∀ {l : List String}, x ∈ sortNames l ↔ x ∈ l := by
  intro l
  induction l with
  | nil => simp [sortNames]
  | cons y ys ih =>
    show x ∈ insertSorted y (sortNames ys) ↔ _
    rw [mem_insertSorted, ih, List.mem_cons]

/-! ### from the definitions to the ranked graph -/

theorem find_of_nodup_keys {defs : List (String × List String)} (hnd : (defs.map (·.1)).Nodup)
    {name : String} {deps : List String} (hm : (name, deps) ∈ defs) :
    defs.find? (fun e => e.1 == name) = some (name, deps) := by
  cases hf : defs.find? (fun e => e.1 == name) with
  | none =>
    rw [List.find?_eq_none] at hf
    have := hf _ hm
    simp at this
  | some e =>
    have he := List.find?_some hf
    have hmem := List.mem_of_find?_eq_some hf
    simp only [beq_iff_eq] at he
    have := List.inj_on_of_nodup_map hnd hmem hm (by simpa using he)
    rw [this]

/-- a definition's dependency that is itself defined gives an edge of the ranked graph -/
theorem graphOf_edge {defs : List (String × List String)} (hnd : (defs.map (·.1)).Nodup)
    {name a : String} {deps : List String} (hm : (name, deps) ∈ defs) (ha : a ∈ deps) :
    Dag.Edge (graphOf defs) ((rankedNames defs).idxOf a) ((rankedNames defs).idxOf name) := by
  have hname : name ∈ rankedNames defs := mem_sortNames.2 (List.mem_map.2 ⟨_, hm, rfl⟩)
  have hlt : (rankedNames defs).idxOf name < (rankedNames defs).length := List.idxOf_lt_length_iff.2 hname
  refine ⟨hlt, ?_⟩
  show _ ∈ (match (rankedNames defs)[(rankedNames defs).idxOf name]? with
    | none => []
    | some nm => match defs.find? (fun (e : String × List String) => e.1 == nm) with
      | some e => e.2.map (fun a => (rankedNames defs).idxOf a)
      | none => [])
  rw [List.getElem?_eq_getElem hlt, List.getElem_idxOf hlt]
  simp only [find_of_nodup_keys hnd hm]
  exact List.mem_map.2 ⟨a, ha, rfl⟩

theorem definitions_keys (c : Coll) : (definitions c).map (·.1) = keys c := by
  unfold definitions keys autoDefs automaticNames
  simp

end LeaspyVerif.Specs
