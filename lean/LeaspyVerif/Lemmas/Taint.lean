/-
Lemmas for the positional taint analysis (`Model/Taint.lean`): the gather semantics is natural in the element type and
preserves element-wise predicates; the abstract element function is sound with respect to two concrete runs.  The three
runs (two concrete, one abstract) are obtained as projections of one *joint* run over triples.  Used by `Props/C06.lean`.
-/
import LeaspyVerif.Model.Taint

namespace LeaspyVerif.Taint
open LeaspyVerif.Trace

variable {α β γ : Type}

/-! ### naturality -/

theorem operands_map (h : β → γ) (env : List (List β)) (d : List (Nat × Nat)) :
    (operands env d).map h = operands (env.map (List.map h)) d := by
  unfold operands
  induction d with
  | nil => rfl
  | cons aq r ih =>
    obtain ⟨a, q⟩ := aq
    simp only [List.filterMap_cons, List.getElem?_map]
    cases env[a]? with
    | none => simpa using ih
    | some l =>
      simp only [Option.map_some, Option.bind_some, List.getElem?_map]
      cases l[q]? with
      | none => simpa using ih
      | some x => simpa using ih

theorem evalNode_map (h : β → γ) (eb : GOp → List β → β) (eg : GOp → List γ → γ) (cb : α → β) (cg : α → γ)
    (he : ∀ g xs, h (eb g xs) = eg g (xs.map h)) (hc : ∀ v, h (cb v) = cg v)
    (inp : Nat → List β) (env : List (List β)) (nd : GNode α) :
    (evalNode eb cb inp env nd).map h = evalNode eg cg (fun k => (inp k).map h) (env.map (List.map h)) nd := by
  cases nd with
  | input k => rfl
  | const data => simp [evalNode, hc]
  | gather g deps =>
    simp only [evalNode, List.map_map]
    apply List.map_congr_left
    intro d _
    simp only [Function.comp, he, operands_map]

theorem runG_map (h : β → γ) (eb : GOp → List β → β) (eg : GOp → List γ → γ) (cb : α → β) (cg : α → γ)
    (he : ∀ g xs, h (eb g xs) = eg g (xs.map h)) (hc : ∀ v, h (cb v) = cg v)
    (inp : Nat → List β) (nodes : List (GNode α)) : ∀ env : List (List β),
    (runG eb cb inp nodes env).map (List.map h) = runG eg cg (fun k => (inp k).map h) nodes (env.map (List.map h)) := by
  induction nodes with
  | nil => intro env; rfl
  | cons nd rest ih =>
    intro env
    simp only [runG]
    rw [ih]
    simp only [List.map_append, List.map_cons, List.map_nil, evalNode_map h eb eg cb cg he hc]

theorem evalG_map (h : β → γ) (eb : GOp → List β → β) (eg : GOp → List γ → γ) (cb : α → β) (cg : α → γ)
    (he : ∀ g xs, h (eb g xs) = eg g (xs.map h)) (hc : ∀ v, h (cb v) = cg v)
    (inp : Nat → List β) (nodes : List (GNode α)) :
    (evalG eb cb inp nodes).map (List.map h) = evalG eg cg (fun k => (inp k).map h) nodes := by
  simpa [evalG] using runG_map h eb eg cb cg he hc inp nodes []

theorem cell_map (h : β → γ) (env : List (List β)) (o q : Nat) :
    cell (env.map (List.map h)) o q = (cell env o q).map h := by
  unfold cell
  simp only [List.getElem?_map]
  cases env[o]? with
  | none => rfl
  | some l => simp [List.getElem?_map]

/-! ### element-wise predicates -/

def AllCells (P : β → Prop) (env : List (List β)) : Prop := ∀ l ∈ env, ∀ x ∈ l, P x

theorem operands_all (P : β → Prop) (env : List (List β)) (henv : AllCells P env) (d : List (Nat × Nat)) :
    ∀ x ∈ operands env d, P x := by
  intro x hx
  unfold operands at hx
  obtain ⟨⟨a, q⟩, _, hq⟩ := List.mem_filterMap.mp hx
  cases hl : env[a]? with
  | none => simp [hl] at hq
  | some l =>
    simp only [hl, Option.bind_some] at hq
    exact henv l (List.mem_of_getElem? hl) x (List.mem_of_getElem? hq)

theorem runG_all (P : β → Prop) (eb : GOp → List β → β) (cb : α → β)
    (he : ∀ g xs, (∀ x ∈ xs, P x) → P (eb g xs)) (hc : ∀ v, P (cb v))
    (inp : Nat → List β) (hin : ∀ k, ∀ x ∈ inp k, P x) (nodes : List (GNode α)) :
    ∀ env : List (List β), AllCells P env → AllCells P (runG eb cb inp nodes env) := by
  induction nodes with
  | nil => intro env h; exact h
  | cons nd rest ih =>
    intro env henv
    apply ih
    intro l hl
    rcases List.mem_append.mp hl with h | h
    · exact henv l h
    · simp only [List.mem_singleton] at h
      subst h
      cases nd with
      | input k => exact hin k
      | const data =>
        intro x hx
        obtain ⟨v, _, rfl⟩ := List.mem_map.mp hx
        exact hc v
      | gather g deps =>
        intro x hx
        obtain ⟨d, _, rfl⟩ := List.mem_map.mp hx
        exact he g _ (operands_all P env henv d)

/-! ### the joint run -/

/-- two concrete values and an abstract one -/
abbrev Joint (α : Type) := α × α × AVal α

def p1 (t : Joint α) : α := t.1
def p2 (t : Joint α) : α := t.2.1
def p3 (t : Joint α) : AVal α := t.2.2

/-- what an abstract value promises about the two concrete ones -/
def Good (t : Joint α) : Prop :=
  match t.2.2 with
  | .known v => t.1 = v ∧ t.2.1 = v
  | .clean => t.1 = t.2.1
  | .dirty => True

def eltJ (O : Ops α) (g : GOp) (ts : List (Joint α)) : Joint α :=
  (elt O g (ts.map p1), elt O g (ts.map p2), eltA O g (ts.map p3))

def cstJ (v : α) : Joint α := (v, v, .known v)

theorem allKnown_good : ∀ (ts : List (Joint α)) (vs : List α), (∀ t ∈ ts, Good t) → allKnown (ts.map p3) = some vs →
    ts.map p1 = vs ∧ ts.map p2 = vs := by
  intro ts
  induction ts with
  | nil => intro vs _ h; simp [allKnown] at h; subst h; simp
  | cons t r ih =>
    intro vs hg h
    obtain ⟨a, b, c⟩ := t
    cases c with
    | known v =>
      simp only [List.map_cons, p3, allKnown] at h
      cases hr : allKnown (r.map p3) with
      | none => simp [p3, hr] at h
      | some ws =>
        simp only [p3, hr, Option.map_some, Option.some.injEq] at h
        subst h
        have hgt : Good (a, b, AVal.known v) := hg _ (List.mem_cons_self)
        obtain ⟨e1, e2⟩ := hgt
        obtain ⟨i1, i2⟩ := ih ws (fun t ht => hg t (List.mem_cons_of_mem _ ht)) hr
        simp only [List.map_cons, p1, p2] at *
        simp_all
    | clean => simp [p3, allKnown] at h
    | dirty => simp [p3, allKnown] at h

theorem noDirty_good : ∀ (ts : List (Joint α)), (∀ t ∈ ts, Good t) → (ts.map p3).any AVal.isDirty = false →
    ts.map p1 = ts.map p2 := by
  intro ts
  induction ts with
  | nil => intro _ _; rfl
  | cons t r ih =>
    intro hg h
    obtain ⟨a, b, c⟩ := t
    simp only [List.map_cons, List.any_cons, Bool.or_eq_false_iff, p3] at h
    have hgt : Good (a, b, c) := hg _ (List.mem_cons_self)
    have hr := ih (fun t ht => hg t (List.mem_cons_of_mem _ ht)) h.2
    simp only [List.map_cons, p1, p2] at *
    cases c with
    | known v => obtain ⟨e1, e2⟩ := hgt; simp_all
    | clean => simp only [Good] at hgt; simp_all
    | dirty => simp [AVal.isDirty] at h

theorem eltGen_good (O : Ops α) (g : GOp) (ts : List (Joint α)) (hg : ∀ t ∈ ts, Good t) :
    Good (elt O g (ts.map p1), elt O g (ts.map p2), eltGen O g (ts.map p3)) := by
  unfold eltGen
  cases hk : allKnown (ts.map p3) with
  | some vs =>
    obtain ⟨e1, e2⟩ := allKnown_good ts vs hg hk
    simp only [Good, e1, e2, and_self]
  | none =>
    simp only
    cases hd : (ts.map p3).any AVal.isDirty with
    | true => simp [Good]
    | false =>
      have := noDirty_good ts hg hd
      simp [Good, this]

theorem whereKnown_some (O : Ops α) (xs : List (AVal α)) (a : AVal α) (h : whereKnown O xs = some a) :
    ∃ c y z, xs = [.known c, y, z] ∧ a = (if O.eq c O.zero then z else y) := by
  unfold whereKnown at h
  split at h
  · rename_i c y z
    exact ⟨c, y, z, rfl, (Option.some.inj h).symm⟩
  · cases h

/-- soundness of the abstract element function -/
theorem eltJ_good (O : Ops α) (g : GOp) (ts : List (Joint α)) (hg : ∀ t ∈ ts, Good t) : Good (eltJ O g ts) := by
  unfold eltJ eltA
  by_cases hw : g = .ew .where_
  · subst hw
    simp only [if_true]
    cases hk : whereKnown O (ts.map p3) with
    | none => exact eltGen_good O _ ts hg
    | some a =>
      obtain ⟨c, ya, za, hxs, ha⟩ := whereKnown_some O _ a hk
      subst ha
      obtain ⟨t0, r0, rfl, h0e, hr0⟩ := List.map_eq_cons_iff.mp hxs
      obtain ⟨t1, r1, rfl, h1e, hr1⟩ := List.map_eq_cons_iff.mp hr0
      obtain ⟨t2, r2, rfl, h2e, hr2⟩ := List.map_eq_cons_iff.mp hr1
      have hnil : r2 = [] := List.map_eq_nil_iff.mp hr2
      subst hnil
      obtain ⟨c1, c2, ca⟩ := t0
      obtain ⟨y1, y2, ya0⟩ := t1
      obtain ⟨z1, z2, za0⟩ := t2
      simp only [p3] at h0e h1e h2e
      subst h0e
      subst h1e
      subst h2e
      have h0 : Good (c1, c2, AVal.known c) := hg _ (by simp)
      have h1 : Good (y1, y2, ya0) := hg _ (by simp)
      have h2 : Good (z1, z2, za0) := hg _ (by simp)
      obtain ⟨e1, e2⟩ := h0
      simp only at e1 e2
      simp only [List.map_cons, List.map_nil, p1, p2, elt, ewApply, List.getD_cons_zero, List.getD_cons_succ]
      rw [e1, e2]
      by_cases hz : O.eq c O.zero
      · simpa [hz] using h2
      · simpa [hz] using h1
  · simp only [hw, if_false]
    exact eltGen_good O g ts hg

end LeaspyVerif.Taint
