/-
Helper lemmas about `Model/Scalings.lean` used by Props/C17.lean.
(Helper lemmas only: property theorems are in the Props file.)

The structure of the argument: on well-shaped inputs
  `scaling s x   = ok (zipWith stdz   (flat x) (params s))`
  `unscaling s v = ok (unstack s (zipWith unstdz v (params s)))`
i.e. both are a coordinate-wise affine map on the concatenated vector, composed with the bijection
`flat` / `unstack s` between well-shaped points and vectors of length `length s`.
-/
import LeaspyVerif.Model.Scalings
import Mathlib.Algebra.Field.Basic
import Mathlib.Tactic.FieldSimp
import Mathlib.Tactic.Ring

namespace LeaspyVerif.Scalings

variable {α : Type}

/-! ### slices -/

theorem slicesFrom_names (s : Scalings α) : ∀ off, (slicesFrom off s).map (·.1) = names s := by
  induction s with
  | nil => intro off; rfl
  | cons sc r ih =>
    intro off
    have := ih (off + dim sc)
    simp only [names] at this
    simp [slicesFrom, names, this]

theorem slicesFrom_length (s : Scalings α) : ∀ off, (slicesFrom off s).length = s.length := by
  induction s with
  | nil => intro off; rfl
  | cons sc r ih => intro off; simp [slicesFrom, ih]

theorem slicesFrom_widths (s : Scalings α) :
    ∀ off, (slicesFrom off s).map (fun t => t.2.2 - t.2.1) = dims s := by
  induction s with
  | nil => intro off; rfl
  | cons sc r ih =>
    intro off
    have := ih (off + dim sc)
    simp only [dims] at this
    simp [slicesFrom, dims, this]

theorem slicesFrom_partition (s : Scalings α) :
    ∀ off, (slicesFrom off s).flatMap (fun t => List.range' t.2.1 (t.2.2 - t.2.1))
      = List.range' off (dims s).sum := by
  induction s with
  | nil => intro off; simp [slicesFrom, dims]
  | cons sc r ih =>
    intro off
    simp only [slicesFrom, List.flatMap_cons, ih (off + dim sc), dims, List.map_cons, List.sum_cons]
    rw [Nat.add_sub_cancel_left, List.range'_append_1]

theorem slicesFrom_getElem? (s : Scalings α) :
    ∀ (off i : Nat), (slicesFrom off s)[i]? =
      s[i]?.map (fun sc => (sc.name, off + ((dims s).take i).sum, off + ((dims s).take (i + 1)).sum)) := by
  induction s with
  | nil => intro off i; simp [slicesFrom]
  | cons sc r ih =>
    intro off i
    cases i with
    | zero => simp [slicesFrom, dims]
    | succ i =>
      simp only [slicesFrom, List.getElem?_cons_succ, ih (off + dim sc) i, dims, List.map_cons, List.take_succ_cons,
        List.sum_cons]
      cases r[i]? with
      | none => rfl
      | some sc' => simp [Nat.add_assoc]

/-! ### shaped points -/

theorem shaped_flat_length : ∀ (s : Scalings α) (x : Point α), Shaped s x → (flat x).length = length s
  | [], [], _ => rfl
  | [], _ :: _, h => h.elim
  | _ :: _, [], h => h.elim
  | sc :: s, kv :: x, h => by
    have ih := shaped_flat_length s x h.2.2
    simp only [flat, length, dims, dim, List.map_cons, List.flatten_cons, List.length_append, List.sum_cons] at ih ⊢
    rw [ih, h.2.1]

theorem shaped_names : ∀ (s : Scalings α) (x : Point α), Shaped s x → x.map (·.1) = names s
  | [], [], _ => rfl
  | [], _ :: _, h => h.elim
  | _ :: _, [], h => h.elim
  | sc :: s, kv :: x, h => by
    have ih := shaped_names s x h.2.2
    simp only [names] at ih
    simp [names, h.1, ih]

theorem params_length (s : Scalings α) (hv : Valid s) : (params s).length = length s := by
  induction s with
  | nil => rfl
  | cons sc r ih =>
    have h1 : sc.loc.length = sc.scale.length := hv sc List.mem_cons_self
    have ih' := ih (fun t ht => hv t (List.mem_cons_of_mem _ ht))
    simp only [params, length, dims, dim, List.map_cons, List.flatten_cons, List.length_append, List.length_zip,
      List.sum_cons] at ih' ⊢
    rw [ih', ← h1, Nat.min_self]

theorem lookup_of_mem_nodup {β : Type} (x : List (String × β)) (hn : (x.map (·.1)).Nodup) :
    ∀ kv ∈ x, x.lookup kv.1 = some kv.2 := by
  induction x with
  | nil => intro kv hk; simp at hk
  | cons a x ih =>
    intro kv hk
    obtain ⟨ak, av⟩ := a
    obtain ⟨k, v⟩ := kv
    simp only [List.map_cons, List.nodup_cons] at hn
    rw [List.lookup_cons]
    rcases List.mem_cons.mp hk with e | hk'
    · cases e; simp
    · have hne : k ≠ ak := by
        intro e; apply hn.1; rw [← e]; exact List.mem_map_of_mem (f := (·.1)) hk'
      have : (k == ak) = false := by simpa using hne
      simp only [this]
      exact ih hn.2 (k, v) hk'

/-! ### stack -/

theorem stackGo_of_lookup (x : Point α) :
    ∀ (r : Scalings α) (xr : Point α), Shaped r xr → (∀ kv ∈ xr, x.lookup kv.1 = some kv.2) →
      stackGo x r = .ok (flat xr)
  | [], [], _, _ => rfl
  | [], _ :: _, h, _ => h.elim
  | _ :: _, [], h, _ => h.elim
  | sc :: r, kv :: xr, h, hl => by
    have ih := stackGo_of_lookup x r xr h.2.2 (fun t ht => hl t (List.mem_cons_of_mem _ ht))
    have h0 := hl kv List.mem_cons_self
    rw [h.1] at h0
    simp [stackGo, h0, ih, flat]

theorem stackGo_error_key (x : Point α) (r : Scalings α) (e : Err) (h : stackGo x r = .error e) : e = .key := by
  induction r with
  | nil => simp [stackGo] at h
  | cons sc r ih =>
    simp only [stackGo] at h
    cases hl : x.lookup sc.name with
    | none => rw [hl] at h; cases h; rfl
    | some v =>
      rw [hl] at h
      cases hr : stackGo x r with
      | error e' => rw [hr] at h; cases h; exact ih hr
      | ok w => rw [hr] at h; cases h

theorem stackGo_missing (x : Point α) (r : Scalings α) (h : ∃ sc ∈ r, x.lookup sc.name = none) :
    stackGo x r = .error .key := by
  induction r with
  | nil => obtain ⟨sc, hm, _⟩ := h; simp at hm
  | cons sc r ih =>
    simp only [stackGo]
    cases hl : x.lookup sc.name with
    | none => rfl
    | some v =>
      obtain ⟨sc', hm, hn⟩ := h
      rcases List.mem_cons.mp hm with e | hm'
      · subst e; rw [hl] at hn; cases hn
      · simp [ih ⟨sc', hm', hn⟩]

theorem stackGo_congr (x y : Point α) (r : Scalings α) (h : ∀ sc ∈ r, x.lookup sc.name = y.lookup sc.name) :
    stackGo x r = stackGo y r := by
  induction r with
  | nil => rfl
  | cons sc r ih =>
    simp only [stackGo, h sc List.mem_cons_self, ih (fun t ht => h t (List.mem_cons_of_mem _ ht))]

/-! ### slicing a concatenation -/

theorem slice_append_left {β : Type} (P A B : List β) (off : Nat) (hP : P.length = off) :
    slice off (off + A.length) (P ++ (A ++ B)) = A := by
  subst hP
  simp [slice]

/-- unstacking the concatenation of a shaped point (preceded by `off` other entries) gives the point back -/
theorem unstackFrom_flat :
    ∀ (r : Scalings α) (xr : Point α) (P : List α) (off : Nat), Shaped r xr → P.length = off →
      (slicesFrom off r).map (fun t => (t.1, slice t.2.1 t.2.2 (P ++ flat xr))) = xr
  | [], [], _, _, _, _ => rfl
  | [], _ :: _, _, _, h, _ => h.elim
  | _ :: _, [], _, _, h, _ => h.elim
  | sc :: r, kv :: xr, P, off, h, hP => by
    have hf : flat (kv :: xr) = kv.2 ++ flat xr := rfl
    have ih := unstackFrom_flat r xr (P ++ kv.2) (off + dim sc) h.2.2 (by simp [hP, dim, h.2.1])
    simp only [slicesFrom, List.map_cons, hf]
    rw [show dim sc = kv.2.length from h.2.1.symm, slice_append_left P kv.2 (flat xr) off hP]
    rw [show dim sc = kv.2.length from h.2.1.symm, List.append_assoc] at ih
    rw [ih, ← h.1]

/-- the pieces cut out of a long enough vector are shaped and concatenate to the vector -/
theorem unstackFrom_shaped :
    ∀ (r : Scalings α) (P R : List α) (off : Nat), P.length = off → R.length = (dims r).sum →
      Shaped r ((slicesFrom off r).map (fun t => (t.1, slice t.2.1 t.2.2 (P ++ R)))) ∧
      flat ((slicesFrom off r).map (fun t => (t.1, slice t.2.1 t.2.2 (P ++ R)))) = R
  | [], P, R, off, _, hR => by
    simp only [dims, List.map_nil, List.sum_nil, List.length_eq_zero_iff] at hR
    subst hR
    exact ⟨trivial, rfl⟩
  | sc :: r, P, R, off, hP, hR => by
    simp only [dims, List.map_cons, List.sum_cons] at hR
    have hsplit : R = R.take (dim sc) ++ R.drop (dim sc) := (List.take_append_drop _ _).symm
    have hA : (R.take (dim sc)).length = dim sc := by simp; omega
    have hB : (R.drop (dim sc)).length = (dims r).sum := by simp [dims]; omega
    obtain ⟨ih1, ih2⟩ := unstackFrom_shaped r (P ++ R.take (dim sc)) (R.drop (dim sc)) (off + dim sc)
      (by simp [hP]; omega) hB
    have hPR : P ++ R = P ++ R.take (dim sc) ++ R.drop (dim sc) := by
      rw [List.append_assoc, List.take_append_drop]
    have hhead : slice off (off + dim sc) (P ++ R) = R.take (dim sc) := by
      have := slice_append_left P (R.take (dim sc)) (R.drop (dim sc)) off hP
      rw [hA, List.take_append_drop] at this
      exact this
    simp only [slicesFrom, List.map_cons]
    rw [hhead]
    rw [← hPR] at ih1 ih2
    refine ⟨⟨rfl, hA, ih1⟩, ?_⟩
    show R.take (dim sc) ++ flat _ = R
    rw [ih2, List.take_append_drop]

/-! ### broadcasting on equal lengths -/

theorem bcast_eq_len (op : α → α → α) (xs ys : List α) (h : xs.length = ys.length) :
    bcast op xs ys = .ok (List.zipWith op xs ys) := by
  simp [bcast, h]

theorem zipWith_stdz [Sub α] [Div α] : ∀ (A L S : List α),
    List.zipWith (· / ·) (List.zipWith (· - ·) A L) S = List.zipWith stdz A (L.zip S)
  | [], _, _ => by simp
  | _ :: _, [], _ => by simp
  | _ :: _, _ :: _, [] => by simp
  | a :: A, l :: L, s :: S => by simp [zipWith_stdz A L S, stdz]

theorem zipWith_unstdz [Add α] [Mul α] : ∀ (A L S : List α),
    List.zipWith (· + ·) L (List.zipWith (· * ·) S A) = List.zipWith unstdz A (L.zip S)
  | [], _, _ => by simp
  | _ :: _, [], _ => by simp
  | _ :: _, _ :: _, [] => by simp
  | a :: A, l :: L, s :: S => by simp [zipWith_unstdz A L S, unstdz]

theorem scaleOne_eq [Sub α] [Div α] (sc : Scaling α) (piece : List α)
    (h1 : piece.length = sc.loc.length) (h2 : sc.loc.length = sc.scale.length) :
    scaleOne sc piece = .ok (List.zipWith stdz piece (sc.loc.zip sc.scale)) := by
  have e : (List.zipWith (· - ·) piece sc.loc).length = sc.scale.length := by simp [h1, h2]
  simp only [scaleOne, bcast_eq_len _ _ _ h1, bcast_eq_len _ _ _ e]
  congr 1
  exact zipWith_stdz piece sc.loc sc.scale

theorem unscaleOne_eq [Add α] [Mul α] (sc : Scaling α) (piece : List α)
    (h1 : piece.length = sc.loc.length) (h2 : sc.loc.length = sc.scale.length) :
    unscaleOne sc piece = .ok (List.zipWith unstdz piece (sc.loc.zip sc.scale)) := by
  have e0 : sc.scale.length = piece.length := by omega
  have e : sc.loc.length = (List.zipWith (· * ·) sc.scale piece).length := by simp [h1, h2]
  simp only [unscaleOne, bcast_eq_len _ _ _ e0, bcast_eq_len _ _ _ e]
  congr 1
  exact zipWith_unstdz piece sc.loc sc.scale

/-! ### the concatenation of the per-variable pieces is a coordinate-wise map -/

/-- generic: `f` acts on a piece of the right length as the coordinate-wise `g` -/
theorem catParts_flat (f : Scaling α → List α → Except Err (List α)) (g : α → α × α → α)
    (hf : ∀ (sc : Scaling α) (piece : List α), piece.length = sc.loc.length → sc.loc.length = sc.scale.length →
      f sc piece = .ok (List.zipWith g piece (sc.loc.zip sc.scale))) :
    ∀ (r : Scalings α) (P R : List α) (off : Nat), Valid r → P.length = off → R.length = (dims r).sum →
      catParts f (P ++ R) (r.zip (slicesFrom off r)) = .ok (List.zipWith g R (params r))
  | [], P, R, off, _, _, hR => by
    simp only [dims, List.map_nil, List.sum_nil, List.length_eq_zero_iff] at hR
    subst hR
    simp [catParts, slicesFrom, params]
  | sc :: r, P, R, off, hv, hP, hR => by
    simp only [dims, List.map_cons, List.sum_cons] at hR
    have hA : (R.take (dim sc)).length = dim sc := by simp; omega
    have hB : (R.drop (dim sc)).length = (dims r).sum := by simp [dims]; omega
    have hvr : Valid r := fun t ht => hv t (List.mem_cons_of_mem _ ht)
    have hsc : sc.loc.length = sc.scale.length := hv sc List.mem_cons_self
    have ih := catParts_flat f g hf r (P ++ R.take (dim sc)) (R.drop (dim sc)) (off + dim sc) hvr
      (by simp [hP]; omega) hB
    have hPR : P ++ R = P ++ R.take (dim sc) ++ R.drop (dim sc) := by
      rw [List.append_assoc, List.take_append_drop]
    have hhead : slice off (off + dim sc) (P ++ R) = R.take (dim sc) := by
      have := slice_append_left P (R.take (dim sc)) (R.drop (dim sc)) off hP
      rw [hA, List.take_append_drop] at this
      exact this
    rw [← hPR] at ih
    simp only [slicesFrom, List.zip_cons_cons, catParts, hhead, hf sc (R.take (dim sc)) hA hsc, ih]
    congr 1
    have hz : (sc.loc.zip sc.scale).length = (R.take (dim sc)).length := by
      rw [hA]; simp [dim, ← hsc]
    have hp : params (sc :: r) = sc.loc.zip sc.scale ++ params r := rfl
    rw [hp]
    conv_rhs => rw [← List.take_append_drop (dim sc) R]
    exact (List.zipWith_append (h := hz.symm)).symm

theorem cat_flat (f : Scaling α → List α → Except Err (List α)) (g : α → α × α → α)
    (hf : ∀ (sc : Scaling α) (piece : List α), piece.length = sc.loc.length → sc.loc.length = sc.scale.length →
      f sc piece = .ok (List.zipWith g piece (sc.loc.zip sc.scale)))
    (s : Scalings α) (hne : s ≠ []) (hv : Valid s) (v : List α) (hl : v.length = length s) :
    cat s f v = .ok (List.zipWith g v (params s)) := by
  have h := catParts_flat f g hf s [] v 0 hv rfl hl
  simp only [List.nil_append] at h
  have he : s.isEmpty = false := by cases s with
    | nil => exact absurd rfl hne
    | cons _ _ => rfl
  simp [cat, slices, h, he]

/-! ### the coordinate-wise maps are inverse of each other (field algebra) -/

theorem zipWith_unstdz_stdz [Field α] : ∀ (X : List α) (ps : List (α × α)), (∀ p ∈ ps, p.2 ≠ 0) → X.length = ps.length →
    List.zipWith unstdz (List.zipWith stdz X ps) ps = X
  | [], _, _, _ => by simp
  | _ :: _, [], _, h => by simp at h
  | x :: X, p :: ps, hnz, h => by
    have h0 : p.2 ≠ 0 := hnz p List.mem_cons_self
    have ih := zipWith_unstdz_stdz X ps (fun q hq => hnz q (List.mem_cons_of_mem _ hq)) (by simpa using h)
    simp only [List.zipWith_cons_cons, ih, List.cons.injEq, and_true]
    simp only [unstdz, stdz]
    field_simp
    ring

theorem zipWith_stdz_unstdz [Field α] : ∀ (V : List α) (ps : List (α × α)), (∀ p ∈ ps, p.2 ≠ 0) → V.length = ps.length →
    List.zipWith stdz (List.zipWith unstdz V ps) ps = V
  | [], _, _, _ => by simp
  | _ :: _, [], _, h => by simp at h
  | v :: V, p :: ps, hnz, h => by
    have h0 : p.2 ≠ 0 := hnz p List.mem_cons_self
    have ih := zipWith_stdz_unstdz V ps (fun q hq => hnz q (List.mem_cons_of_mem _ hq)) (by simpa using h)
    simp only [List.zipWith_cons_cons, ih, List.cons.injEq, and_true]
    simp only [unstdz, stdz]
    field_simp
    ring

theorem mem_params (s : Scalings α) (p : α × α) (h : p ∈ params s) : ∃ sc ∈ s, p.2 ∈ sc.scale := by
  simp only [params, List.mem_flatten, List.mem_map] at h
  obtain ⟨l, ⟨sc, hs, rfl⟩, hp⟩ := h
  exact ⟨sc, hs, (List.of_mem_zip hp).2⟩

theorem flat_modes (s : Scalings α) (hv : Valid s) : flat (modes s) = (params s).map (·.1) := by
  induction s with
  | nil => rfl
  | cons sc r ih =>
    have h1 : sc.loc.length = sc.scale.length := hv sc List.mem_cons_self
    have ih' := ih (fun t ht => hv t (List.mem_cons_of_mem _ ht))
    have hm : flat (modes (sc :: r)) = sc.loc ++ flat (modes r) := rfl
    have hp : params (sc :: r) = sc.loc.zip sc.scale ++ params r := rfl
    rw [hm, hp, ih', List.map_append, List.map_fst_zip (by omega)]

theorem shaped_modes : ∀ (s : Scalings α), Shaped s (modes s)
  | [] => trivial
  | _ :: r => ⟨rfl, rfl, shaped_modes r⟩

end LeaspyVerif.Scalings
