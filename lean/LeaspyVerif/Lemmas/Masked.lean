/-
Relations and helper lemmas for C06 (masked tensors).  Core Lean only.
-/
import LeaspyVerif.Model.Masked

deriving instance DecidableEq for Except

namespace LeaspyVerif.Masked

/-- element-wise relation between two lists (same length) -/
inductive Rel2 {α β : Type} (R : α → β → Prop) : List α → List β → Prop
  | nil : Rel2 R [] []
  | cons {a b l l'} : R a b → Rel2 R l l' → Rel2 R (a :: l) (b :: l')

/-- the two cells carry the same weight and, where the weight is non-zero, the same value -/
def CellEq (c c' : Cell) : Prop := c.2 = c'.2 ∧ (c.2 = true → c.1 = c'.1)

/-- same weights, same values wherever the weight is non-zero -/
abbrev MaskEquiv (a a' : WT) : Prop := Rel2 CellEq a a'

/-- "differ only in what is stored under the mask": regular tensors are equal, weighted tensors are `MaskEquiv` -/
def FillRel : MT → MT → Prop
  | .plain v, .plain v' => v = v'
  | .wt c, .wt c' => MaskEquiv c c'
  | _, _ => False

def ResRel (R : MT → MT → Prop) : Except Err MT → Except Err MT → Prop
  | .ok x, .ok y => R x y
  | .error e, .error e' => e = e'
  | _, _ => False

/-- element-wise relation between two lists, indexed by a third list of booleans (all of the same length) -/
inductive Rel3 {α β : Type} (R : Bool → α → β → Prop) : List Bool → List α → List β → Prop
  | nil : Rel3 R [] [] []
  | cons {b x y m l l'} : R b x y → Rel3 R m l l' → Rel3 R (b :: m) (x :: l) (y :: l')

/-- values agree if the cell is observed -/
def ValObs (b : Bool) (x y : XVal) : Prop := b = true → x = y
/-- same weight; values agree if the cell is observed -/
def CellObs (b : Bool) (c c' : Cell) : Prop := c.2 = c'.2 ∧ (b = true → c.1 = c'.1)

/-- "agree on the observed cells `m`": values (weighted or not) agree where `m` is true; weights are equal.
    Unlike `FillRel`, regular tensors (e.g. `model`) may differ on unobserved cells too. -/
def ObsRel (m : List Bool) : MT → MT → Prop
  | .plain v, .plain v' => Rel3 ValObs m v v'
  | .wt c, .wt c' => Rel3 CellObs m c c'
  | _, _ => False

/-- `w ≤ m` pointwise -/
abbrev Below (w m : List Bool) : Prop := Rel2 (fun a b => a = true → b = true) w m

/-! ### XVal arithmetic -/

theorem XVal.zero_add' (x : XVal) : XVal.add XVal.zero x = x := by
  cases x <;> simp [XVal.add, XVal.zero, Rat.zero_add]

theorem XVal.one_mul' (x : XVal) : XVal.mul XVal.one x = x := by
  cases x <;> simp [XVal.mul, XVal.one, Rat.one_mul, XVal.signedInf] <;> decide +kernel

theorem XVal.zero_mul_zero : XVal.mul XVal.zero XVal.zero = XVal.zero := by
  simp [XVal.mul, XVal.zero, Rat.mul_zero]

theorem Cell.weighted_true (x : XVal) : Cell.weighted (x, true) = x := by
  simp [Cell.weighted, Cell.filled, XVal.ofBool, XVal.one_mul']

theorem Cell.weighted_false (x : XVal) : Cell.weighted (x, false) = XVal.zero := by
  simp [Cell.weighted, Cell.filled, XVal.ofBool, XVal.zero_mul_zero]

/-! ### Rel2 -/

theorem Rel2.length_eq {α β : Type} {R : α → β → Prop} {l : List α} {l' : List β} (h : Rel2 R l l') :
    l.length = l'.length := by
  induction h with
  | nil => rfl
  | cons _ _ ih => simp [ih]

theorem Rel2.refl {α : Type} {R : α → α → Prop} (hR : ∀ a, R a a) (l : List α) : Rel2 R l l := by
  induction l with
  | nil => exact .nil
  | cons a l ih => exact .cons (hR a) ih

theorem Rel2.getElem? {α β : Type} {R : α → β → Prop} {l : List α} {l' : List β} (h : Rel2 R l l') (i : Nat) :
    (l[i]? = none ∧ l'[i]? = none) ∨ (∃ a b, l[i]? = some a ∧ l'[i]? = some b ∧ R a b) := by
  induction h generalizing i with
  | nil => left; simp
  | cons hab _ ih =>
    cases i with
    | zero => right; exact ⟨_, _, by simp, by simp, hab⟩
    | succ i => simpa using ih i

theorem Rel2.map {α β γ δ : Type} {R : α → β → Prop} {S : γ → δ → Prop} {f : α → γ} {g : β → δ}
    (hfg : ∀ a b, R a b → S (f a) (g b)) {l : List α} {l' : List β} (h : Rel2 R l l') :
    Rel2 S (l.map f) (l'.map g) := by
  induction h with
  | nil => exact .nil
  | cons hab _ ih => exact .cons (hfg _ _ hab) ih

theorem Rel2.map_eq {α β γ : Type} {R : α → β → Prop} {f : α → γ} {g : β → γ}
    (hfg : ∀ a b, R a b → f a = g b) {l : List α} {l' : List β} (h : Rel2 R l l') :
    l.map f = l'.map g := by
  induction h with
  | nil => rfl
  | cons hab _ ih => simp [hfg _ _ hab, ih]

theorem Rel2.append {α β : Type} {R : α → β → Prop} {l1 l2 : List α} {l1' l2' : List β}
    (h1 : Rel2 R l1 l1') (h2 : Rel2 R l2 l2') : Rel2 R (l1 ++ l2) (l1' ++ l2') := by
  induction h1 with
  | nil => simpa using h2
  | cons hab _ ih => exact .cons hab ih

/-! ### cells -/

theorem CellEq.refl (c : Cell) : CellEq c c := ⟨rfl, fun _ => rfl⟩

theorem CellEq.weighted {c c' : Cell} (h : CellEq c c') : c.weighted = c'.weighted := by
  obtain ⟨x, b⟩ := c; obtain ⟨x', b'⟩ := c'
  obtain ⟨h1, h2⟩ := h
  simp only at h1 h2; subst h1
  cases b with
  | true => simp [Cell.weighted_true, h2 rfl]
  | false => simp [Cell.weighted_false]

theorem CellEq.filled {c c' : Cell} (h : CellEq c c') (f : XVal) : c.filled f = c'.filled f := by
  obtain ⟨x, b⟩ := c; obtain ⟨x', b'⟩ := c'
  obtain ⟨h1, h2⟩ := h
  simp only at h1 h2; subst h1
  cases b <;> simp_all [Cell.filled]

theorem MaskEquiv.refl (a : WT) : MaskEquiv a a := Rel2.refl CellEq.refl a

theorem MaskEquiv.weights {a a' : WT} (h : MaskEquiv a a') : a.map Prod.snd = a'.map Prod.snd :=
  Rel2.map_eq (fun _ _ h => h.1) h

theorem MaskEquiv.weightedValue {a a' : WT} (h : MaskEquiv a a') : weightedValue a = weightedValue a' :=
  Rel2.map_eq (fun _ _ h => h.weighted) h

theorem MaskEquiv.sumWeights {a a' : WT} (h : MaskEquiv a a') : sumWeights a = sumWeights a' := by
  unfold Masked.sumWeights
  induction h with
  | nil => rfl
  | @cons c c' l l' hab _ ih =>
    have : c.2 = c'.2 := hab.1
    simp only [List.filter_cons, this]
    split <;> simp_all

theorem MaskEquiv.wsum {a a' : WT} (h : MaskEquiv a a') (fill : XVal) : wsum fill a = wsum fill a' := by
  simp [Masked.wsum, h.sumWeights, h.weightedValue]

theorem MaskEquiv.group {a a' : WT} (h : MaskEquiv a a') (keys : List Nat) (k : Nat) :
    MaskEquiv (group keys k a) (group keys k a') := by
  unfold Masked.group
  induction h generalizing keys with
  | nil => simpa using Rel2.nil
  | @cons c c' l l' hab _ ih =>
    cases keys with
    | nil => simpa using Rel2.nil
    | cons key keys =>
      simp only [List.zip_cons_cons, List.filter_cons]
      split
      · simpa using Rel2.cons hab (ih keys)
      · exact ih keys

theorem MaskEquiv.wsumDim {a a' : WT} (h : MaskEquiv a a') (fill : XVal) (keys : List Nat) (n : Nat) :
    wsumDim fill keys n a = wsumDim fill keys n a' := by
  unfold Masked.wsumDim
  apply List.map_congr_left
  intro k _
  exact (h.group keys k).wsum fill

/-! ### FillRel / ObsRel basics -/

theorem FillRel.length_eq {x x' : MT} (h : FillRel x x') : x.length = x'.length := by
  cases x <;> cases x' <;> simp_all [FillRel, MT.length]
  exact Rel2.length_eq h

theorem FillRel.cells {x x' : MT} (h : FillRel x x') : MaskEquiv x.cells x'.cells := by
  cases x <;> cases x' <;> simp_all [FillRel, MT.cells]
  exact MaskEquiv.refl _

theorem Rel3.length_eq {α β : Type} {R : Bool → α → β → Prop} {m : List Bool} {l : List α} {l' : List β}
    (h : Rel3 R m l l') : l.length = m.length ∧ l'.length = m.length := by
  induction h with
  | nil => exact ⟨rfl, rfl⟩
  | cons _ _ ih => simp [ih.1, ih.2]

theorem Rel3.map {α β γ δ : Type} {R : Bool → α → β → Prop} {S : Bool → γ → δ → Prop} {f : α → γ} {g : β → δ}
    (hfg : ∀ b x y, R b x y → S b (f x) (g y)) {m : List Bool} {l : List α} {l' : List β} (h : Rel3 R m l l') :
    Rel3 S m (l.map f) (l'.map g) := by
  induction h with
  | nil => exact .nil
  | cons hb _ ih => exact .cons (hfg _ _ _ hb) ih

theorem Rel3.map_eq {α β γ : Type} {R : Bool → α → β → Prop} {f : α → γ} {g : β → γ}
    (hfg : ∀ b x y, R b x y → f x = g y) {m : List Bool} {l : List α} {l' : List β} (h : Rel3 R m l l') :
    l.map f = l'.map g := by
  induction h with
  | nil => rfl
  | cons hb _ ih => simp [hfg _ _ _ hb, ih]

theorem Rel3.zipWith {α β γ δ ε ζ : Type} {R : Bool → α → β → Prop} {S : Bool → γ → δ → Prop}
    {T : Bool → ε → ζ → Prop} {f : α → γ → ε} {g : β → δ → ζ}
    (hfg : ∀ b x y u v, R b x y → S b u v → T b (f x u) (g y v))
    {m : List Bool} {l : List α} {l' : List β} {k : List γ} {k' : List δ}
    (h : Rel3 R m l l') (h' : Rel3 S m k k') : Rel3 T m (List.zipWith f l k) (List.zipWith g l' k') := by
  induction h generalizing k k' with
  | nil => cases h'; exact .nil
  | cons hb _ ih =>
    cases h' with
    | cons hb' ht' => exact .cons (hfg _ _ _ _ _ hb hb') (ih ht')

theorem Rel3.weights {m : List Bool} {c c' : WT} (h : Rel3 CellObs m c c') : c.map Prod.snd = c'.map Prod.snd :=
  Rel3.map_eq (fun _ _ _ h => h.1) h

/-- on cells whose own weight is below the observation mask, "agree on observed cells" is `MaskEquiv` -/
theorem Rel3.maskEquiv {m : List Bool} {c c' : WT} (h : Rel3 CellObs m c c') (hb : Below (c.map Prod.snd) m) :
    MaskEquiv c c' := by
  induction h with
  | nil => exact .nil
  | cons hc _ ih =>
    cases hb with
    | cons hbm hrest => exact .cons ⟨hc.1, fun e => hc.2 (hbm e)⟩ (ih hrest)

theorem Below.refl (m : List Bool) : Below m m := Rel2.refl (fun _ h => h) m

theorem ObsRel.length_eq {m : List Bool} {x x' : MT} (h : ObsRel m x x') : x.length = m.length ∧ x'.length = m.length := by
  cases x <;> cases x' <;> simp_all [ObsRel, MT.length]
  · exact Rel3.length_eq h
  · exact Rel3.length_eq h

/-- expressions without a reduction (the reduction is applied on top) -/
def sumFree : MExpr → Bool
  | .var _ => true
  | .bin _ a b => sumFree a && sumFree b
  | .un _ _ a => sumFree a
  | .weighted a => sumFree a
  | .reweight a b => sumFree a && sumFree b
  | .sumDim _ _ _ => false

/-! ### cell-wise combination lemmas used for `_apply_operation` -/

theorem zipWith_wp_maskEquiv (f : XVal → XVal → XVal) {c c' : WT} (h : MaskEquiv c c') (v : List XVal) :
    MaskEquiv (List.zipWith (fun (c : Cell) v => (f c.1 v, c.2)) c v)
              (List.zipWith (fun (c : Cell) v => (f c.1 v, c.2)) c' v) := by
  induction h generalizing v with
  | nil => cases v <;> exact .nil
  | cons hab _ ih =>
    cases v with
    | nil => exact .nil
    | cons a v =>
      refine .cons ⟨hab.1, fun e => ?_⟩ (ih v)
      simp only at e ⊢; rw [hab.2 e]

theorem zipWith_pw_maskEquiv (f : XVal → XVal → XVal) {c c' : WT} (h : MaskEquiv c c') (v : List XVal) :
    MaskEquiv (List.zipWith (fun v (c : Cell) => (f v c.1, c.2)) v c)
              (List.zipWith (fun v (c : Cell) => (f v c.1, c.2)) v c') := by
  induction h generalizing v with
  | nil => cases v <;> exact .nil
  | cons hab _ ih =>
    cases v with
    | nil => exact .nil
    | cons a v =>
      refine .cons ⟨hab.1, fun e => ?_⟩ (ih v)
      simp only at e ⊢; rw [hab.2 e]

theorem zipWith_ww_maskEquiv (f : XVal → XVal → XVal) {c c' d d' : WT} (hc : MaskEquiv c c') (hd : MaskEquiv d d')
    (hw : c.map Prod.snd = d.map Prod.snd) :
    MaskEquiv (List.zipWith (fun (c d : Cell) => (f c.1 d.1, c.2)) c d)
              (List.zipWith (fun (c d : Cell) => (f c.1 d.1, c.2)) c' d') := by
  induction hc generalizing d d' with
  | nil => cases hd <;> exact .nil
  | cons hab _ ih =>
    cases hd with
    | nil => exact .nil
    | cons hcd hrest =>
      simp only [List.map_cons, List.cons.injEq] at hw
      refine .cons ⟨hab.1, fun e => ?_⟩ (ih hrest hw.2)
      simp only at e ⊢
      rw [hab.2 e, hcd.2 (hw.1 ▸ e)]

theorem zipWith_reweight_maskEquiv {d d' : WT} (h : MaskEquiv d d') (v : List XVal) :
    MaskEquiv (List.zipWith (fun x (c : Cell) => (x, c.2)) v d) (List.zipWith (fun x (c : Cell) => (x, c.2)) v d') := by
  induction h generalizing v with
  | nil => cases v <;> exact .nil
  | cons hab _ ih =>
    cases v with
    | nil => exact .nil
    | cons a v => exact .cons ⟨hab.1, fun _ => rfl⟩ (ih v)

theorem zipWith_wp_weights {β : Type} (g : Cell → β → XVal) (c : WT) (v : List β) (hl : c.length = v.length) :
    (List.zipWith (fun (c : Cell) v => (g c v, c.2)) c v).map Prod.snd = c.map Prod.snd := by
  induction c generalizing v with
  | nil => simp
  | cons a c ih => cases v with
    | nil => simp at hl
    | cons b v => simp at hl; simp [ih v hl]

theorem zipWith_pw_weights {β : Type} (g : β → Cell → XVal) (c : WT) (v : List β) (hl : v.length = c.length) :
    (List.zipWith (fun v (c : Cell) => (g v c, c.2)) v c).map Prod.snd = c.map Prod.snd := by
  induction c generalizing v with
  | nil => simp
  | cons a c ih => cases v with
    | nil => simp at hl
    | cons b v => simp at hl; simp [ih v hl]

/-! ### padding relation (every tensor extended by `p` trailing cells) -/

/-- `x'` is `x` with `p` extra trailing cells: arbitrary values for a regular tensor, weight-0 cells (with arbitrary
    content) for a weighted tensor. -/
def PadRel (p : Nat) : MT → MT → Prop
  | .plain v, .plain v' => ∃ u, u.length = p ∧ v' = v ++ u
  | .wt c, .wt c' => ∃ d, d.length = p ∧ (∀ x ∈ d, x.2 = false) ∧ c' = c ++ d
  | _, _ => False

def PadRes (p : Nat) : Except Err MT → Except Err MT → Prop
  | .ok x, .ok y => PadRel p x y
  | .error e, .error e' => e = e'
  | _, _ => False

theorem PadRel.length {p : Nat} {x x' : MT} (h : PadRel p x x') : x'.length = x.length + p := by
  cases x <;> cases x' <;> simp_all [PadRel, MT.length]
  · obtain ⟨u, hu, rfl⟩ := h; simp [hu]
  · obtain ⟨d, hd, _, rfl⟩ := h; simp [hd]

theorem zipWith_append_same' {α β γ : Type} (f : α → β → γ) (a a' : List α) (b b' : List β) (h : a.length = b.length) :
    List.zipWith f (a ++ a') (b ++ b') = List.zipWith f a b ++ List.zipWith f a' b' :=
  List.zipWith_append h

theorem all_false_map_snd (d : WT) (h : ∀ x ∈ d, x.2 = false) : d.map Prod.snd = List.replicate d.length false := by
  induction d with
  | nil => rfl
  | cons x d ih =>
    simp only [List.map_cons, List.length_cons, List.replicate_succ]
    rw [h x (List.mem_cons_self), ih (fun y hy => h y (List.mem_cons_of_mem _ hy))]

theorem binop_padRel (p : Nat) (f : XVal → XVal → XVal) {x x' y y' : MT}
    (hx : PadRel p x x') (hy : PadRel p y y') : PadRes p (binop f x y) (binop f x' y') := by
  have hlx := hx.length
  have hly := hy.length
  unfold binop
  rw [hlx, hly]
  by_cases hl : x.length = y.length
  · have hl' : x.length + p = y.length + p := by omega
    simp only [ne_eq, hl, not_true_eq_false, if_false]
    cases x with
    | plain v =>
      cases x' with
      | wt _ => simp [PadRel] at hx
      | plain v' =>
        obtain ⟨u, hu, rfl⟩ := hx
        cases y with
        | plain w =>
          cases y' with
          | wt _ => simp [PadRel] at hy
          | plain w' =>
            obtain ⟨u', hu', rfl⟩ := hy
            simp only [MT.length] at hl
            simp only [PadRes, PadRel]
            exact ⟨List.zipWith f u u', by simp [hu, hu'], List.zipWith_append hl⟩
        | wt c =>
          cases y' with
          | plain _ => simp [PadRel] at hy
          | wt c' =>
            obtain ⟨d, hd, hdf, rfl⟩ := hy
            simp only [MT.length] at hl
            simp only [PadRes, PadRel]
            refine ⟨List.zipWith (fun v (c : Cell) => (f v c.1, c.2)) u d, by simp [hu, hd], ?_, List.zipWith_append hl⟩
            intro z hz
            obtain ⟨i, hi, rfl⟩ := List.getElem_of_mem hz
            simp only [List.getElem_zipWith]
            exact hdf _ (List.getElem_mem _)
    | wt c =>
      cases x' with
      | plain _ => simp [PadRel] at hx
      | wt c' =>
        obtain ⟨d, hd, hdf, rfl⟩ := hx
        cases y with
        | plain w =>
          cases y' with
          | wt _ => simp [PadRel] at hy
          | plain w' =>
            obtain ⟨u', hu', rfl⟩ := hy
            simp only [MT.length] at hl
            simp only [PadRes, PadRel]
            refine ⟨List.zipWith (fun (c : Cell) v => (f c.1 v, c.2)) d u', by simp [hu', hd], ?_, List.zipWith_append hl⟩
            intro z hz
            obtain ⟨i, hi, rfl⟩ := List.getElem_of_mem hz
            simp only [List.getElem_zipWith]
            exact hdf _ (List.getElem_mem _)
        | wt e =>
          cases y' with
          | plain _ => simp [PadRel] at hy
          | wt e' =>
            obtain ⟨d', hd', hdf', rfl⟩ := hy
            simp only [MT.length] at hl
            have hw : ((c ++ d).map Prod.snd = (e ++ d').map Prod.snd) ↔ (c.map Prod.snd = e.map Prod.snd) := by
              simp only [List.map_append, all_false_map_snd d hdf, all_false_map_snd d' hdf', hd, hd']
              constructor
              · intro h; exact List.append_cancel_right h
              · intro h; rw [h]
            by_cases hwe : c.map Prod.snd = e.map Prod.snd
            · simp only [if_pos hwe, if_pos (hw.mpr hwe), PadRes, PadRel]
              refine ⟨List.zipWith (fun (c d : Cell) => (f c.1 d.1, c.2)) d d', by simp [hd, hd'], ?_, List.zipWith_append hl⟩
              intro z hz
              obtain ⟨i, hi, rfl⟩ := List.getElem_of_mem hz
              simp only [List.getElem_zipWith]
              exact hdf _ (List.getElem_mem _)
            · simp only [if_neg hwe, if_neg (fun h => hwe (hw.mp h)), PadRes]
  · have hl' : ¬ (x.length + p = y.length + p) := by omega
    simp [hl, PadRes]

theorem mapOp_padRel (p : Nat) (f : XVal → XVal) (fill : Option XVal) {x x' : MT}
    (hx : PadRel p x x') : PadRel p (mapOp f fill x) (mapOp f fill x') := by
  cases x with
  | plain v => cases x' with
    | plain v' =>
      obtain ⟨u, hu, rfl⟩ := hx
      exact ⟨u.map f, by simp [hu], by simp⟩
    | wt _ => simp [PadRel] at hx
  | wt c => cases x' with
    | plain _ => simp [PadRel] at hx
    | wt c' =>
      obtain ⟨d, hd, hdf, rfl⟩ := hx
      refine ⟨d.map (fun d => (f (Cell.filledOpt fill d), d.2)), by simp [hd], ?_, by simp⟩
      intro z hz
      simp only [List.mem_map] at hz
      obtain ⟨y, hy, rfl⟩ := hz
      exact hdf y hy

theorem weightedOp_padRel (p : Nat) {x x' : MT} (hx : PadRel p x x') :
    PadRel p (weightedOp x) (weightedOp x') := by
  cases x with
  | plain v => cases x' with
    | plain v' => simpa [weightedOp] using hx
    | wt _ => simp [PadRel] at hx
  | wt c => cases x' with
    | plain _ => simp [PadRel] at hx
    | wt c' =>
      obtain ⟨d, hd, hdf, rfl⟩ := hx
      exact ⟨weightedValue d, by simp [weightedValue, hd], by simp [weightedValue]⟩

theorem reweight_padRel (p : Nat) {x x' y y' : MT} (hx : PadRel p x x') (hy : PadRel p y y') :
    PadRes p (reweight x y) (reweight x' y') := by
  cases x with
  | wt c => cases x' with
    | plain _ => simp [PadRel] at hx
    | wt c' => simpa [reweight, PadRes] using hx
  | plain v => cases x' with
    | wt _ => simp [PadRel] at hx
    | plain v' =>
      obtain ⟨u, hu, rfl⟩ := hx
      cases y with
      | plain w => cases y' with
        | plain w' => exact ⟨u, hu, rfl⟩
        | wt _ => simp [PadRel] at hy
      | wt e => cases y' with
        | plain _ => simp [PadRel] at hy
        | wt e' =>
          obtain ⟨d, hd, hdf, rfl⟩ := hy
          simp only [reweight, List.length_append, hu, hd]
          by_cases hl : v.length = e.length
          · have hl' : v.length + p = e.length + p := by omega
            simp only [ne_eq, hl, not_true_eq_false, if_false, PadRes, PadRel]
            refine ⟨List.zipWith (fun x (c : Cell) => (x, c.2)) u d, by simp [hu, hd], ?_, List.zipWith_append hl⟩
            intro z hz
            obtain ⟨i, hi, rfl⟩ := List.getElem_of_mem hz
            simp only [List.getElem_zipWith]
            exact hdf _ (List.getElem_mem _)
          · simp [hl, PadRes]

theorem padRes_bind {p : Nat} {r r' : Except Err MT} {k k' : MT → Except Err MT}
    (h : PadRes p r r') (hk : ∀ x x', PadRel p x x' → PadRes p (k x) (k' x')) :
    PadRes p (r >>= k) (r' >>= k') := by
  cases r <;> cases r' <;> simp_all [PadRes, bind, Except.bind]

end LeaspyVerif.Masked
