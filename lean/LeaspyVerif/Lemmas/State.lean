/-
Helper lemmas for C01 / C02: the lazily cached variable graph refines evaluation from scratch.
-/
import LeaspyVerif.Model.State
import Mathlib.Data.List.Basic
import Mathlib.Data.List.Nodup
import Mathlib.Data.List.Induction

namespace LeaspyVerif.State
variable {V : Type}

/-! ### specification: evaluation from scratch along the topological order -/

/-- the value of node `i` given the independent values `ind` and the values `c` of earlier nodes -/
def nodeVal (g : Graph V) (ind c : Cache V) (i : Nat) : Option V :=
  match g.kind i with
  | .linked => ((g.parents i).mapM c).map (g.fn i)
  | .indep _ => ind i

def evalStep (g : Graph V) (ind : Cache V) (c : Cache V) (i : Nat) : Cache V :=
  upd c i (nodeVal g ind c i)

/-- Evaluate every variable from scratch from the independent values `ind`. -/
def spec (g : Graph V) (ind : Cache V) : Cache V :=
  g.order.foldl (evalStep g ind) (fun _ => none)

/-- `p` is a (transitive) dependency of `i` through `parents` of linked nodes -/
inductive ReachP (g : Graph V) : Nat → Nat → Prop
  | single {p i} : g.kind i = .linked → p ∈ g.parents i → ReachP g p i
  | tail {a p i} : ReachP g a p → g.kind i = .linked → p ∈ g.parents i → ReachP g a i

/-- Well-formedness of the pre-computed tables.  Every fact is a consequence of the C15 theorems
    for graphs accepted by the DAG construction (bridged in `Props/C01.lean`). -/
structure WF (g : Graph V) : Prop where
  order_nodup : g.order.Nodup
  order_mem : ∀ i, i ∈ g.order ↔ i < g.n
  parents_before : ∀ l1 i l2, g.order = l1 ++ i :: l2 → g.kind i = .linked → ∀ p ∈ g.parents i, p ∈ l1
  anc_lt : ∀ i a, a ∈ g.anc i → a < g.n
  anc_parents : ∀ i, g.kind i = .linked → ∀ p ∈ g.parents i, p ∈ g.anc i
  anc_parents_before : ∀ i l1 a l2, g.anc i = l1 ++ a :: l2 → g.kind a = .linked → ∀ p ∈ g.parents a, p ∈ l1
  anc_sound : ∀ i a, a ∈ g.anc i → ReachP g a i
  desc_parents : ∀ i c, c < g.n → g.kind c = .linked → i ∈ g.parents c → c ∈ g.desc i
  desc_closed : ∀ i d c, d ∈ g.desc i → c < g.n → g.kind c = .linked → d ∈ g.parents c → c ∈ g.desc i
  desc_lt : ∀ i d, d ∈ g.desc i → d < g.n
  desc_linked : ∀ i d, d ∈ g.desc i → g.kind d = .linked
  desc_sound : ∀ i d, d ∈ g.desc i → ReachP g i d
  not_self_desc : ∀ i, i ∉ g.desc i
  init_indep : ∀ i v, g.init i = some v → g.kind i ≠ .linked

theorem mapM_congr {ps : List Nat} {c c' : Cache V} (h : ∀ p ∈ ps, c p = c' p) :
    ps.mapM c = ps.mapM c' := by
  induction ps with
  | nil => rfl
  | cons p ps ih =>
    simp only [List.mapM_cons]
    rw [h p (by simp), ih (fun q hq => h q (by simp [hq]))]

theorem mapM_some_iff {ps : List Nat} {c : Cache V} :
    (∃ vs, ps.mapM c = some vs) ↔ ∀ p ∈ ps, c p ≠ none := by
  induction ps with
  | nil => simp
  | cons p ps ih =>
    simp only [List.mapM_cons, List.mem_cons, forall_eq_or_imp]
    cases hp : c p with
    | none => simp
    | some v =>
      simp only [ne_eq, reduceCtorEq, not_false_eq_true, true_and]
      rw [← ih]
      cases hps : ps.mapM c <;> simp

theorem foldl_evalStep_notMem (g : Graph V) (ind : Cache V) :
    ∀ (l : List Nat) (c : Cache V) (j : Nat), j ∉ l → (l.foldl (evalStep g ind) c) j = c j := by
  intro l
  induction l with
  | nil => intro c j _; rfl
  | cons a l ih =>
    intro c j hj
    rw [List.foldl_cons, ih _ _ (fun h => hj (List.mem_cons_of_mem _ h))]
    have : j ≠ a := fun h => hj (h ▸ List.mem_cons_self)
    simp [evalStep, upd, this]

/-- Unfolding of the specification at a node: it is the node's definition applied to the
    specification values of its parents (or the independent value). -/
theorem spec_unfold {g : Graph V} (wf : WF g) (ind : Cache V) {i : Nat} (hi : i < g.n) :
    spec g ind i = nodeVal g ind (spec g ind) i := by
  have hmem := (wf.order_mem i).2 hi
  obtain ⟨l1, l2, hsplit⟩ := List.append_of_mem hmem
  have hnd := wf.order_nodup
  rw [hsplit] at hnd
  have hi_l2 : i ∉ l2 := by
    have := (List.nodup_append.1 hnd).2.1
    exact (List.nodup_cons.1 this).1
  set c1 := l1.foldl (evalStep g ind) (fun _ => none) with hc1
  have hspec : ∀ j, j ∉ l2 → spec g ind j = (evalStep g ind c1 i) j := by
    intro j hj
    unfold spec
    rw [hsplit, List.foldl_append, List.foldl_cons]
    exact foldl_evalStep_notMem g ind l2 _ j hj
  rw [hspec i hi_l2]
  simp only [evalStep, upd, if_true]
  unfold nodeVal
  cases hk : g.kind i with
  | indep b => rfl
  | linked =>
    simp only
    congr 1
    apply mapM_congr
    intro p hp
    have hp1 : p ∈ l1 := wf.parents_before l1 i l2 hsplit hk p hp
    have hp_l2 : p ∉ l2 := by
      intro h
      exact (List.nodup_append.1 hnd).2.2 p hp1 p (List.mem_cons_of_mem _ h) rfl
    have hpi : p ≠ i := by
      intro h
      exact (List.nodup_append.1 hnd).2.2 p hp1 i (by simp) h
    rw [hspec p hp_l2]
    simp [evalStep, upd, hpi]

theorem spec_indep {g : Graph V} (wf : WF g) (ind : Cache V) {i : Nat} (hi : i < g.n) {b : Bool}
    (hk : g.kind i = .indep b) : spec g ind i = ind i := by
  rw [spec_unfold wf ind hi]; simp [nodeVal, hk]

theorem spec_linked {g : Graph V} (wf : WF g) (ind : Cache V) {i : Nat} (hi : i < g.n)
    (hk : g.kind i = .linked) :
    spec g ind i = ((g.parents i).mapM (spec g ind)).map (g.fn i) := by
  rw [spec_unfold wf ind hi]; simp [nodeVal, hk]

/-- If a node has a value from scratch, so has everything it depends on. -/
theorem spec_some_of_reach {g : Graph V} (wf : WF g) (ind : Cache V) {a i : Nat}
    (hr : ReachP g a i) (hi : i < g.n) (hpar : ∀ j < g.n, ∀ p ∈ g.parents j, g.kind j = .linked → p < g.n) :
    spec g ind i ≠ none → spec g ind a ≠ none := by
  induction hr with
  | @single i hk hp =>
    intro h
    rw [spec_linked wf ind hi hk] at h
    have : ∃ vs, (g.parents i).mapM (spec g ind) = some vs := by
      cases hm : (g.parents i).mapM (spec g ind) with
      | none => simp [hm] at h
      | some vs => exact ⟨vs, rfl⟩
    exact (mapM_some_iff.1 this) _ hp
  | @tail p i _ hk hp ih =>
    intro h
    rw [spec_linked wf ind hi hk] at h
    have : ∃ vs, (g.parents i).mapM (spec g ind) = some vs := by
      cases hm : (g.parents i).mapM (spec g ind) with
      | none => simp [hm] at h
      | some vs => exact ⟨vs, rfl⟩
    exact ih (hpar _ hi _ hp hk) ((mapM_some_iff.1 this) _ hp)

theorem WF.parents_lt {g : Graph V} (wf : WF g) {j p : Nat} (hj : j < g.n) (hk : g.kind j = .linked)
    (hp : p ∈ g.parents j) : p < g.n := by
  obtain ⟨l1, l2, hsplit⟩ := List.append_of_mem ((wf.order_mem j).2 hj)
  have := wf.parents_before l1 j l2 hsplit hk p hp
  exact (wf.order_mem p).1 (by rw [hsplit]; exact List.mem_append_left _ this)

/-! ### abstraction and consistency -/

/-- the independent values held by a cache -/
def absC (g : Graph V) (c : Cache V) : Cache V :=
  fun i => match g.kind i with
    | .indep _ => c i
    | .linked => none

/-- every cached value is the value from scratch on the cached independent values -/
def Cons (g : Graph V) (c : Cache V) : Prop :=
  ∀ i < g.n, ∀ v, c i = some v → spec g (absC g c) i = some v

/-- Changing the independent value of `i` does not change the from-scratch value of any node
    that is neither `i` nor one of its (reported) descendants. -/
theorem spec_congr_nondesc {g : Graph V} (wf : WF g) {ind ind' : Cache V} {i : Nat}
    (hagree : ∀ j, j ≠ i → ind j = ind' j) :
    ∀ d, d < g.n → d ≠ i → d ∉ g.desc i → spec g ind d = spec g ind' d := by
  have key : ∀ (l1 l2 : List Nat), g.order = l1 ++ l2 →
      ∀ d ∈ l1, d ≠ i → d ∉ g.desc i → spec g ind d = spec g ind' d := by
    intro l1
    induction l1 using List.reverseRecOn with
    | nil => intro _ _ d hd; simp at hd
    | append_singleton l a ih =>
      intro l2 hsplit d hd hdi hdd
      rw [List.append_assoc, List.singleton_append] at hsplit
      rcases List.mem_append.1 hd with hd | hd
      · exact ih (a :: l2) hsplit d hd hdi hdd
      · simp only [List.mem_singleton] at hd
        subst hd
        have hlt : d < g.n := (wf.order_mem d).1 (by rw [hsplit]; simp)
        cases hk : g.kind d with
        | indep b =>
          rw [spec_indep wf ind hlt hk, spec_indep wf ind' hlt hk]; exact hagree d hdi
        | linked =>
          rw [spec_linked wf ind hlt hk, spec_linked wf ind' hlt hk]
          congr 1
          apply mapM_congr
          intro p hp
          have hp1 := wf.parents_before l d l2 hsplit hk p hp
          apply ih (d :: l2) hsplit p hp1
          · intro hpi; subst hpi; exact hdd (wf.desc_parents p d hlt hk hp)
          · intro hpd; exact hdd (wf.desc_closed i p d hpd hlt hk hp)
  intro d hd
  exact key g.order [] (by simp) d ((wf.order_mem d).2 hd)

/-- in `L`, the parents of a linked element come earlier in `L` -/
def ParentsBefore (g : Graph V) (L : List Nat) : Prop :=
  ∀ l1 a l2, L = l1 ++ a :: l2 → g.kind a = .linked → ∀ p ∈ g.parents a, p ∈ l1

theorem absC_upd_linked {g : Graph V} {c : Cache V} {a : Nat} (hk : g.kind a = .linked) (v : Option V) :
    absC g (upd c a v) = absC g c := by
  funext j
  unfold absC upd
  by_cases h : j = a
  · subst h; simp [hk]
  · simp [h]

/-- value computed for a linked node from cached parents = its from-scratch value -/
theorem compute_linked_spec {g : Graph V} (wf : WF g) {c : Cache V} (hc : Cons g c) {a : Nat}
    (ha : a < g.n) (hk : g.kind a = .linked) {ps : List V} (hps : (g.parents a).mapM c = some ps) :
    spec g (absC g c) a = some (g.fn a ps) := by
  rw [spec_linked wf _ ha hk]
  have : (g.parents a).mapM (spec g (absC g c)) = (g.parents a).mapM c := by
    apply mapM_congr
    intro p hp
    have hne := (mapM_some_iff.1 ⟨ps, hps⟩) p hp
    cases hcp : c p with
    | none => exact absurd hcp hne
    | some w => exact hc p (wf.parents_lt ha hk hp) w hcp
  rw [this, hps]; rfl

theorem cons_upd_linked {g : Graph V} (wf : WF g) {c : Cache V} (hc : Cons g c) {a : Nat}
    (ha : a < g.n) (hk : g.kind a = .linked) {ps : List V} (hps : (g.parents a).mapM c = some ps) :
    Cons g (upd c a (some (g.fn a ps))) := by
  intro j hj v hv
  rw [absC_upd_linked hk]
  by_cases hja : j = a
  · subst hja
    simp only [upd, if_true, Option.some.injEq] at hv
    rw [← hv]; exact compute_linked_spec wf hc ha hk hps
  · simp only [upd, hja, if_false] at hv
    exact hc j hj v hv

/-- The ancestor walk: keeps consistency, never loses a cached value, never hits the internal
    error, caches all of `L` on success, and fails only on an independent value that is unset. -/
theorem walk_spec {g : Graph V} (wf : WF g) {L : List Nat} (hL : ParentsBefore g L)
    (hLlt : ∀ a ∈ L, a < g.n) :
    ∀ (l2 l1 : List Nat) (c : Cache V), L = l1 ++ l2 → Cons g c → (∀ a ∈ l1, c a ≠ none) →
      Cons g (walk g l2 c).1 ∧ absC g (walk g l2 c).1 = absC g c ∧
      (∀ j v, c j = some v → (walk g l2 c).1 j = some v) ∧
      ((walk g l2 c).2 = none → ∀ a ∈ L, (walk g l2 c).1 a ≠ none) ∧
      (∀ e, (walk g l2 c).2 = some e → e = .input ∧ ∃ a ∈ L, spec g (absC g c) a = none) := by
  intro l2
  induction l2 with
  | nil =>
    intro l1 c hsplit hc hall
    simp only [walk]
    refine ⟨hc, trivial, fun _ _ h => h, ?_, ?_⟩
    · intro _ a ha; rw [hsplit, List.append_nil] at ha; exact hall a ha
    · intro e he; cases he
  | cons a l2 ih =>
    intro l1 c hsplit hc hall
    have ha_lt : a < g.n := hLlt a (by rw [hsplit]; simp)
    have hsplit' : L = (l1 ++ [a]) ++ l2 := by rw [hsplit]; simp
    unfold walk
    cases hca : c a with
    | some w =>
      simp only
      apply ih (l1 ++ [a]) c hsplit' hc
      intro x hx
      rcases List.mem_append.1 hx with hx | hx
      · exact hall x hx
      · simp only [List.mem_singleton] at hx; subst hx; simp [hca]
    | none =>
      simp only
      cases hk : g.kind a with
      | indep b =>
        simp only [compute, hk]
        refine ⟨hc, trivial, fun _ _ h => h, ?_, ?_⟩
        · intro h; cases h
        · intro e he
          simp only [Option.some.injEq] at he
          refine ⟨he.symm, a, by rw [hsplit]; simp, ?_⟩
          rw [spec_indep wf _ ha_lt hk]
          simp [absC, hk, hca]
      | linked =>
        have hpar : ∀ p ∈ g.parents a, c p ≠ none :=
          fun p hp => hall p (hL l1 a l2 hsplit hk p hp)
        obtain ⟨ps, hps⟩ := mapM_some_iff.2 hpar
        simp only [compute, hk, hps]
        have hc' := cons_upd_linked wf hc ha_lt hk hps
        have hall' : ∀ x ∈ l1 ++ [a], upd c a (some (g.fn a ps)) x ≠ none := by
          intro x hx
          by_cases hxa : x = a
          · subst hxa; simp [upd]
          · rcases List.mem_append.1 hx with hx | hx
            · simp only [upd, hxa, if_false]; exact hall x hx
            · simp only [List.mem_singleton] at hx; exact absurd hx hxa
        obtain ⟨r1, r2, r3, r4, r5⟩ := ih (l1 ++ [a]) _ hsplit' hc' hall'
        rw [absC_upd_linked hk] at r2 r5
        refine ⟨r1, r2, ?_, r4, r5⟩
        intro j v hj
        apply r3
        by_cases hja : j = a
        · subst hja; rw [hca] at hj; cases hj
        · simp [upd, hja, hj]

/-! ### the state invariant -/

def absS (g : Graph V) (s : St V) : Cache V := absC g s.vals

/-- the fork is a snapshot of an assigned settable node and its descendants whose restoration is consistent -/
def ForkOK (g : Graph V) (s : St V) : Prop :=
  ∀ F, s.fork = some F →
    ∃ i, i < g.n ∧ g.kind i = .indep true ∧ F.map Prod.fst = i :: g.desc i ∧ Cons g (restore s.vals F)

structure Inv (g : Graph V) (s : St V) : Prop where
  cons : Cons g s.vals
  fork : ForkOK g s

theorem find_snapshot (c : Cache V) (j : Nat) : ∀ (l : List Nat),
    (l.map (fun k => (k, c k))).find? (fun p => p.1 == j) = if j ∈ l then some (j, c j) else none := by
  intro l
  induction l with
  | nil => simp
  | cons a l ih =>
    simp only [List.map_cons, List.find?_cons, List.mem_cons]
    by_cases h : a = j
    · subst h; simp
    · have h' : ¬ j = a := fun e => h e.symm
      have hb : (a == j) = false := by simp [h]
      simp [hb, h', ih]

theorem restore_of_key {c : Cache V} {F : List (Nat × Option V)} {j : Nat} (h : j ∉ F.map Prod.fst) :
    restore c F j = c j := by
  unfold restore
  have : F.find? (fun p => p.1 == j) = none := by
    rw [List.find?_eq_none]
    intro p hp hpj
    simp only [beq_iff_eq] at hpj
    exact h (List.mem_map.2 ⟨p, hp, hpj⟩)
  rw [this]

theorem restore_key_indep {c c' : Cache V} {F : List (Nat × Option V)} {j : Nat}
    (h : j ∈ F.map Prod.fst) : restore c' F j = restore c F j := by
  unfold restore
  cases hf : F.find? (fun p => p.1 == j) with
  | some p => rfl
  | none =>
    exfalso
    rw [List.find?_eq_none] at hf
    obtain ⟨p, hp, hpj⟩ := List.mem_map.1 h
    exact hf p hp (by simp [hpj])

theorem absC_resetAll {g : Graph V} {c : Cache V} {l : List Nat} (hl : ∀ d ∈ l, g.kind d = .linked) :
    absC g (resetAll c l) = absC g c := by
  funext j
  unfold absC resetAll
  by_cases h : j ∈ l
  · simp [hl j h]
  · simp [h]

theorem absC_upd_indep {g : Graph V} {c : Cache V} {i : Nat} {b : Bool} (hk : g.kind i = .indep b)
    (v : Option V) : absC g (upd c i v) = upd (absC g c) i v := by
  funext j
  unfold absC upd
  by_cases h : j = i
  · subst h; simp [hk]
  · simp [h]

theorem cons_set {g : Graph V} (wf : WF g) {c : Cache V} (hc : Cons g c) {i : Nat} (hi : i < g.n)
    {b : Bool} (hk : g.kind i = .indep b) (v : Option V) :
    Cons g (resetAll (upd c i v) (g.desc i)) := by
  intro j hj w hw
  rw [absC_resetAll (wf.desc_linked i), absC_upd_indep hk]
  unfold resetAll at hw
  by_cases hjd : j ∈ g.desc i
  · simp [hjd] at hw
  · simp only [hjd, if_false] at hw
    by_cases hji : j = i
    · subst hji
      rw [spec_indep wf _ hj hk]
      simpa [upd] using hw
    · simp only [upd, hji, if_false] at hw
      rw [← hc j hj w hw]
      apply spec_congr_nondesc wf _ j hj hji hjd
      intro k hk'; simp [upd, hk']

/-- extending a consistent cache by newly computed linked values keeps a fork restorable -/
theorem cons_restore_mono {g : Graph V} (wf : WF g) {c c' : Cache V} {F : List (Nat × Option V)} {i : Nat}
    (hkeys : F.map Prod.fst = i :: g.desc i) (hmono : ∀ j v, c j = some v → c' j = some v)
    (habs : absC g c' = absC g c) (hc' : Cons g c') (hr : Cons g (restore c F)) :
    Cons g (restore c' F) := by
  have hind : absC g (restore c' F) = absC g (restore c F) := by
    funext j
    by_cases hjk : j ∈ F.map Prod.fst
    · unfold absC
      rw [restore_key_indep (c := c) (c' := c') hjk]
    · unfold absC
      rw [restore_of_key hjk, restore_of_key hjk]
      have := congrFun habs j
      unfold absC at this
      exact this
  intro j hj w hw
  rw [hind]
  by_cases hjk : j ∈ F.map Prod.fst
  · have : restore c' F j = restore c F j := restore_key_indep hjk
    rw [this] at hw
    exact hr j hj w hw
  · rw [restore_of_key hjk] at hw
    cases hcj : c j with
    | some w' =>
      have := hmono j w' hcj
      rw [this] at hw
      have hr' := hr j hj w' (by rw [restore_of_key hjk]; exact hcj)
      rw [hr']; exact hw
    | none =>
      -- newly computed: value from scratch on the current independent values, which differ from
      -- the restored ones only at `i`, and `j` is neither `i` nor a descendant of `i`
      have h1 := hc' j hj w hw
      rw [habs] at h1
      rw [← h1]
      rw [hkeys] at hjk
      simp only [List.mem_cons, not_or] at hjk
      apply spec_congr_nondesc wf _ j hj hjk.1 hjk.2
      intro k hki
      unfold absC
      by_cases hkk : k ∈ F.map Prod.fst
      · rw [hkeys] at hkk
        simp only [List.mem_cons] at hkk
        rcases hkk with hkk | hkk
        · exact absurd hkk hki
        · simp [wf.desc_linked i k hkk]
      · rw [restore_of_key hkk]

theorem inv_initial {g : Graph V} (wf : WF g) (m : Bool) : Inv g (initial g m) := by
  refine ⟨?_, ?_⟩
  · intro j hj v hv
    simp only [initial] at hv ⊢
    cases hk : g.kind j with
    | linked => exact absurd hk (wf.init_indep j v hv)
    | indep b => rw [spec_indep wf _ hj hk]; simp [absC, hk, hv]
  · intro F hF; simp [initial] at hF

theorem inv_set {g : Graph V} (wf : WF g) {s : St V} (h : Inv g s) (i : Nat) (v : Option V) :
    Inv g (set g s i v).1 := by
  unfold set
  split
  · exact h
  · next hi =>
    have hi : i < g.n := by omega
    split
    · next hk =>
      refine ⟨cons_set wf h.cons hi hk v, ?_⟩
      intro F hF
      simp only at hF
      split at hF
      · simp only [Option.some.injEq] at hF
        subst hF
        refine ⟨i, hi, hk, ?_, ?_⟩
        · simp [List.map_map, Function.comp_def]
        · have : restore (resetAll (upd s.vals i v) (g.desc i))
              ((i :: g.desc i).map (fun k => (k, s.vals k))) = s.vals := by
            funext j
            unfold restore
            rw [find_snapshot]
            by_cases hj : j ∈ i :: g.desc i
            · simp [hj]
            · simp only [hj, if_false]
              simp only [List.mem_cons, not_or] at hj
              simp [resetAll, upd, hj.1, hj.2]
          rw [this]; exact h.cons
      · cases hF
    · exact h

theorem abs_set {g : Graph V} (wf : WF g) {s : St V} {i : Nat} (hi : i < g.n)
    (hk : g.kind i = .indep true) (v : Option V) :
    absS g (set g s i v).1 = upd (absS g s) i v ∧ (set g s i v).2 = .ok () := by
  unfold set absS
  have : ¬ g.n ≤ i := by omega
  simp only [this, if_false, hk]
  exact ⟨by rw [absC_resetAll (wf.desc_linked i), absC_upd_indep hk], trivial⟩

/-- outcome of a read, as a function of the from-scratch value -/
def ReadOK (g : Graph V) (ind : Cache V) (i : Nat) : Except Err V → Prop
  | .ok v => spec g ind i = some v
  | .error e => e = .input ∧ spec g ind i = none

theorem get_spec {g : Graph V} (wf : WF g) {s : St V} (h : Inv g s) {i : Nat} (hi : i < g.n) :
    Inv g (get g s i).1 ∧ absS g (get g s i).1 = absS g s ∧ (get g s i).1.fork = s.fork ∧
    (get g s i).1.mode = s.mode ∧ (∀ j v, s.vals j = some v → (get g s i).1.vals j = some v) ∧
    ReadOK g (absS g s) i (get g s i).2 := by
  unfold get
  have hni : ¬ g.n ≤ i := by omega
  simp only [hni, if_false]
  cases hci : s.vals i with
  | some v =>
    exact ⟨h, rfl, rfl, rfl, fun _ _ x => x, h.cons i hi v hci⟩
  | none =>
    simp only
    have hL : ParentsBefore g (g.anc i) := wf.anc_parents_before i
    obtain ⟨w1, w2, w3, w4, w5⟩ := walk_spec wf hL (wf.anc_lt i) (g.anc i) [] s.vals (by simp) h.cons (by simp)
    -- helper: any extension of the cache keeps the fork part of the invariant
    have hfork : ∀ c', (∀ j v, s.vals j = some v → c' j = some v) → absC g c' = absC g s.vals →
        Cons g c' → ForkOK g { s with vals := c' } := by
      intro c' hm ha hc' F hF
      obtain ⟨k, hk1, hk2, hk3, hk4⟩ := h.fork F hF
      exact ⟨k, hk1, hk2, hk3, cons_restore_mono wf hk3 hm ha hc' hk4⟩
    cases hw : walk g (g.anc i) s.vals with
    | mk c e =>
      rw [hw] at w1 w2 w3 w4 w5
      simp only at w1 w2 w3 w4 w5
      cases e with
      | some e =>
        simp only
        refine ⟨⟨w1, hfork c w3 w2 w1⟩, w2, trivial, trivial, w3, ?_⟩
        obtain ⟨he, a, ha, hsa⟩ := w5 e rfl
        refine ⟨he, ?_⟩
        by_contra hne
        exact spec_some_of_reach wf _ (wf.anc_sound i a ha) hi
          (fun j hj p hp hk => wf.parents_lt hj hk hp) hne hsa
      | none =>
        simp only
        have hall := w4 rfl
        cases hk : g.kind i with
        | indep b =>
          simp only [compute, hk]
          refine ⟨⟨w1, hfork c w3 w2 w1⟩, w2, trivial, trivial, w3, rfl, ?_⟩
          rw [spec_indep wf _ hi hk]
          simp [absS, absC, hk, hci]
        | linked =>
          have hpar : ∀ p ∈ g.parents i, c p ≠ none := fun p hp => hall p (wf.anc_parents i hk p hp)
          obtain ⟨ps, hps⟩ := mapM_some_iff.2 hpar
          simp only [compute, hk, hps]
          have hc2 := cons_upd_linked wf w1 hi hk hps
          have hm2 : ∀ j v, s.vals j = some v → upd c i (some (g.fn i ps)) j = some v := by
            intro j v hj
            have hji : j ≠ i := by intro e; subst e; rw [hci] at hj; cases hj
            simp only [upd, hji, if_false]; exact w3 j v hj
          have ha2 : absC g (upd c i (some (g.fn i ps))) = absC g s.vals := by
            rw [absC_upd_linked hk]; exact w2
          refine ⟨⟨hc2, hfork _ hm2 ha2 hc2⟩, ha2, trivial, trivial, hm2, ?_⟩
          have := compute_linked_spec wf w1 hi hk hps
          rw [w2] at this
          exact this

/-! ### reverts -/

theorem inv_revert_full {M : Type} {g : Graph V} (mix : M → V → V → V) {s : St V} (h : Inv g s) :
    Inv g (revert mix s none).1 := by
  unfold revert
  cases hF : s.fork with
  | none => exact h
  | some F =>
    obtain ⟨_, _, _, _, hc⟩ := h.fork F hF
    exact ⟨hc, fun F' hF' => by simp at hF'⟩

/-- entry-wise combination performed by a partial revert on optional values -/
def mixOpt {M : Type} (mix : M → V → V → V) (m : M) : Option V → Option V → Option V
  | some o, some c => some (mix m o c)
  | _, _ => none

/-- "node `k` carries the individual axis": its from-scratch value commutes with an entry-wise
    mix of the values assigned to `i`. -/
def Commutes {M : Type} (g : Graph V) (mix : M → V → V → V) (m : M) (i k : Nat) : Prop :=
  ∀ (ind : Cache V) (x y o c : V),
    spec g (upd ind i (some x)) k = some o → spec g (upd ind i (some y)) k = some c →
    spec g (upd ind i (some (mix m x y))) k = some (mix m o c)

theorem find_map_keys {β : Type} (f : Nat → β → β) (j : Nat) : ∀ (F : List (Nat × β)),
    (F.map (fun p => (p.1, f p.1 p.2))).find? (fun p => p.1 == j)
      = (F.find? (fun p => p.1 == j)).map (fun p => (p.1, f p.1 p.2)) := by
  intro F
  induction F with
  | nil => rfl
  | cons a F ih =>
    simp only [List.map_cons, List.find?_cons]
    cases h : a.1 == j <;> simp [ih]

theorem restore_partial {M : Type} (mix : M → V → V → V) (m : M) (c : Cache V)
    (F : List (Nat × Option V)) (j : Nat) :
    restore c (F.map (fun p => (p.1, mixOpt mix m p.2 (c p.1)))) j
      = if j ∈ F.map Prod.fst then mixOpt mix m (restore c F j) (c j) else c j := by
  unfold restore
  rw [find_map_keys (fun k old => mixOpt mix m old (c k))]
  cases hf : F.find? (fun p => p.1 == j) with
  | none =>
    have : j ∉ F.map Prod.fst := by
      intro hmem
      obtain ⟨p, hp, hpj⟩ := List.mem_map.1 hmem
      rw [List.find?_eq_none] at hf
      exact hf p hp (by simp [hpj])
    simp [this]
  | some p =>
    have hp := List.find?_some hf
    simp only [beq_iff_eq] at hp
    have : j ∈ F.map Prod.fst := List.mem_map.2 ⟨p, List.mem_of_find?_eq_some hf, hp⟩
    simp [this, hp]

theorem upd_eta {c : Cache V} {i : Nat} {v : Option V} (h : c i = v) : upd c i v = c := by
  funext j; unfold upd; by_cases hj : j = i
  · subst hj; simp [h]
  · simp [hj]

theorem revert_partial_eq {M : Type} (mix : M → V → V → V) (s : St V) (m : M)
    (F : List (Nat × Option V)) (hF : s.fork = some F) :
    (revert mix s (some m)).1 =
      { s with vals := restore s.vals (F.map (fun p => (p.1, mixOpt mix m p.2 (s.vals p.1)))), fork := none } := by
  unfold revert
  rw [hF]
  simp only
  congr 2

/-- A per-individual (partial) revert keeps the cache consistent, provided every node of the forked
    region that is cached on both sides carries the individual axis (`Commutes`). -/
theorem inv_revert_partial {M : Type} {g : Graph V} (wf : WF g) (mix : M → V → V → V) {s : St V}
    (h : Inv g s) (m : M) (F : List (Nat × Option V)) (hF : s.fork = some F)
    (hcomm : ∀ i, F.map Prod.fst = i :: g.desc i → ∀ k ∈ g.desc i, ∀ o c,
      restore s.vals F k = some o → s.vals k = some c → Commutes g mix m i k) :
    Inv g (revert mix s (some m)).1 := by
  rw [revert_partial_eq mix s m F hF]
  obtain ⟨i, hi, hki, hkeys, hro⟩ := h.fork F hF
  refine ⟨?_, fun F' hF' => by simp at hF'⟩
  simp only
  set c := s.vals with hcdef
  set c'' := restore c (F.map (fun p => (p.1, mixOpt mix m p.2 (c p.1)))) with hc''
  have hc''j : ∀ j, c'' j = if j ∈ i :: g.desc i then mixOpt mix m (restore c F j) (c j) else c j := by
    intro j; rw [hc'', restore_partial, hkeys]
  -- independent values: old snapshot, current, and after the partial revert
  have hind_n : ∀ k, k ≠ i → absC g c'' k = absC g c k := by
    intro k hk
    unfold absC
    cases hkk : g.kind k with
    | linked => rfl
    | indep b =>
      simp only
      rw [hc''j]
      have : k ∉ i :: g.desc i := by
        simp only [List.mem_cons, not_or]
        exact ⟨hk, fun hd => by rw [wf.desc_linked i k hd] at hkk; cases hkk⟩
      simp [this]
  have hind_o : ∀ k, k ≠ i → absC g (restore c F) k = absC g c k := by
    intro k hk
    unfold absC
    cases hkk : g.kind k with
    | linked => rfl
    | indep b =>
      simp only
      have : k ∉ F.map Prod.fst := by
        rw [hkeys]
        simp only [List.mem_cons, not_or]
        exact ⟨hk, fun hd => by rw [wf.desc_linked i k hd] at hkk; cases hkk⟩
      rw [restore_of_key this]
  intro j hj w hw
  rw [hc''j] at hw
  by_cases hjk : j ∈ i :: g.desc i
  · simp only [hjk, if_true] at hw
    -- both sides present
    cases hoj : restore c F j with
    | none => simp [hoj, mixOpt] at hw
    | some o =>
      cases hcj : c j with
      | none => simp [hoj, hcj, mixOpt] at hw
      | some cc =>
        simp only [hoj, hcj, mixOpt, Option.some.injEq] at hw
        subst hw
        rcases List.mem_cons.1 hjk with hji | hjd
        · -- the assigned node itself
          subst hji
          rw [spec_indep wf _ hj hki]
          unfold absC
          simp only [hki]
          rw [hc''j]; simp [hoj, hcj, mixOpt]
        · -- a descendant cached on both sides
          have hso := hro j hj o hoj
          have hsc := h.cons j hj cc hcj
          -- the assigned node is set on both sides
          have hreach := wf.desc_sound i j hjd
          have hpar : ∀ j' < g.n, ∀ p ∈ g.parents j', g.kind j' = .linked → p < g.n :=
            fun j' hj' p hp hk => wf.parents_lt hj' hk hp
          have hxo : spec g (absC g (restore c F)) i ≠ none :=
            spec_some_of_reach wf _ hreach hj hpar (by rw [hso]; simp)
          have hxc : spec g (absC g c) i ≠ none :=
            spec_some_of_reach wf _ hreach hj hpar (by rw [hsc]; simp)
          rw [spec_indep wf _ hi hki] at hxo hxc
          cases hx : absC g (restore c F) i with
          | none => exact absurd hx hxo
          | some x =>
            cases hy : absC g c i with
            | none => exact absurd hy hxc
            | some y =>
              -- express the three independent assignments as updates of the old one
              have e_o : absC g (restore c F) = upd (absC g (restore c F)) i (some x) := (upd_eta hx).symm
              have e_c : absC g c = upd (absC g (restore c F)) i (some y) := by
                funext k; unfold upd
                by_cases hk : k = i
                · subst hk; simp [hy]
                · simp [hk, hind_o k hk]
              have hni : absC g c'' i = some (mix m x y) := by
                have hx' : restore c F i = some x := by
                  have := hx; unfold absC at this; simpa [hki] using this
                have hy' : c i = some y := by
                  have := hy; unfold absC at this; simpa [hki] using this
                unfold absC; simp only [hki]
                rw [hc''j]; simp [hx', hy', mixOpt]
              have e_n : absC g c'' = upd (absC g (restore c F)) i (some (mix m x y)) := by
                funext k; unfold upd
                by_cases hk : k = i
                · subst hk; simp [hni]
                · simp [hk, hind_n k hk, hind_o k hk]
              rw [e_n]
              rw [e_o] at hso
              rw [e_c] at hsc
              exact hcomm i hkeys j hjd o cc hoj hcj _ x y o cc hso hsc
  · simp only [hjk, if_false] at hw
    have hsc := h.cons j hj w hw
    rw [← hsc]
    simp only [List.mem_cons, not_or] at hjk
    apply spec_congr_nondesc wf _ j hj hjk.1 hjk.2
    intro k hk; rw [hind_n k hk]

/-! ### the remaining operations -/

theorem inv_clone {g : Graph V} {s : St V} (h : Inv g s) (a b : Bool) : Inv g (clone s a b) := by
  refine ⟨h.cons, ?_⟩
  intro F hF
  unfold clone at hF
  simp only at hF
  split at hF
  · exact h.fork F hF
  · cases hF

theorem inv_setMode {g : Graph V} {s : St V} (h : Inv g s) (m : Bool) : Inv g (setMode s m) :=
  ⟨h.cons, h.fork⟩

theorem inv_clear {g : Graph V} (wf : WF g) (s : St V) : Inv g (clear g s) :=
  ⟨(inv_initial wf s.mode).cons, fun F hF => by simp [clear] at hF⟩

theorem inv_precompute {g : Graph V} (wf : WF g) {s : St V} (h : Inv g s) :
    Inv g (precompute g s).1 ∧ absS g (precompute g s).1 = absS g s := by
  unfold precompute
  have hL : ParentsBefore g g.order := wf.parents_before
  obtain ⟨w1, w2, w3, _, _⟩ := walk_spec wf hL (fun a ha => (wf.order_mem a).1 ha) g.order [] s.vals
    (by simp) h.cons (by simp)
  have hfork : ForkOK g { s with vals := (walk g g.order s.vals).1 } := by
    intro F hF
    obtain ⟨k, hk1, hk2, hk3, hk4⟩ := h.fork F hF
    exact ⟨k, hk1, hk2, hk3, cons_restore_mono wf hk3 w3 w2 w1 hk4⟩
  cases hw : walk g g.order s.vals with
  | mk c e =>
    rw [hw] at w1 w2 hfork
    cases e <;> exact ⟨⟨w1, hfork⟩, w2⟩

theorem inv_put {g : Graph V} (wf : WF g) {s : St V} (h : Inv g s) (i : Nat) (t : Option (V → V)) (v : V) :
    Inv g (put g s i t v).1 := by
  unfold put
  cases t with
  | none => exact inv_set wf h i (some v)
  | some t =>
    simp only
    by_cases hi : i < g.n
    · have hg := (get_spec wf h hi).1
      cases hr : get g s i with
      | mk s' r =>
        rw [hr] at hg
        cases r with
        | ok cur => exact inv_set wf hg i _
        | error e => exact hg
    · have : get g s i = (s, .error .input) := by
        unfold get; simp [Nat.le_of_not_lt hi]
      rw [this]; exact h


/-! ### the individual axis made concrete: values are functions of the individual index -/

variable {R : Type}

/-- Values carrying (or broadcast along) the individual axis: one component per individual.
    A population-level value is a constant function. -/
abbrev IVal (R : Type) := Nat → R

/-- the entry-wise selection of a per-individual revert (`m r` = individual `r` is reverted to the old value) -/
def mixI (m : Nat → Bool) (o c : IVal R) : IVal R := fun r => if m r then o r else c r

/-- the node function is computed individual by individual: component `r` of the result only depends on the
    components `r` of the arguments -/
def Rowwise (f : List (IVal R) → IVal R) : Prop :=
  ∀ (ps qs : List (IVal R)) (r : Nat), ps.map (fun v => v r) = qs.map (fun v => v r) → f ps r = f qs r

/-- `k` depends on `i` only through nodes that are computed individual by individual -/
inductive RowwiseFrom (g : Graph (IVal R)) (i : Nat) : Nat → Prop
  | node {k} : g.kind k = .linked → Rowwise (g.fn k) →
      (∀ p ∈ g.parents k, p ≠ i → p ∈ g.desc i → RowwiseFrom g i p) → RowwiseFrom g i k

theorem mixI_self (m : Nat → Bool) (a : IVal R) : mixI m a a = a := by
  funext r; simp [mixI]

theorem mapM_some_of_forall {ps : List Nat} {c : Cache (IVal R)} {f : Nat → IVal R}
    (h : ∀ p ∈ ps, c p = some (f p)) : ps.mapM c = some (ps.map f) := by
  induction ps with
  | nil => rfl
  | cons p ps ih =>
    simp only [List.mapM_cons, List.map_cons]
    rw [h p (by simp), ih (fun q hq => h q (by simp [hq]))]
    rfl

theorem mapM_eq_some_iff {ps : List Nat} {c : Cache (IVal R)} {vs : List (IVal R)} :
    ps.mapM c = some vs → ∀ p ∈ ps, ∃ v, c p = some v := by
  intro h p hp
  have := (mapM_some_iff.1 ⟨vs, h⟩) p hp
  cases hc : c p with
  | none => exact absurd hc this
  | some v => exact ⟨v, rfl⟩

theorem mapM_length {ps : List Nat} {c : Cache (IVal R)} {vs : List (IVal R)} (h : ps.mapM c = some vs) :
    vs.length = ps.length := by
  induction ps generalizing vs with
  | nil => simp at h; subst h; rfl
  | cons p ps ih =>
    simp only [List.mapM_cons] at h
    cases hp : c p with
    | none => simp [hp] at h
    | some v =>
      cases hps : ps.mapM c with
      | none => simp [hp, hps] at h
      | some ws =>
        simp [hp, hps] at h
        subst h
        simp [ih hps]

/-- parents evaluated under the mixed assignment are the entry-wise mix of the parents under the two assignments -/
theorem mapM_mix {m : Nat → Bool} {ps : List Nat} {c c' c'' : Cache (IVal R)} {vs vs' : List (IVal R)}
    (h : ps.mapM c = some vs) (h' : ps.mapM c' = some vs')
    (hp : ∀ p ∈ ps, ∀ a b, c p = some a → c' p = some b → c'' p = some (mixI m a b)) :
    ps.mapM c'' = some (List.zipWith (mixI m) vs vs') := by
  induction ps generalizing vs vs' with
  | nil => simp at h h'; subst h; subst h'; rfl
  | cons p ps ih =>
    simp only [List.mapM_cons] at h h' ⊢
    cases hc : c p with
    | none => simp [hc] at h
    | some a =>
      cases hc' : c' p with
      | none => simp [hc'] at h'
      | some b =>
        cases hps : ps.mapM c with
        | none => simp [hc, hps] at h
        | some ws =>
          cases hps' : ps.mapM c' with
          | none => simp [hc', hps'] at h'
          | some ws' =>
            simp [hc, hps] at h
            simp [hc', hps'] at h'
            subst h; subst h'
            rw [hp p (by simp) a b hc hc', ih hps hps' (fun q hq => hp q (by simp [hq]))]
            rfl

theorem rowwise_mix {f : List (IVal R) → IVal R} (hf : Rowwise f) (m : Nat → Bool) {vs vs' : List (IVal R)}
    (hl : vs.length = vs'.length) : f (List.zipWith (mixI m) vs vs') = mixI m (f vs) (f vs') := by
  funext r
  unfold mixI
  by_cases hm : m r = true
  · simp only [hm, if_true]
    apply hf
    induction vs generalizing vs' with
    | nil => cases vs' <;> simp_all
    | cons a vs ih =>
      cases vs' with
      | nil => simp at hl
      | cons b vs' =>
        simp only [List.zipWith_cons_cons, List.map_cons]
        rw [ih (by simpa using hl)]
        simp [hm]
  · simp only [hm, Bool.false_eq_true, if_false]
    apply hf
    induction vs generalizing vs' with
    | nil => cases vs' <;> simp_all
    | cons a vs ih =>
      cases vs' with
      | nil => simp at hl
      | cons b vs' =>
        simp only [List.zipWith_cons_cons, List.map_cons]
        rw [ih (by simpa using hl)]
        simp [hm]

/-- **The documented precondition, structurally.**  If `k` depends on the assigned variable `i` only through
    variables computed individual by individual, then `k` commutes with the entry-wise mix of a per-individual revert. -/
theorem commutes_of_rowwise {g : Graph (IVal R)} (wf : WF g) {i : Nat} (hi : i < g.n) {b : Bool}
    (hki : g.kind i = .indep b) (m : Nat → Bool) {k : Nat} (hrow : RowwiseFrom g i k) (hk : k < g.n) :
    Commutes g mixI m i k := by
  intro ind x y
  have agree : ∀ (u v : IVal R) (j : Nat), j ≠ i → upd ind i (some u) j = upd ind i (some v) j := by
    intro u v j hj; simp [upd, hj]
  induction hrow with
  | @node k hkl hrw hpar ih =>
    intro o c ho hc
    rw [spec_linked wf _ hk hkl] at ho hc ⊢
    cases hvs : (g.parents k).mapM (spec g (upd ind i (some x))) with
    | none => simp [hvs] at ho
    | some vs =>
      cases hvs' : (g.parents k).mapM (spec g (upd ind i (some y))) with
      | none => simp [hvs'] at hc
      | some vs' =>
        simp only [hvs, Option.map_some, Option.some.injEq] at ho
        simp only [hvs', Option.map_some, Option.some.injEq] at hc
        subst ho; subst hc
        have hmix : (g.parents k).mapM (spec g (upd ind i (some (mixI m x y))))
            = some (List.zipWith (mixI m) vs vs') := by
          apply mapM_mix hvs hvs'
          intro p hp a b' ha hb
          have hp_lt : p < g.n := wf.parents_lt hk hkl hp
          by_cases hpi : p = i
          · subst hpi
            rw [spec_indep wf _ hp_lt hki] at ha hb ⊢
            simp only [upd, if_true, Option.some.injEq] at ha hb ⊢
            rw [← ha, ← hb]
          · by_cases hpd : p ∈ g.desc i
            · exact ih p hp hpi hpd hp_lt a b' ha hb
            · have e1 := spec_congr_nondesc wf (agree (mixI m x y) x) p hp_lt hpi hpd
              have e2 := spec_congr_nondesc wf (agree y x) p hp_lt hpi hpd
              rw [e2, ha] at hb
              simp only [Option.some.injEq] at hb
              rw [e1, ha, ← hb, mixI_self]
        rw [hmix]
        simp only [Option.map_some, Option.some.injEq]
        exact rowwise_mix hrw m ((mapM_length hvs).trans (mapM_length hvs').symm)


end LeaspyVerif.State
