import LeaspyVerif.Model.Ingest
namespace LeaspyVerif.IngestLemmas
open LeaspyVerif.Ingest List

/-- strictly increasing ages -/
def SortedV (l : List Visit) : Prop := l.Pairwise (fun a b => a.age < b.age)

theorem insertVisit_perm (v : Visit) (l : List Visit) : (insertVisit v l).Perm (v :: l) := by
  induction l with
  | nil => simp [insertVisit]
  | cons w ws ih =>
    simp only [insertVisit]
    split
    · exact (Perm.cons w ih).trans (Perm.swap v w ws)
    · exact Perm.refl _

theorem mem_insertVisit {v x : Visit} {l : List Visit} : x ∈ insertVisit v l ↔ x = v ∨ x ∈ l := by
  rw [(insertVisit_perm v l).mem_iff]; simp

theorem insertVisit_sorted {v : Visit} {l : List Visit} (hs : SortedV l) (hne : ∀ w ∈ l, w.age ≠ v.age) :
    SortedV (insertVisit v l) := by
  induction l with
  | nil => simp [insertVisit, SortedV]
  | cons w ws ih =>
    simp only [SortedV, pairwise_cons] at hs
    simp only [insertVisit]
    split
    · rename_i hle
      have hlt : w.age < v.age := by
        have := hne w (by simp); omega
      simp only [SortedV, pairwise_cons]
      refine ⟨?_, ih hs.2 (fun x hx => hne x (by simp [hx]))⟩
      intro x hx
      rcases mem_insertVisit.1 hx with rfl | hx
      · exact hlt
      · exact hs.1 x hx
    · rename_i hle
      simp only [SortedV, pairwise_cons]
      refine ⟨?_, hs⟩
      intro x hx
      rcases mem_cons.1 hx with rfl | hx
      · omega
      · have := hs.1 x hx; omega

theorem hasAge_iff {a : Int} {l : List Visit} : hasAge a l = true ↔ ∃ w ∈ l, w.age = a := by
  simp [hasAge]

theorem hasAge_false {a : Int} {l : List Visit} : hasAge a l = false ↔ ∀ w ∈ l, w.age ≠ a := by
  rw [← Bool.not_eq_true, hasAge_iff]; simp

/-- insertion sort as a fold: what `add_observations` computes when it never refuses -/
def isortFrom (acc : List Visit) (vs : List Visit) : List Visit := vs.foldl (fun a v => insertVisit v a) acc

theorem isortFrom_perm (acc vs : List Visit) : (isortFrom acc vs).Perm (acc ++ vs) := by
  induction vs generalizing acc with
  | nil => simp [isortFrom]
  | cons v vs ih =>
    simp only [isortFrom, foldl_cons]
    refine (ih (insertVisit v acc)).trans ?_
    refine ((insertVisit_perm v acc).append_right vs).trans ?_
    simp only [cons_append]
    exact perm_middle.symm

theorem addObservations_ok_of_nodup {acc vs : List Visit} (h : ((acc ++ vs).map (·.age)).Nodup) :
    addObservations acc vs = .ok (isortFrom acc vs) := by
  induction vs generalizing acc with
  | nil => simp [addObservations, isortFrom]
  | cons v vs ih =>
    have hv : hasAge v.age acc = false := by
      rw [hasAge_false]
      intro w hw heq
      simp only [map_append, map_cons, nodup_append, nodup_cons] at h
      exact h.2.2 w.age (mem_map.2 ⟨w, hw, rfl⟩) v.age (by simp) heq
    simp only [addObservations, hv, Bool.false_eq_true, ↓reduceIte, isortFrom, foldl_cons]
    apply ih
    have hp : ((insertVisit v acc ++ vs).map (·.age)).Perm ((acc ++ v :: vs).map (·.age)) := by
      apply Perm.map
      refine ((insertVisit_perm v acc).append_right vs).trans ?_
      simp only [cons_append]
      exact perm_middle.symm
    exact hp.nodup_iff.2 h

theorem addObservations_ok_nodup {acc vs r : List Visit} (hacc : (acc.map (·.age)).Nodup)
    (h : addObservations acc vs = .ok r) : ((acc ++ vs).map (·.age)).Nodup := by
  induction vs generalizing acc with
  | nil => simpa using hacc
  | cons v vs ih =>
    simp only [addObservations] at h
    split at h
    · cases h
    · rename_i hv
      have hv' := hasAge_false.1 (by simpa using hv)
      have hp : ((insertVisit v acc).map (·.age)).Perm ((v :: acc).map (·.age)) := (insertVisit_perm v acc).map _
      have hn : ((insertVisit v acc).map (·.age)).Nodup := by
        rw [hp.nodup_iff]; simp only [map_cons, nodup_cons, mem_map, not_exists, not_and]
        exact ⟨fun w hw => hv' w hw, hacc⟩
      have := ih hn h
      have hp2 : ((insertVisit v acc ++ vs).map (·.age)).Perm ((acc ++ v :: vs).map (·.age)) := by
        apply Perm.map
        refine ((insertVisit_perm v acc).append_right vs).trans ?_
        simp only [cons_append]
        exact perm_middle.symm
      exact hp2.nodup_iff.1 this

theorem isortFrom_sorted {acc vs : List Visit} (hs : SortedV acc) (h : ((acc ++ vs).map (·.age)).Nodup) :
    SortedV (isortFrom acc vs) := by
  induction vs generalizing acc with
  | nil => simpa [isortFrom] using hs
  | cons v vs ih =>
    simp only [isortFrom, foldl_cons]
    have hne : ∀ w ∈ acc, w.age ≠ v.age := by
      intro w hw heq
      simp only [map_append, map_cons, nodup_append, nodup_cons] at h
      exact h.2.2 w.age (mem_map.2 ⟨w, hw, rfl⟩) v.age (by simp) heq
    apply ih (insertVisit_sorted hs hne)
    have hp2 : ((insertVisit v acc ++ vs).map (·.age)).Perm ((acc ++ v :: vs).map (·.age)) := by
      apply Perm.map
      refine ((insertVisit_perm v acc).append_right vs).trans ?_
      simp only [cons_append]
      exact perm_middle.symm
    exact hp2.nodup_iff.2 h

/-- two permutations of each other that are sorted for an asymmetric relation are equal -/
theorem eq_of_perm_of_pairwise {α} {r : α → α → Prop} (asym : ∀ a b, r a b → r b a → False)
    {l₁ l₂ : List α} (h₁ : l₁.Pairwise r) (h₂ : l₂.Pairwise r) (hp : l₁.Perm l₂) : l₁ = l₂ := by
  induction l₁ generalizing l₂ with
  | nil => exact (hp.symm.eq_nil).symm
  | cons a t₁ ih =>
    cases l₂ with
    | nil => exact absurd hp.length_eq (by simp)
    | cons b t₂ =>
      rw [pairwise_cons] at h₁ h₂
      have hab : a = b := by
        have ha : a ∈ b :: t₂ := hp.mem_iff.1 (by simp)
        have hb : b ∈ a :: t₁ := hp.mem_iff.2 (by simp)
        rcases mem_cons.1 ha with h | ha'
        · exact h
        · rcases mem_cons.1 hb with h | hb'
          · exact h.symm
          · exact (asym _ _ (h₁.1 b hb') (h₂.1 a ha')).elim
      subst hab
      rw [ih h₁.2 h₂.2 (Perm.cons_inv hp)]

/-! ### identifiers in order of first appearance -/

theorem mem_firstIds {j : Nat} {l : List Nat} : j ∈ firstIds l ↔ j ∈ l := by
  induction l with
  | nil => simp [firstIds]
  | cons i is ih =>
    simp only [firstIds, mem_cons, mem_filter, ih, bne_iff_ne, ne_eq]
    by_cases h : j = i <;> simp [h]

theorem nodup_firstIds (l : List Nat) : (firstIds l).Nodup := by
  induction l with
  | nil => simp [firstIds]
  | cons i is ih =>
    simp only [firstIds, nodup_cons, mem_filter, bne_self_eq_false, Bool.false_eq_true, and_false,
      not_false_eq_true, true_and]
    exact ih.sublist filter_sublist

theorem firstIds_perm {l₁ l₂ : List Nat} (h : l₁.Perm l₂) : (firstIds l₁).Perm (firstIds l₂) := by
  rw [perm_ext_iff_of_nodup (nodup_firstIds _) (nodup_firstIds _)]
  intro a; rw [mem_firstIds, mem_firstIds, h.mem_iff]

/-- the key of the `(ID, TIME)` index -/
def key (r : Row) : Nat × Int := (r.id, r.age)

theorem rowKeyDup_false_iff {rows : List Row} : rowKeyDup rows = false ↔ (rows.map key).Nodup := by
  induction rows with
  | nil => simp [rowKeyDup]
  | cons r rs ih =>
    simp only [rowKeyDup, Bool.or_eq_false_iff, ih, map_cons, nodup_cons, mem_map, not_exists, not_and]
    constructor
    · rintro ⟨h1, h2⟩
      refine ⟨?_, h2⟩
      intro s hs heq
      have := (any_eq_false.1 h1) s hs
      simp only [key, Prod.mk.injEq] at heq
      simp [heq.1, heq.2] at this
    · rintro ⟨h1, h2⟩
      refine ⟨?_, h2⟩
      rw [any_eq_false]
      intro s hs
      have := h1 s hs
      simp only [key, Prod.mk.injEq, not_and] at this
      simp only [Bool.and_eq_true, beq_iff_eq, not_and]
      intro hid hage
      exact this hid hage

theorem rowKeyDup_perm {t₁ t₂ : List Row} (h : t₁.Perm t₂) : rowKeyDup t₁ = rowKeyDup t₂ := by
  have := (h.map key).nodup_iff
  rw [← rowKeyDup_false_iff, ← rowKeyDup_false_iff] at this
  cases h1 : rowKeyDup t₁ <;> cases h2 : rowKeyDup t₂ <;> simp_all

theorem nodup_keys_filter {rows : List Row} (p : Row → Bool) (h : (rows.map key).Nodup) :
    ((rows.filter p).map key).Nodup :=
  h.sublist (filter_sublist.map key)

theorem visitsOf_ages_nodup {rows : List Row} (i : Nat) (h : (rows.map key).Nodup) :
    ((visitsOf i rows).map (·.age)).Nodup := by
  induction rows with
  | nil => simp [visitsOf]
  | cons r rs ih =>
    simp only [map_cons, nodup_cons] at h
    simp only [visitsOf, filter_cons]
    split
    · rename_i hid
      simp only [map_cons, nodup_cons]
      refine ⟨?_, ih h.2⟩
      simp only [mem_map, mem_filter, not_exists, not_and, and_imp, forall_exists_index]
      intro a s hs hsid hv ha
      apply h.1
      rw [mem_map]
      refine ⟨s, hs, ?_⟩
      simp only [beq_iff_eq] at hid hsid
      subst hv
      simp only at ha
      simp [key, hid, hsid, ha]
    · exact ih h.2

theorem visitsOf_perm {t₁ t₂ : List Row} (i : Nat) (h : t₁.Perm t₂) : (visitsOf i t₁).Perm (visitsOf i t₂) :=
  (h.filter _).map _

/-- the sorted visits of individual `i` -/
def sortedOf (i : Nat) (rows : List Row) : List Visit := isortFrom [] (visitsOf i rows)

/-- closed form of the loading loop -/
def canon (rows : List Row) : Canon :=
  (firstIds (rows.map (·.id))).map (fun i => ⟨i, sortedOf i rows⟩)

theorem loadIds_eq_map {rows : List Row} (h : (rows.map key).Nodup) (ids : List Nat) :
    loadIds rows ids = .ok (ids.map (fun i => ⟨i, sortedOf i rows⟩)) := by
  induction ids with
  | nil => simp [loadIds]
  | cons i is ih =>
    have : addObservations [] (visitsOf i rows) = .ok (sortedOf i rows) :=
      addObservations_ok_of_nodup (by simpa using visitsOf_ages_nodup i h)
    simp [loadIds, this, ih]

theorem loadAll_eq_canon {rows : List Row} (h : (rows.map key).Nodup) : loadAll rows = .ok (canon rows) :=
  loadIds_eq_map h _

theorem sortedOf_sorted {rows : List Row} (i : Nat) (h : (rows.map key).Nodup) : SortedV (sortedOf i rows) :=
  isortFrom_sorted (by simp [SortedV]) (by simpa using visitsOf_ages_nodup i h)

theorem sortedOf_perm (rows : List Row) (i : Nat) : (sortedOf i rows).Perm (visitsOf i rows) := by
  simpa [sortedOf] using isortFrom_perm [] (visitsOf i rows)

theorem sortedOf_congr {t₁ t₂ : List Row} (i : Nat) (h : t₁.Perm t₂) (hk : (t₁.map key).Nodup) :
    sortedOf i t₁ = sortedOf i t₂ := by
  have hk2 : (t₂.map key).Nodup := (h.map key).nodup_iff.1 hk
  apply eq_of_perm_of_pairwise (r := fun a b : Visit => a.age < b.age) (fun a b h1 h2 => by omega)
    (sortedOf_sorted i hk) (sortedOf_sorted i hk2)
  exact (sortedOf_perm t₁ i).trans ((visitsOf_perm i h).trans (sortedOf_perm t₂ i).symm)

theorem canon_perm {t₁ t₂ : List Row} (h : t₁.Perm t₂) (hk : (t₁.map key).Nodup) : (canon t₁).Perm (canon t₂) := by
  unfold canon
  have : (fun i => (⟨i, sortedOf i t₁⟩ : Indiv)) = (fun i => ⟨i, sortedOf i t₂⟩) := by
    funext i; rw [sortedOf_congr i h hk]
  rw [this]
  exact (firstIds_perm (h.map _)).map _

theorem canon_same_order {t₁ t₂ : List Row} (h : t₁.Perm t₂) (hk : (t₁.map key).Nodup)
    (ho : firstIds (t₁.map (·.id)) = firstIds (t₂.map (·.id))) : canon t₁ = canon t₂ := by
  unfold canon
  have : (fun i => (⟨i, sortedOf i t₁⟩ : Indiv)) = (fun i => ⟨i, sortedOf i t₂⟩) := by
    funext i; rw [sortedOf_congr i h hk]
  rw [this, ho]

theorem addObservations_ok {vs r : List Visit} (h : addObservations [] vs = .ok r) :
    SortedV r ∧ r.Perm vs := by
  have hn := addObservations_ok_nodup (acc := []) (by simp) h
  have h2 := addObservations_ok_of_nodup hn
  rw [h2] at h
  cases h
  exact ⟨isortFrom_sorted (by simp [SortedV]) hn, by simpa using isortFrom_perm [] vs⟩

theorem loadIds_inv {rows : List Row} {ids : List Nat} {c : Canon} (h : loadIds rows ids = .ok c) :
    c.map (·.id) = ids ∧ ∀ p ∈ c, addObservations [] (visitsOf p.id rows) = .ok p.visits := by
  induction ids generalizing c with
  | nil => simp only [loadIds] at h; cases h; simp
  | cons i is ih =>
    simp only [loadIds] at h
    split at h
    · cases h
    · rename_i vs hvs
      split at h
      · cases h
      · rename_i c' hc'
        cases h
        have := ih hc'
        refine ⟨by simp [this.1], ?_⟩
        intro p hp
        rcases mem_cons.1 hp with rfl | hp
        · exact hvs
        · exact this.2 p hp

/-- rows that survive `dropna(how="all")` in the visit layout -/
def kept (rows : List Row) : List Row := rows.filter (fun r => !allMissing r.vals)

theorem ingest_eq (dim : Nat) (rows : List Row) : ingest dim rows =
    if rowKeyDup rows then .error .duplicate
    else if (kept rows).isEmpty then .error .noRow
    else if dim < 1 then .error .noFeature
    else .ok (canon (kept rows)) := by
  unfold ingest loadChecked
  cases hd : rowKeyDup rows
  · have hk := nodup_keys_filter (fun r => !allMissing r.vals) (rowKeyDup_false_iff.1 hd)
    simp only [Bool.false_eq_true, ↓reduceIte, kept]
    by_cases h1 : (filter (fun r => !allMissing r.vals) rows).isEmpty = true
    · simp [h1]
    · by_cases h2 : dim < 1
      · simp [h1, h2]
      · simp only [h1, h2, Bool.false_eq_true, ↓reduceIte]
        exact loadAll_eq_canon hk
  · simp

theorem kept_perm {t₁ t₂ : List Row} (h : t₁.Perm t₂) : (kept t₁).Perm (kept t₂) := h.filter _

/-! ### raw table validation -/

def mkRaw (x : Nat × Int × List (Cell Rat)) : RawRow := ⟨x.1, .fin x.2.1, x.2.2⟩

theorem agesOf_ok {rows : List RawRow} {l} (h : agesOf rows = .ok l) : rows = l.map mkRaw := by
  induction rows generalizing l with
  | nil => simp only [agesOf] at h; cases h; rfl
  | cons r rs ih =>
    simp only [agesOf] at h
    split at h
    · rename_i a ha
      split at h
      · rename_i l' hl'
        cases h
        rw [map_cons, ← ih hl']
        congr 1
        cases r; simp_all [mkRaw]
      · cases h
    · cases h

theorem agesOf_error {rows : List RawRow} {e} (h : agesOf rows = .error e) :
    e = .timeNa ∧ ∃ r ∈ rows, ∀ a, r.age ≠ .fin a := by
  induction rows with
  | nil => simp [agesOf] at h
  | cons r rs ih =>
    simp only [agesOf] at h
    split at h
    · rename_i a ha
      split at h
      · cases h
      · rename_i e' he'
        cases h
        obtain ⟨h1, r', hr', h2⟩ := ih he'
        exact ⟨h1, r', by simp [hr'], h2⟩
    · rename_i hne
      cases h
      refine ⟨rfl, r, by simp, ?_⟩
      intro a ha
      exact hne a ha

theorem allMissing_map_cellToObs (cs : List (Cell Rat)) (hinf : ∀ x ∈ cs, x ≠ .inf) :
    allMissing (cs.map cellToObs) = false ↔ ∃ q, Cell.fin q ∈ cs := by
  simp only [allMissing, all_map, all_eq_false, Function.comp_apply, Bool.not_eq_true]
  constructor
  · rintro ⟨x, hx, h⟩
    cases x with
    | fin q => exact ⟨q, hx⟩
    | nan => simp [cellToObs] at h
    | inf => exact absurd rfl (hinf _ hx)
  · rintro ⟨q, hq⟩
    exact ⟨_, hq, by simp [cellToObs]⟩

/-! ### tensor form -/

theorem le_maxList {n : Nat} {l : List Nat} (h : n ∈ l) : n ≤ maxList l := by
  induction l with
  | nil => cases h
  | cons m ms ih =>
    simp only [maxList]
    rcases mem_cons.1 h with rfl | h
    · omega
    · have := ih h; omega

theorem padTo_length {α} {n : Nat} {x : α} {l : List α} (h : l.length ≤ n) : (padTo n x l).length = n := by
  simp [padTo]; omega

theorem padTo_take {α} (n : Nat) (x : α) (l : List α) : (padTo n x l).take l.length = l := by
  simp [padTo]

theorem padTo_drop {α} (n : Nat) (x : α) (l : List α) : (padTo n x l).drop l.length = replicate (n - l.length) x := by
  simp [padTo]

/-- value `k` of a visit is present (not NaN) -/
def present (v : Visit) (k : Nat) : Bool :=
  match v.vals[k]? with
  | some (some _) => true
  | _ => false

theorem present_iff {v : Visit} {k : Nat} : present v k = true ↔ ∃ q, v.vals[k]? = some (some q) := by
  unfold present
  split <;> simp_all

theorem mask_get (dim nMax : Nat) (vs : List Visit) (j k : Nat) :
    ((padTo nMax (replicate dim false) (vs.map (fun v => v.vals.map Option.isSome)))[j]?.bind (·[k]?)) = some true ↔
      ∃ v, vs[j]? = some v ∧ present v k = true := by
  simp only [padTo, getElem?_append, length_map, getElem?_map]
  split
  · rename_i hj
    simp only [getElem?_eq_getElem hj, Option.map_some, Option.bind_some, getElem?_map, Option.map_eq_some_iff,
      Option.isSome_iff_exists, Option.some.injEq, exists_eq_left']
    constructor
    · rintro ⟨o, ho, q, rfl⟩
      exact present_iff.2 ⟨q, ho⟩
    · intro h
      obtain ⟨q, hq⟩ := present_iff.1 h
      exact ⟨some q, hq, q, rfl⟩
  · rename_i hj
    have : vs[j]? = none := by simp at hj ⊢; omega
    simp only [this, reduceCtorEq, false_and, exists_false, iff_false]
    simp only [getElem?_replicate]
    split <;> simp [getElem?_replicate]

theorem colSums_get (dim nMax : Nat) (vs : List Visit) {k : Nat} (hk : k < dim) :
    (colSums dim (padTo nMax (replicate dim false) (vs.map (fun v => v.vals.map Option.isSome))))[k]? =
      some (vs.filter (fun v => present v k)).length := by
  simp only [colSums, getElem?_map, getElem?_range hk, Option.map_some, Option.some.injEq, padTo, filter_append,
    length_append, filter_map, length_map]
  have h1 : ∀ m, (filter (fun row => row[k]? == some true) (replicate m (replicate dim false))).length = 0 := by
    intro m; simp [hk]
  rw [h1, Nat.add_zero]
  congr 1
  apply filter_congr
  intro v _
  simp only [Function.comp_apply, getElem?_map]
  unfold present
  cases h : v.vals[k]? with
  | none => simp
  | some o => cases o <;> simp

/-! ### round trip -/

theorem zipWith_map_map {α β γ δ} (f : β → γ → δ) (g : α → β) (h : α → γ) (l : List α) :
    zipWith f (l.map g) (l.map h) = l.map (fun x => f (g x) (h x)) := by
  induction l with
  | nil => rfl
  | cons a l ih => simp [ih]

theorem recover_zip (vals : Obs) : zipWith recover (vals.map fillNaN) (vals.map Option.isSome) = vals := by
  rw [zipWith_map_map]
  conv => rhs; rw [← map_id vals]
  apply map_congr_left
  intro o _
  cases o <;> simp [recover, fillNaN]

theorem patientVisits_tensorise (store : Int → Int) (dim nMax : Nat) (p : Indiv) :
    patientVisits (tensoriseIndiv store dim nMax p) = p.visits.map (fun v => ⟨store v.age, v.vals⟩) := by
  simp only [patientVisits, tensoriseIndiv, take_zipWith]
  have h1 := padTo_take nMax (0 : Int) (p.visits.map (fun v => store v.age))
  have h2 := padTo_take nMax (replicate dim (0 : Rat)) (p.visits.map (fun v => v.vals.map fillNaN))
  have h3 := padTo_take nMax (replicate dim false) (p.visits.map (fun v => v.vals.map Option.isSome))
  simp only [length_map] at h1 h2 h3
  rw [h1, h2, h3, zipWith_map_map, zipWith_map_map]
  apply map_congr_left
  intro v _
  rw [recover_zip]

theorem sortedV_nodup {l : List Visit} (h : SortedV l) : (l.map (·.age)).Nodup := by
  simp only [Nodup, pairwise_map]
  exact h.imp (fun hab => by omega)

theorem addObservations_sorted {l : List Visit} (h : SortedV l) : addObservations [] l = .ok l := by
  have hn : ((([] : List Visit) ++ l).map (·.age)).Nodup := by simpa using sortedV_nodup h
  rw [addObservations_ok_of_nodup hn]
  congr 1
  exact eq_of_perm_of_pairwise (r := fun a b : Visit => a.age < b.age) (fun a b h1 h2 => by omega)
    (isortFrom_sorted (by simp [SortedV]) hn) h (by simpa using isortFrom_perm [] l)

theorem framesOf_tensorise (store : Int → Int) (dim nMax : Nat) (c : Canon)
    (hs : ∀ p ∈ c, ∀ v ∈ p.visits, store v.age = v.age) (hsorted : ∀ p ∈ c, SortedV p.visits) :
    framesOf (c.map (tensoriseIndiv store dim nMax)) = .ok (flatten c) := by
  induction c with
  | nil => rfl
  | cons p c ih =>
    have hp : patientVisits (tensoriseIndiv store dim nMax p) = p.visits := by
      rw [patientVisits_tensorise]
      conv => rhs; rw [← map_id p.visits]
      apply map_congr_left
      intro v hv
      rw [hs p (by simp) v hv]
      rfl
    simp only [map_cons, framesOf, hp, addObservations_sorted (hsorted p (by simp))]
    rw [ih (fun q hq => hs q (by simp [hq])) (fun q hq => hsorted q (by simp [hq]))]
    simp [Ingest.flatten, tensoriseIndiv]

/-! ### `sort_index` -/

theorem insertRow_perm (r : Row) (l : List Row) : (insertRow r l).Perm (r :: l) := by
  induction l with
  | nil => simp [insertRow]
  | cons s ss ih =>
    simp only [insertRow]
    split
    · exact Perm.refl _
    · exact (Perm.cons s ih).trans (Perm.swap r s ss)

theorem sortRows_perm (l : List Row) : (sortRows l).Perm l := by
  induction l with
  | nil => simp [sortRows]
  | cons r rs ih => exact (insertRow_perm r _).trans (Perm.cons r ih)

theorem rowLe_total {r s : Row} (h : rowLe r s = false) : rowLe s r = true := by
  simp only [rowLe, Bool.or_eq_false_iff, decide_eq_false_iff_not, Bool.and_eq_false_imp, beq_iff_eq] at h
  simp only [rowLe, Bool.or_eq_true, decide_eq_true_eq, Bool.and_eq_true, beq_iff_eq]
  by_cases hid : r.id = s.id
  · right; exact ⟨hid.symm, by have := h.2 hid; omega⟩
  · left; omega

theorem rowLe_trans {a b c : Row} (h1 : rowLe a b = true) (h2 : rowLe b c = true) : rowLe a c = true := by
  simp only [rowLe, Bool.or_eq_true, decide_eq_true_eq, Bool.and_eq_true, beq_iff_eq] at *
  rcases h1 with h1 | ⟨h1, h1'⟩ <;> rcases h2 with h2 | ⟨h2, h2'⟩
  · left; omega
  · left; omega
  · left; omega
  · right; exact ⟨by omega, by omega⟩

theorem insertRow_sorted {r : Row} {l : List Row} (h : l.Pairwise (fun a b => rowLe a b = true)) :
    (insertRow r l).Pairwise (fun a b => rowLe a b = true) := by
  induction l with
  | nil => simp [insertRow]
  | cons s ss ih =>
    rw [pairwise_cons] at h
    simp only [insertRow]
    split
    · rename_i hle
      rw [pairwise_cons]
      refine ⟨?_, pairwise_cons.2 h⟩
      intro x hx
      rcases mem_cons.1 hx with rfl | hx
      · exact hle
      · exact rowLe_trans hle (h.1 x hx)
    · rename_i hle
      rw [pairwise_cons]
      refine ⟨?_, ih h.2⟩
      intro x hx
      rcases mem_cons.1 ((insertRow_perm r ss).mem_iff.1 hx) with rfl | hx
      · exact rowLe_total (by simpa using hle)
      · exact h.1 x hx

theorem sortRows_sorted (l : List Row) : (sortRows l).Pairwise (fun a b => rowLe a b = true) := by
  induction l with
  | nil => simp [sortRows]
  | cons r rs ih => exact insertRow_sorted ih

theorem firstIds_sorted {l : List Nat} (h : l.Pairwise (· ≤ ·)) : (firstIds l).Pairwise (· < ·) := by
  induction l with
  | nil => simp [firstIds]
  | cons i is ih =>
    rw [pairwise_cons] at h
    simp only [firstIds, pairwise_cons]
    refine ⟨?_, (ih h.2).sublist filter_sublist⟩
    intro j hj
    rw [mem_filter, mem_firstIds] at hj
    have := h.1 j hj.1
    have hne : j ≠ i := by simpa using hj.2
    omega

/-! ### flattening a canonical form -/

theorem mem_flatten {r : Row} {c : Canon} :
    r ∈ flatten c ↔ ∃ p ∈ c, ∃ v ∈ p.visits, r = ⟨p.id, v.age, v.vals⟩ := by
  induction c with
  | nil => simp [Ingest.flatten]
  | cons p c ih =>
    simp only [Ingest.flatten, mem_append, mem_map, ih, mem_cons, exists_eq_or_imp]
    constructor
    · rintro (⟨v, hv, rfl⟩ | h)
      · exact Or.inl ⟨v, hv, rfl⟩
      · exact Or.inr h
    · rintro (⟨v, hv, rfl⟩ | h)
      · exact Or.inl ⟨v, hv, rfl⟩
      · exact Or.inr h

theorem flatten_keys_nodup {c : Canon} (hid : (c.map (·.id)).Nodup) (hs : ∀ p ∈ c, SortedV p.visits) :
    ((flatten c).map key).Nodup := by
  induction c with
  | nil => simp [Ingest.flatten]
  | cons p c ih =>
    simp only [map_cons, nodup_cons] at hid
    simp only [Ingest.flatten, map_append, map_map]
    rw [nodup_append]
    refine ⟨?_, ih hid.2 (fun q hq => hs q (by simp [hq])), ?_⟩
    · have := sortedV_nodup (hs p (by simp))
      simp only [Nodup, pairwise_map] at this ⊢
      exact this.imp (fun hab heq => hab (by simpa [key] using heq))
    · intro a ha b hb heq
      simp only [mem_map, Function.comp_apply] at ha hb
      obtain ⟨v, _, rfl⟩ := ha
      obtain ⟨r, hr, rfl⟩ := hb
      obtain ⟨q, hq, w, _, rfl⟩ := mem_flatten.1 hr
      simp only [key, Prod.mk.injEq] at heq
      exact hid.1 (mem_map.2 ⟨q, hq, heq.1.symm⟩)

theorem nodup_of_map {α β} (f : α → β) {l : List α} (h : (l.map f).Nodup) : l.Nodup := by
  simp only [Nodup, pairwise_map] at h ⊢
  exact h.imp (fun hab heq => hab (by rw [heq]))

theorem canon_ids (K : List Row) : (canon K).map (·.id) = firstIds (K.map (·.id)) := by
  simp only [canon, map_map]
  have : ((fun p : Indiv => p.id) ∘ fun i => (⟨i, sortedOf i K⟩ : Indiv)) = id := rfl
  rw [this, map_id]

theorem flatten_canon_perm {K : List Row} (hk : (K.map key).Nodup) : (flatten (canon K)).Perm K := by
  have hK : K.Nodup := nodup_of_map key hk
  have hc : (flatten (canon K)).Nodup := by
    apply nodup_of_map key
    apply flatten_keys_nodup
    · rw [canon_ids]; exact nodup_firstIds _
    · intro p hp
      simp only [canon, mem_map] at hp
      obtain ⟨i, _, rfl⟩ := hp
      exact sortedOf_sorted i hk
  rw [perm_ext_iff_of_nodup hc hK]
  intro r
  rw [mem_flatten]
  constructor
  · rintro ⟨p, hp, v, hv, rfl⟩
    simp only [canon, mem_map] at hp
    obtain ⟨i, _, rfl⟩ := hp
    have hv' := (sortedOf_perm K i).mem_iff.1 hv
    simp only [visitsOf, mem_map, mem_filter, beq_iff_eq] at hv'
    obtain ⟨s, ⟨hs, hsi⟩, rfl⟩ := hv'
    subst hsi
    exact hs
  · intro hr
    refine ⟨⟨r.id, sortedOf r.id K⟩, ?_, ⟨r.age, r.vals⟩, ?_, rfl⟩
    · simp only [canon, mem_map]
      exact ⟨r.id, mem_firstIds.2 (mem_map.2 ⟨r, hr, rfl⟩), rfl⟩
    · apply (sortedOf_perm K r.id).mem_iff.2
      simp only [visitsOf, mem_map, mem_filter, beq_iff_eq]
      exact ⟨r, ⟨hr, rfl⟩, rfl⟩

end LeaspyVerif.IngestLemmas
