import LeaspyVerif.Model.Ingest
namespace LeaspyVerif.IngestLemmas
open LeaspyVerif.Ingest List

/-- strictly increasing ages -/
def SortedV (l : List Visit) : Prop := l.Pairwise (fun a b => a.age < b.age)

theorem insertVisit_perm (v : Visit) (l : List Visit) : (insertVisit v l).Perm (v :: l) := by
  induction l with
  | nil => simp [insertVisit]
  | cons w ws ih =>
    simp only [insertVisit]
    split
    · exact (Perm.cons w ih).trans (Perm.swap v w ws)
    · exact Perm.refl _

theorem mem_insertVisit {v x : Visit} {l : List Visit} : x ∈ insertVisit v l ↔ x = v ∨ x ∈ l := by
  rw [(insertVisit_perm v l).mem_iff]; simp

theorem insertVisit_sorted {v : Visit} {l : List Visit} (hs : SortedV l) (hne : ∀ w ∈ l, w.age ≠ v.age) :
    SortedV (insertVisit v l) := by
  induction l with
  | nil => simp [insertVisit, SortedV]
  | cons w ws ih =>
    simp only [SortedV, pairwise_cons] at hs
    simp only [insertVisit]
    split
    · rename_i hle
      have hlt : w.age < v.age := by
        have := hne w (by simp); omega
      simp only [SortedV, pairwise_cons]
      refine ⟨?_, ih hs.2 (fun x hx => hne x (by simp [hx]))⟩
      intro x hx
      rcases mem_insertVisit.1 hx with rfl | hx
      · exact hlt
      · exact hs.1 x hx
    · rename_i hle
      simp only [SortedV, pairwise_cons]
      refine ⟨?_, hs⟩
      intro x hx
      rcases mem_cons.1 hx with rfl | hx
      · omega
      · have := hs.1 x hx; omega

theorem hasAge_iff {a : Int} {l : List Visit} : hasAge a l = true ↔ ∃ w ∈ l, w.age = a := by
  simp [hasAge]

theorem hasAge_false {a : Int} {l : List Visit} : hasAge a l = false ↔ ∀ w ∈ l, w.age ≠ a := by
  rw [← Bool.not_eq_true, hasAge_iff]; simp

/-- insertion sort as a fold: what `add_observations` computes when it never refuses -/
def isortFrom (acc : List Visit) (vs : List Visit) : List Visit := vs.foldl (fun a v => insertVisit v a) acc

theorem isortFrom_perm (acc vs : List Visit) : (isortFrom acc vs).Perm (acc ++ vs) := by
  induction vs generalizing acc with
  | nil => simp [isortFrom]
  | cons v vs ih =>
    simp only [isortFrom, foldl_cons]
    refine (ih (insertVisit v acc)).trans ?_
    refine ((insertVisit_perm v acc).append_right vs).trans ?_
    simp only [cons_append]
    exact perm_middle.symm

theorem addObservations_ok_of_nodup {acc vs : List Visit} (h : ((acc ++ vs).map (·.age)).Nodup) :
    addObservations acc vs = .ok (isortFrom acc vs) := by
  induction vs generalizing acc with
  | nil => simp [addObservations, isortFrom]
  | cons v vs ih =>
    have hv : hasAge v.age acc = false := by
      rw [hasAge_false]
      intro w hw heq
      simp only [map_append, map_cons, nodup_append, nodup_cons] at h
      exact h.2.2 w.age (mem_map.2 ⟨w, hw, rfl⟩) v.age (by simp) heq
    simp only [addObservations, hv, Bool.false_eq_true, ↓reduceIte, isortFrom, foldl_cons]
    apply ih
    have hp : ((insertVisit v acc ++ vs).map (·.age)).Perm ((acc ++ v :: vs).map (·.age)) := by
      apply Perm.map
      refine ((insertVisit_perm v acc).append_right vs).trans ?_
      simp only [cons_append]
      exact perm_middle.symm
    exact hp.nodup_iff.2 h

theorem addObservations_ok_nodup {acc vs r : List Visit} (hacc : (acc.map (·.age)).Nodup)
    (h : addObservations acc vs = .ok r) : ((acc ++ vs).map (·.age)).Nodup := by
  induction vs generalizing acc with
  | nil => simpa using hacc
  | cons v vs ih =>
    simp only [addObservations] at h
    split at h
    · cases h
    · rename_i hv
      have hv' := hasAge_false.1 (by simpa using hv)
      have hp : ((insertVisit v acc).map (·.age)).Perm ((v :: acc).map (·.age)) := (insertVisit_perm v acc).map _
      have hn : ((insertVisit v acc).map (·.age)).Nodup := by
        rw [hp.nodup_iff]; simp only [map_cons, nodup_cons, mem_map, not_exists, not_and]
        exact ⟨fun w hw => hv' w hw, hacc⟩
      have := ih hn h
      have hp2 : ((insertVisit v acc ++ vs).map (·.age)).Perm ((acc ++ v :: vs).map (·.age)) := by
        apply Perm.map
        refine ((insertVisit_perm v acc).append_right vs).trans ?_
        simp only [cons_append]
        exact perm_middle.symm
      exact hp2.nodup_iff.1 this

theorem isortFrom_sorted {acc vs : List Visit} (hs : SortedV acc) (h : ((acc ++ vs).map (·.age)).Nodup) :
    SortedV (isortFrom acc vs) := by
  induction vs generalizing acc with
  | nil => simpa [isortFrom] using hs
  | cons v vs ih =>
    simp only [isortFrom, foldl_cons]
    have hne : ∀ w ∈ acc, w.age ≠ v.age := by
      intro w hw heq
      simp only [map_append, map_cons, nodup_append, nodup_cons] at h
      exact h.2.2 w.age (mem_map.2 ⟨w, hw, rfl⟩) v.age (by simp) heq
    apply ih (insertVisit_sorted hs hne)
    have hp2 : ((insertVisit v acc ++ vs).map (·.age)).Perm ((acc ++ v :: vs).map (·.age)) := by
      apply Perm.map
      refine ((insertVisit_perm v acc).append_right vs).trans ?_
      simp only [cons_append]
      exact perm_middle.symm
    exact hp2.nodup_iff.2 h

/-- two permutations of each other that are sorted for an asymmetric relation are equal -/
theorem eq_of_perm_of_pairwise {α} {r : α → α → Prop} (asym : ∀ a b, r a b → r b a → False)
    {l₁ l₂ : List α} (h₁ : l₁.Pairwise r) (h₂ : l₂.Pairwise r) (hp : l₁.Perm l₂) : l₁ = l₂ := by
  induction l₁ generalizing l₂ with
  | nil => exact (hp.symm.eq_nil).symm
  | cons a t₁ ih =>
    cases l₂ with
    | nil => exact absurd hp.length_eq (by simp)
    | cons b t₂ =>
      rw [pairwise_cons] at h₁ h₂
      have hab : a = b := by
        have ha : a ∈ b :: t₂ := hp.mem_iff.1 (by simp)
        have hb : b ∈ a :: t₁ := hp.mem_iff.2 (by simp)
        rcases mem_cons.1 ha with h | ha'
        · exact h
        · rcases mem_cons.1 hb with h | hb'
          · exact h.symm
          · exact (asym _ _ (h₁.1 b hb') (h₂.1 a ha')).elim
      subst hab
      rw [ih h₁.2 h₂.2 (Perm.cons_inv hp)]

/-! ### identifiers in order of first appearance -/

theorem mem_firstIds {j : Nat} {l : List Nat} : j ∈ firstIds l ↔ j ∈ l := by
  induction l with
  | nil => simp [firstIds]
  | cons i is ih =>
    simp only [firstIds, mem_cons, mem_filter, ih, bne_iff_ne, ne_eq]
    by_cases h : j = i <;> simp [h]

theorem nodup_firstIds (l : List Nat) : (firstIds l).Nodup := by
  induction l with
  | nil => simp [firstIds]
  | cons i is ih =>
    simp only [firstIds, nodup_cons, mem_filter, bne_self_eq_false, Bool.false_eq_true, and_false,
      not_false_eq_true, true_and]
    exact ih.sublist filter_sublist

theorem firstIds_perm {l₁ l₂ : List Nat} (h : l₁.Perm l₂) : (firstIds l₁).Perm (firstIds l₂) := by
  rw [perm_ext_iff_of_nodup (nodup_firstIds _) (nodup_firstIds _)]
  intro a; rw [mem_firstIds, mem_firstIds, h.mem_iff]

/-- the key of the `(ID, TIME)` index -/
def key (r : Row) : Nat × Int := (r.id, r.age)

theorem rowKeyDup_false_iff {rows : List Row} : rowKeyDup rows = false ↔ (rows.map key).Nodup := by
  induction rows with
  | nil => simp [rowKeyDup]
  | cons r rs ih =>
    simp only [rowKeyDup, Bool.or_eq_false_iff, ih, map_cons, nodup_cons, mem_map, not_exists, not_and]
    constructor
    · rintro ⟨h1, h2⟩
      refine ⟨?_, h2⟩
      intro s hs heq
      have := (any_eq_false.1 h1) s hs
      simp only [key, Prod.mk.injEq] at heq
      simp [heq.1, heq.2] at this
    · rintro ⟨h1, h2⟩
      refine ⟨?_, h2⟩
      rw [any_eq_false]
      intro s hs
      have := h1 s hs
      simp only [key, Prod.mk.injEq, not_and] at this
      simp only [Bool.and_eq_true, beq_iff_eq, not_and]
      intro hid hage
      exact this hid hage

theorem rowKeyDup_perm {t₁ t₂ : List Row} (h : t₁.Perm t₂) : rowKeyDup t₁ = rowKeyDup t₂ := by
  have := (h.map key).nodup_iff
  rw [← rowKeyDup_false_iff, ← rowKeyDup_false_iff] at this
  cases h1 : rowKeyDup t₁ <;> cases h2 : rowKeyDup t₂ <;> simp_all

theorem nodup_keys_filter {rows : List Row} (p : Row → Bool) (h : (rows.map key).Nodup) :
    ((rows.filter p).map key).Nodup :=
  h.sublist (filter_sublist.map key)

theorem visitsOf_ages_nodup {rows : List Row} (i : Nat) (h : (rows.map key).Nodup) :
    ((visitsOf i rows).map (·.age)).Nodup := by
  induction rows with
  | nil => simp [visitsOf]
  | cons r rs ih =>
    simp only [map_cons, nodup_cons] at h
    simp only [visitsOf, filter_cons]
    split
    · rename_i hid
      simp only [map_cons, nodup_cons]
      refine ⟨?_, ih h.2⟩
      simp only [mem_map, mem_filter, not_exists, not_and, and_imp, forall_exists_index]
      intro a s hs hsid hv ha
      apply h.1
      rw [mem_map]
      refine ⟨s, hs, ?_⟩
      simp only [beq_iff_eq] at hid hsid
      subst hv
      simp only at ha
      simp [key, hid, hsid, ha]
    · exact ih h.2

theorem visitsOf_perm {t₁ t₂ : List Row} (i : Nat) (h : t₁.Perm t₂) : (visitsOf i t₁).Perm (visitsOf i t₂) :=
  (h.filter _).map _

/-- the sorted visits of individual `i` -/
def sortedOf (i : Nat) (rows : List Row) : List Visit := isortFrom [] (visitsOf i rows)

/-- closed form of the loading loop -/
def canon (rows : List Row) : Canon :=
  (firstIds (rows.map (·.id))).map (fun i => ⟨i, sortedOf i rows⟩)

theorem loadIds_eq_map {rows : List Row} (h : (rows.map key).Nodup) (ids : List Nat) :
    loadIds rows ids = .ok (ids.map (fun i => ⟨i, sortedOf i rows⟩)) := by
  induction ids with
  | nil => simp [loadIds]
  | cons i is ih =>
    have : addObservations [] (visitsOf i rows) = .ok (sortedOf i rows) :=
      addObservations_ok_of_nodup (by simpa using visitsOf_ages_nodup i h)
    simp [loadIds, this, ih]

theorem loadAll_eq_canon {rows : List Row} (h : (rows.map key).Nodup) : loadAll rows = .ok (canon rows) :=
  loadIds_eq_map h _

theorem sortedOf_sorted {rows : List Row} (i : Nat) (h : (rows.map key).Nodup) : SortedV (sortedOf i rows) :=
  isortFrom_sorted (by simp [SortedV]) (by simpa using visitsOf_ages_nodup i h)

theorem sortedOf_perm (rows : List Row) (i : Nat) : (sortedOf i rows).Perm (visitsOf i rows) := by
  simpa [sortedOf] using isortFrom_perm [] (visitsOf i rows)

theorem sortedOf_congr {t₁ t₂ : List Row} (i : Nat) (h : t₁.Perm t₂) (hk : (t₁.map key).Nodup) :
    sortedOf i t₁ = sortedOf i t₂ := by
  have hk2 : (t₂.map key).Nodup := (h.map key).nodup_iff.1 hk
  apply eq_of_perm_of_pairwise (r := fun a b : Visit => a.age < b.age) (fun a b h1 h2 => by omega)
    (sortedOf_sorted i hk) (sortedOf_sorted i hk2)
  exact (sortedOf_perm t₁ i).trans ((visitsOf_perm i h).trans (sortedOf_perm t₂ i).symm)

theorem canon_perm {t₁ t₂ : List Row} (h : t₁.Perm t₂) (hk : (t₁.map key).Nodup) : (canon t₁).Perm (canon t₂) := by
  unfold canon
  have : (fun i => (⟨i, sortedOf i t₁⟩ : Indiv)) = (fun i => ⟨i, sortedOf i t₂⟩) := by
    funext i; rw [sortedOf_congr i h hk]
  rw [this]
  exact (firstIds_perm (h.map _)).map _

theorem canon_same_order {t₁ t₂ : List Row} (h : t₁.Perm t₂) (hk : (t₁.map key).Nodup)
    (ho : firstIds (t₁.map (·.id)) = firstIds (t₂.map (·.id))) : canon t₁ = canon t₂ := by
  unfold canon
  have : (fun i => (⟨i, sortedOf i t₁⟩ : Indiv)) = (fun i => ⟨i, sortedOf i t₂⟩) := by
    funext i; rw [sortedOf_congr i h hk]
  rw [this, ho]

theorem addObservations_ok {vs r : List Visit} (h : addObservations [] vs = .ok r) :
    SortedV r ∧ r.Perm vs := by
  have hn := addObservations_ok_nodup (acc := []) (by simp) h
  have h2 := addObservations_ok_of_nodup hn
  rw [h2] at h
  cases h
  exact ⟨isortFrom_sorted (by simp [SortedV]) hn, by simpa using isortFrom_perm [] vs⟩

theorem loadIds_inv {rows : List Row} {ids : List Nat} {c : Canon} (h : loadIds rows ids = .ok c) :
    c.map (·.id) = ids ∧ ∀ p ∈ c, addObservations [] (visitsOf p.id rows) = .ok p.visits := by
  induction ids generalizing c with
  | nil => simp only [loadIds] at h; cases h; simp
  | cons i is ih =>
    simp only [loadIds] at h
    split at h
    · cases h
    · rename_i vs hvs
      split at h
      · cases h
      · rename_i c' hc'
        cases h
        have := ih hc'
        refine ⟨by simp [this.1], ?_⟩
        intro p hp
        rcases mem_cons.1 hp with rfl | hp
        · exact hvs
        · exact this.2 p hp

/-- rows that survive `dropna(how="all")` in the visit layout -/
def kept (rows : List Row) : List Row := rows.filter (fun r => !allMissing r.vals)

theorem ingest_eq (dim : Nat) (rows : List Row) : ingest dim rows =
    if rowKeyDup rows then .error .duplicate
    else if (kept rows).isEmpty then .error .noRow
    else if dim < 1 then .error .noFeature
    else .ok (canon (kept rows)) := by
  unfold ingest loadChecked
  cases hd : rowKeyDup rows
  · have hk := nodup_keys_filter (fun r => !allMissing r.vals) (rowKeyDup_false_iff.1 hd)
    simp only [Bool.false_eq_true, ↓reduceIte, kept]
    by_cases h1 : (filter (fun r => !allMissing r.vals) rows).isEmpty = true
    · simp [h1]
    · by_cases h2 : dim < 1
      · simp [h1, h2]
      · simp only [h1, h2, Bool.false_eq_true, ↓reduceIte]
        exact loadAll_eq_canon hk
  · simp

theorem kept_perm {t₁ t₂ : List Row} (h : t₁.Perm t₂) : (kept t₁).Perm (kept t₂) := h.filter _

/-! ### raw table validation -/

def mkRaw (x : Nat × Int × List (Cell Rat)) : RawRow := ⟨x.1, .fin x.2.1, x.2.2⟩

theorem agesOf_ok {rows : List RawRow} {l} (h : agesOf rows = .ok l) : rows = l.map mkRaw := by
  induction rows generalizing l with
  | nil => simp only [agesOf] at h; cases h; rfl
  | cons r rs ih =>
    simp only [agesOf] at h
    split at h
    · rename_i a ha
      split at h
      · rename_i l' hl'
        cases h
        rw [map_cons, ← ih hl']
        congr 1
        cases r; simp_all [mkRaw]
      · cases h
    · cases h

theorem agesOf_error {rows : List RawRow} {e} (h : agesOf rows = .error e) :
    e = .timeNa ∧ ∃ r ∈ rows, ∀ a, r.age ≠ .fin a := by
  induction rows with
  | nil => simp [agesOf] at h
  | cons r rs ih =>
    simp only [agesOf] at h
    split at h
    · rename_i a ha
      split at h
      · cases h
      · rename_i e' he'
        cases h
        obtain ⟨h1, r', hr', h2⟩ := ih he'
        exact ⟨h1, r', by simp [hr'], h2⟩
    · rename_i hne
      cases h
      refine ⟨rfl, r, by simp, ?_⟩
      intro a ha
      exact hne a ha

theorem allMissing_map_cellToObs (cs : List (Cell Rat)) (hinf : ∀ x ∈ cs, x ≠ .inf) :
    allMissing (cs.map cellToObs) = false ↔ ∃ q, Cell.fin q ∈ cs := by
  simp only [allMissing, all_map, all_eq_false, Function.comp_apply, Bool.not_eq_true]
  constructor
  · rintro ⟨x, hx, h⟩
    cases x with
    | fin q => exact ⟨q, hx⟩
    | nan => simp [cellToObs] at h
    | inf => exact absurd rfl (hinf _ hx)
  · rintro ⟨q, hq⟩
    exact ⟨_, hq, by simp [cellToObs]⟩

/-! ### tensor form -/

theorem le_maxList {n : Nat} {l : List Nat} (h : n ∈ l) : n ≤ maxList l := by
  induction l with
  | nil => cases h
  | cons m ms ih =>
    simp only [maxList]
    rcases mem_cons.1 h with rfl | h
    · omega
    · have := ih h; omega

theorem padTo_length {α} {n : Nat} {x : α} {l : List α} (h : l.length ≤ n) : (padTo n x l).length = n := by
  simp [padTo]; omega

theorem padTo_take {α} (n : Nat) (x : α) (l : List α) : (padTo n x l).take l.length = l := by
  simp [padTo]

theorem padTo_drop {α} (n : Nat) (x : α) (l : List α) : (padTo n x l).drop l.length = replicate (n - l.length) x := by
  simp [padTo]

/-- value `k` of a visit is present (not NaN) -/
def present (v : Visit) (k : Nat) : Bool :=
  match v.vals[k]? with
  | some (some _) => true
  | _ => false

theorem present_iff {v : Visit} {k : Nat} : present v k = true ↔ ∃ q, v.vals[k]? = some (some q) := by
  unfold present
  split <;> simp_all

theorem mask_get (dim nMax : Nat) (vs : List Visit) (j k : Nat) :
    ((padTo nMax (replicate dim false) (vs.map (fun v => v.vals.map Option.isSome)))[j]?.bind (·[k]?)) = some true ↔
      ∃ v, vs[j]? = some v ∧ present v k = true := by
  simp only [padTo, getElem?_append, length_map, getElem?_map]
  split
  · rename_i hj
    simp only [getElem?_eq_getElem hj, Option.map_some, Option.bind_some, getElem?_map, Option.map_eq_some_iff,
      Option.isSome_iff_exists, Option.some.injEq, exists_eq_left']
    constructor
    · rintro ⟨o, ho, q, rfl⟩
      exact present_iff.2 ⟨q, ho⟩
    · intro h
      obtain ⟨q, hq⟩ := present_iff.1 h
      exact ⟨some q, hq, q, rfl⟩
  · rename_i hj
    have : vs[j]? = none := by simp at hj ⊢; omega
    simp only [this, reduceCtorEq, false_and, exists_false, iff_false]
    simp only [getElem?_replicate]
    split <;> simp [getElem?_replicate]

theorem colSums_get (dim nMax : Nat) (vs : List Visit) {k : Nat} (hk : k < dim) :
    (colSums dim (padTo nMax (replicate dim false) (vs.map (fun v => v.vals.map Option.isSome))))[k]? =
      some (vs.filter (fun v => present v k)).length := by
  simp only [colSums, getElem?_map, getElem?_range hk, Option.map_some, Option.some.injEq, padTo, filter_append,
    length_append, filter_map, length_map]
  have h1 : ∀ m, (filter (fun row => row[k]? == some true) (replicate m (replicate dim false))).length = 0 := by
    intro m; simp [hk]
  rw [h1, Nat.add_zero]
  congr 1
  apply filter_congr
  intro v _
  simp only [Function.comp_apply, getElem?_map]
  unfold present
  cases h : v.vals[k]? with
  | none => simp
  | some o => cases o <;> simp

/-! ### round trip -/

theorem zipWith_map_map {α β γ δ} (f : β → γ → δ) (g : α → β) (h : α → γ) (l : List α) :
    zipWith f (l.map g) (l.map h) = l.map (fun x => f (g x) (h x)) := by
  induction l with
  | nil => rfl
  | cons a l ih => simp [ih]

theorem recover_zip (vals : Obs) : zipWith recover (vals.map fillNaN) (vals.map Option.isSome) = vals := by
  rw [zipWith_map_map]
  conv => rhs; rw [← map_id vals]
  apply map_congr_left
  intro o _
  cases o <;> simp [recover, fillNaN]

theorem patientVisits_tensorise (store : Int → Int) (dim nMax : Nat) (p : Indiv) :
    patientVisits (tensoriseIndiv store dim nMax p) = p.visits.map (fun v => ⟨store v.age, v.vals⟩) := by
  simp only [patientVisits, tensoriseIndiv, take_zipWith]
  have h1 := padTo_take nMax (0 : Int) (p.visits.map (fun v => store v.age))
  have h2 := padTo_take nMax (replicate dim (0 : Rat)) (p.visits.map (fun v => v.vals.map fillNaN))
  have h3 := padTo_take nMax (replicate dim false) (p.visits.map (fun v => v.vals.map Option.isSome))
  simp only [length_map] at h1 h2 h3
  rw [h1, h2, h3, zipWith_map_map, zipWith_map_map]
  apply map_congr_left
  intro v _
  rw [recover_zip]

theorem sortedV_nodup {l : List Visit} (h : SortedV l) : (l.map (·.age)).Nodup := by
  simp only [Nodup, pairwise_map]
  exact h.imp (fun hab => by omega)

theorem addObservations_sorted {l : List Visit} (h : SortedV l) : addObservations [] l = .ok l := by
  have hn : ((([] : List Visit) ++ l).map (·.age)).Nodup := by simpa using sortedV_nodup h
  rw [addObservations_ok_of_nodup hn]
  congr 1
  exact eq_of_perm_of_pairwise (r := fun a b : Visit => a.age < b.age) (fun a b h1 h2 => by omega)
    (isortFrom_sorted (by simp [SortedV]) hn) h (by simpa using isortFrom_perm [] l)

theorem framesOf_tensorise (store : Int → Int) (dim nMax : Nat) (c : Canon)
    (hs : ∀ p ∈ c, ∀ v ∈ p.visits, store v.age = v.age) (hsorted : ∀ p ∈ c, SortedV p.visits) :
    framesOf (c.map (tensoriseIndiv store dim nMax)) = .ok (flatten c) := by
  induction c with
  | nil => rfl
  | cons p c ih =>
    have hp : patientVisits (tensoriseIndiv store dim nMax p) = p.visits := by
      rw [patientVisits_tensorise]
      conv => rhs; rw [← map_id p.visits]
      apply map_congr_left
      intro v hv
      rw [hs p (by simp) v hv]
      rfl
    simp only [map_cons, framesOf, hp, addObservations_sorted (hsorted p (by simp))]
    rw [ih (fun q hq => hs q (by simp [hq])) (fun q hq => hsorted q (by simp [hq]))]
    simp [Ingest.flatten, tensoriseIndiv]

/-! ### `sort_index` -/

theorem insertRow_perm (r : Row) (l : List Row) : (insertRow r l).Perm (r :: l) := by
  induction l with
  | nil => simp [insertRow]
  | cons s ss ih =>
    simp only [insertRow]
    split
    · exact Perm.refl _
    · exact (Perm.cons s ih).trans (Perm.swap r s ss)

theorem sortRows_perm (l : List Row) : (sortRows l).Perm l := by
  induction l with
  | nil => simp [sortRows]
  | cons r rs ih => exact (insertRow_perm r _).trans (Perm.cons r ih)

theorem rowLe_total {r s : Row} (h : rowLe r s = false) : rowLe s r = true := by
  simp only [rowLe, Bool.or_eq_false_iff, decide_eq_false_iff_not, Bool.and_eq_false_imp, beq_iff_eq] at h
  simp only [rowLe, Bool.or_eq_true, decide_eq_true_eq, Bool.and_eq_true, beq_iff_eq]
  by_cases hid : r.id = s.id
  · right; exact ⟨hid.symm, by have := h.2 hid; omega⟩
  · left; omega

theorem rowLe_trans {a b c : Row} (h1 : rowLe a b = true) (h2 : rowLe b c = true) : rowLe a c = true := by
  simp only [rowLe, Bool.or_eq_true, decide_eq_true_eq, Bool.and_eq_true, beq_iff_eq] at *
  rcases h1 with h1 | ⟨h1, h1'⟩ <;> rcases h2 with h2 | ⟨h2, h2'⟩
  · left; omega
  · left; omega
  · left; omega
  · right; exact ⟨by omega, by omega⟩

theorem insertRow_sorted {r : Row} {l : List Row} (h : l.Pairwise (fun a b => rowLe a b = true)) :
    (insertRow r l).Pairwise (fun a b => rowLe a b = true) := by
  induction l with
  | nil => simp [insertRow]
  | cons s ss ih =>
    rw [pairwise_cons] at h
    simp only [insertRow]
    split
    · rename_i hle
      rw [pairwise_cons]
      refine ⟨?_, pairwise_cons.2 h⟩
      intro x hx
      rcases mem_cons.1 hx with rfl | hx
      · exact hle
      · exact rowLe_trans hle (h.1 x hx)
    · rename_i hle
      rw [pairwise_cons]
      refine ⟨?_, ih h.2⟩
      intro x hx
      rcases mem_cons.1 ((insertRow_perm r ss).mem_iff.1 hx) with rfl | hx
      · exact rowLe_total (by simpa using hle)
      · exact h.1 x hx

theorem sortRows_sorted (l : List Row) : (sortRows l).Pairwise (fun a b => rowLe a b = true) := by
  induction l with
  | nil => simp [sortRows]
  | cons r rs ih => exact insertRow_sorted ih

theorem firstIds_sorted {l : List Nat} (h : l.Pairwise (· ≤ ·)) : (firstIds l).Pairwise (· < ·) := by
  induction l with
  | nil => simp [firstIds]
  | cons i is ih =>
    rw [pairwise_cons] at h
    simp only [firstIds, pairwise_cons]
    refine ⟨?_, (ih h.2).sublist filter_sublist⟩
    intro j hj
    rw [mem_filter, mem_firstIds] at hj
    have := h.1 j hj.1
    have hne : j ≠ i := by simpa using hj.2
    omega

/-! ### flattening a canonical form -/

theorem mem_flatten {r : Row} {c : Canon} :
    r ∈ flatten c ↔ ∃ p ∈ c, ∃ v ∈ p.visits, r = ⟨p.id, v.age, v.vals⟩ := by
  induction c with
  | nil => simp [Ingest.flatten]
  | cons p c ih =>
    simp only [Ingest.flatten, mem_append, mem_map, ih, mem_cons, exists_eq_or_imp]
    constructor
    · rintro (⟨v, hv, rfl⟩ | h)
      · exact Or.inl ⟨v, hv, rfl⟩
      · exact Or.inr h
    · rintro (⟨v, hv, rfl⟩ | h)
      · exact Or.inl ⟨v, hv, rfl⟩
      · exact Or.inr h

theorem flatten_keys_nodup {c : Canon} (hid : (c.map (·.id)).Nodup) (hs : ∀ p ∈ c, SortedV p.visits) :
    ((flatten c).map key).Nodup := by
  induction c with
  | nil => simp [Ingest.flatten]
  | cons p c ih =>
    simp only [map_cons, nodup_cons] at hid
    simp only [Ingest.flatten, map_append, map_map]
    rw [nodup_append]
    refine ⟨?_, ih hid.2 (fun q hq => hs q (by simp [hq])), ?_⟩
    · have := sortedV_nodup (hs p (by simp))
      simp only [Nodup, pairwise_map] at this ⊢
      exact this.imp (fun hab heq => hab (by simpa [key] using heq))
    · intro a ha b hb heq
      simp only [mem_map, Function.comp_apply] at ha hb
      obtain ⟨v, _, rfl⟩ := ha
      obtain ⟨r, hr, rfl⟩ := hb
      obtain ⟨q, hq, w, _, rfl⟩ := mem_flatten.1 hr
      simp only [key, Prod.mk.injEq] at heq
      exact hid.1 (mem_map.2 ⟨q, hq, heq.1.symm⟩)

theorem nodup_of_map {α β} (f : α → β) {l : List α} (h : (l.map f).Nodup) : l.Nodup := by
  simp only [Nodup, pairwise_map] at h ⊢
  exact h.imp (fun hab heq => hab (by rw [heq]))

theorem canon_ids (K : List Row) : (canon K).map (·.id) = firstIds (K.map (·.id)) := by
  simp only [canon, map_map]
  have : ((fun p : Indiv => p.id) ∘ fun i => (⟨i, sortedOf i K⟩ : Indiv)) = id := rfl
  rw [this, map_id]

theorem flatten_canon_perm {K : List Row} (hk : (K.map key).Nodup) : (flatten (canon K)).Perm K := by
  have hK : K.Nodup := nodup_of_map key hk
  have hc : (flatten (canon K)).Nodup := by
    apply nodup_of_map key
    apply flatten_keys_nodup
    · rw [canon_ids]; exact nodup_firstIds _
    · intro p hp
      simp only [canon, mem_map] at hp
      obtain ⟨i, _, rfl⟩ := hp
      exact sortedOf_sorted i hk
  rw [perm_ext_iff_of_nodup hc hK]
  intro r
  rw [mem_flatten]
  constructor
  · rintro ⟨p, hp, v, hv, rfl⟩
    simp only [canon, mem_map] at hp
    obtain ⟨i, _, rfl⟩ := hp
    have hv' := (sortedOf_perm K i).mem_iff.1 hv
    simp only [visitsOf, mem_map, mem_filter, beq_iff_eq] at hv'
    obtain ⟨s, ⟨hs, hsi⟩, rfl⟩ := hv'
    subst hsi
    exact hs
  · intro hr
    refine ⟨⟨r.id, sortedOf r.id K⟩, ?_, ⟨r.age, r.vals⟩, ?_, rfl⟩
    · simp only [canon, mem_map]
      exact ⟨r.id, mem_firstIds.2 (mem_map.2 ⟨r, hr, rfl⟩), rfl⟩
    · apply (sortedOf_perm K r.id).mem_iff.2
      simp only [visitsOf, mem_map, mem_filter, beq_iff_eq]
      exact ⟨r, ⟨hr, rfl⟩, rfl⟩

/-! ### first entry per key (`groupby("ID", sort=False).first()`) -/

/-- generic form of `evFirst` / `covFirst` -/
def firstBy {α} (key : α → Nat) (l : List α) : List α :=
  (firstIds (l.map key)).filterMap (fun i => l.find? (fun e => key e == i))

theorem evFirst_eq (l : List Event) : evFirst l = firstBy (·.id) l := rfl
theorem covFirst_eq (l : List (Nat × List Int)) : covFirst l = firstBy (·.1) l := rfl

/-- entries with the same key are equal (what the `nunique().eq(1)` checks establish) -/
def KeyConsistent {α} (key : α → Nat) (l : List α) : Prop := ∀ a ∈ l, ∀ b ∈ l, key a = key b → a = b

theorem KeyConsistent.perm {α} {key : α → Nat} {l₁ l₂ : List α} (h : l₁.Perm l₂) (hc : KeyConsistent key l₁) :
    KeyConsistent key l₂ :=
  fun a ha b hb => hc a (h.mem_iff.2 ha) b (h.mem_iff.2 hb)

private theorem filterMap_find_keys {α} (key : α → Nat) (l : List α) (ids : List Nat) (h : ∀ i ∈ ids, i ∈ l.map key) :
    (ids.filterMap (fun i => l.find? (fun e => key e == i))).map key = ids := by
  induction ids with
  | nil => rfl
  | cons i is ih =>
    obtain ⟨x, hx, hk⟩ := mem_map.1 (h i (by simp))
    have hs : (l.find? (fun e => key e == i)).isSome = true := find?_isSome.2 ⟨x, hx, by simp [hk]⟩
    obtain ⟨e, he⟩ := Option.isSome_iff_exists.1 hs
    have hke : key e = i := by simpa using find?_some he
    simp only [filterMap_cons, he, map_cons, hke]
    rw [ih (fun j hj => h j (by simp [hj]))]

theorem firstBy_keys {α} (key : α → Nat) (l : List α) : (firstBy key l).map key = firstIds (l.map key) :=
  filterMap_find_keys key l _ (fun _ hi => mem_firstIds.1 hi)

theorem firstBy_nodup {α} (key : α → Nat) (l : List α) : (firstBy key l).Nodup :=
  nodup_of_map key (firstBy_keys key l ▸ nodup_firstIds _)

theorem mem_firstBy_sub {α} {key : α → Nat} {l : List α} {e : α} (h : e ∈ firstBy key l) : e ∈ l := by
  obtain ⟨i, _, hi⟩ := mem_filterMap.1 h
  exact mem_of_find?_eq_some hi

theorem mem_firstBy {α} {key : α → Nat} {l : List α} (hc : KeyConsistent key l) {e : α} :
    e ∈ firstBy key l ↔ e ∈ l := by
  refine ⟨mem_firstBy_sub, fun he => ?_⟩
  have hs : (l.find? (fun x => key x == key e)).isSome = true := find?_isSome.2 ⟨e, he, by simp⟩
  obtain ⟨e', he'⟩ := Option.isSome_iff_exists.1 hs
  have : e' = e := hc e' (mem_of_find?_eq_some he') e he (by simpa using find?_some he')
  exact mem_filterMap.2 ⟨key e, mem_firstIds.2 (mem_map.2 ⟨e, he, rfl⟩), this ▸ he'⟩

theorem firstBy_perm {α} {key : α → Nat} {l₁ l₂ : List α} (h : l₁.Perm l₂) (hc : KeyConsistent key l₁) :
    (firstBy key l₁).Perm (firstBy key l₂) := by
  rw [perm_ext_iff_of_nodup (firstBy_nodup _ _) (firstBy_nodup _ _)]
  intro e
  rw [mem_firstBy hc, mem_firstBy (hc.perm h), h.mem_iff]

theorem firstBy_eq_nil {α} {key : α → Nat} {l : List α} : firstBy key l = [] ↔ l = [] := by
  constructor
  · intro h
    have := firstBy_keys key l
    rw [h] at this
    cases l with
    | nil => rfl
    | cons a t => simp [firstIds] at this
  · rintro rfl; rfl

theorem firstIds_of_nodup {l : List Nat} (h : l.Nodup) : firstIds l = l := by
  induction l with
  | nil => rfl
  | cons i is ih =>
    rw [nodup_cons] at h
    simp only [firstIds, ih h.2, cons.injEq, true_and, filter_eq_self, bne_iff_ne, ne_eq]
    intro j hj heq
    exact h.1 (heq ▸ hj)

private theorem eq_of_keys_eq {α} (key : α → Nat) {a l : List α} (hk : a.map key = l.map key)
    (hm : ∀ x ∈ a, x ∈ l) (hn : (l.map key).Nodup) : a = l := by
  induction l generalizing a with
  | nil => simpa using hk
  | cons y l ih =>
    cases a with
    | nil => simp at hk
    | cons x a =>
      simp only [map_cons, cons.injEq] at hk
      simp only [map_cons, nodup_cons, mem_map, not_exists, not_and] at hn
      have hxy : x = y := by
        rcases mem_cons.1 (hm x (by simp)) with h | h
        · exact h
        · exact absurd hk.1 (hn.1 x h)
      subst hxy
      congr 1
      apply ih hk.2 _ hn.2
      intro z hz
      rcases mem_cons.1 (hm z (by simp [hz])) with h | h
      · subst h
        have : key z ∈ l.map key := hk.2 ▸ mem_map.2 ⟨z, hz, rfl⟩
        obtain ⟨w, hw, hkw⟩ := mem_map.1 this
        exact absurd hkw (hn.1 w hw)
      · exact h

/-- with one row per key, `first()` is the identity: the table order is kept -/
theorem firstBy_of_nodup {α} {key : α → Nat} {l : List α} (h : (l.map key).Nodup) : firstBy key l = l :=
  eq_of_keys_eq key (by rw [firstBy_keys, firstIds_of_nodup h]) (fun _ hx => mem_firstBy_sub hx) h

/-! ### `max()` of a column -/

theorem maxList_le_iff {l : List Nat} {m : Nat} : maxList l ≤ m ↔ ∀ x ∈ l, x ≤ m := by
  induction l with
  | nil => simp [maxList]
  | cons a t ih => simp only [maxList, mem_cons, forall_eq_or_imp, ← ih]; omega

theorem maxList_congr {l₁ l₂ : List Nat} (h : ∀ x, x ∈ l₁ ↔ x ∈ l₂) : maxList l₁ = maxList l₂ := by
  apply Nat.le_antisymm
  · exact maxList_le_iff.2 (fun x hx => le_maxList ((h x).1 hx))
  · exact maxList_le_iff.2 (fun x hx => le_maxList ((h x).2 hx))

theorem maxList_eq_zero {l : List Nat} : maxList l = 0 ↔ ∀ x ∈ l, x = 0 := by
  have := maxList_le_iff (l := l) (m := 0)
  simp only [Nat.le_zero_eq] at this
  exact this

theorem natSum_eq_zero {l : List Nat} : l.sum = 0 ↔ ∀ x ∈ l, x = 0 := by
  induction l with
  | nil => simp
  | cons a t ih => simp only [sum_cons, mem_cons, forall_eq_or_imp, ← ih]; omega

/-! ### the last visit of an individual (`groupby("ID").max()["TIME"]`) -/

private def stepMax (m : Option Int) (a : Int) : Option Int :=
  match m with | none => some a | some b => some (max a b)

private theorem foldl_stepMax (ages : List Int) (m : Option Int) (a : Int) :
    ages.foldl stepMax m = some a ↔
      (a ∈ ages ∨ m = some a) ∧ (∀ b ∈ ages, b ≤ a) ∧ (∀ b, m = some b → b ≤ a) := by
  induction ages generalizing m with
  | nil => simp; intro h b hb; rw [h] at hb; cases hb; omega
  | cons x xs ih =>
    simp only [foldl_cons, ih, mem_cons, forall_eq_or_imp]
    cases m with
    | none =>
      simp only [stepMax, Option.some.injEq, reduceCtorEq, or_false, forall_eq', false_imp_iff, implies_true, and_true]
      constructor
      · rintro ⟨h1, h2, h3⟩
        refine ⟨?_, h3, h2⟩
        rcases h1 with h | h
        · exact Or.inr h
        · exact Or.inl h.symm
      · rintro ⟨h1, h2, h3⟩
        refine ⟨?_, h3, h2⟩
        rcases h1 with h | h
        · exact Or.inr h.symm
        · exact Or.inl h
    | some b =>
      simp only [stepMax, Option.some.injEq, forall_eq']
      constructor
      · rintro ⟨h1, h2, h3⟩
        refine ⟨?_, ⟨by omega, h2⟩, by omega⟩
        rcases h1 with h | h
        · exact Or.inl (Or.inr h)
        · by_cases hxb : x ≤ b
          · right; omega
          · left; left; omega
      · rintro ⟨h1, ⟨h2, h3⟩, h4⟩
        refine ⟨?_, h3, by omega⟩
        rcases h1 with (h | h) | h
        · right; omega
        · exact Or.inl h
        · right; omega

theorem lastVisit_eq_some_iff {i : Nat} {rows : List Row} {a : Int} :
    lastVisit i rows = some a ↔ (∃ r ∈ rows, r.id = i ∧ r.age = a) ∧ ∀ r ∈ rows, r.id = i → r.age ≤ a := by
  have := foldl_stepMax ((rows.filter (fun r => r.id == i)).map (fun r => r.age)) none a
  simp only [reduceCtorEq, or_false, false_imp_iff, implies_true, and_true, mem_map, mem_filter, beq_iff_eq,
    forall_exists_index, and_imp] at this
  unfold lastVisit
  show foldl stepMax none _ = some a ↔ _
  rw [this]
  constructor
  · rintro ⟨⟨r, ⟨hr, hi⟩, ha⟩, h⟩
    exact ⟨⟨r, hr, hi, ha⟩, fun s hs hsi => h _ s hs hsi rfl⟩
  · rintro ⟨⟨r, hr, hi, ha⟩, h⟩
    exact ⟨⟨r, ⟨hr, hi⟩, ha⟩, fun b s hs hsi hb => hb ▸ h s hs hsi⟩

theorem lastVisit_eq_none_iff {i : Nat} {rows : List Row} : lastVisit i rows = none ↔ ∀ r ∈ rows, r.id ≠ i := by
  constructor
  · intro h r hr hi
    -- a non-empty group has a maximum
    cases hf : rows.filter (fun r => r.id == i) with
    | nil =>
      have : r ∈ rows.filter (fun r => r.id == i) := mem_filter.2 ⟨hr, by simp [hi]⟩
      rw [hf] at this; cases this
    | cons x xs =>
      unfold lastVisit at h
      rw [hf] at h
      simp only [map_cons, foldl_cons] at h
      have : ∀ (l : List Int) (b : Int), foldl (fun m a => match m with | none => some a | some b => some (max a b)) (some b) l ≠ none := by
        intro l; induction l with
        | nil => simp
        | cons y ys ih => intro b; simp only [foldl_cons]; exact ih _
      exact this _ _ h
  · intro h
    have : rows.filter (fun r => r.id == i) = [] := by
      simp only [filter_eq_nil_iff, beq_iff_eq]; exact fun r hr => h r hr
    simp [lastVisit, this]

theorem lastVisit_perm {t₁ t₂ : List Row} (h : t₁.Perm t₂) (i : Nat) : lastVisit i t₁ = lastVisit i t₂ := by
  cases h2 : lastVisit i t₂ with
  | none =>
    rw [lastVisit_eq_none_iff] at h2 ⊢
    exact fun r hr => h2 r (h.mem_iff.1 hr)
  | some a =>
    rw [lastVisit_eq_some_iff] at h2 ⊢
    obtain ⟨⟨r, hr, hri⟩, hmax⟩ := h2
    exact ⟨⟨r, h.mem_iff.2 hr, hri⟩, fun s hs => hmax s (h.mem_iff.1 hs)⟩


/-! ### events -/

/-- relation between the outcomes of two runs: the same rejection, or results related by `R` -/
def ExceptRel {α β} (R : α → β → Prop) : Except Err α → Except Err β → Prop
  | .error e, .error e' => e = e'
  | .ok a, .ok b => R a b
  | _, _ => False

theorem ExceptRel.error_iff {α β} {R : α → β → Prop} {x : Except Err α} {y : Except Err β} (h : ExceptRel R x y) (e : Err) :
    x = .error e ↔ y = .error e := by
  cases x <;> cases y <;> simp_all [ExceptRel]

theorem ExceptRel.ok_imp {α β} {R : α → β → Prop} {x : Except Err α} {y : Except Err β} (h : ExceptRel R x y) {a : α}
    (hx : x = .ok a) : ∃ b, y = .ok b ∧ R a b := by
  cases x <;> cases y <;> simp_all [ExceptRel]

/-- rows of an event table that survive `dropna(how="all")` -/
def evKept (rows : List EvRow) : List EvRow := rows.filter (fun r => !(r.time == .nan && r.code == .nan))

/-- the integer indicator of an acceptable `EVENT_BOOL` cell (the fall-back value is never used: the function is
    only applied to cells that passed `evCodeOk`) -/
def evCode : Cell Rat → Nat
  | .fin q => q.num.toNat
  | _ => 0

/-- the event read from a row whose cells passed `evTimeOk` and `evCodeOk` -/
def evOf (r : EvRow) : Event :=
  ⟨r.id, (match r.time with | .fin t => t | _ => 0), evCode r.code⟩

/-- a row of the table as an event would be written back -/
def rowOfEvent (e : Event) : EvRow := ⟨e.id, .fin e.time, .fin ((e.code : Int) : Rat)⟩

theorem evOf_id (r : EvRow) : (evOf r).id = r.id := rfl

theorem evCell_eq {r : EvRow} (ht : evTimeOk r = true) (hc : evCodeOk r = true) : evCell r = .ok (evOf r) := by
  obtain ⟨i, t, c⟩ := r
  cases t with
  | fin t =>
    cases c with
    | fin q =>
      simp only [evTimeOk, decide_eq_true_eq] at ht
      simp only [evCodeOk, Bool.and_eq_true, beq_iff_eq, decide_eq_true_eq] at hc
      simp only [evCell, evOf, evCode]
      have h2 : (q.den != 1 || decide (q.num < 0)) = false := by simp [hc.1, hc.2]
      rw [if_neg (by omega), h2]; rfl
    | nan => simp [evCodeOk] at hc
    | inf => simp [evCodeOk] at hc
  | nan => simp [evTimeOk] at ht
  | inf => simp [evTimeOk] at ht

theorem evConv_eq {rows : List EvRow} (h : ∀ r ∈ rows, evTimeOk r = true ∧ evCodeOk r = true) :
    evConv rows = .ok (rows.map evOf) := by
  induction rows with
  | nil => rfl
  | cons r rs ih =>
    have hr := h r (by simp)
    simp [evConv, evCell_eq hr.1 hr.2, ih (fun s hs => h s (by simp [hs]))]

theorem evCells_eq (rows : List EvRow) : evCells rows =
    if !rows.all evTimeOk then .error .eventTime
    else if !rows.all evCodeOk then .error .eventCode
    else .ok (rows.map evOf) := by
  unfold evCells
  by_cases h1 : rows.all evTimeOk = true
  · by_cases h2 : rows.all evCodeOk = true
    · simp only [h1, h2, Bool.not_true, Bool.false_eq_true, ↓reduceIte]
      exact evConv_eq (fun r hr => ⟨all_eq_true.1 h1 r hr, all_eq_true.1 h2 r hr⟩)
    · simp [h1, h2]
  · simp [h1]

theorem evOf_toRow {r : EvRow} (ht : evTimeOk r = true) (hc : evCodeOk r = true) : rowOfEvent (evOf r) = r := by
  obtain ⟨i, t, c⟩ := r
  cases t with
  | fin t =>
    cases c with
    | fin q =>
      simp only [evCodeOk, Bool.and_eq_true, beq_iff_eq, decide_eq_true_eq] at hc
      simp only [rowOfEvent, evOf, evCode, EvRow.mk.injEq, Cell.fin.injEq, true_and]
      apply Rat.ext
      · rw [Rat.num_intCast]; omega
      · rw [Rat.den_intCast, hc.1]
    | nan => simp [evCodeOk] at hc
    | inf => simp [evCodeOk] at hc
  | nan => simp [evTimeOk] at ht
  | inf => simp [evTimeOk] at ht

theorem evConsistent_iff {l : List Event} : evConsistent l = true ↔ KeyConsistent (·.id) l := by
  simp only [evConsistent, all_eq_true, Bool.or_eq_true, bne_iff_ne, ne_eq, Bool.and_eq_true, beq_iff_eq, KeyConsistent]
  constructor
  · intro h a ha b hb hid
    rcases h a ha b hb with h | h
    · exact absurd hid h
    · cases a; cases b; simp_all
  · intro h a ha b hb
    by_cases hid : a.id = b.id
    · right; have := h a ha b hb hid; subst this; exact ⟨rfl, rfl⟩
    · left; exact hid

theorem evConsistent_perm {l₁ l₂ : List Event} (h : l₁.Perm l₂) : evConsistent l₁ = evConsistent l₂ := by
  have : evConsistent l₁ = true ↔ evConsistent l₂ = true := by
    rw [evConsistent_iff, evConsistent_iff]
    exact ⟨fun hc => hc.perm h, fun hc => hc.perm h.symm⟩
  cases h1 : evConsistent l₁ <;> cases h2 : evConsistent l₂ <;> simp_all

/-- the admissible combinations of the `nb_events` argument and the largest indicator of the table -/
def CountOk (nbArg : Option Nat) (codes : List Nat) : Prop :=
  match nbArg with
  | some (n + 1) => maxList codes = n + 1 ∨ maxList codes = 0
  | _ => maxList codes ≠ 0

instance (nbArg : Option Nat) (codes : List Nat) : Decidable (CountOk nbArg codes) := by
  unfold CountOk; split <;> infer_instance

/-- the number of events of an accepted table -/
def countOf (nbArg : Option Nat) (codes : List Nat) : Nat :=
  match nbArg with
  | some (n + 1) => n + 1
  | _ => maxList codes

theorem evCount_ok_iff {nbArg : Option Nat} {l : List Event} {n : Nat} :
    evCount nbArg l = .ok n ↔ CountOk nbArg (l.map (·.code)) ∧ n = countOf nbArg (l.map (·.code)) := by
  unfold evCount CountOk countOf
  split
  · rename_i k
    by_cases h1 : k + 1 = maxList (l.map (·.code))
    · simp [← h1]; omega
    · by_cases h2 : maxList (l.map (·.code)) = 0
      · simp [h2]; omega
      · simp [h1, h2]; omega
  · by_cases h2 : maxList (l.map (·.code)) = 0
    · simp [h2]
    · simp [h2]; omega

theorem evCount_congr {nbArg : Option Nat} {l₁ l₂ : List Event} (h : ∀ e, e ∈ l₁ ↔ e ∈ l₂) :
    evCount nbArg l₁ = evCount nbArg l₂ := by
  have : maxList (l₁.map (·.code)) = maxList (l₂.map (·.code)) := by
    apply maxList_congr
    intro x
    simp only [mem_map]
    exact ⟨fun ⟨e, he, hx⟩ => ⟨e, (h e).1 he, hx⟩, fun ⟨e, he, hx⟩ => ⟨e, (h e).2 he, hx⟩⟩
  unfold evCount
  simp only [this]

theorem ingestEvents_eq (nbArg : Option Nat) (rows : List EvRow) : ingestEvents nbArg rows =
    if !rows.all evTimeOk then .error .eventTime
    else if !rows.all evCodeOk then .error .eventCode
    else if !evConsistent (rows.map evOf) then .error .eventUnique
    else if rows.isEmpty then .error .noRow
    else match evCount nbArg (rows.map evOf) with
      | .error e => .error e
      | .ok nb => .ok (evFirst (rows.map evOf), nb) := by
  unfold ingestEvents
  rw [evCells_eq]
  by_cases h1 : rows.all evTimeOk = true
  · by_cases h2 : rows.all evCodeOk = true
    · simp only [h1, h2, Bool.not_true, Bool.false_eq_true, ↓reduceIte]
      by_cases h3 : evConsistent (rows.map evOf) = true
      · have he : (evFirst (rows.map evOf)).isEmpty = rows.isEmpty := by
          cases rows with
          | nil => rfl
          | cons r rs =>
            have : evFirst ((r :: rs).map evOf) ≠ [] := by
              rw [evFirst_eq, Ne, firstBy_eq_nil]; simp
            cases hf : evFirst ((r :: rs).map evOf) <;> simp_all
        have hc : evCount nbArg (evFirst (rows.map evOf)) = evCount nbArg (rows.map evOf) :=
          evCount_congr (fun e => by rw [evFirst_eq]; exact mem_firstBy (evConsistent_iff.1 h3))
        simp only [h3, Bool.not_true, Bool.false_eq_true, ↓reduceIte, he, hc]
        by_cases h4 : rows.isEmpty = true
        · simp [h4]
        · simp only [h4, Bool.false_eq_true, ↓reduceIte]
          cases evCount nbArg (rows.map evOf) <;> rfl
      · simp [h3]
    · simp [h1, h2]
  · simp [h1]

theorem ingestEvents_perm (nbArg : Option Nat) {l₁ l₂ : List EvRow} (h : l₁.Perm l₂) :
    ExceptRel (fun a b => a.1.Perm b.1 ∧ a.2 = b.2) (ingestEvents nbArg l₁) (ingestEvents nbArg l₂) := by
  rw [ingestEvents_eq, ingestEvents_eq, h.all_eq, h.all_eq, evConsistent_perm (h.map evOf), h.isEmpty_eq,
    evCount_congr (l₁ := l₁.map evOf) (l₂ := l₂.map evOf) (fun e => (h.map evOf).mem_iff)]
  by_cases h1 : l₂.all evTimeOk = true
  · by_cases h2 : l₂.all evCodeOk = true
    · by_cases h3 : evConsistent (l₂.map evOf) = true
      · by_cases h4 : l₂.isEmpty = true
        · simp [h1, h2, h3, h4, ExceptRel]
        · simp only [h1, h2, h3, h4, Bool.not_true, Bool.false_eq_true, ↓reduceIte]
          cases evCount nbArg (l₂.map evOf) with
          | error e => simp [ExceptRel]
          | ok n =>
            simp only [ExceptRel, and_true]
            rw [evFirst_eq, evFirst_eq]
            exact firstBy_perm (h.map evOf) ((evConsistent_iff.1 h3).perm (h.map evOf).symm)
      · simp [h1, h2, h3, ExceptRel]
    · simp [h1, h2, ExceptRel]
  · simp [h1, ExceptRel]

/-! ### joint layout -/

/-- rows of a joint table that survive `dropna(how="all")` (features and the two event columns) -/
def jKept (rows : List JRow) : List JRow := rows.filter (fun r => !jDropped r)

/-- the event part of a row -/
def jEv (r : JRow) : EvRow := ⟨r.row.id, r.time, r.code⟩

theorem jKept_perm {t₁ t₂ : List JRow} (h : t₁.Perm t₂) : (jKept t₁).Perm (jKept t₂) := h.filter _

/-- the cross check refuses iff some uncensored event is earlier, by more than the tolerance, than *some* visit
    of its individual (equivalently: than the latest one) -/
theorem jointCross_iff {evs : List Event} {rows : List Row} :
    jointCross evs rows = true ↔
      ∀ e ∈ evs, ∀ r ∈ rows, r.id = e.id → e.time - r.age < -tolMicro → e.code = 0 := by
  simp only [jointCross, beq_iff_eq, natSum_eq_zero, mem_map, mem_filter, forall_exists_index, and_imp]
  constructor
  · intro h e he r hr hid hlt
    apply h e.code e he _ rfl
    cases hl : lastVisit e.id rows with
    | none => exact absurd hid (lastVisit_eq_none_iff.1 hl r hr)
    | some a =>
      have := (lastVisit_eq_some_iff.1 hl).2 r hr hid
      simp only [decide_eq_true_eq]; omega
  · intro h x e he hb hx
    subst hx
    cases hl : lastVisit e.id rows with
    | none => rw [hl] at hb; cases hb
    | some a =>
      rw [hl] at hb
      obtain ⟨r, hr, hid, ha⟩ := (lastVisit_eq_some_iff.1 hl).1
      exact h e he r hr hid (by simp only [decide_eq_true_eq] at hb; omega)

theorem jointCross_perm {e₁ e₂ : List Event} {t₁ t₂ : List Row} (he : e₁.Perm e₂) (ht : t₁.Perm t₂) :
    jointCross e₁ t₁ = jointCross e₂ t₂ := by
  have : jointCross e₁ t₁ = true ↔ jointCross e₂ t₂ = true := by
    rw [jointCross_iff, jointCross_iff]
    exact ⟨fun h e hm r hr => h e (he.mem_iff.2 hm) r (ht.mem_iff.2 hr),
      fun h e hm r hr => h e (he.mem_iff.1 hm) r (ht.mem_iff.1 hr)⟩
  cases h1 : jointCross e₁ t₁ <;> cases h2 : jointCross e₂ t₂ <;> simp_all

theorem nodup_keys_map_filter {α} (f : α → Row) (p : α → Bool) {rows : List α} (h : ((rows.map f).map key).Nodup) :
    (((rows.filter p).map f).map key).Nodup :=
  h.sublist ((filter_sublist.map f).map key)

theorem ingestJoint_eq (dim : Nat) (nbArg : Option Nat) (rows : List JRow) : ingestJoint dim nbArg rows =
    if rowKeyDup (rows.map (·.row)) then .error .duplicate else
    if rows.any (fun r => r.time == .inf || r.code == .inf) then .error .valueInf else
    if (jKept rows).isEmpty then .error .noRow else
    if dim < 1 then .error .noFeature else
    match ingestEvents nbArg ((jKept rows).map jEv) with
    | .error e => .error e
    | .ok (evs, nb) =>
      if !jointCross evs ((jKept rows).map (·.row)) then .error .eventBefore
      else .ok (canon ((jKept rows).map (·.row)), evs, nb) := by
  unfold ingestJoint
  cases hd : rowKeyDup (rows.map (·.row))
  · have hk := nodup_keys_map_filter (fun r : JRow => r.row) (fun r => !jDropped r) (rowKeyDup_false_iff.1 hd)
    simp only [Bool.false_eq_true, ↓reduceIte, isEmpty_map, jKept]
    by_cases h1 : (rows.any (fun r => r.time == .inf || r.code == .inf)) = true
    · simp [h1]
    · by_cases h2 : (filter (fun r => !jDropped r) rows).isEmpty = true
      · simp [h1, h2]
      · by_cases h3 : dim < 1
        · simp [h1, h2, h3]
        · simp only [h1, h2, h3, Bool.false_eq_true, ↓reduceIte]
          unfold jEv
          generalize ingestEvents nbArg _ = x
          cases x with
          | error e => rfl
          | ok res =>
            obtain ⟨evs, nb⟩ := res
            simp only
            by_cases h4 : jointCross evs ((filter (fun r => !jDropped r) rows).map (fun r => r.row)) = true
            · simp only [h4, Bool.not_true, Bool.false_eq_true, ↓reduceIte]
              rw [loadAll_eq_canon hk]
            · simp [h4]
  · simp

/-! ### covariate layout -/

/-- rows of a covariate table that survive `dropna(how="all")` (features and covariates) -/
def cKept (rows : List CRow) : List CRow := rows.filter (fun r => !cDropped r)

theorem cKept_perm {t₁ t₂ : List CRow} (h : t₁.Perm t₂) : (cKept t₁).Perm (cKept t₂) := h.filter _

/-- the integer value of an acceptable covariate cell (the fall-back value is never used: the function is only
    applied to cells that are finite and passed `covIntOk`) -/
def covNum : Cell Rat → Int
  | .fin q => q.num
  | _ => 0

def covOf (r : CRow) : Nat × List Int := (r.row.id, r.covs.map covNum)

/-- a covariate cell the reader accepts: finite and integer valued -/
def CovCellOk (c : Cell Rat) : Prop := c ≠ .nan ∧ c ≠ .inf ∧ covIntOk c = true

instance (c : Cell Rat) : Decidable (CovCellOk c) := by unfold CovCellOk; infer_instance

theorem covCell_eq {c : Cell Rat} (h : CovCellOk c) : covCell c = .ok (covNum c) := by
  obtain ⟨h1, h2, h3⟩ := h
  cases c with
  | fin q => simp only [covIntOk, beq_iff_eq] at h3; simp [covCell, covNum, h3]
  | nan => exact absurd rfl h1
  | inf => exact absurd rfl h2

theorem covCells_eq {cs : List (Cell Rat)} (h : ∀ c ∈ cs, CovCellOk c) : covCells cs = .ok (cs.map covNum) := by
  induction cs with
  | nil => rfl
  | cons c cs ih => simp [covCells, covCell_eq (h c (by simp)), ih (fun d hd => h d (by simp [hd]))]

theorem covConv_eq {rows : List CRow} (h : ∀ r ∈ rows, ∀ c ∈ r.covs, CovCellOk c) :
    covConv rows = .ok (rows.map covOf) := by
  induction rows with
  | nil => rfl
  | cons r rs ih =>
    simp [covConv, covCells_eq (h r (by simp)), ih (fun s hs => h s (by simp [hs])), covOf]

theorem covRows_eq {rows : List CRow} (hinf : ∀ r ∈ rows, ∀ c ∈ r.covs, c ≠ .inf) : covRows rows =
    if rows.any (fun r => r.covs.any (fun c => c == .nan)) then .error .covMissing
    else if rows.any (fun r => r.covs.any (fun c => !covIntOk c)) then .error .covInteger
    else .ok (rows.map covOf) := by
  unfold covRows
  by_cases h1 : rows.any (fun r => r.covs.any (fun c => c == .nan)) = true
  · simp [h1]
  · by_cases h2 : rows.any (fun r => r.covs.any (fun c => !covIntOk c)) = true
    · simp [h1, h2]
    · simp only [h1, h2, Bool.false_eq_true, ↓reduceIte]
      apply covConv_eq
      intro r hr c hc
      simp only [Bool.not_eq_true, any_eq_false, beq_iff_eq, Bool.not_eq_eq_eq_not, Bool.not_true] at h1 h2
      refine ⟨fun hn => ?_, hinf r hr c hc, ?_⟩
      · have := h1 r hr c hc; simp [hn] at this
      · have := h2 r hr c hc; simpa using this

theorem covConsistent_iff {l : List (Nat × List Int)} : covConsistent l = true ↔ KeyConsistent (·.1) l := by
  simp only [covConsistent, all_eq_true, Bool.or_eq_true, bne_iff_ne, ne_eq, beq_iff_eq, KeyConsistent]
  constructor
  · intro h a ha b hb hid
    rcases h a ha b hb with h | h
    · exact absurd hid h
    · exact Prod.ext hid h
  · intro h a ha b hb
    by_cases hid : a.1 = b.1
    · right; rw [h a ha b hb hid]
    · left; exact hid

theorem covConsistent_perm {l₁ l₂ : List (Nat × List Int)} (h : l₁.Perm l₂) : covConsistent l₁ = covConsistent l₂ := by
  have : covConsistent l₁ = true ↔ covConsistent l₂ = true := by
    rw [covConsistent_iff, covConsistent_iff]
    exact ⟨fun hc => hc.perm h, fun hc => hc.perm h.symm⟩
  cases h1 : covConsistent l₁ <;> cases h2 : covConsistent l₂ <;> simp_all

theorem covVaries_iff {n : Nat} {l : List (Nat × List Int)} :
    covVaries n l = true ↔ ∀ k, k < n → ∃ a ∈ l, ∃ b ∈ l, a.2[k]? ≠ b.2[k]? := by
  simp [covVaries]

theorem covVaries_congr {n : Nat} {l₁ l₂ : List (Nat × List Int)} (h : ∀ x, x ∈ l₁ ↔ x ∈ l₂) :
    covVaries n l₁ = covVaries n l₂ := by
  have : covVaries n l₁ = true ↔ covVaries n l₂ = true := by
    rw [covVaries_iff, covVaries_iff]
    constructor
    · intro hv k hk
      obtain ⟨a, ha, b, hb, hne⟩ := hv k hk
      exact ⟨a, (h a).1 ha, b, (h b).1 hb, hne⟩
    · intro hv k hk
      obtain ⟨a, ha, b, hb, hne⟩ := hv k hk
      exact ⟨a, (h a).2 ha, b, (h b).2 hb, hne⟩
  cases h1 : covVaries n l₁ <;> cases h2 : covVaries n l₂ <;> simp_all

theorem ingestCov_eq (dim nCov : Nat) (rows : List CRow) : ingestCov dim nCov rows =
    if nCov < 1 then .error .covNone else
    if rowKeyDup (rows.map (·.row)) then .error .duplicate else
    if rows.any (fun r => r.covs.any (fun c => c == .inf)) then .error .valueInf else
    if (cKept rows).isEmpty then .error .noRow else
    if dim < 1 then .error .noFeature else
    if (cKept rows).any (fun r => r.covs.any (fun c => c == .nan)) then .error .covMissing else
    if (cKept rows).any (fun r => r.covs.any (fun c => !covIntOk c)) then .error .covInteger else
    if !covConsistent ((cKept rows).map covOf) then .error .covUnique else
    if !covVaries nCov ((cKept rows).map covOf) then .error .covConstant else
    .ok (canon ((cKept rows).map (·.row)), covFirst ((cKept rows).map covOf)) := by
  unfold ingestCov
  by_cases h0 : nCov < 1
  · simp [h0]
  cases hd : rowKeyDup (rows.map (·.row))
  · have hk := nodup_keys_map_filter (fun r : CRow => r.row) (fun r => !cDropped r) (rowKeyDup_false_iff.1 hd)
    simp only [h0, Bool.false_eq_true, ↓reduceIte, isEmpty_map, cKept]
    by_cases h1 : (rows.any (fun r => r.covs.any (fun c => c == .inf))) = true
    · simp [h1]
    · have hinf : ∀ r ∈ filter (fun r => !cDropped r) rows, ∀ c ∈ r.covs, c ≠ .inf := by
        intro r hr c hc heq
        apply h1
        exact any_eq_true.2 ⟨r, (mem_filter.1 hr).1, any_eq_true.2 ⟨c, hc, by simp [heq]⟩⟩
      by_cases h2 : (filter (fun r => !cDropped r) rows).isEmpty = true
      · simp [h1, h2]
      · by_cases h3 : dim < 1
        · simp [h1, h2, h3]
        · simp only [h1, h2, h3, Bool.false_eq_true, ↓reduceIte]
          rw [covRows_eq hinf]
          by_cases h4 : (filter (fun r => !cDropped r) rows).any (fun r => r.covs.any (fun c => c == .nan)) = true
          · simp [h4]
          · by_cases h5 : (filter (fun r => !cDropped r) rows).any (fun r => r.covs.any (fun c => !covIntOk c)) = true
            · simp [h4, h5]
            · simp only [h4, h5, Bool.false_eq_true, ↓reduceIte]
              by_cases h6 : covConsistent ((filter (fun r => !cDropped r) rows).map covOf) = true
              · have hv : covVaries nCov (covFirst ((filter (fun r => !cDropped r) rows).map covOf)) =
                    covVaries nCov ((filter (fun r => !cDropped r) rows).map covOf) :=
                  covVaries_congr (fun x => by rw [covFirst_eq]; exact mem_firstBy (covConsistent_iff.1 h6))
                simp only [h6, hv, Bool.not_true, Bool.false_eq_true, ↓reduceIte]
                by_cases h7 : covVaries nCov ((filter (fun r => !cDropped r) rows).map covOf) = true
                · simp only [h7, Bool.not_true, Bool.false_eq_true, ↓reduceIte]
                  rw [loadAll_eq_canon hk]
                · simp [h7]
              · simp [h6]
  · simp [h0]

/-! ### acceptance in closed form -/

theorem eq_of_nodup_map {α β} (f : α → β) {l : List α} (h : (l.map f).Nodup) {x y : α} (hx : x ∈ l) (hy : y ∈ l)
    (hf : f x = f y) : x = y := by
  induction l with
  | nil => cases hx
  | cons a t ih =>
    simp only [map_cons, nodup_cons, mem_map, not_exists, not_and] at h
    rcases mem_cons.1 hx with hxa | hx' <;> rcases mem_cons.1 hy with hya | hy'
    · rw [hxa, hya]
    · rw [hxa] at hf; exact absurd hf.symm (h.1 y hy')
    · rw [hya] at hf; exact absurd hf (h.1 x hx')
    · exact ih h.2 hx' hy'

theorem evIdDup_false_iff {rows : List EvRow} : evIdDup rows = false ↔ (rows.map (·.id)).Nodup := by
  induction rows with
  | nil => simp [evIdDup]
  | cons r rs ih =>
    simp only [evIdDup, Bool.or_eq_false_iff, ih, map_cons, nodup_cons, mem_map, not_exists, not_and, any_eq_false,
      beq_iff_eq]

theorem evOf_inj {r s : EvRow} (hr : evTimeOk r = true ∧ evCodeOk r = true) (hs : evTimeOk s = true ∧ evCodeOk s = true)
    (h : evOf r = evOf s) : r = s := by
  rw [← evOf_toRow hr.1 hr.2, ← evOf_toRow hs.1 hs.2, h]

theorem ingestEvents_ok_iff {nbArg : Option Nat} {rows : List EvRow} {res : List Event × Nat} :
    ingestEvents nbArg rows = .ok res ↔
      (∀ r ∈ rows, evTimeOk r = true ∧ evCodeOk r = true) ∧ KeyConsistent (·.id) (rows.map evOf) ∧ rows ≠ [] ∧
      CountOk nbArg (rows.map (fun r => evCode r.code)) ∧
      res = (evFirst (rows.map evOf), countOf nbArg (rows.map (fun r => evCode r.code))) := by
  rw [ingestEvents_eq]
  have hcodes : (rows.map evOf).map (·.code) = rows.map (fun r => evCode r.code) := by
    rw [map_map]; rfl
  by_cases h1 : rows.all evTimeOk = true
  · by_cases h2 : rows.all evCodeOk = true
    · have h12 : ∀ r ∈ rows, evTimeOk r = true ∧ evCodeOk r = true :=
        fun r hr => ⟨all_eq_true.1 h1 r hr, all_eq_true.1 h2 r hr⟩
      by_cases h3 : evConsistent (rows.map evOf) = true
      · have h3' := evConsistent_iff.1 h3
        by_cases h4 : rows.isEmpty = true
        · have : rows = [] := isEmpty_iff.1 h4
          subst this
          simp [evConsistent]
        · have h4' : rows ≠ [] := fun h => h4 (isEmpty_iff.2 h)
          simp only [h1, h2, h3, h4, Bool.not_true, Bool.false_eq_true, ↓reduceIte]
          cases hc : evCount nbArg (rows.map evOf) with
          | error e =>
            simp only [reduceCtorEq, false_iff, not_and]
            intro _ _ _ hcnt
            have := (evCount_ok_iff (nbArg := nbArg) (l := rows.map evOf) (n := countOf nbArg (rows.map (fun r => evCode r.code)))).2
              ⟨hcodes ▸ hcnt, by rw [hcodes]⟩
            rw [hc] at this; cases this
          | ok n =>
            obtain ⟨hcnt, hn⟩ := evCount_ok_iff.1 hc
            rw [hcodes] at hcnt hn
            simp only [Except.ok.injEq]
            constructor
            · intro h; exact ⟨h12, h3', h4', hcnt, by rw [← h, hn]⟩
            · rintro ⟨_, _, _, _, h⟩; rw [h, hn]
      · simp only [h1, h2, h3, Bool.not_true, Bool.false_eq_true, ↓reduceIte, Bool.not_false, reduceCtorEq, false_iff,
          not_and]
        intro _ hk
        exact absurd (evConsistent_iff.2 hk) h3
    · have h2' : rows.all evCodeOk = false := by simpa using h2
      simp only [h1, h2', Bool.not_true, Bool.not_false, Bool.false_eq_true, ↓reduceIte, reduceCtorEq, false_iff, not_and]
      intro h
      exact absurd (all_eq_true.2 (fun r hr => (h r hr).2)) h2
  · have h1' : rows.all evTimeOk = false := by simpa using h1
    simp only [h1', Bool.not_false, ↓reduceIte, reduceCtorEq, false_iff, not_and]
    intro h
    exact absurd (all_eq_true.2 (fun r hr => (h r hr).1)) h1

theorem ingestEventTable_eq (nbArg : Option Nat) (rows : List EvRow) : ingestEventTable nbArg rows =
    if evIdDup rows then .error .duplicate
    else if rows.any evHasInf then .error .valueInf
    else ingestEvents nbArg (evKept rows) := rfl

/-- the integer covariates are the same iff the cells are the same, for cells the reader accepts -/
theorem covNum_inj {c d : Cell Rat} (hc : CovCellOk c) (hd : CovCellOk d) (h : covNum c = covNum d) : c = d := by
  obtain ⟨c1, c2, c3⟩ := hc
  obtain ⟨d1, d2, d3⟩ := hd
  cases c with
  | fin p =>
    cases d with
    | fin q =>
      simp only [covIntOk, beq_iff_eq] at c3 d3
      simp only [covNum] at h
      rw [Rat.ext h (c3.trans d3.symm)]
    | nan => exact absurd rfl d1
    | inf => exact absurd rfl d2
  | nan => exact absurd rfl c1
  | inf => exact absurd rfl c2

theorem map_covNum_inj {l₁ l₂ : List (Cell Rat)} (h₁ : ∀ c ∈ l₁, CovCellOk c) (h₂ : ∀ c ∈ l₂, CovCellOk c)
    (h : l₁.map covNum = l₂.map covNum) : l₁ = l₂ := by
  induction l₁ generalizing l₂ with
  | nil => cases l₂ <;> simp_all
  | cons a t ih =>
    cases l₂ with
    | nil => simp at h
    | cons b u =>
      simp only [map_cons, cons.injEq] at h
      rw [covNum_inj (h₁ a (by simp)) (h₂ b (by simp)) h.1,
        ih (fun c hc => h₁ c (by simp [hc])) (fun c hc => h₂ c (by simp [hc])) h.2]

theorem getElem?_covNum_ne {l₁ l₂ : List (Cell Rat)} (h₁ : ∀ c ∈ l₁, CovCellOk c) (h₂ : ∀ c ∈ l₂, CovCellOk c) (k : Nat) :
    (l₁.map covNum)[k]? ≠ (l₂.map covNum)[k]? ↔ l₁[k]? ≠ l₂[k]? := by
  simp only [getElem?_map, ne_eq]
  constructor
  · intro h heq; exact h (by rw [heq])
  · intro h heq
    apply h
    cases ha : l₁[k]? with
    | none => cases hb : l₂[k]? with
      | none => rfl
      | some b => rw [ha, hb] at heq; cases heq
    | some a => cases hb : l₂[k]? with
      | none => rw [ha, hb] at heq; cases heq
      | some b =>
        rw [ha, hb] at heq
        simp only [Option.map_some, Option.some.injEq] at heq
        rw [covNum_inj (h₁ a (mem_of_getElem? ha)) (h₂ b (mem_of_getElem? hb)) heq]

end LeaspyVerif.IngestLemmas
