/-
Helper lemmas for `Props/C12.lean` about `Model/Codec.lean` (tensor ↔ nested-list codec).  Not obligations.
-/
import LeaspyVerif.Model.Codec

namespace LeaspyVerif.Codec

theorem numel_cons (n : Nat) (sh : List Nat) : numel (n :: sh) = n * numel sh := rfl

theorem chunks_length {α} (k : Nat) : ∀ (n : Nat) (l : List α), (chunks k n l).length = n
  | 0, _ => rfl
  | n + 1, l => by simp [chunks, chunks_length k n]

theorem chunks_mem {α} (k : Nat) : ∀ (n : Nat) (l : List α), l.length = n * k →
    ∀ ch ∈ chunks k n l, ch.length = k ∧ ∀ e ∈ ch, e ∈ l
  | 0, _, _, ch, h => by simp [chunks] at h
  | n + 1, l, hl, ch, h => by
    simp only [chunks, List.mem_cons] at h
    rcases h with h | h
    · subst h
      refine ⟨?_, fun e he => List.mem_of_mem_take he⟩
      rw [List.length_take, hl, Nat.add_mul, Nat.one_mul]; omega
    · have hl' : (l.drop k).length = n * k := by
        rw [List.length_drop, hl, Nat.add_mul, Nat.one_mul]; omega
      obtain ⟨h1, h2⟩ := chunks_mem k n (l.drop k) hl' ch h
      exact ⟨h1, fun e he => List.mem_of_mem_drop (h2 e he)⟩

theorem cutShape_of_ne_zero : ∀ sh : List Nat, numel sh ≠ 0 → cutShape sh = sh
  | [], _ => rfl
  | 0 :: sh, h => by simp [numel] at h
  | (n + 1) :: sh, h => by
    have : numel sh ≠ 0 := by
      intro h0; apply h; simp [numel, h0]
    simp [cutShape, cutShape_of_ne_zero sh this]

theorem numel_cutShape_of_zero : ∀ sh : List Nat, numel sh = 0 → numel (cutShape sh) = 0
  | [], h => by simp [numel] at h
  | 0 :: sh, _ => by simp [cutShape, numel]
  | (n + 1) :: sh, h => by
    have : numel sh = 0 := by
      simp only [numel, Nat.mul_eq_zero] at h
      rcases h with h | h
      · omega
      · exact h
    simp [cutShape, numel, numel_cutShape_of_zero sh this]

theorem promote_self (c : Cls) : c.promote c = c := by cases c <;> rfl
theorem promote_bool (c : Cls) : c.promote .bool = c := by cases c <;> rfl

theorem nest_ne_str (sh : List Nat) (d : List Elem) (s : String) : nest sh d ≠ .str s := by
  cases sh with
  | nil =>
    unfold nest
    split
    · rename_i x; cases x <;> simp [Elem.toJson]
    · simp
  | cons n sh => simp [nest]

/-- `compute_sizes` on the output of `tolist` -/
theorem sizes_nest : ∀ (sh : List Nat) (d : List Elem), sizes (nest sh d) = .ok (cutShape sh)
  | [], d => by
    unfold nest
    split
    · rename_i x; cases x <;> simp [Elem.toJson, sizes, cutShape]
    · simp [sizes, cutShape]
  | 0 :: sh, d => by simp [nest, chunks, sizes, sizesHead, cutShape]
  | (n + 1) :: sh, d => by
    simp [nest, chunks, sizes, sizesHead, cutShape, sizes_nest sh, chunks_length]

theorem inferList_const (c : Cls) : ∀ l : List JVal, (∀ v ∈ l, infer v = .ok c) →
    inferList l = .ok (if l = [] then .bool else c)
  | [], _ => by simp [inferList]
  | x :: xs, h => by
    have hx := h x (List.mem_cons_self ..)
    have hxs := inferList_const c xs (fun v hv => h v (List.mem_cons_of_mem _ hv))
    simp only [inferList, hx, hxs]
    by_cases he : xs = [] <;> simp [he, promote_self, promote_bool]

theorem infer_arr_const (c : Cls) (l : List JVal) (hne : l ≠ []) (h : ∀ v ∈ l, infer v = .ok c) :
    infer (.arr l) = .ok c := by
  cases l with
  | nil => exact absurd rfl hne
  | cons x xs =>
    have hx := h x (List.mem_cons_self ..)
    have hxs := inferList_const c xs (fun v hv => h v (List.mem_cons_of_mem _ hv))
    simp only [infer, hx, hxs]
    by_cases he : xs = [] <;> simp [he, promote_self, promote_bool]

theorem infer_elem (e : Elem) : infer e.toJson = .ok e.cls := by
  cases e <;> rfl

/-- dtype inference on the output of `tolist` for a tensor with at least one element -/
theorem infer_nest (c : Cls) : ∀ (sh : List Nat) (d : List Elem), numel sh ≠ 0 → d.length = numel sh →
    (∀ e ∈ d, e.cls = c) → infer (nest sh d) = .ok c
  | [], d, _, hl, hc => by
    match d, hl with
    | [x], _ => simp [nest, infer_elem, hc x (List.mem_cons_self ..)]
  | n :: sh, d, h0, hl, hc => by
    have hn : n ≠ 0 := by intro h; apply h0; simp [numel, h]
    have hs : numel sh ≠ 0 := by intro h; apply h0; simp [numel, h]
    simp only [nest]
    apply infer_arr_const
    · intro he
      have := congrArg List.length he
      simp [chunks_length] at this
      exact hn this
    · intro v hv
      obtain ⟨ch, hch, rfl⟩ := List.mem_map.mp hv
      obtain ⟨h1, h2⟩ := chunks_mem (numel sh) n d (by rw [hl]; rfl) ch hch
      exact infer_nest c sh ch hs h1 (fun e he => hc e (h2 e he))

/-- dtype inference on the output of `tolist` for a tensor without elements: always the default dtype -/
theorem infer_nest_zero : ∀ (sh : List Nat) (d : List Elem), numel sh = 0 → infer (nest sh d) = .ok .float
  | [], _, h => by simp [numel] at h
  | 0 :: sh, d, _ => by simp [nest, chunks, infer]
  | (n + 1) :: sh, d, h => by
    have hs : numel sh = 0 := by
      simp only [numel, Nat.mul_eq_zero] at h
      rcases h with h | h
      · omega
      · exact h
    simp only [nest]
    apply infer_arr_const
    · simp [chunks]
    · intro v hv
      obtain ⟨ch, _, rfl⟩ := List.mem_map.mp hv
      exact infer_nest_zero sh ch hs

theorem scalarOf_elem (narrow : Fl → Fl) (dt : DType) (e : Elem) (h : e.okFor narrow dt = true) :
    scalarOf narrow dt.cls e.toJson = .ok (e.back narrow) := by
  cases dt <;> cases e <;> simp_all [Elem.okFor, DType.cls, Elem.toJson, scalarOf, Elem.back, inInt64] <;> omega

theorem okFor_cls (narrow : Fl → Fl) (dt : DType) (e : Elem) (h : e.okFor narrow dt = true) : e.cls = dt.cls := by
  cases dt <;> cases e <;> simp_all [Elem.okFor, DType.cls, Elem.cls]

/-- `recursive_store` on the output of `tolist` -/
theorem store_nest (narrow : Fl → Fl) (dt : DType) : ∀ (sh : List Nat) (d : List Elem), d.length = numel sh →
    (∀ e ∈ d, e.okFor narrow dt = true) → store narrow dt.cls sh (nest sh d) = .ok (d.map (Elem.back narrow))
  | [], d, hl, hc => by
    match d, hl with
    | [x], _ => simp [nest, store, scalarOf_elem narrow dt x (hc x (List.mem_cons_self ..))]
  | n :: sh, d, hl, hc => by
    simp only [nest, store, List.length_map, chunks_length, ↓reduceIte]
    -- induction over the blocks
    have key : ∀ (m : Nat) (l : List Elem), l.length = m * numel sh → (∀ e ∈ l, e.okFor narrow dt = true) →
        storeList narrow dt.cls sh ((chunks (numel sh) m l).map (nest sh)) = .ok (l.map (Elem.back narrow)) := by
      intro m
      induction m with
      | zero =>
        intro l hl _
        have : l = [] := List.eq_nil_of_length_eq_zero (by simpa using hl)
        simp [chunks, storeList, this]
      | succ m ihm =>
        intro l hl hc
        have h1 : (l.take (numel sh)).length = numel sh := by
          rw [List.length_take, hl, Nat.add_mul, Nat.one_mul]; omega
        have h2 : (l.drop (numel sh)).length = m * numel sh := by
          rw [List.length_drop, hl, Nat.add_mul, Nat.one_mul]; omega
        have s1 := store_nest narrow dt sh (l.take (numel sh)) h1 (fun e he => hc e (List.mem_of_mem_take he))
        have s2 := ihm (l.drop (numel sh)) h2 (fun e he => hc e (List.mem_of_mem_drop he))
        simp only [chunks, List.map_cons, storeList, s1, s2]
        rw [← List.map_append, List.take_append_drop]
    exact key n d (by rw [hl]; rfl) hc


/-! ### `load_parameters` on the parameters block written by `to_dict` -/

theorem lookup_isSome_of_mem {β : Type} (l : List (String × β)) (k : String) (h : k ∈ l.map Prod.fst) :
    (l.lookup k).isSome = true := by
  induction l with
  | nil => simp at h
  | cons a l ih =>
    obtain ⟨a1, a2⟩ := a
    simp only [List.map_cons, List.mem_cons] at h
    by_cases hk : k = a1
    · subst hk; simp [List.lookup]
    · have : (k == a1) = false := by simpa using hk
      simp only [List.lookup, this]
      exact ih (by rcases h with h | h; exact absurd h hk; exact h)

theorem lookup_isNone_of_not_mem {β : Type} (l : List (String × β)) (k : String) (h : k ∉ l.map Prod.fst) :
    (l.lookup k).isNone = true := by
  induction l with
  | nil => simp [List.lookup]
  | cons a l ih =>
    obtain ⟨a1, a2⟩ := a
    simp only [List.map_cons, List.mem_cons, not_or] at h
    have : (k == a1) = false := by simpa using h.1
    simp only [List.lookup, this]
    exact ih h.2

theorem lookup_append_of_mem {β : Type} (l m : List (String × β)) (hnd : (l.map Prod.fst).Nodup) :
    ∀ p ∈ l, (l ++ m).lookup p.1 = some p.2 := by
  induction l with
  | nil => intro p hp; cases hp
  | cons a l ih =>
    intro p hp
    rw [List.map_cons, List.nodup_cons] at hnd
    rcases List.mem_cons.mp hp with h | h
    · subst h; simp [List.lookup]
    · have hne : p.1 ≠ a.1 := by
        intro he
        exact hnd.1 (he ▸ List.mem_map_of_mem (f := Prod.fst) h)
      have : (p.1 == a.1) = false := by simpa using hne
      obtain ⟨a1, a2⟩ := a
      simp only [List.cons_append, List.lookup, this]
      exact ih hnd.2 p h

theorem mapM_ok_of_forall {α β : Type} (f : α → Out β) (g : α → β) :
    ∀ l : List α, (∀ a ∈ l, f a = .ok (g a)) → Out.mapM f l = .ok (l.map g)
  | [], _ => rfl
  | a :: as, h => by
    simp [Out.mapM, h a (List.mem_cons_self ..),
      mapM_ok_of_forall f g as (fun b hb => h b (List.mem_cons_of_mem _ hb))]

/-- the pairs (DAG entry, stored value) that `load_parameters` converts, when the block holds the DAG's names -/
theorem filterMap_lookup_zip (kvs : List (String × JVal)) :
    ∀ (spec : List (String × List Nat)) (ps : List (String × Tensor)), ps.map Prod.fst = spec.map Prod.fst →
      (∀ p ∈ ps, kvs.lookup p.1 = some (toJson p.2)) →
      spec.filterMap (fun e => (kvs.lookup e.1).map (fun v => (e, v)))
        = List.zipWith (fun e p => (e, toJson p.2)) spec ps
  | [], [], _, _ => rfl
  | [], _ :: _, h, _ => by simp at h
  | _ :: _, [], h, _ => by simp at h
  | e :: spec, p :: ps, h, hl => by
    simp only [List.map_cons, List.cons.injEq] at h
    have h1 := hl p (List.mem_cons_self ..)
    rw [h.1] at h1
    simp only [List.filterMap_cons, h1, Option.map_some, List.zipWith_cons_cons]
    rw [filterMap_lookup_zip kvs spec ps h.2 (fun q hq => hl q (List.mem_cons_of_mem _ hq))]

theorem mapM_zipWith_norm (narrow : Fl → Fl) :
    ∀ (spec : List (String × List Nat)) (ps : List (String × Tensor)),
      (∀ ep ∈ List.zip spec ps, ep.2.2.wf narrow = true ∧ numel ep.1.2 = numel ep.2.2.shape) →
      Out.mapM (convParam narrow) (List.zipWith (fun e p => (e, toJson p.2)) spec ps)
        = .ok (normParams narrow spec ps)
  | [], _, _ => by simp [Out.mapM, normParams]
  | _ :: _, [], _ => by simp [Out.mapM, normParams]
  | e :: spec, p :: ps, h => by
    obtain ⟨hw, hn⟩ := h (e, p) (by simp)
    have ih := mapM_zipWith_norm narrow spec ps (fun ep hep => h ep (by simp [hep]))
    simp only [normParams] at ih ⊢
    simp only [List.zipWith_cons_cons, Out.mapM, convParam, view_reload_lemma narrow p.2 hw e.2 hn, ih, normTensor]
where
  view_reload_lemma (narrow : Fl → Fl) (t : Tensor) (hwf : t.wf narrow = true) (sh : List Nat)
      (hn : numel sh = numel t.shape) :
      valToTensor narrow (some sh) (toJson t) = .ok ⟨(t.back narrow).dtype, sh, (t.back narrow).data⟩ := by
    have hwf' := hwf
    simp only [Tensor.wf, Bool.and_eq_true, beq_iff_eq, List.all_eq_true] at hwf
    obtain ⟨hl, hall⟩ := hwf
    have hof : ofJson narrow (toJson t) = .ok (t.back narrow) := by
      unfold ofJson toJson
      split
      · rename_i s h; exact absurd h (nest_ne_str _ _ s)
      · rw [sizes_nest]
        by_cases h0 : numel t.shape = 0
        · simp [infer_nest_zero _ _ h0, numel_cutShape_of_zero _ h0, Tensor.back, h0, Cls.dtype]
        · have hc : ∀ e ∈ t.data, e.cls = t.dtype.cls := fun e he => okFor_cls narrow _ e (hall e he)
          simp [infer_nest t.dtype.cls _ _ h0 hl hc, cutShape_of_ne_zero _ h0, h0,
            store_nest narrow t.dtype _ _ hl hall, Tensor.back]
    unfold valToTensor
    rw [hof]
    by_cases h0 : numel t.shape = 0
    · simp [view, Tensor.back, h0, numel_cutShape_of_zero _ h0, hn]
    · simp [view, Tensor.back, h0, hn]

theorem normParams_fst (narrow : Fl → Fl) :
    ∀ (spec : List (String × List Nat)) (ps : List (String × Tensor)), spec.length = ps.length →
      (normParams narrow spec ps).map Prod.fst = spec.map Prod.fst
  | [], [], _ => rfl
  | [], _ :: _, h => by simp at h
  | _ :: _, [], h => by simp at h
  | e :: spec, p :: ps, h => by
    have := normParams_fst narrow spec ps (by simpa using h)
    simp only [normParams] at this ⊢
    simp [this]

theorem tensorsJ_fst (ps : List (String × Tensor)) : (tensorsJ ps).map Prod.fst = ps.map Prod.fst := by
  simp [tensorsJ, List.map_map, Function.comp_def]

/-- **`load_parameters` on what `to_dict` wrote**: parameters with the DAG's names (in order) and numbers of elements,
    followed by extra entries (`mixing_matrix`) that are not parameters and pass the non-parameter check. -/
theorem loadParamsObj_written (narrow : Fl → Fl) (spec : List (String × List Nat)) (others : List (String × Other))
    (ps : List (String × Tensor)) (mx : List (String × JVal))
    (hnd : (spec.map Prod.fst).Nodup)
    (hload : paramsLoadable narrow spec ps = true)
    (hmx : ∀ q ∈ mx, q.1 ∉ spec.map Prod.fst ∧ checkOther narrow others q = .ok ()) :
    loadParamsObj narrow spec others (tensorsJ ps ++ mx) = .ok (normParams narrow spec ps) := by
  simp only [paramsLoadable, Bool.and_eq_true, beq_iff_eq, List.all_eq_true] at hload
  obtain ⟨hnames, hall⟩ := hload
  have hlen : spec.length = ps.length := by
    have := congrArg List.length hnames
    simpa using this.symm
  have hndJ : ((tensorsJ ps).map Prod.fst).Nodup := by rw [tensorsJ_fst, hnames]; exact hnd
  -- extra_vars
  have h1 : ((tensorsJ ps ++ mx).any fun p => (spec.lookup p.1).isNone && (others.lookup p.1).isNone) = false := by
    rw [List.any_eq_false]
    intro p hp
    rcases List.mem_append.mp hp with hp | hp
    · have : p.1 ∈ spec.map Prod.fst := by
        rw [← hnames, ← tensorsJ_fst]; exact List.mem_map_of_mem (f := Prod.fst) hp
      have := lookup_isSome_of_mem spec p.1 this
      cases hs : spec.lookup p.1 <;> simp_all
    · have hc := (hmx p hp).2
      unfold checkOther at hc
      cases ho : others.lookup p.1 <;> simp_all
  -- the converted parameters
  have hlk : ∀ p ∈ ps, (tensorsJ ps ++ mx).lookup p.1 = some (toJson p.2) := by
    intro p hp
    have := lookup_append_of_mem (tensorsJ ps) mx hndJ (p.1, toJson p.2)
      (by simp only [tensorsJ]; exact List.mem_map_of_mem (f := fun p => (p.1, toJson p.2)) hp)
    simpa using this
  have h2 := filterMap_lookup_zip (tensorsJ ps ++ mx) spec ps hnames hlk
  have h3 := mapM_zipWith_norm narrow spec ps (fun ep hep => hall ep hep)
  -- population means
  have h4 : (popNames.any fun n => (spec.lookup (n ++ "_mean")).isSome
      && ((normParams narrow spec ps).lookup (n ++ "_mean")).isNone) = false := by
    rw [List.any_eq_false]
    intro n _
    cases hs : spec.lookup (n ++ "_mean") with
    | none => simp
    | some v =>
      have hm : (n ++ "_mean") ∈ spec.map Prod.fst := by
        false_or_by_contra
        rename_i hcon
        have := lookup_isNone_of_not_mem spec _ hcon
        simp [hs] at this
      have := lookup_isSome_of_mem (normParams narrow spec ps) (n ++ "_mean")
        (by rw [normParams_fst narrow spec ps hlen]; exact hm)
      cases hq : (normParams narrow spec ps).lookup (n ++ "_mean") <;> simp_all
  -- the other entries
  have h5 : (tensorsJ ps ++ mx).filter (fun p => (spec.lookup p.1).isNone) = mx := by
    rw [List.filter_append]
    have ha : (tensorsJ ps).filter (fun p => (spec.lookup p.1).isNone) = [] := by
      rw [List.filter_eq_nil_iff]
      intro p hp
      have : p.1 ∈ spec.map Prod.fst := by
        rw [← hnames, ← tensorsJ_fst]; exact List.mem_map_of_mem (f := Prod.fst) hp
      have := lookup_isSome_of_mem spec p.1 this
      cases hs : spec.lookup p.1 <;> simp_all
    have hb : mx.filter (fun p => (spec.lookup p.1).isNone) = mx := by
      rw [List.filter_eq_self]
      intro p hp
      exact lookup_isNone_of_not_mem spec p.1 (hmx p hp).1
    rw [ha, hb, List.nil_append]
  have h6 := mapM_ok_of_forall (checkOther narrow others) (fun _ => ()) mx (fun q hq => (hmx q hq).2)
  unfold loadParamsObj
  rw [h1]
  simp only [Bool.false_eq_true, ↓reduceIte, h2, h3, h4, h5, h6]

/-! ### `model_factory` on the hyperparameters written by `to_dict` -/

theorem lower_features : "features".toLower = "features" := by decide +kernel
theorem lower_dimension : "dimension".toLower = "dimension" := by decide +kernel
theorem lower_obs : "obs_models".toLower = "obs_models" := by decide +kernel
theorem lower_fit : "fit_metrics".toLower = "fit_metrics" := by decide +kernel
theorem lower_src : "source_dimension".toLower = "source_dimension" := by decide +kernel
theorem lower_nb : "nb_events".toLower = "nb_events" := by decide +kernel
theorem lower_ncl : "n_clusters".toLower = "n_clusters" := by decide +kernel

theorem mapM_strOf (fs : List String) : List.mapM (strOf ∘ JVal.str) fs = some fs := by
  induction fs with
  | nil => rfl
  | cons a l ih => simp [List.mapM_cons, strOf, ih]

theorem obsOfString_toName (n : Noise) : obsOfString n.toName = .noise n := by
  cases n <;> decide +kernel

theorem gaussianFor_written (d : Nat) (noise : Noise) (hd : 1 ≤ d) (hnz : ¬(noise = .diagonal ∧ d = 1)) :
    gaussianFor (.int d) noise = .ok noise := by
  cases noise
  · simp [gaussianFor]
  · have h1 : ¬ ((d : Int) < 1) := by omega
    have h2 : d ≠ 1 := fun h => hnz ⟨rfl, h⟩
    have h3 : ¬ ((d : Int) = 1) := by omega
    simp [gaussianFor, h1, h3]
  · simp [gaussianFor]

theorem srcOf_written (d s : Nat) (hd : 1 ≤ d) (hs : s ≤ d - 1) :
    srcOf (some d) (some (.int s)) = .ok (some s) := by
  unfold srcOf
  by_cases h1 : d = 1
  · subst h1; simp; omega
  · have : ¬ (some d = some 1) := by simpa using h1
    simp only [this, ↓reduceIte]
    have h2 : ¬ ((s : Int) < 0) := by omega
    have h3 : ¬ ((s : Int) > (d : Int) - 1) := by omega
    simp [h2, h3]

theorem construct_fileFields (X : Ext) (o : Obj) (fs : List String) (s : Nat)
    (hf : o.features = some fs) (hfs : fs ≠ []) (hs : s ≤ fs.length - 1)
    (hnz : ¬(o.noise = .diagonal ∧ fs.length = 1))
    (hj : o.kind = .joint → 1 ≤ o.nbEvents ∧ ¬((fs.length = 1 ∨ s = 0) ∧ o.noise ≠ .scalar))
    (hnj : o.kind ≠ .joint → o.nbEvents = 1)
    (hm : o.kind = .mixture → 2 ≤ o.nClusters)
    (hnm : o.kind ≠ .mixture → o.nClusters = 0) :
    construct o.kind (hyperOf (fileFields X o fs.length s))
      = .ok ⟨o.kind.toName, some fs, some fs.length, some s, o.noise, o.fitMetrics, o.nbEvents, o.nClusters,
             fs.length, s⟩ := by
  have hd : 1 ≤ fs.length := by
    cases fs with
    | nil => exact absurd rfl hfs
    | cons a l => simp
  have hd' : ¬ ((fs.length : Int) < 1) := by omega
  cases hk : o.kind
  case logistic =>
    have h1 := hnj (by simp [hk]); have h2 := hnm (by simp [hk])
    simp [fileFields, hk, hf, featuresJ, hyperOf, reservedKeys, lower_features, lower_dimension, lower_obs, lower_fit, lower_src]
    simp [construct, getLast, outsideKeys, List.lookup, dimOf, featOf, mapM_strOf, obsOf, factoryJ, factoryStr,
      obsOfString_toName, gaussianFor_written _ _ hd hnz, optInt, srcOf_written _ _ hd hs, Kind.toName, hd', h1, h2]
  case linear =>
    have h1 := hnj (by simp [hk]); have h2 := hnm (by simp [hk])
    simp [fileFields, hk, hf, featuresJ, hyperOf, reservedKeys, lower_features, lower_dimension, lower_obs, lower_fit, lower_src]
    simp [construct, getLast, outsideKeys, List.lookup, dimOf, featOf, mapM_strOf, obsOf, factoryJ, factoryStr,
      obsOfString_toName, gaussianFor_written _ _ hd hnz, optInt, srcOf_written _ _ hd hs, Kind.toName, hd', h1, h2]
  case sharedSpeed =>
    have h1 := hnj (by simp [hk]); have h2 := hnm (by simp [hk])
    simp [fileFields, hk, hf, featuresJ, hyperOf, reservedKeys, lower_features, lower_dimension, lower_obs, lower_fit, lower_src]
    simp [construct, getLast, outsideKeys, List.lookup, dimOf, featOf, mapM_strOf, obsOf, factoryJ, factoryStr,
      obsOfString_toName, gaussianFor_written _ _ hd hnz, optInt, srcOf_written _ _ hd hs, Kind.toName, hd', h1, h2]
  case joint =>
    have h1 := hj hk; have h2 := hnm (by simp [hk])
    simp [fileFields, hk, hf, featuresJ, hyperOf, reservedKeys, lower_features, lower_dimension, lower_obs, lower_fit, lower_src, lower_nb]
    simp [construct, getLast, outsideKeys, List.lookup, dimOf, featOf, mapM_strOf, obsOf, factoryJ, factoryStr,
      obsOfString_toName, gaussianFor_written _ _ hd hnz, optInt, srcOf_written _ _ hd hs, Kind.toName, hd', h2]
    have h3 : ¬ ((o.nbEvents : Int) < 1) := by omega
    have h4 : ¬((fs.length = 1 ∨ s = 0) ∧ ¬o.noise = Noise.scalar) := h1.2
    simp [h3, h4]
  case mixture =>
    have h1 := hnj (by simp [hk]); have h2 := hm hk
    simp [fileFields, hk, hf, featuresJ, hyperOf, reservedKeys, lower_features, lower_dimension, lower_obs, lower_fit, lower_src, lower_ncl]
    simp [construct, getLast, outsideKeys, List.lookup, dimOf, featOf, mapM_strOf, obsOfMixture, factoryJ, factoryStr,
      obsOfString_toName, gaussianFor_written _ _ hd hnz, optInt, Kind.toName, hd', h1, srcOfMixture, mixtureKeys]
    have h3 : ¬ ((s : Int) < 0) := by omega
    have h4 : ¬ ((fs.length : Int) - 1 < (s : Int)) := by omega
    have h5 : ¬ ((o.nClusters : Int) < 2) := by omega
    simp [h3, h4, h5]

theorem paramSpec_nodup (k : Kind) (d s : Nat) (nz : Noise) (K E : Nat) :
    ((paramSpec k d s nz K E).map Prod.fst).Nodup := by
  cases k <;> cases nz <;> by_cases hs : s = 0 <;> simp [paramSpec, hs]

theorem mixing_not_param (k : Kind) (d s : Nat) (nz : Noise) (K E : Nat) :
    "mixing_matrix" ∉ (paramSpec k d s nz K E).map Prod.fst := by
  cases k <;> cases nz <;> by_cases hs : s = 0 <;> simp [paramSpec, hs]

theorem kindOfName_toName (k : Kind) : kindOfName k.toName = some (some k) := by
  cases k <;> decide +kernel

theorem fileFields_name (X : Ext) (o : Obj) (d s : Nat) : (fileFields X o d s).lookup "name" = some (.str o.name) := by
  simp [fileFields, List.lookup]

theorem fileFields_version (X : Ext) (o : Obj) (d s : Nat) :
    (fileFields X o d s).lookup "leaspy_version" = some (.str X.version) := by
  simp [fileFields, List.lookup]

theorem fileFields_parameters (X : Ext) (o : Obj) (d s : Nat) :
    (fileFields X o d s).lookup "parameters"
      = some (.obj (tensorsJ o.params ++ (if s ≥ 1 then [("mixing_matrix", toJson (X.mixing o.kind d s o.pop))] else []))) := by
  simp [fileFields, List.lookup]

set_option linter.unusedSimpArgs false

theorem hyperOf_append_unreserved (kvs : List (String × JVal)) (k : String) (v : JVal)
    (hr : k ∉ reservedKeys) :
    hyperOf (kvs ++ [(k, v)]) = hyperOf kvs ++ [(k.toLower, v)] := by
  simp [hyperOf, List.filter_append, hr]

/-- `construct_fileFields` with one more top-level key whose lower-cased form is no keyword the constructors read -/
theorem construct_fileFields_extra (X : Ext) (o : Obj) (fs : List String) (s : Nat) (kl : String) (v : JVal)
    (hf : o.features = some fs) (hfs : fs ≠ []) (hs : s ≤ fs.length - 1)
    (hnz : ¬(o.noise = .diagonal ∧ fs.length = 1))
    (hj : o.kind = .joint → 1 ≤ o.nbEvents ∧ ¬((fs.length = 1 ∨ s = 0) ∧ o.noise ≠ .scalar))
    (hnj : o.kind ≠ .joint → o.nbEvents = 1)
    (hm : o.kind = .mixture → 2 ≤ o.nClusters)
    (hnm : o.kind ≠ .mixture → o.nClusters = 0)
    (hk : kl ∉ mixtureKeys ++ outsideKeys ++ ["nb_events"]) :
    construct o.kind (hyperOf (fileFields X o fs.length s) ++ [(kl, v)])
      = if o.kind = .mixture then .err .modelInput else
        .ok ⟨o.kind.toName, some fs, some fs.length, some s, o.noise, o.fitMetrics, o.nbEvents, o.nClusters,
             fs.length, s⟩ := by
  have hd : 1 ≤ fs.length := by
    cases fs with
    | nil => exact absurd rfl hfs
    | cons a l => simp
  have hd' : ¬ ((fs.length : Int) < 1) := by omega
  simp only [mixtureKeys, outsideKeys, List.cons_append, List.nil_append, List.mem_cons, List.not_mem_nil, or_false,
    not_or] at hk
  obtain ⟨k1, k2, k3, k4, k5, k6, k7, k8, k9, k10, k11⟩ := hk
  have e1 : ("instance_name" == kl) = false := by simpa using Ne.symm k1
  have e2 : ("features" == kl) = false := by simpa using Ne.symm k2
  have e3 : ("dimension" == kl) = false := by simpa using Ne.symm k3
  have e4 : ("source_dimension" == kl) = false := by simpa using Ne.symm k4
  have e5 : ("n_clusters" == kl) = false := by simpa using Ne.symm k5
  have e6 : ("obs_models" == kl) = false := by simpa using Ne.symm k6
  have e7 : ("fit_metrics" == kl) = false := by simpa using Ne.symm k7
  have e11 : ("nb_events" == kl) = false := by simpa using Ne.symm k11
  cases hkd : o.kind
  case logistic =>
    have h1 := hnj (by simp [hkd]); have h2 := hnm (by simp [hkd])
    simp [fileFields, hkd, hf, featuresJ, hyperOf, reservedKeys, lower_features, lower_dimension, lower_obs, lower_fit, lower_src, lower_nb, lower_ncl]
    simp [construct, getLast, outsideKeys, List.lookup, dimOf, featOf, mapM_strOf, obsOf, obsOfMixture, factoryJ, factoryStr,
      obsOfString_toName, gaussianFor_written _ _ hd hnz, optInt, srcOf_written _ _ hd hs, Kind.toName, hd', h1, h2,
      e1, e2, e3, e4, e5, e6, e7, e11, k8, k9, k10, srcOfMixture, mixtureKeys]
  case linear =>
    have h1 := hnj (by simp [hkd]); have h2 := hnm (by simp [hkd])
    simp [fileFields, hkd, hf, featuresJ, hyperOf, reservedKeys, lower_features, lower_dimension, lower_obs, lower_fit, lower_src, lower_nb, lower_ncl]
    simp [construct, getLast, outsideKeys, List.lookup, dimOf, featOf, mapM_strOf, obsOf, obsOfMixture, factoryJ, factoryStr,
      obsOfString_toName, gaussianFor_written _ _ hd hnz, optInt, srcOf_written _ _ hd hs, Kind.toName, hd', h1, h2,
      e1, e2, e3, e4, e5, e6, e7, e11, k8, k9, k10, srcOfMixture, mixtureKeys]
  case sharedSpeed =>
    have h1 := hnj (by simp [hkd]); have h2 := hnm (by simp [hkd])
    simp [fileFields, hkd, hf, featuresJ, hyperOf, reservedKeys, lower_features, lower_dimension, lower_obs, lower_fit, lower_src, lower_nb, lower_ncl]
    simp [construct, getLast, outsideKeys, List.lookup, dimOf, featOf, mapM_strOf, obsOf, obsOfMixture, factoryJ, factoryStr,
      obsOfString_toName, gaussianFor_written _ _ hd hnz, optInt, srcOf_written _ _ hd hs, Kind.toName, hd', h1, h2,
      e1, e2, e3, e4, e5, e6, e7, e11, k8, k9, k10, srcOfMixture, mixtureKeys]
  case joint =>
    have h1 := hj hkd; have h2 := hnm (by simp [hkd])
    simp [fileFields, hkd, hf, featuresJ, hyperOf, reservedKeys, lower_features, lower_dimension, lower_obs, lower_fit, lower_src, lower_nb, lower_ncl]
    simp [construct, getLast, outsideKeys, List.lookup, dimOf, featOf, mapM_strOf, obsOf, obsOfMixture, factoryJ, factoryStr,
      obsOfString_toName, gaussianFor_written _ _ hd hnz, optInt, srcOf_written _ _ hd hs, Kind.toName, hd', h2,
      e1, e2, e3, e4, e5, e6, e7, e11, k8, k9, k10, srcOfMixture, mixtureKeys]
    have h3 : ¬ ((o.nbEvents : Int) < 1) := by omega
    have h4 : ¬((fs.length = 1 ∨ s = 0) ∧ ¬o.noise = Noise.scalar) := h1.2
    simp [h3, h4]
  case mixture =>
    have h1 := hnj (by simp [hkd]); have h2 := hm hkd
    simp [fileFields, hkd, hf, featuresJ, hyperOf, reservedKeys, lower_features, lower_dimension, lower_obs, lower_fit, lower_src, lower_nb, lower_ncl]
    simp [construct, getLast, outsideKeys, List.lookup, dimOf, featOf, mapM_strOf, obsOf, obsOfMixture, factoryJ, factoryStr,
      obsOfString_toName, gaussianFor_written _ _ hd hnz, optInt, srcOf_written _ _ hd hs, Kind.toName, hd', h1,
      e1, e2, e3, e4, e5, e6, e7, e11, k8, k9, k10, srcOfMixture, mixtureKeys]
    have h3 : ¬ ((s : Int) < 0) := by omega
    have h4 : ¬ ((fs.length : Int) - 1 < (s : Int)) := by omega
    have h5 : ¬ ((o.nClusters : Int) < 2) := by omega
    simp [h3, h4, h5]
    exact ⟨k1, k2, k3, k4, k5, k6, k7⟩

end LeaspyVerif.Codec
