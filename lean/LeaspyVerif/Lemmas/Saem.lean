/-
Helper lemmas for `Props/C05.lean` (model: `Model/Saem.lean`).  Not counted as property theorems.
-/
import LeaspyVerif.Model.Saem
import Mathlib.Algebra.Order.Field.Basic
import Mathlib.Tactic.Ring
import Mathlib.Tactic.Linarith
import Mathlib.Tactic.FieldSimp
import Mathlib.Data.List.Induction

namespace LeaspyVerif.Saem

/-! ### scalar run: the statistic kept after a prefix -/

section Scalar
variable {α : Type} [Field α]

/-- the statistic kept after consuming `xs` starting at iteration `k` with `prev` kept before -/
def finalStat (e : Nat → α) (nb : Nat) : Nat → α → List α → α
  | _, prev, [] => prev
  | k, prev, s :: ss => finalStat e nb (k + 1) (stepStats e nb k prev s) ss

theorem finalStat_snoc (e : Nat → α) (nb : Nat) (xs : List α) (s : α) :
    ∀ (k : Nat) (prev : α), finalStat e nb k prev (xs ++ [s])
      = stepStats e nb (k + xs.length) (finalStat e nb k prev xs) s := by
  induction xs with
  | nil => intro k prev; simp [finalStat]
  | cons x xs ih =>
    intro k prev
    simp only [List.cons_append, finalStat, List.length_cons]
    rw [ih]
    congr 1; omega

theorem runFrom_getElem? (e : Nat → α) (nb : Nat) (ss : List α) :
    ∀ (k : Nat) (prev : α) (i : Nat), i < ss.length →
      (runFrom e nb k prev ss)[i]? = some (finalStat e nb k prev (ss.take (i + 1)), isBurnIn (k + i) nb) := by
  induction ss with
  | nil => intro k prev i h; simp at h
  | cons s ss ih =>
    intro k prev i h
    cases i with
    | zero => simp [runFrom, finalStat]
    | succ i =>
      have h' : i < ss.length := by simpa using h
      simp only [runFrom, List.getElem?_cons_succ, List.take_succ_cons, finalStat]
      rw [ih (k + 1) _ i h']
      congr 3; omega

theorem run_getElem? (e : Nat → α) (nb : Nat) (ss : List α) (p : α) (i : Nat) (h : i < ss.length) :
    (run e nb ss)[i]? = some (finalStat e nb 1 p (ss.take (i + 1)), isBurnIn (i + 1) nb) := by
  cases ss with
  | nil => simp at h
  | cons s ss =>
    have := runFrom_getElem? e nb (s :: ss) 1 s i h
    simp only [run, this, Nat.add_comm 1 i]
    -- the initial `prev` is irrelevant: iteration 1 is memory-less
    simp [List.take_succ_cons, finalStat, stepStats, memoryless, isBurnIn]
    by_cases h1 : 1 ≤ nb
    · simp [h1]
    · have : nb = 0 := by omega
      simp [this]

/-! ### weights -/

theorem decay_self (c : Nat → α) (nb : Nat) (w : α) (k : Nat) : decay c nb w k k = w := by
  simp [decay]

theorem decay_succ (c : Nat → α) (nb : Nat) (w : α) (j k : Nat) (h : j ≤ k) :
    decay c nb w j (k + 1) = decay c nb w j k * c (k + 1 - nb) := by
  unfold decay
  have : k + 1 - j = (k - j) + 1 := by omega
  rw [this, List.range'_concat]
  simp only [List.foldl_append, List.foldl_cons, List.foldl_nil]
  congr 3; omega

theorem decay_zero (c : Nat → α) (nb : Nat) (j k : Nat) : decay c nb 0 j k = 0 := by
  unfold decay
  generalize List.range' (j + 1) (k - j) = l
  induction l with
  | nil => rfl
  | cons a l ih => simpa using ih

/-- the weights of iteration `k+1` from those of iteration `k` (`k` at or after the reset iteration) -/
theorem weight_succ (e c : Nat → α) (nb k j : Nat) (hk : nb + 1 ≤ k) (hj : j ≤ k) :
    weight e c nb (k + 1) j = weight e c nb k j * c (k + 1 - nb) := by
  unfold weight
  have h1 : ¬ (k + 1 ≤ nb + 1) := by omega
  have h2 : ¬ (k + 1 < j) := by omega
  have h2' : ¬ (k < j) := by omega
  by_cases hjn : j ≤ nb
  · simp only [h1, if_false, hjn, true_or, if_true]
    by_cases hk1 : k ≤ nb + 1
    · have : ¬ (j = k) := by omega
      simp [hk1, this]
    · simp [hk1]
  · simp only [h1, if_false, hjn, h2, h2', or_self]
    by_cases hk1 : k ≤ nb + 1
    · have hke : k = nb + 1 := by omega
      subst hke
      by_cases hjk : j = nb + 1
      · subst hjk
        simp [decay_succ, decay_self]
      · omega
    · simp only [hk1, if_false]
      by_cases hjk : j = nb + 1
      · simp only [hjk, if_true]
        exact decay_succ c nb 1 (nb + 1) k (by omega)
      · simp only [hjk, if_false]
        exact decay_succ c nb _ j k hj

theorem weight_self (e c : Nat → α) (nb k : Nat) (hk : nb + 2 ≤ k) :
    weight e c nb k k = e (k - nb) := by
  unfold weight
  have h1 : ¬ (k ≤ nb + 1) := by omega
  have h2 : ¬ (k ≤ nb ∨ k < k) := by omega
  have h3 : ¬ (k = nb + 1) := by omega
  have h4 : ¬ (k ≤ nb) := by omega
  simp [h1, h3, h4, decay_self]

theorem weight_memoryless (e c : Nat → α) (nb k j : Nat) (hk : k ≤ nb + 1) :
    weight e c nb k j = if j = k then 1 else 0 := by
  simp [weight, hk]

/-! ### weighted sums -/

theorem weightedSum_append (w : Nat → α) (xs ys : List α) :
    ∀ j, weightedSum w j (xs ++ ys) = weightedSum w j xs + weightedSum w (j + xs.length) ys := by
  induction xs with
  | nil => intro j; simp [weightedSum]
  | cons x xs ih =>
    intro j
    simp only [List.cons_append, weightedSum, ih, List.length_cons]
    rw [show j + 1 + xs.length = j + (xs.length + 1) by omega]
    ring

theorem weightedSum_congr (w w' : Nat → α) (xs : List α) :
    ∀ j, (∀ i, j ≤ i → i < j + xs.length → w i = w' i) → weightedSum w j xs = weightedSum w' j xs := by
  induction xs with
  | nil => intro j _; rfl
  | cons x xs ih =>
    intro j h
    simp only [weightedSum]
    rw [h j (Nat.le_refl _) (by simp), ih (j + 1) (fun i h1 h2 => h i (by omega) (by simp; omega))]

theorem weightedSum_mul (w : Nat → α) (c : α) (xs : List α) :
    ∀ j, weightedSum (fun i => w i * c) j xs = weightedSum w j xs * c := by
  induction xs with
  | nil => intro j; simp [weightedSum]
  | cons x xs ih => intro j; simp only [weightedSum, ih]; ring

theorem weightedSum_zero (w : Nat → α) (xs : List α) :
    ∀ j, (∀ i, j ≤ i → i < j + xs.length → w i = 0) → weightedSum w j xs = 0 := by
  induction xs with
  | nil => intro j _; rfl
  | cons x xs ih =>
    intro j h
    simp only [weightedSum]
    rw [h j (Nat.le_refl _) (by simp), ih (j + 1) (fun i h1 h2 => h i (by omega) (by simp; omega))]
    simp

/-- the kept statistic after a non-empty prefix is the weighted sum of the prefix -/
theorem finalStat_eq_weightedSum (e : Nat → α) (nb : Nat) (p : α) (xs : List α) (hne : xs ≠ []) :
    finalStat e nb 1 p xs = weightedSum (weight e (fun j => 1 - e j) nb xs.length) 1 xs := by
  induction xs using List.reverseRecOn with
  | nil => exact absurd rfl hne
  | append_singleton ys s ih =>
    rw [finalStat_snoc, weightedSum_append]
    simp only [List.length_append, List.length_cons, List.length_nil, weightedSum]
    set n := ys.length with hn
    by_cases hml : 1 + n ≤ nb + 1
    · -- memory-less: everything before has weight 0, the current one weight 1
      have hst : stepStats e nb (1 + n) (finalStat e nb 1 p ys) s = s := by
        unfold stepStats memoryless isBurnIn
        by_cases h1 : 1 + n ≤ nb
        · simp [h1]
        · have : 1 + n = 1 + nb := by omega
          simp [this]
      rw [hst, weightedSum_zero _ ys 1 (fun i h1 h2 => by
        rw [weight_memoryless _ _ _ _ _ (by omega)]; simp; omega)]
      rw [weight_memoryless _ _ _ _ _ (by omega)]
      simp [Nat.add_comm]
    · have hys : ys ≠ [] := by
        intro h; subst h; simp at hn; omega
      have hst : stepStats e nb (1 + n) (finalStat e nb 1 p ys) s
          = finalStat e nb 1 p ys * (1 - e (1 + n - nb)) + e (1 + n - nb) * s := by
        unfold stepStats memoryless isBurnIn
        have h1 : ¬ (1 + n ≤ nb) := by omega
        have h2 : ¬ (n = nb) := by omega
        simp [h1, h2]
      rw [hst, ih hys]
      have hw : weightedSum (weight e (fun j => 1 - e j) nb (n + 1)) 1 ys
          = weightedSum (weight e (fun j => 1 - e j) nb n) 1 ys * (1 - e (1 + n - nb)) := by
        rw [← weightedSum_mul]
        apply weightedSum_congr
        intro i h1 h2
        rw [weight_succ _ _ _ _ _ (by omega) (by omega), Nat.add_comm n 1]
      rw [hw, Nat.add_comm 1 n, weight_self _ _ _ _ (by omega)]
      ring

end Scalar

/-! ### dictionaries -/

section DictLemmas
variable {κ α : Type} [DecidableEq κ]

theorem lookup_of_mem_nodup {β : Type} (k : κ) (v : β) :
    ∀ (d : List (κ × β)), (d.map Prod.fst).Nodup → (k, v) ∈ d → lookup k d = some v := by
  intro d
  induction d with
  | nil => intro _ h; simp at h
  | cons x d ih =>
    intro hnd hm
    obtain ⟨k', v'⟩ := x
    simp only [List.map_cons, List.nodup_cons] at hnd
    simp only [lookup]
    rcases List.mem_cons.mp hm with h | h
    · cases h; simp
    · have : k' ≠ k := by
        intro hk; subst hk
        exact hnd.1 (List.mem_map.mpr ⟨(k', v), h, rfl⟩)
      simp [this, ih hnd.2 h]

end DictLemmas

end LeaspyVerif.Saem
