/-
Helper lemmas for the block layout of the samplers (`Model/Blocks.lean`), used by `Props/C03.lean`.
Arithmetic normal form of the blocks: for every kind the blocks of an (unmasked) sweep are
`p ↦ [p·m, …, p·m + m - 1]` for `p < P`, with `P = numel (stdShape k s)` and
`m = numel (s.drop (lead k s))`, `P · m = numel s`.
-/
import LeaspyVerif.Model.Blocks
import LeaspyVerif.Model.Sampler
import Mathlib.Data.List.Basic
import Mathlib.Data.List.Nodup
import Mathlib.Data.List.Perm.Basic
import Mathlib.Tactic.Ring

namespace LeaspyVerif.Blocks

theorem numel_append (a b : Shape) : numel (a ++ b) = numel a * numel b := by
  induction a with
  | nil => simp [numel]
  | cons d a ih => simp [numel, ih, Nat.mul_assoc]

theorem numel_take_drop (L : Nat) (s : Shape) : numel (s.take L) * numel (s.drop L) = numel s := by
  rw [← numel_append, List.take_append_drop]

/-- consecutive runs of length `m` tile `range (P * m)` -/
theorem range_blocks_flatten (P m : Nat) :
    ((List.range P).map fun p => (List.range m).map (p * m + ·)).flatten = List.range (P * m) := by
  induction P with
  | zero => simp
  | succ P ih =>
    rw [List.range_succ, List.map_append, List.flatten_append, ih]
    simp [Nat.succ_mul, List.range_add]

theorem ndindex_length {s : Shape} {idx : List Nat} (h : idx ∈ ndindex s) : idx.length = s.length := by
  induction s generalizing idx with
  | nil => simp [ndindex] at h; simp [h]
  | cons d ds ih =>
    simp only [ndindex, List.mem_flatMap, List.mem_map] at h
    obtain ⟨i, _, r, hr, rfl⟩ := h
    simp [ih hr]

/-- `ndindex` enumerates the entries in row-major (flat) order -/
theorem ndindex_flat (s : Shape) : (ndindex s).map (flat s) = List.range (numel s) := by
  induction s with
  | nil => simp [ndindex, flat, numel]
  | cons d ds ih =>
    have key : ∀ i, (ndindex ds).map (flat (d :: ds) ∘ (i :: ·))
        = (List.range (numel ds)).map (i * numel ds + ·) := by
      intro i
      rw [← ih, List.map_map]
      rfl
    simp only [ndindex, numel, List.map_flatMap, List.map_map, key]
    rw [List.flatMap_def]
    exact range_blocks_flatten d (numel ds)

theorem ndindex_length_eq (s : Shape) : (ndindex s).length = numel s := by
  have := congrArg List.length (ndindex_flat s)
  simpa using this

theorem flat_append (a b : Shape) (idx rest : List Nat) (h : idx ∈ ndindex a) :
    flat (a ++ b) (idx ++ rest) = flat a idx * numel b + flat b rest := by
  induction a generalizing idx with
  | nil =>
    simp [ndindex] at h
    subst h
    simp [flat]
  | cons d a ih =>
    simp only [ndindex, List.mem_flatMap, List.mem_map] at h
    obtain ⟨i, _, r, hr, rfl⟩ := h
    simp only [List.cons_append, flat, ih r hr, numel_append]
    ring

theorem coords_split (a b : Shape) (idx : List Nat) (h : idx ∈ ndindex a) :
    (ndindex b).map (fun rest => flat (a ++ b) (idx ++ rest))
      = (List.range (numel b)).map (flat a idx * numel b + ·) := by
  rw [← ndindex_flat b, List.map_map]
  apply List.map_congr_left
  intro r _
  simp [flat_append a b idx r h]

theorem drop_take_length (L : Nat) (s : Shape) : s.drop (s.take L).length = s.drop L := by
  rw [List.length_take]
  by_cases h : L ≤ s.length
  · rw [Nat.min_eq_left h]
  · have h' : s.length ≤ L := by omega
    rw [Nat.min_eq_right h', List.drop_length, List.drop_eq_nil_of_le h']

/-- the coordinates of the block of iterator element `idx`, in arithmetic form -/
theorem coords_blkOf (k : Kind) (s : Shape) (mask : Option (List Bool)) (idx : List Nat)
    (h : idx ∈ ndindex (stdShape k s)) :
    (blkOf k s mask idx).coords
      = (List.range (numel (s.drop (lead k s)))).map
          (flat (stdShape k s) idx * numel (s.drop (lead k s)) + ·) := by
  have hlen : idx.length = (s.take (lead k s)).length := ndindex_length h
  have := coords_split (s.take (lead k s)) (s.drop (lead k s)) idx h
  rw [List.take_append_drop] at this
  show (ndindex (s.drop idx.length)).map (fun rest => flat s (idx ++ rest)) = _
  rw [hlen, drop_take_length]
  exact this

theorem zshape_blkOf (k : Kind) (s : Shape) (mask : Option (List Bool)) (idx : List Nat)
    (h : idx ∈ ndindex (stdShape k s)) : (blkOf k s mask idx).zshape = s.drop (lead k s) := by
  have hlen : idx.length = (s.take (lead k s)).length := ndindex_length h
  show s.drop idx.length = _
  rw [hlen, drop_take_length]

/-- the iterator runs over `ndindex (stdShape k s)` unless it is the masked full Gibbs -/
theorem iterIndices_generic (k : Kind) (s : Shape) (mask : Option (List Bool))
    (hm : k = .gibbs → mask = none) : iterIndices k s mask = ndindex (stdShape k s) := by
  cases k <;> cases mask <;> simp_all [iterIndices]

theorem coords_blocks_generic (k : Kind) (s : Shape) (mask : Option (List Bool))
    (hm : k = .gibbs → mask = none) :
    (blocksOf k s mask).map (·.coords)
      = (List.range (numel (stdShape k s))).map fun p =>
          (List.range (numel (s.drop (lead k s)))).map (p * numel (s.drop (lead k s)) + ·) := by
  unfold blocksOf
  rw [iterIndices_generic k s mask hm, List.map_map, ← ndindex_flat (stdShape k s), List.map_map]
  apply List.map_congr_left
  intro idx hidx
  exact coords_blkOf k s mask idx hidx

theorem stdIdx_blocks_generic (k : Kind) (s : Shape) (mask : Option (List Bool))
    (hm : k = .gibbs → mask = none) :
    (blocksOf k s mask).map (·.stdIdx) = List.range (numel (stdShape k s)) := by
  unfold blocksOf
  rw [iterIndices_generic k s mask hm, List.map_map, ← ndindex_flat (stdShape k s)]
  rfl

theorem stdShape_gibbs (s : Shape) : stdShape .gibbs s = s := by simp [stdShape, lead]

/-- masked full Gibbs: one singleton per unmasked coordinate, in increasing order -/
theorem coords_blocks_gibbs_masked (s : Shape) (m : List Bool) :
    (blocksOf .gibbs s (some m)).map (·.coords)
      = ((List.range (numel s)).filter (maskAt m)).map ([·]) := by
  unfold blocksOf iterIndices
  rw [List.map_map, ← ndindex_flat s, List.filter_map, List.map_map]
  apply List.map_congr_left
  intro idx hidx
  have hidx' : idx ∈ ndindex s := (List.mem_filter.mp hidx).1
  have := coords_blkOf .gibbs s (some m) idx (by rw [stdShape_gibbs]; exact hidx')
  simp only [Function.comp]
  rw [this]
  simp [lead, stdShape_gibbs, numel]

theorem stdIdx_blocks_gibbs_masked (s : Shape) (m : List Bool) :
    (blocksOf .gibbs s (some m)).map (·.stdIdx) = (List.range (numel s)).filter (maskAt m) := by
  unfold blocksOf iterIndices
  rw [List.map_map, ← ndindex_flat s, List.filter_map]
  apply List.map_congr_left
  intro idx _
  simp [blkOf, stdShape_gibbs]

theorem filterMap_zip_keep (l : List Nat) (p : Nat → Bool) :
    (l.zip (l.map p)).filterMap (fun ck => if ck.2 then some ck.1 else none) = l.filter p := by
  induction l with
  | nil => simp
  | cons a l ih =>
    by_cases h : p a = true
    · simp [h, ih]
    · have h' : p a = false := by simpa using h
      simp [h', ih]

/-- which coordinates may move at all -/
def unmasked (mask : Option (List Bool)) (i : Nat) : Bool :=
  match mask with
  | none => true
  | some m => maskAt m i

theorem perturbed_blkOf (k : Kind) (s : Shape) (mask : Option (List Bool)) (idx : List Nat) :
    (blkOf k s mask idx).perturbed
      = if shouldMask k mask then (blkOf k s mask idx).coords.filter (unmasked mask)
        else (blkOf k s mask idx).coords := by
  cases hsm : shouldMask k mask
  · simp [Blk.perturbed, blkOf, hsm]
  · cases mask with
    | none => cases k <;> simp [shouldMask] at hsm
    | some m =>
      simp only [Blk.perturbed, blkOf, hsm, if_true, Option.map_some]
      exact filterMap_zip_keep _ (maskAt m)

/-- In iterator order the coordinates that can move, block after block, are exactly the unmasked
    coordinates in increasing order. -/
theorem perturbed_flatten (k : Kind) (s : Shape) (mask : Option (List Bool)) :
    ((blocksOf k s mask).map Blk.perturbed).flatten
      = (List.range (numel s)).filter (unmasked mask) := by
  by_cases hg : k = .gibbs ∧ mask.isSome
  · obtain ⟨rfl, hm⟩ := hg
    obtain ⟨m, rfl⟩ := Option.isSome_iff_exists.mp hm
    have h1 : (blocksOf .gibbs s (some m)).map Blk.perturbed
        = (blocksOf .gibbs s (some m)).map (·.coords) := by
      apply List.map_congr_left
      intro b hb
      simp only [blocksOf, List.mem_map] at hb
      obtain ⟨idx, _, rfl⟩ := hb
      rw [perturbed_blkOf]
      simp [shouldMask]
    rw [h1, coords_blocks_gibbs_masked]
    simp [List.flatten_eq_flatMap, List.flatMap_map]
    rfl
  · have hm : k = .gibbs → mask = none := by
      intro hk
      cases mask with
      | none => rfl
      | some m => exact absurd ⟨hk, rfl⟩ hg
    have hcov := congrArg List.flatten (coords_blocks_generic k s mask hm)
    rw [range_blocks_flatten] at hcov
    unfold stdShape at hcov
    rw [numel_take_drop] at hcov
    by_cases hsm : shouldMask k mask = true
    · have h1 : (blocksOf k s mask).map Blk.perturbed
          = ((blocksOf k s mask).map (·.coords)).map (List.filter (unmasked mask)) := by
        rw [List.map_map]
        apply List.map_congr_left
        intro b hb
        simp only [blocksOf, List.mem_map] at hb
        obtain ⟨idx, _, rfl⟩ := hb
        rw [perturbed_blkOf]
        simp [hsm]
      rw [h1, ← List.filter_flatten, hcov]
    · have h1 : (blocksOf k s mask).map Blk.perturbed = (blocksOf k s mask).map (·.coords) := by
        apply List.map_congr_left
        intro b hb
        simp only [blocksOf, List.mem_map] at hb
        obtain ⟨idx, _, rfl⟩ := hb
        rw [perturbed_blkOf]
        simp [hsm]
      have hu : ∀ i, unmasked mask i = true := by
        intro i
        cases mask with
        | none => rfl
        | some m =>
          cases k with
          | gibbs => exact absurd (hm rfl) (by simp)
          | fastGibbs => simp [shouldMask] at hsm
          | mh => simp [shouldMask] at hsm
      rw [h1, hcov]
      exact (List.filter_eq_self.mpr (fun i _ => hu i)).symm

theorem filterMap_getElem?_range {α} (l : List α) :
    (List.range l.length).filterMap (l[·]?) = l := by
  induction l with
  | nil => simp
  | cons a l ih =>
    rw [List.length_cons, List.range_succ_eq_map, List.filterMap_cons]
    simp only [List.getElem?_cons_zero, List.filterMap_map]
    congr 1

theorem reorder_perm {α} (σ : List Nat) (l : List α) (h : σ.Perm (List.range l.length)) :
    (reorder σ l).Perm l := by
  have h1 : (reorder σ l).Perm ((List.range l.length).filterMap (l[·]?)) := List.Perm.filterMap _ h
  rwa [filterMap_getElem?_range] at h1

/-- two lists of a family whose concatenation has no repetition cannot share an element -/
theorem unique_of_nodup_flatten (L : List (List Nat)) (h : L.flatten.Nodup) (i j j' : Nat)
    (hj : j < L.length) (hj' : j' < L.length) (hi : i ∈ L[j]) (hi' : i ∈ L[j']) : j = j' := by
  have hp := (List.nodup_flatten.mp h).2
  rw [List.pairwise_iff_getElem] at hp
  rcases Nat.lt_trichotomy j j' with hlt | heq | hgt
  · exact absurd hi' (List.disjoint_left.mp (hp j j' hj hj' hlt) hi)
  · exact heq
  · exact absurd hi (List.disjoint_left.mp (hp j' j hj' hj hgt) hi')

/-- The blocks of a sweep as records of `Model/Sampler.lean` (`popSample`): the flat coordinates,
    the scalar `std[idx]`, and the reader of the two nll terms.  Meaningful when the changes are
    not multiplied by a mask (`keep = none`). -/
def toSweep {α β} (bs : List Blk) (std : Nat → α) (dE : Blk → List α → List α → β × β) :
    List (Sampler.Block α β) :=
  bs.map fun b => ⟨b.coords, std b.stdIdx, dE b⟩

end LeaspyVerif.Blocks
