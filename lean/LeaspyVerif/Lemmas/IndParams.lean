/-
Definitions and helper lemmas shared by Props/C16.lean and Props/C17.lean about `Model/IndParams.lean`.
(Helper lemmas only: property theorems are in the Props files.)
-/
import LeaspyVerif.Model.IndParams

namespace LeaspyVerif.IndParams

deriving instance DecidableEq for Except

variable {q : Type}

/-- a python dict: distinct keys -/
def NodupKeys {β : Type} (d : List (Name × β)) : Prop := (d.map (·.1)).Nodup

/-- one individual's dict carries exactly the recorded names with the recorded shapes, and no empty vector -/
def Covers (sh : List (Name × Shape)) (d : List (Name × Val q)) : Prop :=
  NodupKeys d ∧ d.length = sh.length ∧
  ∀ ns ∈ sh, ∃ v, d.lookup ns.1 = some v ∧ shapeOf v = ns.2 ∧ v ≠ .vec []

/-- The invariant of containers built through `add_individual_parameters`. -/
structure Consistent (c : Container q) : Prop where
  ids_nodup : c.ids.Nodup
  keys : c.params.map (·.1) = c.ids
  nonempty : ∀ sh, c.shapes = some sh → c.ids ≠ []
  empty : c.shapes = none → c.ids = []
  shapes_nodup : ∀ sh, c.shapes = some sh → NodupKeys sh
  covers : ∀ sh, c.shapes = some sh → ∀ ip ∈ c.params, Covers sh ip.2

/-- every recorded shape is `(n,)` -/
def AllVec (sh : List (Name × Shape)) : Prop := ∀ ns ∈ sh, ∃ n, ns.2 = [n]

/-- no recorded name contains `_` -/
def NoUnderscore (sh : List (Name × Shape)) : Prop := ∀ ns ∈ sh, '_' ∉ ns.1

instance (sh : List (Name × Shape)) : Decidable (AllVec sh) := by
  unfold AllVec
  exact decidable_of_iff (∀ ns ∈ sh, ns.2.length = 1) (by
    constructor
    · intro h ns hns
      have := h ns hns
      match hx : ns.2, this with
      | [n], _ => exact ⟨n, rfl⟩
    · intro h ns hns
      obtain ⟨n, hn⟩ := h ns hns
      simp [hn])

instance (sh : List (Name × Shape)) : Decidable (NoUnderscore sh) := by
  unfold NoUnderscore; infer_instance

end LeaspyVerif.IndParams
