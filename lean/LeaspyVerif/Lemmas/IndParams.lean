/-
Definitions and helper lemmas shared by Props/C16.lean and Props/C17.lean about `Model/IndParams.lean`.
(Helper lemmas only: property theorems are in the Props files.)
-/
import LeaspyVerif.Model.IndParams
import Std.Data.String.ToNat

namespace LeaspyVerif.IndParams

deriving instance DecidableEq for Except

variable {q : Type}

/-- a python dict: distinct keys -/
def NodupKeys {β : Type} (d : List (Name × β)) : Prop := (d.map (·.1)).Nodup

/-- one individual's dict carries exactly the recorded names with the recorded shapes, and no empty vector -/
def Covers (sh : List (Name × Shape)) (d : List (Name × Val q)) : Prop :=
  NodupKeys d ∧ d.length = sh.length ∧
  ∀ ns ∈ sh, ∃ v, d.lookup ns.1 = some v ∧ shapeOf v = ns.2 ∧ v ≠ .vec []

/-- The invariant of containers built through `add_individual_parameters`. -/
structure Consistent (c : Container q) : Prop where
  ids_nodup : c.ids.Nodup
  keys : c.params.map (·.1) = c.ids
  nonempty : ∀ sh, c.shapes = some sh → c.ids ≠ []
  empty : c.shapes = none → c.ids = []
  shapes_nodup : ∀ sh, c.shapes = some sh → NodupKeys sh
  covers : ∀ sh, c.shapes = some sh → ∀ ip ∈ c.params, Covers sh ip.2

/-- every recorded shape is `(n,)` -/
def AllVec (sh : List (Name × Shape)) : Prop := ∀ ns ∈ sh, ∃ n, ns.2 = [n]

/-- no recorded name contains `_` -/
def NoUnderscore (sh : List (Name × Shape)) : Prop := ∀ ns ∈ sh, '_' ∉ ns.1

instance (sh : List (Name × Shape)) : Decidable (AllVec sh) := by
  unfold AllVec
  exact decidable_of_iff (∀ ns ∈ sh, ns.2.length = 1) (by
    constructor
    · intro h ns hns
      have := h ns hns
      match hx : ns.2, this with
      | [n], _ => exact ⟨n, rfl⟩
    · intro h ns hns
      obtain ⟨n, hn⟩ := h ns hns
      simp [hn])

instance (sh : List (Name × Shape)) : Decidable (NoUnderscore sh) := by
  unfold NoUnderscore; infer_instance


/-! ### helper lemmas for Props/C16.lean -/

theorem mapM_elemNum_none_iff (xs : List (RawElem q)) :
    xs.mapM elemNum = none ↔ RawElem.bad ∈ xs := by
  induction xs with
  | nil => simp
  | cons x xs ih =>
    cases x with
    | num x =>
      cases h : xs.mapM elemNum <;> simp_all [elemNum]
    | bad => simp [elemNum]

theorem checkDict_none_iff (d : List (Name × RawVal q)) :
    checkDict d = none ↔ ∃ kv ∈ d, checkVal kv.2 = none := by
  unfold checkDict
  induction d with
  | nil => simp
  | cons kv d ih =>
    rw [List.mapM_cons]
    cases h1 : checkVal kv.2 with
    | none => simp; exact Or.inl h1
    | some v =>
      cases h2 : d.mapM (fun kv => (checkVal kv.2).map (fun v => (kv.1, v))) with
      | none =>
        obtain ⟨kv', hm, hk⟩ := ih.1 h2
        simp; exact Or.inr ⟨_, _, hm, hk⟩
      | some l =>
        simp
        refine ⟨by simp [h1], ?_⟩
        intro a b hm hb; have := ih.2 ⟨_, hm, hb⟩; simp [h2] at this


theorem lookup_of_mem_nodup {β : Type} : ∀ (d : List (Name × β)) (k : Name) (v : β),
    NodupKeys d → (k, v) ∈ d → d.lookup k = some v
  | [], _, _, _, h => by simp at h
  | (k', v') :: rest, k, v, hn, h => by
    simp only [NodupKeys, List.map_cons, List.nodup_cons] at hn
    rw [List.lookup_cons]
    rcases List.mem_cons.1 h with h1 | h2
    · cases h1; simp
    · have hne : k ≠ k' := by
        intro e
        exact hn.1 (List.mem_map.2 ⟨(k, v), h2, e⟩)
      have : (k == k') = false := by simpa using hne
      rw [this]
      exact lookup_of_mem_nodup rest k v hn.2 h2

theorem mem_of_lookup {β : Type} : ∀ (d : List (Name × β)) (k : Name) (v : β),
    d.lookup k = some v → (k, v) ∈ d
  | [], _, _, h => by simp at h
  | (k', v') :: rest, k, v, h => by
    rw [List.lookup_cons] at h
    by_cases e : k = k'
    · subst e; simp at h; subst h; simp
    · have : (k == k') = false := by simpa using e
      rw [this] at h
      exact List.mem_cons_of_mem _ (mem_of_lookup rest k v h)

theorem lookup_eq_none_of_not_mem {β : Type} : ∀ (d : List (Name × β)) (k : Name),
    k ∉ d.map (·.1) → d.lookup k = none
  | [], _, _ => rfl
  | (k', v') :: rest, k, h => by
    simp only [List.map_cons, List.mem_cons, not_or] at h
    rw [List.lookup_cons]
    have : (k == k') = false := by simpa using h.1
    rw [this]
    exact lookup_eq_none_of_not_mem rest k h.2

theorem lookup_reorder (sh : List (Name × Shape)) (d : List (Name × Val q)) (k : Name) :
    (reorder sh d).lookup k = if k ∈ sh.map (·.1) then d.lookup k else none := by
  induction sh with
  | nil => simp [reorder]
  | cons a rest ih =>
    unfold reorder at ih ⊢
    rw [List.filterMap_cons]
    cases h : d.lookup a.1 with
    | none =>
      simp only [Option.map_none, ih, List.map_cons, List.mem_cons]
      by_cases e : k = a.1
      · subst e; simp [h]
      · simp only [e, false_or]
    | some v =>
      simp only [Option.map_some, List.lookup_cons, ih, List.map_cons, List.mem_cons]
      by_cases e : k = a.1
      · subst e; simp [h]
      · have : (k == a.1) = false := by simpa using e
        simp only [this, e, false_or]

theorem mem_reorder (sh : List (Name × Shape)) (d : List (Name × Val q)) (kv : Name × Val q)
    (h : kv ∈ reorder sh d) : kv ∈ d := by
  unfold reorder at h
  rw [List.mem_filterMap] at h
  obtain ⟨ns, _, h2⟩ := h
  cases h3 : d.lookup ns.1 with
  | none => simp [h3] at h2
  | some v =>
    simp [h3] at h2; subst h2
    exact mem_of_lookup _ _ _ h3

theorem filterMap_eq_self {α : Type} (f : α → Option α) : ∀ (l : List α), (∀ x ∈ l, f x = some x) → l.filterMap f = l
  | [], _ => rfl
  | x :: l, h => by
    rw [List.filterMap_cons, h x (by simp)]
    simp only
    rw [filterMap_eq_self f l (fun y hy => h y (by simp [hy]))]

theorem reorder_of_aligned (sh : List (Name × Shape)) (d : List (Name × Val q)) (hn : NodupKeys sh)
    (ha : d.map (fun kv => (kv.1, shapeOf kv.2)) = sh) : reorder sh d = d := by
  subst ha
  have hnd : NodupKeys d := by
    simpa [NodupKeys, List.map_map, Function.comp_def] using hn
  unfold reorder
  rw [List.filterMap_map]
  have : ∀ kv ∈ d, ((fun ns : Name × Shape => (d.lookup ns.1).map (fun v => (ns.1, v))) ∘
      (fun kv : Name × Val q => (kv.1, shapeOf kv.2))) kv = some kv := by
    intro kv hkv
    simp [lookup_of_mem_nodup d kv.1 kv.2 hnd hkv]
  exact filterMap_eq_self _ _ this


theorem add_str_dict (c : Container q) (s : String) (d : List (Name × RawVal q)) :
    add c (.str s) (.dict d) =
      if c.ids.contains s then .error .input else
      match checkDict d with
      | none => .error .input
      | some vals =>
        match c.shapes with
        | none => .ok { ids := c.ids ++ [s], params := c.params ++ [(s, vals)],
                        shapes := some (vals.map (fun kv => (kv.1, shapeOf kv.2))) }
        | some sh =>
          if dictEq sh (vals.map (fun kv => (kv.1, shapeOf kv.2))) then
            .ok { c with ids := c.ids ++ [s], params := c.params ++ [(s, vals)] }
          else .error .input := by
  rfl

theorem checkDict_nil : checkDict ([] : List (Name × RawVal q)) = some [] := rfl

theorem checkDict_cons (kv : Name × RawVal q) (d : List (Name × RawVal q)) :
    checkDict (kv :: d) =
      match checkVal kv.2, checkDict d with
      | some v, some vs => some ((kv.1, v) :: vs)
      | _, _ => none := by
  unfold checkDict
  rw [List.mapM_cons]
  cases checkVal kv.2 <;> cases d.mapM (fun kv => (checkVal kv.2).map (fun v => (kv.1, v))) <;> rfl

theorem checkVal_ne_nil (r : RawVal q) (v : Val q) (h : checkVal r = some v) : v ≠ .vec [] := by
  cases r with
  | num x => simp [checkVal] at h; subst h; simp
  | bad => simp [checkVal] at h
  | list xs =>
    cases xs with
    | nil => simp [checkVal] at h
    | cons x xs =>
      simp only [checkVal, List.isEmpty_cons, Bool.false_eq_true, if_false, List.mapM_cons] at h
      cases h1 : elemNum x <;> cases h2 : xs.mapM elemNum <;> simp [h1, h2] at h
      subst h; simp

theorem checkDict_some : ∀ (d : List (Name × RawVal q)) (vals : List (Name × Val q)),
    checkDict d = some vals → vals.map (·.1) = d.map (·.1) ∧ ∀ kv ∈ vals, kv.2 ≠ .vec []
  | [], vals, h => by simp [checkDict_nil] at h; subst h; simp
  | kv :: d, vals, h => by
    rw [checkDict_cons] at h
    cases h1 : checkVal kv.2 with
    | none => simp [h1] at h
    | some v =>
      cases h2 : checkDict d with
      | none => simp [h1, h2] at h
      | some vs =>
        simp [h1, h2] at h; subst h
        obtain ⟨ih1, ih2⟩ := checkDict_some d vs h2
        refine ⟨by simp [ih1], ?_⟩
        intro kv' hkv'
        rcases List.mem_cons.1 hkv' with e | e
        · subst e; exact checkVal_ne_nil _ _ h1
        · exact ih2 _ e

theorem lookup_map_snd {β γ : Type} (f : β → γ) (k : Name) : ∀ (d : List (Name × β)),
    (d.map (fun kv => (kv.1, f kv.2))).lookup k = (d.lookup k).map f
  | [] => rfl
  | (k', v) :: d => by
    simp only [List.map_cons, List.lookup_cons]
    cases k == k'
    · exact lookup_map_snd f k d
    · rfl

theorem dictEq_self (sh : List (Name × Shape)) (hn : NodupKeys sh) : dictEq sh sh = true := by
  unfold dictEq
  simp only [beq_self_eq_true, Bool.true_and, List.all_eq_true]
  intro kv hkv
  simp [lookup_of_mem_nodup sh kv.1 kv.2 hn hkv]

theorem dictEq_true {sh psh : List (Name × Shape)} (h : dictEq sh psh = true) :
    sh.length = psh.length ∧ ∀ ns ∈ sh, psh.lookup ns.1 = some ns.2 := by
  unfold dictEq at h
  simp only [Bool.and_eq_true, beq_iff_eq, List.all_eq_true] at h
  exact h

theorem nodupKeys_map_snd {β γ : Type} (f : Name × β → γ) (d : List (Name × β)) :
    NodupKeys (d.map (fun kv => (kv.1, f kv))) ↔ NodupKeys d := by
  simp [NodupKeys, List.map_map, Function.comp_def]

/-- a freshly checked dict covers its own shapes -/
theorem covers_own (vals : List (Name × Val q)) (hn : NodupKeys vals) (hne : ∀ kv ∈ vals, kv.2 ≠ .vec []) :
    Covers (vals.map (fun kv => (kv.1, shapeOf kv.2))) vals := by
  refine ⟨hn, by simp, ?_⟩
  intro ns hns
  obtain ⟨kv, hkv, rfl⟩ := List.mem_map.1 hns
  exact ⟨kv.2, lookup_of_mem_nodup _ _ _ hn hkv, rfl, hne kv hkv⟩

theorem covers_of_dictEq (sh : List (Name × Shape)) (vals : List (Name × Val q)) (hn : NodupKeys vals)
    (hne : ∀ kv ∈ vals, kv.2 ≠ .vec [])
    (he : dictEq sh (vals.map (fun kv => (kv.1, shapeOf kv.2))) = true) : Covers sh vals := by
  obtain ⟨hl, hall⟩ := dictEq_true he
  refine ⟨hn, by simpa using hl.symm, ?_⟩
  intro ns hns
  have := hall ns hns
  rw [lookup_map_snd (fun v => shapeOf v)] at this
  cases hv : vals.lookup ns.1 with
  | none => simp [hv] at this
  | some v =>
    simp [hv] at this
    exact ⟨v, rfl, this, hne _ (mem_of_lookup _ _ _ hv)⟩

theorem add_consistent (c c' : Container q) (i : RawId) (d : List (Name × RawVal q))
    (hc : Consistent c) (hd : NodupKeys d) (h : add c i (.dict d) = .ok c') : Consistent c' := by
  cases i with
  | nonStr => simp [add] at h
  | str s =>
    rw [add_str_dict] at h
    by_cases hs : s ∈ c.ids
    · simp [hs] at h
    · rw [if_neg (by simpa using hs)] at h
      cases hcd : checkDict d with
      | none => simp [hcd] at h
      | some vals =>
        obtain ⟨hk, hne⟩ := checkDict_some d vals hcd
        have hnv : NodupKeys vals := by unfold NodupKeys; rw [hk]; exact hd
        have hidn : (c.ids ++ [s]).Nodup := by
          rw [List.nodup_append]
          refine ⟨hc.ids_nodup, by simp, ?_⟩
          intro a ha b hb
          simp at hb; subst hb
          intro e; subst e; exact hs ha
        cases hsh : c.shapes with
        | none =>
          simp only [hcd, hsh] at h
          cases h
          have hid : c.ids = [] := hc.empty hsh
          have hp : c.params = [] := by
            have := hc.keys; rw [hid] at this; simpa using this
          constructor
          · exact hidn
          · simp [hc.keys]
          · intro sh _; simp
          · intro h; simp at h
          · intro sh h; simp at h; subst h
            exact (nodupKeys_map_snd (fun kv => shapeOf kv.2) vals).2 hnv
          · intro sh h ip hip
            simp at h; subst h
            simp [hp] at hip; subst hip
            exact covers_own vals hnv hne
        | some sh =>
          simp only [hcd, hsh] at h
          by_cases he : dictEq sh (vals.map (fun kv => (kv.1, shapeOf kv.2))) = true
          · rw [if_pos he] at h
            cases h
            constructor
            · exact hidn
            · simp [hc.keys]
            · intro sh _; simp
            · intro h; simp at h
            · intro sh' h; simp at h; subst h; exact hc.shapes_nodup sh hsh
            · intro sh' h ip hip
              simp only [List.mem_append, List.mem_singleton] at hip
              rcases hip with hip | hip
              · simp at h; subst h; exact hc.covers sh hsh ip hip
              · subst hip
                simp at h; subst h
                exact covers_of_dictEq sh vals hnv hne he
          · rw [if_neg he] at h; cases h

/-! #### table form -/

theorem mapM_except_ok {α β ε : Type} (f : α → Except ε β) (g : α → β) : ∀ (l : List α),
    (∀ x ∈ l, f x = .ok (g x)) → l.mapM f = .ok (l.map g)
  | [], _ => rfl
  | x :: l, h => by
    rw [List.mapM_cons, h x (by simp), mapM_except_ok f g l (fun y hy => h y (by simp [hy]))]
    rfl

/-- the numbers of parameter `n` in the dict `d` -/
def valAt (d : List (Name × Val q)) (n : Name) : List q :=
  match d.lookup n with
  | some v => flat v
  | none => []

theorem cells_shapeOf (v : Val q) (h : v ≠ .vec []) : cells (shapeOf v) v = .ok (flat v) := by
  cases v with
  | scalar x => rfl
  | vec xs => rfl

theorem rowOf_covers (sh : List (Name × Shape)) (d : List (Name × Val q)) (h : Covers sh d) :
    rowOf sh d = .ok (sh.flatMap (fun ns => valAt d ns.1)) := by
  unfold rowOf
  rw [mapM_except_ok _ (fun ns => valAt d ns.1)]
  · simp [Except.map, List.flatMap]
  · intro ns hns
    obtain ⟨v, h1, h2, h3⟩ := h.2.2 ns hns
    simp only [lookupE, h1, valAt]
    rw [← h2]
    exact cells_shapeOf v h3

theorem lookupId_of_mem {β : Type} : ∀ (l : List (String × β)) (k : String) (v : β),
    (l.map (·.1)).Nodup → (k, v) ∈ l → l.lookup k = some v
  | [], _, _, _, h => by simp at h
  | (k', v') :: rest, k, v, hn, h => by
    simp only [List.map_cons, List.nodup_cons] at hn
    rw [List.lookup_cons]
    rcases List.mem_cons.1 h with h1 | h2
    · cases h1; simp
    · have hne : k ≠ k' := by
        intro e
        exact hn.1 (List.mem_map.2 ⟨(k, v), h2, e⟩)
      have : (k == k') = false := by simpa using hne
      rw [this]
      exact lookupId_of_mem rest k v hn.2 h2

theorem toTable_consistent (c : Container q) (sh : List (Name × Shape)) (hc : Consistent c)
    (hs : c.shapes = some sh) :
    toTable c = .ok { cols := sh.flatMap (fun ns => colNames ns.1 ns.2),
                      rows := c.params.map (fun ip => (RawId.str ip.1, sh.flatMap (fun ns => valAt ip.2 ns.1))) } := by
  unfold toTable
  rw [hs]
  simp only
  have hnd : (c.params.map (·.1)).Nodup := by rw [hc.keys]; exact hc.ids_nodup
  rw [← hc.keys, List.mapM_map]
  rw [mapM_except_ok _ (fun ip => (RawId.str ip.1, sh.flatMap (fun ns => valAt ip.2 ns.1)))]
  · rfl
  · intro ip hip
    simp only [Function.comp, lookupId, lookupId_of_mem c.params ip.1 ip.2 hnd hip]
    simp only [bind, Except.bind]
    rw [rowOf_covers sh ip.2 (hc.covers sh hs ip hip)]
    rfl


theorem mapM_option_some {α β : Type} (f : α → Option β) (g : α → β) : ∀ (l : List α),
    (∀ x ∈ l, f x = some (g x)) → l.mapM f = some (l.map g)
  | [], _ => rfl
  | x :: l, h => by
    rw [List.mapM_cons, h x (by simp), mapM_option_some f g l (fun y hy => h y (by simp [hy]))]
    rfl

theorem filterMap_eq_map {α β : Type} (f : α → Option β) (g : α → β) : ∀ (l : List α),
    (∀ x ∈ l, f x = some (g x)) → l.filterMap f = l.map g
  | [], _ => rfl
  | x :: l, h => by
    rw [List.filterMap_cons, h x (by simp)]
    simp only [List.map_cons]
    rw [filterMap_eq_map f g l (fun y hy => h y (by simp [hy]))]

theorem covers_allVec {sh : List (Name × Shape)} {d : List (Name × Val q)} (hc : Covers sh d)
    (hv : AllVec sh) {ns : Name × Shape} (hns : ns ∈ sh) :
    ∃ xs, d.lookup ns.1 = some (.vec xs) ∧ ns.2 = [xs.length] ∧ xs ≠ [] := by
  obtain ⟨v, h1, h2, h3⟩ := hc.2.2 ns hns
  obtain ⟨n, hn⟩ := hv ns hns
  cases v with
  | scalar x => simp [shapeOf, hn] at h2
  | vec xs =>
    refine ⟨xs, h1, h2.symm, ?_⟩
    intro e; subst e; exact h3 rfl

theorem valAt_covers {sh : List (Name × Shape)} {d : List (Name × Val q)} (hc : Covers sh d)
    (hv : AllVec sh) {ns : Name × Shape} (hns : ns ∈ sh) :
    d.lookup ns.1 = some (.vec (valAt d ns.1)) ∧ ns.2 = [(valAt d ns.1).length] ∧ valAt d ns.1 ≠ [] := by
  obtain ⟨xs, h1, h2, h3⟩ := covers_allVec hc hv hns
  have : valAt d ns.1 = xs := by simp [valAt, h1, flat]
  rw [this]; exact ⟨h1, h2, h3⟩

theorem reorder_covers {sh : List (Name × Shape)} {d : List (Name × Val q)} (hc : Covers sh d)
    (hv : AllVec sh) : reorder sh d = sh.map (fun ns => (ns.1, .vec (valAt d ns.1))) := by
  unfold reorder
  apply filterMap_eq_map
  intro ns hns
  rw [(valAt_covers hc hv hns).1]; rfl

theorem add_aligned (c : Container q) (s : String) (d : List (Name × RawVal q))
    (vals : List (Name × Val q)) (sh : List (Name × Shape))
    (hn : NodupKeys sh) (hsh : c.shapes = none ∨ c.shapes = some sh) (hs : s ∉ c.ids)
    (hd : checkDict d = some vals) (hv : vals.map (fun kv => (kv.1, shapeOf kv.2)) = sh) :
    add c (.str s) (.dict d) =
      .ok { ids := c.ids ++ [s], params := c.params ++ [(s, vals)], shapes := some sh } := by
  rw [add_str_dict, if_neg (by simpa using hs), hd]
  rcases hsh with h | h
  · simp only [h, hv]
  · simp only [h, hv, dictEq_self sh hn, if_true]

theorem mapM_elemNum_num : ∀ (xs : List q), (xs.map RawElem.num).mapM elemNum = some xs
  | [] => rfl
  | x :: xs => by
    rw [List.map_cons, List.mapM_cons, mapM_elemNum_num xs]; rfl

theorem checkVal_nums (xs : List q) (h : xs ≠ []) :
    checkVal (.list (xs.map RawElem.num)) = some (.vec xs) := by
  cases xs with
  | nil => exact absurd rfl h
  | cons x xs =>
    simp only [checkVal, List.map_cons, List.isEmpty_cons, Bool.false_eq_true, if_false]
    rw [← List.map_cons (f := RawElem.num), mapM_elemNum_num]; rfl

theorem checkDict_nums (sh : List (Name × Shape)) (f : Name → List q) (h : ∀ ns ∈ sh, f ns.1 ≠ []) :
    checkDict (sh.map (fun ns => (ns.1, RawVal.list ((f ns.1).map RawElem.num)))) =
      some (sh.map (fun ns => (ns.1, Val.vec (f ns.1)))) := by
  unfold checkDict
  rw [List.mapM_map]
  apply mapM_option_some
  intro ns hns
  simp only [Function.comp, checkVal_nums _ (h ns hns)]; rfl

theorem shapes_vecDict (sh : List (Name × Shape)) (f : Name → List q)
    (h : ∀ ns ∈ sh, ns.2 = [(f ns.1).length]) :
    (sh.map (fun ns => (ns.1, Val.vec (f ns.1)))).map (fun kv => (kv.1, shapeOf kv.2)) = sh := by
  rw [List.map_map]
  have : ∀ ns ∈ sh, ((fun kv : Name × Val q => (kv.1, shapeOf kv.2)) ∘ (fun ns : Name × Shape => (ns.1, Val.vec (f ns.1)))) ns = id ns := by
    intro ns hns
    simp only [Function.comp, shapeOf, id, ← h ns hns]
  rw [List.map_congr_left this]; simp

/-- one accepted row: a dict of numeric lists whose lengths are the recorded shapes -/
theorem add_vecDict (c : Container q) (s : String) (sh : List (Name × Shape)) (f : Name → List q)
    (hn : NodupKeys sh) (hsh : c.shapes = none ∨ c.shapes = some sh) (hs : s ∉ c.ids)
    (hf : ∀ ns ∈ sh, ns.2 = [(f ns.1).length] ∧ f ns.1 ≠ []) :
    add c (.str s) (.dict (sh.map (fun ns => (ns.1, RawVal.list ((f ns.1).map RawElem.num))))) =
      .ok { ids := c.ids ++ [s], params := c.params ++ [(s, sh.map (fun ns => (ns.1, Val.vec (f ns.1))))],
            shapes := some sh } :=
  add_aligned c s _ _ sh hn hsh hs (checkDict_nums sh f (fun ns hns => (hf ns hns).2))
    (shapes_vecDict sh f (fun ns hns => (hf ns hns).1))

theorem splitHeads_map {α : Type} (l : List α) (k : α → Name) (hd : α → RawVal q) (tl : α → List (RawVal q)) :
    splitHeads (l.map (fun a => (k a, hd a :: tl a))) =
      some (l.map (fun a => (k a, hd a)), l.map (fun a => (k a, tl a))) := by
  unfold splitHeads
  rw [List.mapM_map, mapM_option_some _ (fun a => ((k a, hd a), (k a, tl a)))]
  · simp [List.unzip_eq_map, List.map_map, Function.comp_def]
  · intro a _; rfl

theorem fromTorchRows_ok (sh : List (Name × Shape)) (hn : NodupKeys sh) :
    ∀ (P : List (String × (Name → List q))) (c : Container q),
      (c.shapes = some sh ∨ (c.shapes = none ∧ P ≠ [])) →
      (∀ ip ∈ P, ip.1 ∉ c.ids) → (P.map (·.1)).Nodup →
      (∀ ip ∈ P, ∀ ns ∈ sh, ns.2 = [(ip.2 ns.1).length] ∧ ip.2 ns.1 ≠ []) →
      fromTorchRows c (P.map (fun ip => RawId.str ip.1))
          (sh.map (fun ns => (ns.1, P.map (fun ip => RawVal.list ((ip.2 ns.1).map RawElem.num))))) =
        .ok { ids := c.ids ++ P.map (·.1),
              params := c.params ++ P.map (fun ip => (ip.1, sh.map (fun ns => (ns.1, Val.vec (ip.2 ns.1))))),
              shapes := some sh }
  | [], c, hsh, _, _, _ => by
    rcases hsh with h | h
    · obtain ⟨ids, params, shapes⟩ := c
      simp at h; subst h
      simp [fromTorchRows]
    · exact absurd rfl h.2
  | ip :: P, c, hsh, hid, hnd, hf => by
    simp only [List.map_cons, fromTorchRows]
    rw [splitHeads_map sh (fun ns => ns.1) (fun ns => RawVal.list ((ip.2 ns.1).map RawElem.num))
      (fun ns => P.map (fun ip => RawVal.list ((ip.2 ns.1).map RawElem.num)))]
    simp only
    rw [add_vecDict c ip.1 sh ip.2 hn (by rcases hsh with h | h; exact Or.inr h; exact Or.inl h.1)
      (hid ip (by simp)) (hf ip (by simp))]
    simp only
    simp only [List.map_cons, List.nodup_cons] at hnd
    rw [fromTorchRows_ok sh hn P _ (Or.inl rfl) ?_ hnd.2 (fun ip' h' => hf ip' (by simp [h']))]
    · simp [List.append_assoc]
    · intro ip' h' hmem
      simp only [List.mem_append, List.mem_singleton] at hmem
      rcases hmem with hmem | hmem
      · exact hid ip' (by simp [h']) hmem
      · exact hnd.1 (List.mem_map.2 ⟨ip', h', hmem⟩)

theorem toTorch_consistent (rnd : q → q) (c : Container q) (sh : List (Name × Shape)) (hc : Consistent c)
    (hs : c.shapes = some sh) :
    toTorch rnd c = .ok (c.ids, sh.map (fun ns =>
      (ns.1, Tensor.d2 (c.params.map (fun ip => (valAt ip.2 ns.1).map rnd))))) := by
  unfold toTorch
  rw [hs]
  simp only
  have hnd : (c.params.map (·.1)).Nodup := by rw [hc.keys]; exact hc.ids_nodup
  rw [mapM_except_ok _ (fun ns => (ns.1, Tensor.d2 (c.params.map (fun ip => (valAt ip.2 ns.1).map rnd))))]
  · rfl
  · intro ns hns
    rw [← hc.keys, List.mapM_map]
    rw [mapM_except_ok _ (fun ip => (valAt ip.2 ns.1).map rnd)]
    · rfl
    · intro ip hip
      simp only [Function.comp, lookupId, lookupId_of_mem c.params ip.1 ip.2 hnd hip]
      simp only [bind, Except.bind]
      obtain ⟨v, h1, h2, h3⟩ := (hc.covers sh hs ip hip).2.2 ns hns
      simp only [lookupE, h1, valAt]
      rw [← h2, cells_shapeOf v h3]
      rfl

theorem torch_roundtrip (rnd : q → q) (c : Container q) (sh : List (Name × Shape))
    (hc : Consistent c) (hs : c.shapes = some sh) (hv : AllVec sh) :
    (toTorch rnd c >>= fun it => fromTorch (it.1.map RawId.str) it.2) = .ok (mapVals rnd (normalize sh c)) := by
  rw [toTorch_consistent rnd c sh hc hs]
  show fromTorch _ _ = _
  unfold fromTorch
  have hlen : c.params.length = c.ids.length := by rw [← hc.keys]; simp
  rw [if_neg (by simp [tensorLen, hlen])]
  have hnd : (c.params.map (·.1)).Nodup := by rw [hc.keys]; exact hc.ids_nodup
  have hne : c.params ≠ [] := by
    intro e; apply hc.nonempty sh hs; rw [← hc.keys, e]; rfl
  have := fromTorchRows_ok sh (hc.shapes_nodup sh hs)
    (c.params.map (fun ip => (ip.1, fun n => (valAt ip.2 n).map rnd))) empty
    (Or.inr ⟨rfl, by simpa using hne⟩) (by simp [empty])
    (by simpa [List.map_map, Function.comp_def] using hnd)
    (by
      intro ip' hip' ns hns
      obtain ⟨ip, hip, rfl⟩ := List.mem_map.1 hip'
      obtain ⟨_, h2, h3⟩ := valAt_covers (hc.covers sh hs ip hip) hv hns
      simp only [List.length_map]
      exact ⟨h2, by simpa using h3⟩)
  simp only [List.map_map, Function.comp_def, tensorRows] at this ⊢
  rw [← hc.keys, List.map_map]
  simp only [Function.comp_def]
  rw [this]
  obtain ⟨ids, params, shapes⟩ := c
  simp only at hs hc ⊢
  subst hs
  simp only [empty, mapVals, normalize, List.nil_append, List.map_map, Function.comp_def, Except.ok.injEq,
    Container.mk.injEq, and_true]
  refine ⟨hc.keys, ?_⟩
  apply List.map_congr_left
  intro ip hip
  rw [reorder_covers (hc.covers sh rfl ip hip) hv]
  simp [List.map_map, Function.comp_def, mapVal]

theorem mapVals_normalize_eq (rnd : q → q) (c : Container q) (sh : List (Name × Shape))
    (hr : ∀ ip ∈ c.params, ∀ kv ∈ ip.2, mapVal rnd kv.2 = kv.2) :
    mapVals rnd (normalize sh c) = normalize sh c := by
  obtain ⟨ids, params, shapes⟩ := c
  simp only [mapVals, normalize, List.map_map, Function.comp_def, Container.mk.injEq, true_and, and_true]
  apply List.map_congr_left
  intro ip hip
  simp only [Prod.mk.injEq, true_and]
  have : ∀ kv ∈ reorder sh ip.2, (fun kv : Name × Val q => (kv.1, mapVal rnd kv.2)) kv = id kv := by
    intro kv hkv
    simp [hr ip hip kv (mem_reorder sh ip.2 kv hkv)]
  rw [List.map_congr_left this]; simp


/-! #### column labels -/

theorem prefixOf_self : ∀ (n : Name), '_' ∉ n → prefixOf n = n
  | [], _ => rfl
  | a :: n, h => by
    simp only [List.mem_cons, not_or] at h
    have : (a != '_') = true := by simpa using fun e => h.1 e.symm
    simp only [prefixOf, List.takeWhile_cons, this, if_true]
    exact congrArg _ (prefixOf_self n h.2)

theorem prefixOf_append : ∀ (n rest : Name), '_' ∉ n → prefixOf (n ++ '_' :: rest) = n
  | [], rest, _ => by simp [prefixOf]
  | a :: n, rest, h => by
    simp only [List.mem_cons, not_or] at h
    have : (a != '_') = true := by simpa using fun e => h.1 e.symm
    simp only [prefixOf, List.cons_append, List.takeWhile_cons, this, if_true]
    exact congrArg _ (prefixOf_append n rest h.2)

theorem append_us_ne (n rest : Name) : n ++ '_' :: rest ≠ n := by
  intro e
  have := congrArg List.length e
  simp at this

theorem idxStr_injective {i j : Nat} (h : idxStr i = idxStr j) : i = j :=
  Nat.repr_injective (String.toList_inj.1 h)

theorem sizeOf_singleton (k : Nat) : sizeOf [k] = k := by simp [sizeOf]

theorem colNames_length (n : Name) (s : Shape) : (colNames n s).length = sizeOf s := by
  unfold colNames
  split
  · rename_i hc
    simp only [Bool.and_eq_true, beq_iff_eq] at hc
    simp [hc.1]
  · simp

theorem nodup_map_of_inj {α β : Type} (f : α → β) (hf : ∀ i j, f i = f j → i = j) (l : List α)
    (h : l.Nodup) : (l.map f).Nodup := by
  unfold List.Nodup at h ⊢
  rw [List.pairwise_map]
  exact h.imp (fun hne e => hne (hf _ _ e))

theorem flatMap_congr' {α β : Type} {f g : α → List β} : ∀ (l : List α), (∀ x ∈ l, f x = g x) →
    l.flatMap f = l.flatMap g
  | [], _ => rfl
  | x :: l, h => by
    rw [List.flatMap_cons, List.flatMap_cons, h x (by simp), flatMap_congr' l (fun y hy => h y (by simp [hy]))]

theorem colNames_nodup (n : Name) (s : Shape) : (colNames n s).Nodup := by
  unfold colNames
  split
  · simp
  · apply nodup_map_of_inj _ _ _ List.nodup_range
    intro i j e
    have := List.append_cancel_left e
    simp only [List.cons.injEq, true_and] at this
    exact idxStr_injective this

theorem colNames_prefix (n : Name) (s : Shape) (hu : '_' ∉ n) : ∀ l ∈ colNames n s, prefixOf l = n := by
  unfold colNames
  split
  · intro l hl; simp at hl; rw [hl]; exact prefixOf_self n hu
  · intro l hl
    obtain ⟨i, _, rfl⟩ := List.mem_map.1 hl
    exact prefixOf_append n _ hu

/-- what `from_dataframe` remembers for one recorded parameter -/
def specOf (ns : Name × Shape) : ColSpec :=
  if sizeOf ns.2 == 1 && !hasSource ns.1 then .single ns.1 else .many (colNames ns.1 ns.2)

/-! #### `groupCols` -/

theorem dictSet_new {β : Type} (k : Name) (v : β) : ∀ (acc : List (Name × β)),
    k ∉ acc.map (·.1) → dictSet acc k v = acc ++ [(k, v)]
  | [], _ => rfl
  | (k', v') :: acc, h => by
    simp only [List.map_cons, List.mem_cons, not_or] at h
    have : (k' == k) = false := by simpa using fun e => h.1 e.symm
    simp only [dictSet, this, Bool.false_eq_true, if_false, List.cons_append]
    exact congrArg _ (dictSet_new k v acc h.2)

theorem dictSet_last {β : Type} (k : Name) (v v' : β) : ∀ (acc : List (Name × β)),
    k ∉ acc.map (·.1) → dictSet (acc ++ [(k, v)]) k v' = acc ++ [(k, v')]
  | [], _ => by simp [dictSet]
  | (k', v'') :: acc, h => by
    simp only [List.map_cons, List.mem_cons, not_or] at h
    have : (k' == k) = false := by simpa using fun e => h.1 e.symm
    simp only [dictSet, List.cons_append, this, Bool.false_eq_true, if_false]
    exact congrArg _ (dictSet_last k v v' acc h.2)

theorem lookup_last {β : Type} (k : Name) (v : β) : ∀ (acc : List (Name × β)),
    k ∉ acc.map (·.1) → (acc ++ [(k, v)]).lookup k = some v
  | [], _ => by simp
  | (k', v'') :: acc, h => by
    simp only [List.map_cons, List.mem_cons, not_or] at h
    have : (k == k') = false := by simpa using h.1
    simp only [List.cons_append, List.lookup_cons, this]
    exact lookup_last k v acc h.2

theorem groupCols_many_tail (n : Name) (more : List Name) (acc : List (Name × ColSpec))
    (hacc : n ∉ acc.map (·.1)) : ∀ (xs l : List Name), (∀ x ∈ xs, prefixOf x = n ∧ x ≠ n) →
    groupCols (xs ++ more) (acc ++ [(n, .many l)]) = groupCols more (acc ++ [(n, .many (l ++ xs))])
  | [], l, _ => by simp
  | x :: xs, l, h => by
    obtain ⟨h1, h2⟩ := h x (by simp)
    have hne : (n == x) = false := by simpa using fun e => h2 e.symm
    simp only [List.cons_append, groupCols, h1, hne, Bool.false_eq_true, if_false,
      lookup_last n _ acc hacc, dictSet_last n _ _ acc hacc]
    rw [groupCols_many_tail n more acc hacc xs (l ++ [x]) (fun y hy => h y (by simp [hy]))]
    simp

theorem groupCols_colNames (n : Name) (s : Shape) (more : List Name) (acc : List (Name × ColSpec))
    (hu : '_' ∉ n) (hs : 0 < sizeOf s) (hacc : n ∉ acc.map (·.1)) :
    groupCols (colNames n s ++ more) acc = groupCols more (acc ++ [(n, specOf (n, s))]) := by
  unfold colNames specOf
  simp only
  split
  · have : (prefixOf n == n) = true := by simp [prefixOf_self n hu]
    simp only [List.cons_append, List.nil_append, groupCols, this, if_true, dictSet_new n _ acc hacc]
  · obtain ⟨k, hk⟩ : ∃ k, sizeOf s = k + 1 := ⟨sizeOf s - 1, by omega⟩
    unfold colNames
    rw [if_neg (by assumption)]
    rw [hk, List.range_succ_eq_map]
    simp only [List.map_cons, List.cons_append, groupCols]
    have h1 : prefixOf (n ++ '_' :: idxStr 0) = n := prefixOf_append n _ hu
    have hne : (n == n ++ '_' :: idxStr 0) = false := by
      simp
    simp only [h1, hne, Bool.false_eq_true, if_false, lookup_eq_none_of_not_mem acc n hacc]
    rw [groupCols_many_tail n more acc hacc]
    · simp
    · intro x hx
      simp only [List.map_map, List.mem_map] at hx
      obtain ⟨i, _, rfl⟩ := hx
      exact ⟨prefixOf_append n _ hu, append_us_ne n _⟩

theorem groupCols_shapes : ∀ (sh : List (Name × Shape)) (acc : List (Name × ColSpec)),
    NodupKeys sh → NoUnderscore sh → (∀ ns ∈ sh, 0 < sizeOf ns.2) → (∀ ns ∈ sh, ns.1 ∉ acc.map (·.1)) →
    groupCols (sh.flatMap (fun ns => colNames ns.1 ns.2)) acc = .ok (acc ++ sh.map (fun ns => (ns.1, specOf ns)))
  | [], acc, _, _, _, _ => by simp [groupCols]
  | ns :: sh, acc, hn, hu, hs, hacc => by
    simp only [NodupKeys, List.map_cons, List.nodup_cons] at hn
    rw [List.flatMap_cons, groupCols_colNames ns.1 ns.2 _ acc (hu ns (by simp)) (hs ns (by simp)) (hacc ns (by simp))]
    rw [groupCols_shapes sh _ hn.2 (fun x hx => hu x (by simp [hx])) (fun x hx => hs x (by simp [hx]))]
    · simp
    · intro x hx hmem
      simp only [List.map_append, List.map_cons, List.map_nil, List.mem_append, List.mem_singleton] at hmem
      rcases hmem with hmem | hmem
      · exact hacc x (by simp [hx]) hmem
      · exact hn.1 (List.mem_map.2 ⟨x, hx, hmem⟩)

/-! #### label selection on a row -/

theorem zip_flatMap {α β γ : Type} (f : α → List β) (g : α → List γ) : ∀ (l : List α),
    (∀ x ∈ l, (f x).length = (g x).length) →
    (l.flatMap f).zip (l.flatMap g) = l.flatMap (fun x => (f x).zip (g x))
  | [], _ => rfl
  | x :: l, h => by
    simp only [List.flatMap_cons]
    rw [List.zip_append (h x (by simp)), zip_flatMap f g l (fun y hy => h y (by simp [hy]))]

theorem cellsAt_append (r1 r2 : List (Name × q)) (k : Name) :
    cellsAt (r1 ++ r2) k = cellsAt r1 k ++ cellsAt r2 k := by
  simp [cellsAt]

theorem cellsAt_flatMap {α : Type} (h : α → List (Name × q)) (k : Name) : ∀ (l : List α),
    cellsAt (l.flatMap h) k = l.flatMap (fun x => cellsAt (h x) k)
  | [] => rfl
  | x :: l => by
    simp only [List.flatMap_cons, cellsAt_append, cellsAt_flatMap h k l]

theorem cellsAt_zip_not_mem (k : Name) : ∀ (L : List Name) (xs : List q), k ∉ L → cellsAt (L.zip xs) k = []
  | [], _, _ => by simp [cellsAt]
  | _ :: _, [], _ => by simp [cellsAt]
  | a :: L, x :: xs, h => by
    simp only [List.mem_cons, not_or] at h
    have : (a == k) = false := by simpa using fun e => h.1 e.symm
    simp only [cellsAt, List.zip_cons_cons, List.filter_cons, this, Bool.false_eq_true, if_false]
    exact cellsAt_zip_not_mem k L xs h.2

theorem flatMap_single {α β : Type} (key : α → Name) (f : α → List β) (a : α) : ∀ (l : List α),
    (l.map key).Nodup → a ∈ l → (∀ b ∈ l, key b ≠ key a → f b = []) → l.flatMap f = f a
  | [], _, h, _ => by simp at h
  | b :: l, hn, hm, hf => by
    simp only [List.map_cons, List.nodup_cons] at hn
    rw [List.flatMap_cons]
    rcases List.mem_cons.1 hm with e | e
    · subst e
      have : l.flatMap f = [] := by
        rw [List.flatMap_eq_nil_iff]
        intro b hb
        exact hf b (by simp [hb]) (fun e => hn.1 (e ▸ List.mem_map.2 ⟨b, hb, rfl⟩))
      simp [this]
    · have hne : key b ≠ key a := fun e' => hn.1 (e' ▸ List.mem_map.2 ⟨a, e, rfl⟩)
      rw [hf b (by simp) hne, List.nil_append]
      exact flatMap_single key f a l hn.2 e (fun b' hb' => hf b' (by simp [hb']))

theorem flatMap_cellsAt_zip : ∀ (L : List Name) (xs : List q), L.Nodup → L.length = xs.length →
    L.flatMap (cellsAt (L.zip xs)) = xs
  | [], [], _, _ => rfl
  | [], _ :: _, _, h => by simp at h
  | _ :: _, [], _, h => by simp at h
  | a :: L, x :: xs, hn, hl => by
    simp only [List.nodup_cons] at hn
    simp only [List.length_cons, Nat.add_right_cancel_iff] at hl
    rw [List.flatMap_cons, List.zip_cons_cons]
    have h1 : cellsAt ((a, x) :: L.zip xs) a = [x] := by
      have := cellsAt_zip_not_mem a L xs hn.1
      simp only [cellsAt] at this ⊢
      simp [this]
    have h2 : ∀ b ∈ L, cellsAt ((a, x) :: L.zip xs) b = cellsAt (L.zip xs) b := by
      intro b hb
      have : (a == b) = false := by
        simp only [beq_eq_false_iff_ne, ne_eq]
        intro e; subst e; exact hn.1 hb
      simp [cellsAt, this]
    rw [h1, flatMap_congr' L h2, flatMap_cellsAt_zip L xs hn.2 hl]
    rfl

/-- the row of one individual, as `from_dataframe` sees it -/
def rowZip (sh : List (Name × Shape)) (f : Name → List q) : List (Name × q) :=
  sh.flatMap (fun ns => (colNames ns.1 ns.2).zip (f ns.1))

theorem cellsAt_rowZip (sh : List (Name × Shape)) (f : Name → List q) (hn : NodupKeys sh)
    (hu : NoUnderscore sh) (ns : Name × Shape) (hns : ns ∈ sh) (l : Name) (hl : l ∈ colNames ns.1 ns.2) :
    cellsAt (rowZip sh f) l = cellsAt ((colNames ns.1 ns.2).zip (f ns.1)) l := by
  unfold rowZip
  rw [cellsAt_flatMap]
  apply flatMap_single (fun ns : Name × Shape => ns.1) _ ns sh hn hns
  intro b hb hne
  apply cellsAt_zip_not_mem
  intro hmem
  have h1 := colNames_prefix b.1 b.2 (hu b hb) l hmem
  have h2 := colNames_prefix ns.1 ns.2 (hu ns hns) l hl
  exact hne (h1.symm.trans h2)

theorem selectSpec_rowZip (sh : List (Name × Shape)) (f : Name → List q) (hn : NodupKeys sh)
    (hu : NoUnderscore sh) (ns : Name × Shape) (hns : ns ∈ sh)
    (hf : ns.2 = [(f ns.1).length] ∧ f ns.1 ≠ []) :
    selectSpec (rowZip sh f) (specOf ns) = .list ((f ns.1).map RawElem.num) := by
  have hlen : (colNames ns.1 ns.2).length = (f ns.1).length := by
    rw [colNames_length, hf.1, sizeOf_singleton]
  have key : (colNames ns.1 ns.2).flatMap (cellsAt (rowZip sh f)) = f ns.1 := by
    rw [flatMap_congr' _ (fun l hl => cellsAt_rowZip sh f hn hu ns hns l hl)]
    exact flatMap_cellsAt_zip _ _ (colNames_nodup _ _) hlen
  unfold specOf
  split
  · rename_i hc
    have hcn : colNames ns.1 ns.2 = [ns.1] := by unfold colNames; rw [if_pos hc]
    rw [hcn] at key hlen
    simp only [List.flatMap_cons, List.flatMap_nil, List.append_nil] at key
    simp only [selectSpec, key]
    match hx : f ns.1, hlen with
    | [x], _ => rfl
  · simp only [selectSpec, key]

theorem fromTableRows_ok (sh : List (Name × Shape)) (hn : NodupKeys sh) (hu : NoUnderscore sh) :
    ∀ (P : List (String × (Name → List q))) (c : Container q),
      (c.shapes = some sh ∨ (c.shapes = none ∧ P ≠ [])) →
      (∀ ip ∈ P, ip.1 ∉ c.ids) → (P.map (·.1)).Nodup →
      (∀ ip ∈ P, ∀ ns ∈ sh, ns.2 = [(ip.2 ns.1).length] ∧ ip.2 ns.1 ≠ []) →
      fromTableRows (sh.map (fun ns => (ns.1, specOf ns))) (sh.flatMap (fun ns => colNames ns.1 ns.2)) c
          (P.map (fun ip => (RawId.str ip.1, sh.flatMap (fun ns => ip.2 ns.1)))) =
        .ok { ids := c.ids ++ P.map (·.1),
              params := c.params ++ P.map (fun ip => (ip.1, sh.map (fun ns => (ns.1, Val.vec (ip.2 ns.1))))),
              shapes := some sh }
  | [], c, hsh, _, _, _ => by
    rcases hsh with h | h
    · obtain ⟨ids, params, shapes⟩ := c
      simp at h; subst h
      simp [fromTableRows]
    · exact absurd rfl h.2
  | ip :: P, c, hsh, hid, hnd, hf => by
    simp only [List.map_cons, fromTableRows]
    have hrow : (sh.flatMap (fun ns => colNames ns.1 ns.2)).zip (sh.flatMap (fun ns => ip.2 ns.1)) =
        rowZip sh ip.2 := by
      unfold rowZip
      apply zip_flatMap
      intro ns hns
      obtain ⟨h1, _⟩ := hf ip (by simp) ns hns
      rw [colNames_length, h1, sizeOf_singleton]
    rw [hrow, List.map_map]
    have hd : sh.map ((fun ps : Name × ColSpec => (ps.1, selectSpec (rowZip sh ip.2) ps.2)) ∘
          (fun ns : Name × Shape => (ns.1, specOf ns))) =
        sh.map (fun ns => (ns.1, RawVal.list ((ip.2 ns.1).map RawElem.num))) := by
      apply List.map_congr_left
      intro ns hns
      simp only [Function.comp, selectSpec_rowZip sh ip.2 hn hu ns hns (hf ip (by simp) ns hns)]
    rw [hd]
    rw [add_vecDict c ip.1 sh ip.2 hn (by rcases hsh with h | h; exact Or.inr h; exact Or.inl h.1)
      (hid ip (by simp)) (hf ip (by simp))]
    simp only
    simp only [List.map_cons, List.nodup_cons] at hnd
    rw [fromTableRows_ok sh hn hu P _ (Or.inl rfl) ?_ hnd.2 (fun ip' h' => hf ip' (by simp [h']))]
    · simp [List.append_assoc]
    · intro ip' h' hmem
      simp only [List.mem_append, List.mem_singleton] at hmem
      rcases hmem with hmem | hmem
      · exact hid ip' (by simp [h']) hmem
      · exact hnd.1 (List.mem_map.2 ⟨ip', h', hmem⟩)

theorem table_roundtrip (c : Container q) (sh : List (Name × Shape))
    (hc : Consistent c) (hs : c.shapes = some sh) (hv : AllVec sh) (hu : NoUnderscore sh) :
    (toTable c >>= fromTable) = .ok (normalize sh c) := by
  rw [toTable_consistent c sh hc hs]
  show fromTable _ = _
  unfold fromTable
  have hnk := hc.shapes_nodup sh hs
  have hnd : (c.params.map (·.1)).Nodup := by rw [hc.keys]; exact hc.ids_nodup
  have hne : c.params ≠ [] := by
    intro e; apply hc.nonempty sh hs; rw [← hc.keys, e]; rfl
  obtain ⟨ip0, hip0⟩ := List.exists_mem_of_ne_nil _ hne
  have hpos : ∀ ns ∈ sh, 0 < sizeOf ns.2 := by
    intro ns hns
    obtain ⟨_, h2, h3⟩ := valAt_covers (hc.covers sh hs ip0 hip0) hv hns
    rw [h2, sizeOf_singleton]; exact List.length_pos_iff.2 h3
  simp only
  rw [groupCols_shapes sh [] hnk hu hpos (by simp)]
  simp only [List.nil_append]
  have := fromTableRows_ok sh hnk hu
    (c.params.map (fun ip => (ip.1, fun n => valAt ip.2 n))) empty
    (Or.inr ⟨rfl, by simpa using hne⟩) (by simp [empty])
    (by simpa [List.map_map, Function.comp_def] using hnd)
    (by
      intro ip' hip' ns hns
      obtain ⟨ip, hip, rfl⟩ := List.mem_map.1 hip'
      obtain ⟨_, h2, h3⟩ := valAt_covers (hc.covers sh hs ip hip) hv hns
      exact ⟨h2, h3⟩)
  simp only [List.map_map, Function.comp_def] at this
  rw [this]
  obtain ⟨ids, params, shapes⟩ := c
  simp only at hs hc ⊢
  subst hs
  simp only [empty, normalize, List.nil_append, Except.ok.injEq, Container.mk.injEq, and_true]
  refine ⟨hc.keys, ?_⟩
  apply List.map_congr_left
  intro ip hip
  rw [reorder_covers (hc.covers sh rfl ip hip) hv]

end LeaspyVerif.IndParams
