/-
Helper lemmas for C15 (and the well-formedness facts used by C01): correctness of the modified
Kahn algorithm with by-product path matrix of `Model/Dag.lean`.
-/
import LeaspyVerif.Model.Dag
import Mathlib.Data.List.Basic
import Mathlib.Data.List.Nodup
import Mathlib.Data.Fintype.Card
import Mathlib.Data.List.Perm.Subperm
import Mathlib.Order.WellFounded
import Mathlib.Data.Fintype.Fin

namespace LeaspyVerif.Dag

/-- `Edge g a b`: `a` is a direct ancestor (dependency) of the node `b`. -/
def Edge (g : Graph) (a b : Nat) : Prop := b < g.n ∧ a ∈ g.anc b

/-- Transitive closure of `Edge`: `b` transitively depends on `a`. -/
inductive Reach (g : Graph) : Nat → Nat → Prop
  | single {a b} : Edge g a b → Reach g a b
  | tail {a c b} : Reach g a c → Edge g c b → Reach g a b

/-- no reference to an unknown variable -/
def NoUnknown (g : Graph) : Prop := ∀ m < g.n, ∀ a ∈ g.anc m, a < g.n
/-- no self reference -/
def NoSelf (g : Graph) : Prop := ∀ m < g.n, m ∉ g.anc m
/-- no isolated variable -/
def NoIsolated (g : Graph) : Prop := ∀ m < g.n, g.anc m ≠ [] ∨ ∃ c < g.n, m ∈ g.anc c
/-- no dependency cycle -/
def Acyclic (g : Graph) : Prop := ∀ a, ¬ Reach g a a

theorem mem_children {g : Graph} {i m : Nat} : m ∈ g.children i ↔ Edge g i m := by
  simp [Graph.children, Edge]

theorem children_nodup (g : Graph) (i : Nat) : (g.children i).Nodup :=
  List.Nodup.filter _ List.nodup_range

theorem unknownNodes_false {g : Graph} : g.unknownNodes = false ↔ NoUnknown g := by
  simp [Graph.unknownNodes, NoUnknown]

theorem selfLoops_false {g : Graph} : g.selfLoops = false ↔ NoSelf g := by
  simp [Graph.selfLoops, NoSelf]

theorem leftAlone_false {g : Graph} : g.leftAlone = false ↔ NoIsolated g := by
  simp only [Graph.leftAlone, NoIsolated]
  rw [← Bool.not_eq_true, List.any_eq_true]
  constructor
  · intro h m hm
    by_cases ha : g.anc m = []
    · right
      have : ¬ ((g.children m).isEmpty = true) := by
        intro hc; exact h ⟨m, List.mem_range.2 hm, by simp [hc, ha]⟩
      obtain ⟨c, hc⟩ := List.exists_mem_of_ne_nil _ (by simpa using this)
      exact ⟨c, (mem_children.1 hc).1, (mem_children.1 hc).2⟩
    · exact Or.inl ha
  · rintro h ⟨m, hm, hb⟩
    have hm' := List.mem_range.1 hm
    simp only [Bool.and_eq_true, List.isEmpty_iff] at hb
    rcases h m hm' with h1 | ⟨c, hc, hmc⟩
    · exact h1 hb.2
    · have : c ∈ g.children m := mem_children.2 ⟨hc, hmc⟩
      rw [hb.1] at this; simp at this

/-! ### the inner loop -/

theorem fold_relax (i : Nat) : ∀ (L : List Nat) (s : KS), L.Nodup → i ∉ L →
    let t := L.foldl (relax i) s
    t.out = s.out ∧
    (∀ a b, t.P a b = if b ∈ L then (s.P a b || s.P a i || a == i) else s.P a b) ∧
    (∀ x, t.rem x = if x ∈ L then (s.rem x).filter (fun y => y != i) else s.rem x) ∧
    t.queue = s.queue ++ L.filter (fun m => ((s.rem m).filter (fun y => y != i)).isEmpty) := by
  intro L
  induction L with
  | nil => intro s _ _; simp
  | cons m L ih =>
    intro s hnd hi
    have hmL : m ∉ L := (List.nodup_cons.1 hnd).1
    have hndL : L.Nodup := (List.nodup_cons.1 hnd).2
    have him : i ≠ m := fun h => hi (h ▸ List.mem_cons_self)
    have hiL : i ∉ L := fun h => hi (List.mem_cons_of_mem _ h)
    obtain ⟨h1, h2, h3, h4⟩ := ih (relax i s m) hndL hiL
    simp only [List.foldl_cons]
    refine ⟨by rw [h1]; rfl, ?_, ?_, ?_⟩
    · intro a b
      rw [h2]
      by_cases hb : b ∈ L
      · have hbm : b ≠ m := fun h => hmL (h ▸ hb)
        simp [hb, relax, hbm, him]
      · by_cases hbm : b = m
        · subst hbm; simp [hb, relax]
        · simp [hb, hbm, relax]
    · intro x
      rw [h3]
      by_cases hx : x ∈ L
      · have hxm : x ≠ m := fun h => hmL (h ▸ hx)
        simp [hx, relax, hxm]
      · by_cases hxm : x = m
        · subst hxm; simp [hx, relax]
        · simp [hx, hxm, relax]
    · rw [h4]
      have : L.filter (fun m' => (((relax i s m).rem m').filter (fun y => y != i)).isEmpty)
           = L.filter (fun m' => ((s.rem m').filter (fun y => y != i)).isEmpty) := by
        apply List.filter_congr
        intro x hx
        have hxm : x ≠ m := fun h => hmL (h ▸ hx)
        simp [relax, hxm]
      rw [this]
      by_cases hr : ((s.rem m).filter (fun y => y != i)).isEmpty
      · simp [relax, hr]
      · simp [relax, hr]

/-! ### Reach -/

theorem Reach.lt_right {g : Graph} {a b : Nat} (h : Reach g a b) : b < g.n := by
  cases h with
  | single e => exact e.1
  | tail _ e => exact e.1

theorem Reach.lt_left {g : Graph} (hu : NoUnknown g) {a b : Nat} (h : Reach g a b) : a < g.n := by
  induction h with
  | single e => exact hu _ e.1 _ e.2
  | tail _ _ ih => exact ih

theorem Reach.trans {g : Graph} {a b c : Nat} (h1 : Reach g a b) (h2 : Reach g b c) : Reach g a c := by
  induction h2 with
  | single e => exact Reach.tail h1 e
  | tail _ e ih => exact Reach.tail ih e

/-- unfolding at the last edge -/
theorem reach_iff_last {g : Graph} {a b : Nat} :
    Reach g a b ↔ ∃ c, Edge g c b ∧ (a = c ∨ Reach g a c) := by
  constructor
  · intro h
    cases h with
    | single e => exact ⟨a, e, Or.inl rfl⟩
    | tail h e => exact ⟨_, e, Or.inr h⟩
  · rintro ⟨c, e, rfl | h⟩
    · exact Reach.single e
    · exact Reach.tail h e

/-! ### the loop invariant -/

structure Inv (g : Graph) (s : KS) : Prop where
  nodup : (s.out ++ s.queue).Nodup
  lt : ∀ x ∈ s.out ++ s.queue, x < g.n
  rem : ∀ m < g.n, s.rem m = (g.anc m).filter (fun a => !s.out.contains a)
  ready : ∀ m < g.n, (m ∈ s.out ++ s.queue ↔ ∀ a ∈ g.anc m, a ∈ s.out)
  topo : ∀ a b, Edge g a b → b ∈ s.out → a ∈ s.out ∧ s.out.idxOf a < s.out.idxOf b
  path : ∀ a b, s.P a b = true ↔ ∃ c ∈ s.out, Edge g c b ∧ (a = c ∨ Reach g a c)

theorem inv_init (g : Graph) : Inv g (init g) := by
  refine ⟨?_, ?_, ?_, ?_, ?_, ?_⟩
  · simpa [init] using List.Nodup.filter _ List.nodup_range
  · intro x hx
    simp only [init, List.nil_append, List.mem_filter, List.mem_range] at hx
    exact hx.1
  · intro m _; simp [init]
  · intro m hm
    simp only [init, List.nil_append, List.mem_filter, List.mem_range, hm, true_and,
      List.isEmpty_iff, List.not_mem_nil]
    constructor
    · intro h a ha; rw [h] at ha; simp at ha
    · intro h
      cases hh : g.anc m with
      | nil => rfl
      | cons a l => exact absurd (h a (by simp [hh])) (by simp)
  · intro a b _ hb; simp [init] at hb
  · intro a b; simp [init]

theorem inv_processNode {g : Graph} (hs : NoSelf g) {s : KS} {i : Nat} {q : List Nat}
    (hinv : Inv g s) (hq : s.queue = i :: q) :
    Inv g (processNode g { s with queue := q } i) := by
  have hnd := hinv.nodup
  rw [hq] at hnd
  have hi_lt : i < g.n := hinv.lt i (by simp [hq])
  have hi_out : i ∉ s.out := by
    intro h
    exact (List.nodup_append.1 hnd).2.2 i h i (by simp) rfl
  have hi_q : i ∉ q := by
    have := (List.nodup_append.1 hnd).2.1
    exact (List.nodup_cons.1 this).1
  have hanc_i : ∀ a ∈ g.anc i, a ∈ s.out := (hinv.ready i hi_lt).1 (by simp [hq])
  have hi_ch : i ∉ g.children i := fun h => hs i hi_lt (mem_children.1 h).2
  obtain ⟨h1, h2, h3, h4⟩ := fold_relax i (g.children i)
    { s with queue := q, out := s.out ++ [i] } (children_nodup g i) hi_ch
  simp only [] at h1 h2 h3 h4
  -- abbreviations
  set t := processNode g { s with queue := q } i with ht
  have ht' : t = (g.children i).foldl (relax i) { s with queue := q, out := s.out ++ [i] } := rfl
  rw [← ht'] at h1 h2 h3 h4
  -- remaining ancestors after the relaxations
  have hrem : ∀ m < g.n, t.rem m = (g.anc m).filter (fun a => !(s.out ++ [i]).contains a) := by
    intro m hm
    rw [h3, hinv.rem m hm]
    by_cases hc : m ∈ g.children i
    · simp only [hc, if_true, List.filter_filter]
      apply List.filter_congr
      intro a _
      by_cases hai : a = i <;> simp [hai]
    · simp only [hc, if_false]
      apply List.filter_congr
      intro a ha
      have : a ≠ i := fun h => hc (mem_children.2 ⟨hm, h ▸ ha⟩)
      simp [this]
  -- which children get enqueued
  have hnew : ∀ m, m ∈ (g.children i).filter
        (fun m => (((s.rem m).filter (fun y => y != i))).isEmpty) ↔
        (Edge g i m ∧ ∀ a ∈ g.anc m, a ∈ s.out ++ [i]) := by
    intro m
    rw [List.mem_filter, mem_children]
    constructor
    · rintro ⟨he, hemp⟩
      refine ⟨he, ?_⟩
      have := h3 m
      rw [if_pos (mem_children.2 he)] at this
      rw [← this, hrem m he.1] at hemp
      intro a ha
      by_contra hna
      have : a ∈ (g.anc m).filter (fun a => !(s.out ++ [i]).contains a) := by
        rw [List.mem_filter]; exact ⟨ha, by simpa using hna⟩
      rw [List.isEmpty_iff.1 hemp] at this
      exact absurd this (by simp)
    · rintro ⟨he, hall⟩
      refine ⟨he, ?_⟩
      have := h3 m
      rw [if_pos (mem_children.2 he)] at this
      rw [← this, hrem m he.1, List.isEmpty_iff, List.filter_eq_nil_iff]
      intro a ha
      have := hall a ha
      simp only [List.mem_append, List.mem_singleton] at this
      simp only [List.contains_eq_mem, List.mem_append, List.mem_singleton, Bool.not_eq_eq_eq_not,
        Bool.not_true, decide_eq_false_iff_not, not_not]
      simpa using this
  refine ⟨?_, ?_, ?_, ?_, ?_, ?_⟩
  · -- nodup
    rw [h1, h4]
    simp only [List.append_assoc]
    rw [List.nodup_append] at hnd ⊢
    obtain ⟨hnd_out, hnd_iq, hdisj⟩ := hnd
    have hnd_q := (List.nodup_cons.1 hnd_iq).2
    have hnew_notin : ∀ m, m ∈ (g.children i).filter
        (fun m => (((s.rem m).filter (fun y => y != i))).isEmpty) → m ∉ s.out ++ s.queue := by
      intro m hm hmem
      have he := ((hnew m).1 hm).1
      have := (hinv.ready m he.1).1 hmem i he.2
      exact hi_out this
    refine ⟨hnd_out, ?_, ?_⟩
    · rw [List.nodup_append]
      refine ⟨?_, ?_, ?_⟩
      · rw [List.nodup_cons]; exact ⟨by simp, List.nodup_nil⟩
      · rw [List.nodup_append]
        refine ⟨hnd_q, List.Nodup.filter _ (children_nodup g i), ?_⟩
        intro a ha b hb hab
        subst hab
        exact hnew_notin a hb (by simp [hq, ha])
      · intro a ha b hb hab
        simp only [List.mem_singleton] at ha
        subst hab; subst ha
        rcases List.mem_append.1 hb with hb | hb
        · exact hi_q hb
        · exact hnew_notin a hb (by simp [hq])
    · intro a ha b hb hab
      subst hab
      rcases List.mem_append.1 hb with hb | hb
      · simp only [List.mem_singleton] at hb; subst hb; exact hi_out ha
      · rcases List.mem_append.1 hb with hb | hb
        · exact hdisj a ha a (by simp [hb]) rfl
        · exact hnew_notin a hb (by simp [ha])
  · -- lt
    intro x hx
    rw [h1, h4] at hx
    simp only [List.append_assoc, List.mem_append, List.mem_singleton] at hx
    rcases hx with hx | hx | hx | hx
    · exact hinv.lt x (by simp [hx])
    · exact hx ▸ hi_lt
    · exact hinv.lt x (by simp [hq, hx])
    · exact ((hnew x).1 hx).1.1
  · -- rem
    intro m hm; rw [h1]; exact hrem m hm
  · -- ready
    intro m hm
    rw [h1, h4]
    constructor
    · intro hmem
      simp only [List.append_assoc, List.mem_append, List.mem_singleton] at hmem
      intro a ha
      rcases hmem with hmem | hmem | hmem | hmem
      · exact List.mem_append_left _ ((hinv.ready m hm).1 (by simp [hmem]) a ha)
      · subst hmem; exact List.mem_append_left _ (hanc_i a ha)
      · exact List.mem_append_left _ ((hinv.ready m hm).1 (by simp [hq, hmem]) a ha)
      · exact ((hnew m).1 hmem).2 a ha
    · intro hall
      by_cases hold : ∀ a ∈ g.anc m, a ∈ s.out
      · have := (hinv.ready m hm).2 hold
        rw [hq] at this
        simp only [List.mem_append, List.mem_cons] at this
        simp only [List.append_assoc, List.mem_append, List.mem_singleton]
        rcases this with h | h | h
        · exact Or.inl h
        · exact Or.inr (Or.inl h)
        · exact Or.inr (Or.inr (Or.inl h))
      · have : ∃ a ∈ g.anc m, a ∉ s.out := by
          by_contra hne
          exact hold (fun a ha => by_contra fun hna => hne ⟨a, ha, hna⟩)
        obtain ⟨a, ha, hna⟩ := this
        have hai : a = i := by
          have := hall a ha
          simp only [List.mem_append, List.mem_singleton] at this
          rcases this with h | h
          · exact absurd h hna
          · exact h
        subst hai
        simp only [List.append_assoc, List.mem_append]
        exact Or.inr (Or.inr (Or.inr ((hnew m).2 ⟨⟨hm, ha⟩, hall⟩)))
  · -- topo
    intro a b he hb
    rw [h1] at hb ⊢
    rcases List.mem_append.1 hb with hb | hb
    · obtain ⟨ha, hlt⟩ := hinv.topo a b he hb
      refine ⟨List.mem_append_left _ ha, ?_⟩
      rw [List.idxOf_append_of_mem ha, List.idxOf_append_of_mem hb]; exact hlt
    · simp only [List.mem_singleton] at hb; subst hb
      have ha := hanc_i a he.2
      refine ⟨List.mem_append_left _ ha, ?_⟩
      rw [List.idxOf_append_of_mem ha, List.idxOf_append_of_notMem hi_out]
      have := List.idxOf_lt_length_of_mem ha
      simp; omega
  · -- path
    intro a b
    rw [h2, h1]
    have hPi : s.P a i = true ↔ Reach g a i := by
      rw [hinv.path a i, reach_iff_last]
      constructor
      · rintro ⟨c, _, h⟩; exact ⟨c, h⟩
      · rintro ⟨c, he, h⟩; exact ⟨c, hanc_i c he.2, he, h⟩
    by_cases hb : b ∈ g.children i
    · have he := mem_children.1 hb
      simp only [hb, if_true, Bool.or_eq_true, beq_iff_eq, hPi, hinv.path a b]
      constructor
      · rintro ((⟨c, hc, h⟩ | h) | h)
        · exact ⟨c, List.mem_append_left _ hc, h⟩
        · exact ⟨i, by simp, he, Or.inr h⟩
        · exact ⟨i, by simp, he, Or.inl h⟩
      · rintro ⟨c, hc, hce, h⟩
        rcases List.mem_append.1 hc with hc | hc
        · exact Or.inl (Or.inl ⟨c, hc, hce, h⟩)
        · simp only [List.mem_singleton] at hc; subst hc
          rcases h with h | h
          · exact Or.inr h
          · exact Or.inl (Or.inr h)
    · simp only [hb, if_false, hinv.path a b]
      constructor
      · rintro ⟨c, hc, h⟩; exact ⟨c, List.mem_append_left _ hc, h⟩
      · rintro ⟨c, hc, hce, h⟩
        rcases List.mem_append.1 hc with hc | hc
        · exact ⟨c, hc, hce, h⟩
        · simp only [List.mem_singleton] at hc; subst hc
          exact absurd (mem_children.2 hce) hb

/-! ### the whole loop -/

theorem inv_kahn {g : Graph} (hs : NoSelf g) : ∀ (fuel : Nat) (s : KS), Inv g s → Inv g (kahn g fuel s) := by
  intro fuel
  induction fuel with
  | zero => intro s h; exact h
  | succ fuel ih =>
    intro s h
    unfold kahn
    split
    · exact h
    · next i q hq => exact ih _ (inv_processNode hs h hq)

theorem length_le_of_nodup_lt {l : List Nat} {n : Nat} (hnd : l.Nodup) (hlt : ∀ x ∈ l, x < n) :
    l.length ≤ n := by
  have hsub : l ⊆ List.range n := fun x hx => List.mem_range.2 (hlt x hx)
  have := (List.subperm_of_subset hnd hsub).length_le
  simpa using this

theorem processNode_out (g : Graph) (s : KS) (i : Nat) : (processNode g s i).out = s.out ++ [i] := by
  have : ∀ (L : List Nat) (s : KS), (L.foldl (relax i) s).out = s.out := by
    intro L; induction L with
    | nil => intro s; rfl
    | cons m L ih => intro s; rw [List.foldl_cons, ih]; rfl
  unfold processNode; rw [this]

/-- `n + 1` turns of the loop are always enough: the modelled `while` terminates with an empty queue. -/
theorem kahn_queue_empty {g : Graph} (hs : NoSelf g) : ∀ (fuel : Nat) (s : KS), Inv g s →
    g.n + 1 ≤ s.out.length + fuel → (kahn g fuel s).queue = [] := by
  intro fuel
  induction fuel with
  | zero =>
    intro s h hf
    have := length_le_of_nodup_lt (List.nodup_append.1 h.nodup).1
      (fun x hx => h.lt x (List.mem_append_left _ hx))
    omega
  | succ fuel ih =>
    intro s h hf
    unfold kahn
    split
    · next hq => exact hq
    · next i q hq =>
      apply ih _ (inv_processNode hs h hq)
      rw [processNode_out]; simp; omega

/-- Facts about the final state of the loop. -/
structure Final (g : Graph) (s : KS) : Prop extends Inv g s where
  empty : s.queue = []

theorem final_kahnRun {g : Graph} (hs : NoSelf g) : Final g (kahnRun g) :=
  { toInv := inv_kahn hs _ _ (inv_init g)
    empty := kahn_queue_empty hs _ _ (inv_init g) (by simp [init]) }

theorem Inv.reach_topo {g : Graph} {s : KS} (h : Inv g s) {a b : Nat} (hr : Reach g a b)
    (hb : b ∈ s.out) : a ∈ s.out ∧ s.out.idxOf a < s.out.idxOf b := by
  induction hr with
  | single e => exact h.topo _ _ e hb
  | tail _ e ih =>
    obtain ⟨hc, hlt⟩ := h.topo _ _ e hb
    obtain ⟨ha, hlt'⟩ := ih hc
    exact ⟨ha, by omega⟩

theorem Inv.path_reach {g : Graph} {s : KS} (h : Inv g s) {a b : Nat} (hp : s.P a b = true) :
    Reach g a b := by
  obtain ⟨c, _, he, hac⟩ := (h.path a b).1 hp
  exact reach_iff_last.2 ⟨c, he, hac⟩

/-- When every node has been output, the path matrix is exactly the transitive closure. -/
theorem Inv.path_exact {g : Graph} {s : KS} (h : Inv g s) (hu : NoUnknown g)
    (hall : ∀ m < g.n, m ∈ s.out) (a b : Nat) : s.P a b = true ↔ Reach g a b := by
  constructor
  · exact h.path_reach
  · intro hr
    obtain ⟨c, he, hac⟩ := reach_iff_last.1 hr
    exact (h.path a b).2 ⟨c, hall c (hu _ he.1 _ he.2), he, hac⟩

theorem triangular_of_inv {g : Graph} {s : KS} (h : Inv g s) : triangular s.out s.P = true := by
  have hnd : s.out.Nodup := (List.nodup_append.1 h.nodup).1
  unfold triangular
  rw [List.all_eq_true]
  rintro ⟨a, r⟩ har
  rw [List.all_eq_true]
  rintro ⟨b, c⟩ hbc
  simp only [Bool.or_eq_true, Bool.not_eq_true', decide_eq_true_eq]
  by_cases hp : s.P a b = true
  · right
    have hr := h.path_reach hp
    obtain ⟨hr1, hr2⟩ := List.mem_zipIdx' har
    obtain ⟨hc1, hc2⟩ := List.mem_zipIdx' hbc
    have hb : b ∈ s.out := hc2 ▸ List.getElem_mem _
    obtain ⟨_, hlt⟩ := h.reach_topo hr hb
    have e1 : s.out.idxOf a = r := by
      rw [hr2]; exact hnd.idxOf_getElem r hr1
    have e2 : s.out.idxOf b = c := by
      rw [hc2]; exact hnd.idxOf_getElem c hc1
    omega
  · left; simpa using hp

/-- Completeness of the acceptance test: in an acyclic graph the loop outputs every node. -/
theorem Final.all_out_of_acyclic {g : Graph} {s : KS} (h : Final g s) (hu : NoUnknown g)
    (hac : Acyclic g) : ∀ m < g.n, m ∈ s.out := by
  -- the dependency relation on `Fin g.n` is transitive and irreflexive, hence well-founded
  let r : Fin g.n → Fin g.n → Prop := fun x y => Reach g x.1 y.1
  have : IsTrans (Fin g.n) r := ⟨fun _ _ _ h1 h2 => Reach.trans h1 h2⟩
  have : Std.Irrefl r := ⟨fun x hx => hac x.1 hx⟩
  have wf : WellFounded r := Finite.wellFounded_of_trans_of_irrefl r
  by_contra hne
  have hne' : ∃ m, m < g.n ∧ m ∉ s.out := by
    by_contra hh
    exact hne (fun m hm => by_contra fun hm' => hh ⟨m, hm, hm'⟩)
  obtain ⟨m, hm, hmo⟩ := hne'
  let U : Set (Fin g.n) := {x | x.1 ∉ s.out}
  have hU : U.Nonempty := ⟨⟨m, hm⟩, hmo⟩
  obtain ⟨x, hxU, hmin⟩ := wf.has_min U hU
  -- x is not output, so (queue empty) one of its ancestors is not output either
  have hx : ¬ ∀ a ∈ g.anc x.1, a ∈ s.out := by
    intro hall
    have := (h.ready x.1 x.2).2 hall
    rw [h.empty] at this
    exact hxU (by simpa using this)
  have : ∃ a ∈ g.anc x.1, a ∉ s.out := by
    by_contra hh
    exact hx (fun a ha => by_contra fun hna => hh ⟨a, ha, hna⟩)
  obtain ⟨a, ha, hna⟩ := this
  have ha_lt : a < g.n := hu _ x.2 _ ha
  exact hmin ⟨a, ha_lt⟩ hna (Reach.single ⟨x.2, ha⟩)

/-! ### determinism: only the ancestor *sets* matter -/

/-- two Kahn states that differ only in the way remaining-ancestor *sets* are listed -/
structure Sim (s s' : KS) : Prop where
  queue : s.queue = s'.queue
  out : s.out = s'.out
  P : ∀ a b, s.P a b = s'.P a b
  rem : ∀ m a, a ∈ s.rem m ↔ a ∈ s'.rem m

theorem isEmpty_congr {l l' : List Nat} (h : ∀ a, a ∈ l ↔ a ∈ l') : l.isEmpty = l'.isEmpty := by
  cases l with
  | nil =>
    cases l' with
    | nil => rfl
    | cons b l' => exact absurd ((h b).2 (by simp)) (by simp)
  | cons a l =>
    cases l' with
    | nil => exact absurd ((h a).1 (by simp)) (by simp)
    | cons b l' => rfl

theorem contains_congr {l l' : List Nat} (h : ∀ a, a ∈ l ↔ a ∈ l') (x : Nat) :
    l.contains x = l'.contains x := by
  have := h x
  by_cases hx : x ∈ l
  · simp [hx, this.1 hx]
  · have hx' : x ∉ l' := fun h' => hx (this.2 h')
    simp [hx, hx']

theorem sim_relax {s s' : KS} (h : Sim s s') (i m : Nat) : Sim (relax i s m) (relax i s' m) := by
  have hr : ∀ a, a ∈ (s.rem m).filter (fun x => x != i) ↔ a ∈ (s'.rem m).filter (fun x => x != i) := by
    intro a; simp only [List.mem_filter, h.rem m a]
  have he := isEmpty_congr hr
  refine ⟨?_, ?_, ?_, ?_⟩
  · simp only [relax, he, h.queue]
  · simp only [relax, h.out]
  · intro a b; simp only [relax, h.P]
  · intro x a
    simp only [relax]
    by_cases hx : x = m
    · simp only [hx, if_true]; exact hr a
    · simp only [hx, if_false]; exact h.rem x a

theorem sim_foldl {i : Nat} : ∀ (L : List Nat) {s s' : KS}, Sim s s' →
    Sim (L.foldl (relax i) s) (L.foldl (relax i) s') := by
  intro L
  induction L with
  | nil => intro s s' h; exact h
  | cons m L ih => intro s s' h; exact ih (sim_relax h i m)

variable {g g' : Graph}

theorem children_congr (hn : g.n = g'.n) (h : ∀ m a, a ∈ g.anc m ↔ a ∈ g'.anc m) (i : Nat) :
    g.children i = g'.children i := by
  unfold Graph.children
  rw [hn]
  apply List.filter_congr
  intro m _
  exact contains_congr (h m) i

theorem sim_processNode (hn : g.n = g'.n) (h : ∀ m a, a ∈ g.anc m ↔ a ∈ g'.anc m)
    {s s' : KS} (hs : Sim s s') (i : Nat) : Sim (processNode g s i) (processNode g' s' i) := by
  unfold processNode
  rw [children_congr hn h i]
  apply sim_foldl
  exact ⟨hs.queue, by simp [hs.out], hs.P, hs.rem⟩

theorem sim_kahn (hn : g.n = g'.n) (h : ∀ m a, a ∈ g.anc m ↔ a ∈ g'.anc m) :
    ∀ (fuel : Nat) {s s' : KS}, Sim s s' → Sim (kahn g fuel s) (kahn g' fuel s') := by
  intro fuel
  induction fuel with
  | zero => intro s s' hs; exact hs
  | succ fuel ih =>
    intro s s' hs
    unfold kahn
    have hq := hs.queue
    cases hq1 : s.queue with
    | nil =>
      rw [hq1] at hq
      rw [← hq]
      exact hs
    | cons i q =>
      rw [hq1] at hq
      rw [← hq]
      simp only
      apply ih
      apply sim_processNode hn h
      exact ⟨rfl, hs.out, hs.P, hs.rem⟩

theorem sim_init (hn : g.n = g'.n) (h : ∀ m a, a ∈ g.anc m ↔ a ∈ g'.anc m) : Sim (init g) (init g') := by
  refine ⟨?_, rfl, fun _ _ => rfl, h⟩
  unfold init
  simp only
  rw [hn]
  apply List.filter_congr
  intro m _
  exact isEmpty_congr (h m)

theorem sim_kahnRun (hn : g.n = g'.n) (h : ∀ m a, a ∈ g.anc m ↔ a ∈ g'.anc m) :
    Sim (kahnRun g) (kahnRun g') := by
  unfold kahnRun
  rw [hn]
  exact sim_kahn hn h _ (sim_init hn h)

theorem checks_congr (hn : g.n = g'.n) (h : ∀ m a, a ∈ g.anc m ↔ a ∈ g'.anc m) :
    g.unknownNodes = g'.unknownNodes ∧ g.selfLoops = g'.selfLoops ∧ g.leftAlone = g'.leftAlone := by
  refine ⟨?_, ?_, ?_⟩
  · unfold Graph.unknownNodes
    rw [hn]
    congr 1
    funext m
    rw [Bool.eq_iff_iff]
    simp only [List.any_eq_true, decide_eq_true_eq]
    constructor
    · rintro ⟨a, ha, hle⟩; exact ⟨a, (h m a).1 ha, hle⟩
    · rintro ⟨a, ha, hle⟩; exact ⟨a, (h m a).2 ha, hle⟩
  · unfold Graph.selfLoops
    rw [hn]
    congr 1
    funext m
    exact contains_congr (h m) m
  · unfold Graph.leftAlone
    rw [hn]
    congr 1
    funext m
    rw [children_congr hn h m, isEmpty_congr (h m)]


/-- `build` depends on the direct-ancestor *sets* only, not on the way they are listed. -/
theorem build_congr (hn : g.n = g'.n) (h : ∀ m a, a ∈ g.anc m ↔ a ∈ g'.anc m) : build g = build g' := by
  obtain ⟨c1, c2, c3⟩ := checks_congr hn h
  have hs := sim_kahnRun hn h
  have hP : (kahnRun g).P = (kahnRun g').P := funext fun a => funext fun b => hs.P a b
  unfold build
  rw [c1, c2, c3]
  simp only [hs.out, hP, hn]

/-! ### A sub-list of a duplicate-free list is determined by its members -/

theorem filter_mem_of_sublist : ∀ {l L : List Nat}, l.Sublist L → L.Nodup →
    L.filter (fun x => decide (x ∈ l)) = l := by
  intro l L h
  induction h with
  | slnil => intro _; rfl
  | @cons l' L' a hsub ih =>
    intro hnd
    rw [List.nodup_cons] at hnd
    have ha : a ∉ l' := fun hm => hnd.1 (hsub.subset hm)
    rw [List.filter_cons_of_neg (by simpa using ha)]
    exact ih hnd.2
  | @cons_cons l' L' a hsub ih =>
    intro hnd
    rw [List.nodup_cons] at hnd
    rw [List.filter_cons_of_pos (by simp)]
    congr 1
    rw [← ih hnd.2]
    apply List.filter_congr
    intro x hx
    have hxa : x ≠ a := fun e => hnd.1 (e ▸ hx)
    simp [hxa, ih hnd.2]

theorem sublist_ext_of_nodup {l₁ l₂ L : List Nat} (h₁ : l₁.Sublist L) (h₂ : l₂.Sublist L)
    (hnd : L.Nodup) (hm : ∀ x, x ∈ l₁ ↔ x ∈ l₂) : l₁ = l₂ := by
  rw [← filter_mem_of_sublist h₁ hnd, ← filter_mem_of_sublist h₂ hnd]
  apply List.filter_congr
  intro x _
  simp [hm x]

end LeaspyVerif.Dag
