/-
Line-protocol helpers shared by every driver (`lean/drivers/Cxx.lean`).
Import-free (core Lean only).  One request line in, one response line out.

Lexical conventions
  * integers:      `-12`
  * rationals:     `p/q` or `p`            (exact)
  * floats:        `f<bits>` where bits is the decimal UInt64 of the IEEE double
  * lists:         `a,b,c`   (empty list = `_`)
  * lists of lists `a,b;c,d` (`;` outer, `,` inner)
-/
namespace LeaspyVerif.Proto

def splitNE (s : String) (sep : String) : List String :=
  if s == "_" || s == "" then [] else s.splitOn sep

def parseInt (s : String) : Option Int := s.toInt?
def parseNat (s : String) : Option Nat := s.toNat?

def parseRat (s : String) : Option Rat :=
  match s.splitOn "/" with
  | [p] => (fun (n : Int) => (n : Rat)) <$> p.toInt?
  | [p, q] => do
      let n ← p.toInt?
      let d ← q.toNat?
      if d == 0 then none else some (mkRat n d)
  | _ => none

def parseBool (s : String) : Option Bool :=
  if s == "1" then some true else if s == "0" then some false else none

def parseFloat (s : String) : Option Float :=
  if s.startsWith "f" then
    (fun (n : Nat) => Float.ofBits n.toUInt64) <$> (s.drop 1).toString.toNat?
  else none

def parseList {α} (p : String → Option α) (s : String) (sep : String := ",") : Option (List α) :=
  (splitNE s sep).mapM p

def parseList2 {α} (p : String → Option α) (s : String) : Option (List (List α)) :=
  (splitNE s ";").mapM (fun r => parseList p r)

def fmtRat (q : Rat) : String :=
  if q.den == 1 then toString q.num else s!"{q.num}/{q.den}"

def fmtBool (b : Bool) : String := if b then "1" else "0"

def fmtFloat (x : Float) : String := s!"f{x.toBits.toNat}"

def fmtList {α} (f : α → String) (l : List α) (sep : String := ",") : String :=
  if l.isEmpty then "_" else sep.intercalate (l.map f)

def fmtList2 {α} (f : α → String) (l : List (List α)) : String :=
  if l.isEmpty then "_" else ";".intercalate (l.map (fmtList f))

/-- key=value arguments: `k1=v1 k2=v2 …` -/
def kv (args : List String) (k : String) : Option String :=
  args.findSome? fun a =>
    match a.splitOn "=" with
    | key :: rest => if key == k then some ("=".intercalate rest) else none
    | _ => none

/-- exact conversion of a rational to the nearest double is not available in core;
    `ratToFloat` divides two doubles, good enough for envelopes (never used for exact compare). -/
def ratToFloat (q : Rat) : Float :=
  Float.ofInt q.num / Float.ofNat q.den

/-- The generic stdin/stdout loop: `handle` maps a request line to a response line. -/
partial def loop (handle : String → String) : IO Unit := do
  let stdin ← IO.getStdin
  let stdout ← IO.getStdout
  let rec go : IO Unit := do
    let line ← stdin.getLine
    if line.isEmpty then return ()
    let l := line.trimAscii.toString
    if l.isEmpty then
      stdout.putStrLn ""
    else
      stdout.putStrLn (handle l)
    go
  go
  stdout.flush

end LeaspyVerif.Proto
