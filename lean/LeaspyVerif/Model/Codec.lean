/-
Model of the save / load path of leaspy as a *codec* (property C12).  Import-free.

  tensor ↔ nested list   torch `Tensor.tolist()`                         (`toJson`)
                         torch `torch.tensor(obj)` (tensor_new.cpp: compute_sizes, infer_scalar_type,
                         recursive_store) followed by `Tensor.view(shape)`   (`ofJson`, `view`, `valToTensor`)
                         src/leaspy/models/utilities.py     tensor_to_list, val_to_tensor
  file-level dictionary  src/leaspy/models/base.py          BaseModel.to_dict / save / load, __init__,
                                                            _validate_user_provided_dimension_and_features_at_init,
                                                            initialize, _validate_compatibility_of_dataset
                         src/leaspy/models/mcmc_saem_compatible.py   to_dict, __init__
                         src/leaspy/models/time_reparametrized.py    to_dict, __init__, _load_hyperparameters,
                                                            _validate_source_dimension, _validate_compatibility_of_dataset
                         src/leaspy/models/joint.py         to_dict, _load_hyperparameters, _configure_observation_models
                         src/leaspy/models/mixture.py       to_dict, __init__, _load_hyperparameters
                         src/leaspy/models/settings.py      ModelSettings
                         src/leaspy/models/factory.py       ModelName, model_factory
                         src/leaspy/models/obs_models/_factory.py   observation_model_factory
                         src/leaspy/models/obs_models/_gaussian.py  with_noise_std_as_model_parameter, to_string
                         src/leaspy/models/stateful.py      parameters, hyperparameters, load_parameters

What is *not* modelled: the text layer.  `save` is `json.dump(to_dict(), fp, indent=2)`; python writes an `int` in
decimal, a `float` by `float.__repr__` (shortest string that parses back to the same double; `NaN`, `Infinity`,
`-Infinity` for the non-finite ones), keys in insertion order; `json.load` parses a literal with `.`/`e` to the
nearest double and any other number to an `int`.  So the text is an injective function of the tree `JVal` below and
`json.load ∘ json.dump` is the identity on trees; byte equality of two files is equality of their trees.  The harness
checks both facts on every file it sees.  A number is therefore kept exactly: `JVal.int` (python int) or `JVal.flt`
(python float = IEEE double, as an exact rational or one of the four special values).

`narrow : Fl → Fl` is the double → float32 conversion of `torch.tensor(python_float)` (`narrow32` below, complete:
ties to even, sub-normals, overflow to ±inf).  The functions take it as an argument so that the theorems can say
which of its properties they use.

Findings reproduced by the model: F7 (the file stores the instance name and `load` reads it as the kind), F21 (float64
parameters are narrowed by `load`), F23 (`"features": null` cannot be loaded), F25 (0-d parameters come back with one
axis).  F30 (the two `assert`s of `load_parameters` are on tuples, hence never fail) is modelled both as shipped and as
repaired: `Other.asserts`.

Inputs that the model does not describe (a JSON `true` for a dimension, a list as observation model, the constructor
keywords `variables_to_track` / `initialization_method` / a second `Name` as file keys, the `lme` and `constant`
kinds, …) are answered with `Err.outside`: that is not an exception of the code but the statement "not modelled", and
the harness never generates such an input.
-/
namespace LeaspyVerif.Codec

/-! ## Outcomes -/

inductive Err where
  | modelInput      -- LeaspyModelInputError
  | input           -- LeaspyInputError (raised by `State`: "… is an independent variable which is required to proceed")
  | value           -- ValueError
  | type            -- TypeError
  | runtime         -- RuntimeError
  | attribute       -- AttributeError
  | key             -- KeyError
  | notImplemented  -- NotImplementedError
  | assertion       -- AssertionError
  | outside         -- outside the modelled domain (see the header); never the answer of the real code
  deriving DecidableEq, Repr

inductive Out (α : Type) where
  | ok : α → Out α
  | err : Err → Out α
  deriving DecidableEq, Repr

def Out.bind {α β} (x : Out α) (f : α → Out β) : Out β :=
  match x with
  | .ok a => f a
  | .err e => .err e

instance : Monad Out where
  pure := Out.ok
  bind := Out.bind

def Out.isOk {α} : Out α → Bool
  | .ok _ => true
  | .err _ => false

/-- `[f(a) for a in l]`, stopping at the first exception -/
def Out.mapM {α β} (f : α → Out β) : List α → Out (List β)
  | [] => .ok []
  | a :: as =>
    match f a with
    | .err e => .err e
    | .ok b =>
      match Out.mapM f as with
      | .err e => .err e
      | .ok bs => .ok (b :: bs)

/-! ## Numbers -/

/-- A python `float` (IEEE double).  `fin q`: a finite value other than `-0.0` (exact rational); `+0.0 = fin 0`. -/
inductive Fl where
  | fin (q : Rat)
  | nzero
  | nan
  | inf (neg : Bool)
  deriving DecidableEq, Repr

/-- `e` with `2^e ≤ a < 2^(e+1)` for `a > 0` -/
def ilog2 (a : Rat) : Int :=
  let e0 : Int := (Nat.log2 a.num.natAbs : Int) - (Nat.log2 a.den : Int)
  if a < (2 : Rat) ^ e0 then e0 - 1 else e0

/-- Nearest float32 of a rational, ties to even; sub-normals included (spacing `2^-149` below `2^-126`);
    the result may be `2^128` (overflow, turned into `inf` by `narrow32`). -/
def roundF32q (q : Rat) : Rat :=
  if q == 0 then 0 else
  let a : Rat := q.abs
  let e0 : Int := ilog2 a
  let e : Int := if e0 < -126 then -126 else e0
  let ulp : Rat := (2 : Rat) ^ (e - 23)
  let m : Rat := a / ulp
  let fl : Int := m.floor
  let frac : Rat := m - fl
  let r : Int := if frac < 1 / 2 then fl else if frac > 1 / 2 then fl + 1 else (if fl % 2 == 0 then fl else fl + 1)
  let res : Rat := (r : Rat) * ulp
  if q < 0 then -res else res

/-- `static_cast<float>(double)`: what `torch.tensor(x)` does to a python float. -/
def narrow32 : Fl → Fl
  | .fin q =>
    let r := roundF32q q
    if r.abs ≥ (2 : Rat) ^ (128 : Int) then .inf (decide (q < 0))
    else if r == 0 && decide (q < 0) then .nzero
    else .fin r
  | x => x

/-! ## JSON trees -/

/-- What `json.load` returns / `json.dump` takes.  An object is its key list in order. -/
inductive JVal where
  | null
  | bool (b : Bool)
  | int (i : Int)
  | flt (x : Fl)
  | str (s : String)
  | arr (l : List JVal)
  | obj (m : List (String × JVal))
  deriving Repr

mutual
def JVal.decEq : (a b : JVal) → Decidable (a = b)
  | .null, .null => isTrue rfl
  | .null, .bool _ => isFalse nofun
  | .null, .int _ => isFalse nofun
  | .null, .flt _ => isFalse nofun
  | .null, .str _ => isFalse nofun
  | .null, .arr _ => isFalse nofun
  | .null, .obj _ => isFalse nofun
  | .bool _, .null => isFalse nofun
  | .bool a, .bool b =>
    if h : a = b then isTrue (by rw [h]) else isFalse (fun e => h (JVal.bool.inj e))
  | .bool _, .int _ => isFalse nofun
  | .bool _, .flt _ => isFalse nofun
  | .bool _, .str _ => isFalse nofun
  | .bool _, .arr _ => isFalse nofun
  | .bool _, .obj _ => isFalse nofun
  | .int _, .null => isFalse nofun
  | .int _, .bool _ => isFalse nofun
  | .int a, .int b =>
    if h : a = b then isTrue (by rw [h]) else isFalse (fun e => h (JVal.int.inj e))
  | .int _, .flt _ => isFalse nofun
  | .int _, .str _ => isFalse nofun
  | .int _, .arr _ => isFalse nofun
  | .int _, .obj _ => isFalse nofun
  | .flt _, .null => isFalse nofun
  | .flt _, .bool _ => isFalse nofun
  | .flt _, .int _ => isFalse nofun
  | .flt a, .flt b =>
    if h : a = b then isTrue (by rw [h]) else isFalse (fun e => h (JVal.flt.inj e))
  | .flt _, .str _ => isFalse nofun
  | .flt _, .arr _ => isFalse nofun
  | .flt _, .obj _ => isFalse nofun
  | .str _, .null => isFalse nofun
  | .str _, .bool _ => isFalse nofun
  | .str _, .int _ => isFalse nofun
  | .str _, .flt _ => isFalse nofun
  | .str a, .str b =>
    if h : a = b then isTrue (by rw [h]) else isFalse (fun e => h (JVal.str.inj e))
  | .str _, .arr _ => isFalse nofun
  | .str _, .obj _ => isFalse nofun
  | .arr _, .null => isFalse nofun
  | .arr _, .bool _ => isFalse nofun
  | .arr _, .int _ => isFalse nofun
  | .arr _, .flt _ => isFalse nofun
  | .arr _, .str _ => isFalse nofun
  | .arr a, .arr b =>
    match JVal.decEqList a b with
    | isTrue h => isTrue (by rw [h])
    | isFalse h => isFalse (fun e => h (JVal.arr.inj e))
  | .arr _, .obj _ => isFalse nofun
  | .obj _, .null => isFalse nofun
  | .obj _, .bool _ => isFalse nofun
  | .obj _, .int _ => isFalse nofun
  | .obj _, .flt _ => isFalse nofun
  | .obj _, .str _ => isFalse nofun
  | .obj _, .arr _ => isFalse nofun
  | .obj a, .obj b =>
    match JVal.decEqObj a b with
    | isTrue h => isTrue (by rw [h])
    | isFalse h => isFalse (fun e => h (JVal.obj.inj e))
def JVal.decEqList : (a b : List JVal) → Decidable (a = b)
  | [], [] => isTrue rfl
  | [], _ :: _ => isFalse nofun
  | _ :: _, [] => isFalse nofun
  | x :: xs, y :: ys =>
    match JVal.decEq x y, JVal.decEqList xs ys with
    | isTrue h1, isTrue h2 => isTrue (by rw [h1, h2])
    | isFalse h1, _ => isFalse (fun e => h1 (List.cons.inj e).1)
    | _, isFalse h2 => isFalse (fun e => h2 (List.cons.inj e).2)
def JVal.decEqObj : (a b : List (String × JVal)) → Decidable (a = b)
  | [], [] => isTrue rfl
  | [], _ :: _ => isFalse nofun
  | _ :: _, [] => isFalse nofun
  | (k, x) :: xs, (k', y) :: ys =>
    if hk : k = k' then
      match JVal.decEq x y, JVal.decEqObj xs ys with
      | isTrue h1, isTrue h2 => isTrue (by rw [hk, h1, h2])
      | isFalse h1, _ => isFalse (fun e => h1 (Prod.mk.inj (List.cons.inj e).1).2)
      | _, isFalse h2 => isFalse (fun e => h2 (List.cons.inj e).2)
    else isFalse (fun e => hk (Prod.mk.inj (List.cons.inj e).1).1)
end

instance : DecidableEq JVal := JVal.decEq
/-! ## Tensors and the tensor ↔ nested-list codec -/

inductive DType where
  | bool | int32 | int64 | float16 | float32 | float64
  deriving DecidableEq, Repr

/-- the three classes `infer_scalar_type` distinguishes, in promotion order -/
inductive Cls where
  | bool | int | float
  deriving DecidableEq, Repr

def DType.cls : DType → Cls
  | .bool => .bool
  | .int32 | .int64 => .int
  | .float16 | .float32 | .float64 => .float

/-- dtype chosen by `torch.tensor` for a python object of the class (default dtype float32) -/
def Cls.dtype : Cls → DType
  | .bool => .bool
  | .int => .int64
  | .float => .float32

/-- `promoteTypes` restricted to Bool < Long < Float -/
def Cls.promote : Cls → Cls → Cls
  | .float, _ => .float
  | _, .float => .float
  | .int, _ => .int
  | _, .int => .int
  | .bool, .bool => .bool

/-- one element of a tensor -/
inductive Elem where
  | b (v : Bool)
  | i (v : Int)
  | f (v : Fl)
  deriving DecidableEq, Repr

def Elem.cls : Elem → Cls
  | .b _ => .bool
  | .i _ => .int
  | .f _ => .float

structure Tensor where
  dtype : DType
  shape : List Nat
  data : List Elem        -- row-major
  deriving DecidableEq, Repr

def numel : List Nat → Nat
  | [] => 1
  | n :: sh => n * numel sh

def inInt64 (v : Int) : Bool := decide (-9223372036854775808 ≤ v) && decide (v < 9223372036854775808)

/-- the element is a value of the dtype (`float16`: only "is a float32" is recorded, nothing else is used) -/
def Elem.okFor (narrow : Fl → Fl) : DType → Elem → Bool
  | .bool, .b _ => true
  | .int64, .i v => inInt64 v
  | .int32, .i v => decide (-2147483648 ≤ v) && decide (v < 2147483648)
  | .float64, .f _ => true
  | .float32, .f x => narrow x == x
  | .float16, .f x => narrow x == x
  | _, _ => false

/-- a tensor object: as many elements as the shape says, all of them values of the dtype -/
def Tensor.wf (narrow : Fl → Fl) (t : Tensor) : Bool :=
  t.data.length == numel t.shape && t.data.all (Elem.okFor narrow t.dtype)

/-- `Tensor.item()` / the leaves of `tolist()`: python bool, int or float (exact) -/
def Elem.toJson : Elem → JVal
  | .b v => .bool v
  | .i v => .int v
  | .f x => .flt x

/-- `n` consecutive blocks of `k` elements -/
def chunks {α} (k : Nat) : Nat → List α → List (List α)
  | 0, _ => []
  | n + 1, l => l.take k :: chunks k n (l.drop k)

/-- `tolist()` on (shape, row-major data): a 0-d tensor gives the bare number, shape `(n, …)` a list of `n` items.
    (`strides` do not appear: `tolist` reads through them, a transposed view gives the transposed nesting.)
    The `.null` branch is a 0-d tensor without exactly one element: not a tensor (`wf` excludes it). -/
def nest : List Nat → List Elem → JVal
  | [], d =>
    match d with
    | [x] => x.toJson
    | _ => .null
  | n :: sh, d => .arr ((chunks (numel sh) n d).map (nest sh))

def toJson (t : Tensor) : JVal := nest t.shape t.data

mutual
/-- `compute_sizes`: lengths along the chain of first elements; stops at an empty sequence.  A python `str` is a
    sequence whose first element is again a `str`: "too many dimensions 'str'" (ValueError) unless it is empty. -/
def sizes : JVal → Out (List Nat)
  | .arr l =>
    match sizesHead l with
    | .ok r => .ok (l.length :: r)
    | .err e => .err e
  | .str s => if s.isEmpty then .ok [0] else .err .value
  | _ => .ok []
def sizesHead : List JVal → Out (List Nat)
  | [] => .ok []
  | x :: _ => sizes x
end

mutual
/-- `infer_scalar_type`: `None` / `dict` → RuntimeError "Could not infer dtype", `str` → TypeError, empty sequence →
    default dtype, otherwise the promotion of all items (first exception wins) -/
def infer : JVal → Out Cls
  | .null => .err .runtime
  | .bool _ => .ok .bool
  | .int _ => .ok .int
  | .flt _ => .ok .float
  | .str _ => .err .type
  | .obj _ => .err .runtime
  | .arr [] => .ok .float
  | .arr (x :: xs) =>
    match infer x with
    | .err e => .err e
    | .ok c =>
      match inferList xs with
      | .err e => .err e
      | .ok c' => .ok (c.promote c')
/-- promotion over the remaining items (`bool` is the neutral element) -/
def inferList : List JVal → Out Cls
  | [] => .ok .bool
  | x :: xs =>
    match infer x with
    | .err e => .err e
    | .ok c =>
      match inferList xs with
      | .err e => .err e
      | .ok c' => .ok (c.promote c')
end

/-- `recursive_store` at a leaf: conversion of a python scalar to the inferred dtype.
    After `infer` succeeded the object can only be a bool / int / float or a list (TypeError: "must be real number,
    not list" / "'list' object cannot be interpreted as an integer").  An int goes through a double on its way to
    float32 (exact below 2^53, the only range generated). -/
def scalarOf (narrow : Fl → Fl) : Cls → JVal → Out Elem
  | .float, .flt x => .ok (.f (narrow x))
  | .float, .int v => .ok (.f (narrow (.fin v)))
  | .float, .bool v => .ok (.f (.fin (if v then 1 else 0)))
  | .int, .int v => if inInt64 v then .ok (.i v) else .err .runtime      -- "Overflow when unpacking long"
  | .int, .bool v => .ok (.i (if v then 1 else 0))
  | .bool, .bool v => .ok (.b v)
  | _, _ => .err .type

mutual
/-- `recursive_store`: at depth `dim` the object must be a sequence (TypeError "not a sequence") of exactly
    `sizes[dim]` items (ValueError "expected sequence of length …") -/
def store (narrow : Fl → Fl) (c : Cls) : List Nat → JVal → Out (List Elem)
  | [], v =>
    match scalarOf narrow c v with
    | .ok e => .ok [e]
    | .err e => .err e
  | n :: sh, .arr l => if l.length = n then storeList narrow c sh l else .err .value
  | _ :: _, _ => .err .type
def storeList (narrow : Fl → Fl) (c : Cls) : List Nat → List JVal → Out (List Elem)
  | _, [] => .ok []
  | sh, x :: xs =>
    match store narrow c sh x with
    | .err e => .err e
    | .ok d =>
      match storeList narrow c sh xs with
      | .err e => .err e
      | .ok ds => .ok (d ++ ds)
end

/-- `torch.tensor(obj)` for a json value: a top-level `str` is refused at once; sizes, then dtype, then the values —
    the last step is skipped when some size is 0 (`if numel != 0`), so nothing below an empty first item is looked
    at beyond its type. -/
def ofJson (narrow : Fl → Fl) (v : JVal) : Out Tensor :=
  match v with
  | .str _ => .err .type
  | _ =>
    match sizes v with
    | .err e => .err e
    | .ok sh =>
      match infer v with
      | .err e => .err e
      | .ok c =>
        if numel sh = 0 then .ok ⟨c.dtype, sh, []⟩ else
        match store narrow c sh v with
        | .err e => .err e
        | .ok d => .ok ⟨c.dtype, sh, d⟩

/-- `Tensor.view(shape)`: same elements, new shape; RuntimeError when the number of elements differs -/
def view (sh : List Nat) (t : Tensor) : Out Tensor :=
  if numel sh = numel t.shape then .ok { t with shape := sh } else .err .runtime

/-- `val_to_tensor(val, shape)` on a json value -/
def valToTensor (narrow : Fl → Fl) (sh : Option (List Nat)) (v : JVal) : Out Tensor :=
  match ofJson narrow v with
  | .err e => .err e
  | .ok t =>
    match sh with
    | none => .ok t
    | some s => view s t

/-- shape that survives `tolist`: everything after the first zero-length axis is lost -/
def cutShape : List Nat → List Nat
  | [] => []
  | 0 :: _ => [0]
  | (n + 1) :: sh => (n + 1) :: cutShape sh

/-- what comes back for an element of a tensor with at least one element -/
def Elem.back (narrow : Fl → Fl) : Elem → Elem
  | .f x => .f (narrow x)
  | e => e

/-- `torch.tensor(t.tolist())` in closed form -/
def Tensor.back (narrow : Fl → Fl) (t : Tensor) : Tensor :=
  if numel t.shape = 0 then ⟨.float32, cutShape t.shape, []⟩
  else ⟨t.dtype.cls.dtype, t.shape, t.data.map (Elem.back narrow)⟩

/-- the exact guard of `torch.tensor(t.tolist()) == t` (dtype, shape, values) -/
def Tensor.stable (t : Tensor) : Bool :=
  if numel t.shape = 0 then t.dtype == .float32 && cutShape t.shape == t.shape
  else t.dtype == .bool || t.dtype == .int64 || t.dtype == .float32

/-- numpy-style broadcasting of two shapes (aligned on the right) is possible -/
def broadcastable (a b : List Nat) : Bool :=
  (a.reverse.zip b.reverse).all (fun p => p.1 == p.2 || p.1 == 1 || p.2 == 1)

/-! ## The model object and the file-level dictionary -/

/-- the stateful model kinds (`lme` and `constant` have their own save / load: outside) -/
inductive Kind where
  | logistic | linear | sharedSpeed | joint | mixture
  deriving DecidableEq, Repr

def Kind.toName : Kind → String
  | .logistic => "logistic"
  | .linear => "linear"
  | .sharedSpeed => "shared_speed_logistic"
  | .joint => "joint"
  | .mixture => "mixture_logistic"

/-- `ModelName(name)`: `none` = ValueError "… is not a valid ModelName"; `some none` = `lme` / `constant` -/
def kindOfName (s : String) : Option (Option Kind) :=
  if s == "logistic" then some (some .logistic)
  else if s == "linear" then some (some .linear)
  else if s == "shared_speed_logistic" then some (some .sharedSpeed)
  else if s == "joint" then some (some .joint)
  else if s == "mixture_logistic" then some (some .mixture)
  else if s == "lme" || s == "constant" then some none
  else none

/-- observation model of the features (`obs_models[0]`, name "y") -/
inductive Noise where
  | scalar | diagonal | bernoulli
  deriving DecidableEq, Repr

/-- `ObservationModel.to_string()` -/
def Noise.toName : Noise → String
  | .scalar => "gaussian-scalar"
  | .diagonal => "gaussian-diagonal"
  | .bernoulli => "bernoulli"

/-- `model_name.lower().replace("_", "-")` -/
def normObs (s : String) : String :=
  String.ofList (s.toLower.toList.map (fun c => if c == '_' then '-' else c))

inductive ObsName where
  | noise (n : Noise)
  | weibull          -- the two event models (never stored under "y" by `to_dict`): outside
  | unknown          -- NotImplementedError
  deriving DecidableEq, Repr

/-- `ObservationModelNames.from_string` -/
def obsOfString (s : String) : ObsName :=
  let t := normObs s
  if t == "gaussian-scalar" then .noise .scalar
  else if t == "gaussian-diagonal" then .noise .diagonal
  else if t == "bernoulli" then .noise .bernoulli
  else if t == "weibull-right-censored" || t == "weibull-right-censored-with-sources" then .weibull
  else .unknown

/-- Names and shapes of the `ModelParameter` nodes in DAG order (`parameters_names`):
    `d` features, `s` sources, `K` clusters, `E` events (`get_variables_specs` of the model classes). -/
def paramSpec (k : Kind) (d s : Nat) (noise : Noise) (K E : Nat) : List (String × List Nat) :=
  let betas : List (String × List Nat) := if s = 0 then [] else [("betas_mean", [d - 1, s])]
  let nz : List (String × List Nat) :=
    match noise with
    | .scalar => [("noise_std", [1])]
    | .diagonal => [("noise_std", [d])]
    | .bernoulli => []
  match k with
  | .logistic =>
    betas ++ [("log_g_mean", [d]), ("log_v0_mean", [d])] ++ nz
      ++ [("tau_mean", [1]), ("tau_std", [1]), ("xi_std", [1])]
  | .linear =>
    betas ++ [("g_mean", [d]), ("log_v0_mean", [d])] ++ nz
      ++ [("tau_mean", [1]), ("tau_std", [1]), ("xi_std", [1])]
  | .sharedSpeed =>
    betas ++ [("deltas_mean", [d - 1]), ("log_g_mean", [1])] ++ nz
      ++ [("tau_mean", [1]), ("tau_std", [1]), ("xi_mean", [1]), ("xi_std", [1])]
  | .joint =>
    betas ++ [("log_g_mean", [d]), ("log_rho_mean", [E]), ("log_v0_mean", [d]), ("n_log_nu_mean", [E])] ++ nz
      ++ [("tau_mean", [1]), ("tau_std", [1]), ("xi_std", [1])]
      ++ (if s = 0 then [] else [("zeta_mean", [s, E])])
  | .mixture =>
    betas ++ [("log_g_mean", [d]), ("log_v0_mean", [d])] ++ nz
      ++ [("probs", [K])]
      ++ (if s = 0 then [] else [("sources_mean", [s, K])])
      ++ [("tau_mean", [K]), ("tau_std", [K]), ("xi_mean", [K]), ("xi_std", [K])]

/-- population latent variables: `x` for every parameter `x_mean` that is the mean of a population prior -/
def popNames : List String := ["betas", "log_g", "g", "log_v0", "deltas", "log_rho", "n_log_nu", "zeta"]

/-- `put_population_latent_variables(PRIOR_MODE)`: the mode of `Normal(x_mean, x_std)` is `x_mean` -/
def priorMode (params : List (String × Tensor)) : List (String × Tensor) :=
  popNames.filterMap (fun n => (params.lookup (n ++ "_mean")).map (fun t => (n, t)))

/-- What `to_dict` reads on a model object whose state exists: attributes, and values held by `model.state`. -/
structure Obj where
  kind : Kind
  name : String                         -- `_name` (the instance name)
  features : Option (List String)       -- `_features`
  dimAttr : Option Nat                  -- `_dimension`
  sourceDim : Option Nat                -- `_source_dimension` / `source_dimension`
  noise : Noise                         -- `obs_models`
  fitMetrics : JVal                     -- `fit_metrics` (`None` or a dict of python floats)
  nbEvents : Nat                        -- joint (1 otherwise)
  nClusters : Nat                       -- mixture (0 otherwise)
  params : List (String × Tensor)       -- `state[p]` for the ModelParameter nodes that hold a value, DAG order
  pop : List (String × Tensor)          -- `state[x]` for the population latent variables
  deriving DecidableEq, Repr

/-- `BaseModel.dimension` (property) -/
def Obj.dim (o : Obj) : Option Nat :=
  match o.dimAttr with
  | some d => some d
  | none => o.features.map List.length

/-- Values that are functions of the object but computed by numerical kernels: the Hyperparameter nodes of the DAG
    (class constants) and the derived `mixing_matrix` (from the population variables in the live state). -/
structure Ext where
  version : String
  hyper : Kind → Nat → Nat → Noise → Nat → Nat → List (String × Tensor)
  mixing : Kind → Nat → Nat → List (String × Tensor) → Tensor

def tensorsJ (l : List (String × Tensor)) : List (String × JVal) := l.map (fun p => (p.1, toJson p.2))

/-- joint: the event model added by `_configure_observation_models` -/
def eventObs (d s : Nat) : String :=
  if d = 1 || s = 0 then "weibull-right-censored" else "weibull-right-censored-with-sources"

def featuresJ : Option (List String) → JVal
  | none => .null
  | some fs => .arr (fs.map .str)

/-- the key / value list `to_dict()` of the five classes builds (key order as written) for an object with `d`
    features and `s` sources -/
def fileFields (X : Ext) (o : Obj) (d s : Nat) : List (String × JVal) :=
  let mixing : List (String × JVal) :=
    if s ≥ 1 then [("mixing_matrix", toJson (X.mixing o.kind d s o.pop))] else []
  let obs : List (String × JVal) :=
    [("y", .str o.noise.toName)] ++ (if o.kind = .joint then [("event", .str (eventObs d s))] else [])
  let base : List (String × JVal) :=
    [("leaspy_version", .str X.version), ("name", .str o.name), ("features", featuresJ o.features),
     ("dimension", .int d),
     ("hyperparameters", .obj (tensorsJ (X.hyper o.kind d s o.noise o.nClusters o.nbEvents))),
     ("parameters", .obj (tensorsJ o.params ++ mixing)),
     ("obs_models", .obj obs), ("fit_metrics", o.fitMetrics)]
  let tail : List (String × JVal) :=
    match o.kind with
    | .joint => [("source_dimension", .int s), ("nb_events", .int o.nbEvents)]
    | .mixture => [("n_clusters", .int o.nClusters), ("source_dimension", .int s)]
    | _ => [("source_dimension", .int s)]
  base ++ tail

/-- `to_dict()` for an object with a state.  `self.parameters` reads every ModelParameter node through the state: a
    node without a value raises `LeaspyInputError`.  Objects without dimension / source dimension have no state:
    outside. -/
def toDict (X : Ext) (o : Obj) : Out JVal :=
  match o.dim, o.sourceDim with
  | some d, some s =>
    if o.params.map Prod.fst != (paramSpec o.kind d s o.noise o.nClusters o.nbEvents).map Prod.fst then .err .input
    else .ok (.obj (fileFields X o d s))
  | _, _ => .err .outside

/-! ### `BaseModel.load` -/

/-- a DAG node that is not a ModelParameter, as `load_parameters` sees it when the file mentions it -/
structure Other where
  computable : Bool              -- `state[name]` can be evaluated once parameters and population variables are set
  view : Option (List Nat)       -- `getattr(dag[name], "shape", None)`
  shape : List Nat               -- shape of the current value (a float32 tensor)
  asserts : Bool                 -- the two `assert` statements are effective (repair F30); `false` = code as shipped
  current : List Fl              -- the current value, row-major (only read when `asserts`)
  deriving DecidableEq, Repr

/-- one element of `torch.allclose(a, b, atol=1e-4, equal_nan=True)` (`rtol` = 1e-5): `|a - b| ≤ atol + rtol·|b|`, equal
    infinities are close, NaN is close to NaN only (`equal_nan=True` since the repair F30b: a file whose derived values
    overflowed to nan on both sides reloads).  Exact arithmetic on the float32 values (torch does it in float32: the two
    differ only within an ulp of the threshold, a region the harness does not generate). -/
def closeFl : Fl → Fl → Bool
  | .nan, .nan => true
  | .nan, _ => false
  | _, .nan => false
  | .inf a, .inf b => a == b
  | .inf _, _ => false
  | _, .inf _ => false
  | a, b =>
    let q : Fl → Rat := fun x => match x with
      | .fin r => r
      | _ => 0
    decide ((q a - q b).abs ≤ 1 / 10000 + 1 / 100000 * (q b).abs)

def allCloseData : List Elem → List Fl → Bool
  | [], [] => true
  | .f a :: as, b :: bs => closeFl a b && allCloseData as bs
  | _, _ => false

def reservedKeys : List String := ["name", "parameters", "hyperparameters", "leaspy_version"]

/-- `ModelSettings.hyperparameters`: every other top-level key, lower-cased -/
def hyperOf (kvs : List (String × JVal)) : List (String × JVal) :=
  (kvs.filter (fun p => !(reservedKeys.contains p.1))).map (fun p => (p.1.toLower, p.2))

/-- value of a key in a dict built by successive insertions: the last one wins -/
def getLast (l : List (String × JVal)) (k : String) : Option JVal := l.reverse.lookup k

/-- value of `kwargs.get("dimension")` -/
inductive DimV where
  | none | int (n : Int) | weird
  deriving DecidableEq, Repr

def dimOf : Option JVal → Out DimV
  | none | some .null => .ok .none
  | some (.int n) => .ok (.int n)
  | some (.bool _) => .err .outside
  | some _ => .ok .weird

def strOf : JVal → Option String
  | .str s => some s
  | _ => none

/-- `len(kwargs["features"])`: TypeError for `null` / a number; a list of names otherwise -/
def featOf : Option JVal → Out (Option (List String))
  | none => .ok none
  | some .null | some (.int _) | some (.flt _) | some (.bool _) => .err .type
  | some (.arr l) =>
    match l.mapM strOf with
    | some fs => .ok (some fs)
    | none => .err .outside
  | some _ => .err .outside

/-- `observation_model_factory(<recognised name>, dimension=dim0)`; `with_noise_std_as_model_parameter(1)` is the
    scalar model whatever it was asked under -/
def gaussianFor (dim0 : DimV) : Noise → Out Noise
  | .bernoulli => .ok .bernoulli
  | .scalar => .ok .scalar
  | .diagonal =>
    match dim0 with
    | .none => .err .notImplemented
    | .weird => .err .value
    | .int n => if n < 1 then .err .value else .ok (if n = 1 then .scalar else .diagonal)

def factoryStr (dim0 : DimV) (s : String) : Out Noise :=
  match obsOfString s with
  | .noise n => gaussianFor dim0 n
  | .weibull => .err .outside
  | .unknown => .err .notImplemented

def factoryJ (dim0 : DimV) : JVal → Out Noise
  | .str s => factoryStr dim0 s
  | _ => .err .modelInput

/-- the `obs_models` keyword in `TimeReparametrizedModel.__init__` -/
def obsOf (dim0 : DimV) : Option JVal → Out Noise
  | none | some .null => gaussianFor dim0 (if dim0 = .none then .scalar else .diagonal)
  | some (.arr _) => .err .outside
  | some (.obj m) =>
    match m.lookup "y" with
    | none => .err .key
    | some v => factoryJ dim0 v
  | some v => factoryJ dim0 v

/-- the `obs_models` keyword in `TimeReparametrizedMixtureModel.__init__` (`nC` = `kwargs.get("n_clusters")`) -/
def obsOfMixture (dim0 : DimV) (nC : Option Int) (v : Option JVal) : Out Noise :=
  let checked : Out Noise :=
    match nC with
    | none => .err .type                                  -- `None < 2`
    | some n =>
      if n < 2 then .err .input else if dim0 = .int 1 then .err .input else gaussianFor dim0 .diagonal
  match v with
  | none | some .null => checked
  | some (.str s) => if s == "gaussian-diagonal" then checked else factoryStr dim0 s
  | some (.arr _) => .err .outside
  | some (.obj m) =>
    match m.lookup "y" with
    | none => .err .key
    | some v => factoryJ dim0 v
  | some v => factoryJ dim0 v

/-- `_validate_source_dimension` (time-reparametrized kinds) -/
def srcOf (d : Option Nat) (v : Option JVal) : Out (Option Nat) :=
  if d = some 1 then .ok (some 0) else
  match v with
  | none | some .null => .ok none
  | some (.bool _) => .err .outside
  | some (.int n) =>
    if n < 0 then .err .modelInput else
    match d with
    | some d => if n > (d : Int) - 1 then .err .modelInput else .ok (some n.toNat)
    | none => .ok (some n.toNat)
  | some _ => .err .modelInput

/-- `source_dimension` / `n_clusters` in the mixture's `_load_hyperparameters`: `n_clusters` is only looked at inside
    the `if "source_dimension" in hyperparameters:` block -/
def srcOfMixture (d : Option Nat) (v nC : Option JVal) : Out (Option (Nat × Option Nat)) :=
  match v with
  | none => .ok none
  | some (.bool _) => .err .outside
  | some (.int n) =>
    if n < 0 then .err .modelInput else
    let okD : Bool := match d with
      | some d => decide (n ≤ (d : Int) - 1)
      | none => true
    if !okD then .err .modelInput else
    match nC with
    | none => .ok (some (n.toNat, none))
    | some (.bool _) => .err .outside
    | some (.int k) => if k < 2 then .err .modelInput else .ok (some (n.toNat, some k.toNat))
    | some _ => .err .modelInput
  | some _ => .err .modelInput

def optInt : Option JVal → Out (Option Int)
  | none | some .null => .ok none
  | some (.int n) => .ok (some n)
  | some _ => .err .outside

/-- keys that reach a constructor as keywords and are not described here -/
def outsideKeys : List String := ["name", "variables_to_track", "initialization_method"]

def knownKeys : List String :=
  ["instance_name", "features", "dimension", "source_dimension", "obs_models", "fit_metrics"]

/-- the keys `LogisticMultivariateMixtureModel._load_hyperparameters` accepts, plus those consumed before it -/
def mixtureKeys : List String :=
  ["instance_name", "features", "dimension", "source_dimension", "n_clusters", "obs_models", "fit_metrics"]

/-- `StatefulModel.load_parameters` once the DAG exists. -/
def checkOther (narrow : Fl → Fl) (others : List (String × Other)) (p : String × JVal) : Out Unit :=
  match others.lookup p.1 with
  | none => .err .modelInput
  | some o =>
    if !o.computable then .err .modelInput else     -- "Impossible to compare value … not computable given current state"
    match valToTensor narrow o.view p.2 with
    | .err e => .err e
    | .ok t =>
      if o.asserts then
        -- repaired (F30): `assert value.shape == current.shape`, then `assert torch.allclose(value, current, atol=1e-4)`
        if t.shape != o.shape then .err .assertion
        else if t.dtype != .float32 then .err .runtime        -- allclose: "Long did not match Float"
        else if !(allCloseData t.data o.current) then .err .assertion
        else .ok ()
      else
        -- as shipped: `assert (torch.allclose(value, current, atol=1e-4), …)` — the parenthesised tuple is always true,
        -- but `allclose` is evaluated: RuntimeError for a non-float dtype or shapes that do not broadcast
        if t.dtype != .float32 then .err .runtime
        else if !(broadcastable t.shape o.shape) then .err .runtime
        else .ok ()

/-- `val_to_tensor(parameters[p], self.dag[p].shape)` for one provided parameter -/
def convParam (narrow : Fl → Fl) (e : (String × List Nat) × JVal) : Out (String × Tensor) :=
  match valToTensor narrow (some e.1.2) e.2 with
  | .err x => .err x
  | .ok t => .ok (e.1.1, t)

def loadParamsObj (narrow : Fl → Fl) (spec : List (String × List Nat)) (others : List (String × Other))
    (kvs : List (String × JVal)) : Out (List (String × Tensor)) :=
  -- `extra_vars = set(parameters).difference(self.dag)`
  if kvs.any (fun p => (spec.lookup p.1).isNone && (others.lookup p.1).isNone) then .err .modelInput else
  -- `{p: val_to_tensor(parameters[p], self.dag[p].shape) for p in params_names if p in parameters}`
  match Out.mapM (convParam narrow) (spec.filterMap (fun e => (kvs.lookup e.1).map (fun v => (e, v)))) with
  | .err e => .err e
  | .ok provided =>
    -- `put_population_latent_variables(PRIOR_MODE)` needs the mean of every population prior
    if popNames.any (fun n => (spec.lookup (n ++ "_mean")).isSome && (provided.lookup (n ++ "_mean")).isNone)
    then .err .input else
    -- the other provided values: converted, never compared
    match Out.mapM (checkOther narrow others) (kvs.filter (fun p => (spec.lookup p.1).isNone)) with
    | .err e => .err e
    | .ok _ => .ok provided

def loadParameters (narrow : Fl → Fl) (spec : List (String × List Nat)) (others : List (String × Other)) :
    JVal → Out (List (String × Tensor))
  | .obj kvs => loadParamsObj narrow spec others kvs
  | .arr [] => loadParamsObj narrow spec others []
  | .null | .bool _ | .int _ | .flt _ => .err .type          -- `set(parameters)`: not iterable
  | _ => .err .outside

/-- hyperparameter part of a constructed model -/
structure Built where
  name : String
  features : Option (List String)
  dimAttr : Option Nat
  sourceDim : Option Nat
  noise : Noise
  fitMetrics : JVal
  nbEvents : Nat
  nClusters : Nat
  d : Nat
  s : Nat
  deriving DecidableEq, Repr

/-- `model_factory(name, **hyperparameters)` followed by `_initialize_state()`, in the order the checks happen. -/
def construct (k : Kind) (hp : List (String × JVal)) : Out Built :=
  let get := getLast hp
  if hp.any (fun p => outsideKeys.contains p.1) then .err .outside else
  -- `fit_metrics: Optional[dict] = None` (keyword default of `McmcSaemCompatibleModel.__init__`), kept verbatim
  let fitM : JVal := match get "fit_metrics" with
    | some v => v
    | none => .null
  -- `instance_name or name.value`
  let nameR : Out String :=
    match get "instance_name" with
    | none | some .null => .ok k.toName
    | some (.str s) => .ok (if s.isEmpty then k.toName else s)
    | some _ => .err .outside
  match nameR with
  | .err e => .err e
  | .ok name =>
  -- `__init__` of `TimeReparametrizedModel` / `TimeReparametrizedMixtureModel`
  match dimOf (get "dimension") with
  | .err e => .err e
  | .ok dimV =>
  match featOf (get "features") with
  | .err e => .err e
  | .ok feat =>
  let dim0 : DimV := match feat with
    | some fs => .int fs.length
    | none => dimV
  match optInt (if k = .mixture then get "n_clusters" else none) with
  | .err e => .err e
  | .ok nC0 =>
  match (if k = .mixture then obsOfMixture dim0 nC0 (get "obs_models") else obsOf dim0 (get "obs_models")) with
  | .err e => .err e
  | .ok noise =>
  -- `BaseModel._validate_user_provided_dimension_and_features_at_init`
  if dimV = .weird then .err .modelInput else
  if (match dimV, feat with
      | .int n, some fs => decide (n ≠ fs.length)
      | _, _ => false) then .err .modelInput else
  -- `_load_hyperparameters`: an explicit `"dimension": null` next to feature names
  if (hp.any (fun p => p.1 == "dimension")) && dimV = .none && (match feat with
      | some fs => !fs.isEmpty
      | none => false) then .err .modelInput else
  -- domain of the model: a positive dimension when there is one
  if (match dim0 with
      | .int n => decide (n < 1)
      | _ => false) then .err .outside else
  let dimAttr : Option Nat := match dimV with
    | .int n => some n.toNat
    | _ => none
  let d : Option Nat := match dim0 with
    | .int n => some n.toNat
    | _ => none
  if k = .mixture then
    match srcOfMixture d (get "source_dimension") (get "n_clusters") with
    | .err e => .err e
    | .ok sk =>
    -- `_raise_if_unknown_hyperparameters`
    if hp.any (fun p => !(mixtureKeys.contains p.1)) then .err .modelInput else
    -- `_initialize_state`: `self.n_clusters` only exists when both keys were given
    match sk, d with
    | some (s, some K), some d => .ok ⟨name, feat, dimAttr, some s, noise, fitM, 1, K, d, s⟩
    | some (_, some _), none => .err .type
    | _, _ => .err .attribute
  else
    match srcOf d (get "source_dimension") with
    | .err e => .err e
    | .ok sOpt =>
    -- joint: `hyperparameters.pop("nb_events", 1)`
    let nbR : Out Nat :=
      if k = .joint then
        match get "nb_events" with
        | none => .ok 1
        | some (.int n) => if n < 1 then .err .outside else .ok n.toNat
        | some _ => .err .outside
      else .ok 1
    match nbR with
    | .err e => .err e
    | .ok nb =>
    -- `_initialize_state` → `get_variables_specs`
    match d, sOpt with
    | some d, some s =>
      -- joint, univariate configuration: a second model named "y" is added next to a non-scalar one
      if k = .joint && (d = 1 || s = 0) && noise != .scalar then .err .value else
      .ok ⟨name, feat, dimAttr, some s, noise, fitM, nb, 0, d, s⟩
    | _, _ => .err .type          -- `self.source_dimension >= 1` / `self.dimension - 1` with `None`

/-- `BaseModel.load` on the parsed file. `others` lists the non-parameter DAG nodes of the model being built. -/
def load (narrow : Fl → Fl) (others : Kind → Nat → Nat → Noise → Nat → Nat → List (String × Other)) (j : JVal) :
    Out Obj :=
  match j with
  | .obj kvs =>
    -- `ModelSettings._check_settings`
    if (kvs.lookup "name").isNone then .err .modelInput else
    if (kvs.lookup "parameters").isNone then .err .modelInput else
    if (kvs.lookup "leaspy_version").isNone then .err .modelInput else
    match kvs.lookup "name", kvs.lookup "parameters" with
    | some (.str nm), some ps =>
      match kindOfName nm.toLower with
      | none => .err .value
      | some none => .err .outside
      | some (some k) =>
        match construct k (hyperOf kvs) with
        | .err e => .err e
        | .ok b =>
          match loadParameters narrow (paramSpec k b.d b.s b.noise b.nClusters b.nbEvents)
              (others k b.d b.s b.noise b.nClusters b.nbEvents) ps with
          | .err e => .err e
          | .ok params =>
            .ok ⟨k, b.name, b.features, b.dimAttr, b.sourceDim, b.noise, b.fitMetrics, b.nbEvents, b.nClusters,
                 params, priorMode params⟩
    | some _, some _ => .err .attribute              -- `settings["name"].lower()`
    | _, _ => .err .modelInput
  | .arr _ => .err .modelInput                        -- `"name" not in settings` holds for a list
  | .str _ => .err .outside
  | _ => .err .type                                   -- `in` on a number / None

/-- the non-parameter node every model with sources writes into the file (code as shipped: nothing is compared) -/
def mixingOther (d s : Nat) : List (String × Other) :=
  if s ≥ 1 then [("mixing_matrix", ⟨true, none, [s, d], false, []⟩)] else []

/-- the same node once the assertions are effective: `cur` is the mixing matrix recomputed by the loaded model -/
def mixingOtherChecked (d s : Nat) (cur : List Fl) : List (String × Other) :=
  if s ≥ 1 then [("mixing_matrix", ⟨true, none, [s, d], true, cur⟩)] else []

/-! ### Construction and initialisation from a dataset (what a fit starts from) -/

/-- keywords of `model_factory(kind, instance_name=…, features=…, dimension=…, source_dimension=…, obs_models=…)`
    as python values -/
structure Ctor where
  kind : Kind
  instanceName : Option String
  features : Option (List String)
  dimension : Option Nat
  sourceDim : Option Nat
  obs : Option Noise
  nClusters : Option Nat
  deriving DecidableEq, Repr

def Ctor.toHp (c : Ctor) : List (String × JVal) :=
  (match c.instanceName with | some n => [("instance_name", JVal.str n)] | none => [])
  ++ (match c.features with | some fs => [("features", JVal.arr (fs.map .str))] | none => [])
  ++ (match c.dimension with | some d => [("dimension", JVal.int d)] | none => [])
  ++ (match c.sourceDim with | some s => [("source_dimension", JVal.int s)] | none => [])
  ++ (match c.obs with | some n => [("obs_models", JVal.str n.toName)] | none => [])
  ++ (match c.nClusters with | some n => [("n_clusters", JVal.int n)] | none => [])

/-- hyperparameter part of an object before its state exists -/
structure Pre where
  name : String
  features : Option (List String)
  dimAttr : Option Nat
  sourceDim : Option Nat
  deriving DecidableEq, Repr

/-- `BaseModel.dimension` (property) before the state exists -/
def Pre.dim (p : Pre) : Option Nat :=
  match p.dimAttr with
  | some d => some d
  | none => p.features.map List.length

/-- `⌊√d⌋` -/
def isqrt (d : Nat) : Nat := (List.range (d + 1)).foldl (fun r k => if k * k ≤ d then k else r) 0

/-- `BaseModel.initialize(dataset)` → `_validate_compatibility_of_dataset` (time-reparametrized kinds, after repair
    F22) → `self.features = dataset.headers`.  `headers` are the feature names of the dataset. -/
def initFromDataset (p : Pre) (headers : List String) : Out Pre :=
  -- `if self.dimension is not None and dataset.dimension != self.dimension`
  if p.dim.isSome && p.dim != some headers.length then .err .modelInput else
  -- `if self.features is not None and dataset.headers != self.features`
  if p.features.isSome && p.features != some headers then .err .modelInput else
  let dd := headers.length
  match p.sourceDim with
  | none => .ok { p with features := some headers, sourceDim := some (min (isqrt dd) (dd - 1)) }
  | some s => if s < dd then .ok { p with features := some headers } else .err .modelInput

/-- the hyperparameter clause of well-formedness: what `load` needs from the attributes (no name clause) -/
def hypWf (features : Option (List String)) (dimAttr sourceDim : Option Nat) : Bool :=
  match features, sourceDim with
  | some fs, some s =>
    !fs.isEmpty && (dimAttr.isNone || dimAttr == some fs.length) && decide (s ≤ fs.length - 1)
  | _, _ => false

/-! ### Closed form of `load ∘ save` -/

/-- the tensor `load_parameters` installs for a stored tensor `t` under the DAG shape `sh` -/
def normTensor (narrow : Fl → Fl) (sh : List Nat) (t : Tensor) : Tensor :=
  ⟨(t.back narrow).dtype, sh, (t.back narrow).data⟩

def normParams (narrow : Fl → Fl) (spec : List (String × List Nat)) (ps : List (String × Tensor)) :
    List (String × Tensor) :=
  List.zipWith (fun e p => (e.1, normTensor narrow e.2 p.2)) spec ps

/-- parameters that `load_parameters` accepts from a file written by `to_dict`: the DAG's names in DAG order, each a
    tensor object with the DAG's number of elements (any shape, any dtype) -/
def paramsLoadable (narrow : Fl → Fl) (spec : List (String × List Nat)) (ps : List (String × Tensor)) : Bool :=
  ps.map Prod.fst == spec.map Prod.fst
    && (List.zip spec ps).all (fun ep => ep.2.2.wf narrow && numel ep.1.2 == numel ep.2.2.shape)

/-- parameters that come back unchanged: fixed points of the normalisation (DAG shapes, default dtype of their
    class, narrowed values) -/
def paramsCanonical (narrow : Fl → Fl) (spec : List (String × List Nat)) (ps : List (String × Tensor)) : Bool :=
  normParams narrow spec ps == ps

/-- Decidable well-formedness of a model object with respect to save / load: everything `load(save(·))` needs.
    Excluded on purpose: nothing about the instance name (F7 is stated separately), `features = None` (F23). -/
def Obj.loadable (X : Ext) (narrow : Fl → Fl)
    (others : Kind → Nat → Nat → Noise → Nat → Nat → List (String × Other)) (o : Obj) : Bool :=
  match o.features, o.sourceDim with
  | some fs, some s =>
    let d := fs.length
    hypWf o.features o.dimAttr o.sourceDim
      -- the observation model is one the factory rebuilds from its own name
      && !(o.noise == .diagonal && d == 1)
      -- kind-specific attributes
      && (if o.kind = .joint then decide (1 ≤ o.nbEvents) && !((d == 1 || s == 0) && o.noise != .scalar)
          else o.nbEvents == 1)
      && (if o.kind = .mixture then decide (2 ≤ o.nClusters) else o.nClusters == 0)
      && paramsLoadable narrow (paramSpec o.kind d s o.noise o.nClusters o.nbEvents) o.params
      -- the derived mixing matrix written next to the parameters is something `load_parameters` lets through
      && (s == 0 || checkOther narrow (others o.kind d s o.noise o.nClusters o.nbEvents)
            ("mixing_matrix", toJson (X.mixing o.kind d s o.pop)) == .ok ())
  | _, _ => false

/-- the object `BaseModel.load` builds from the file of `o` -/
def Obj.reloaded (narrow : Fl → Fl) (o : Obj) : Obj :=
  match o.features, o.sourceDim with
  | some fs, some s =>
    let ps := normParams narrow (paramSpec o.kind fs.length s o.noise o.nClusters o.nbEvents) o.params
    { o with name := o.kind.toName, dimAttr := some fs.length, params := ps, pop := priorMode ps }
  | _, _ => o

/-- a model that its own file reproduces: named after its kind, canonical parameters, population variables at the
    prior mode of the parameters (what the end of a fit and `load` both establish) -/
def Obj.canonical (narrow : Fl → Fl) (o : Obj) : Bool :=
  match o.features, o.sourceDim with
  | some fs, some s =>
    o.name == o.kind.toName
      && paramsCanonical narrow (paramSpec o.kind fs.length s o.noise o.nClusters o.nbEvents) o.params
      && o.pop == priorMode o.params
  | _, _ => false

end LeaspyVerif.Codec
