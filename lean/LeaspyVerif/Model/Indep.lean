/-
Model of the per-individual structure of the likelihood terms (property C07).

  src/leaspy/models/obs_models/_base.py   `nll_attach_ind` = nll summed over all but the individual
                                          axis; `nll_attach` = `SumDim(nll_attach_ind)`
  src/leaspy/variables/specs.py           `nll_regul_<var>_ind`, `nll_regul_ind_sum_ind` (sum over the
                                          individual latent variables), `nll_regul_ind_sum` (its sum)
  src/leaspy/algo/personalize/scipy_minimize.py   one state and one single-individual dataset per subject

Import-free.  The individual axis is the outer list.  A per-individual term is a function
`term pop ind` of the population-level values `pop` and of that individual's own record `ind`
(data + latent values); the batch is `List.map`, a population total is the left-to-right sum.
That the batched tensor code *is* such a map, and that process pools do not change it, is not a
fact about this model: it is what the metamorphic runs of `harness/c07_indep.py` establish.
-/
namespace LeaspyVerif.Indep

/-- `nll_attach_ind`, `nll_regul_<var>_ind`: one value per individual -/
def terms {P I α : Type} (term : P → I → α) (pop : P) (cohort : List I) : List α :=
  cohort.map (term pop)

/-- `SumDim(...)` over the individual axis -/
def total {α : Type} [Add α] [OfNat α 0] (ts : List α) : α := ts.foldl (· + ·) 0

/-- `nll_regul_ind_sum_ind`: entry-wise sum of the per-variable regularity terms -/
def addTerms {α : Type} [Add α] (xs ys : List α) : List α := List.zipWith (· + ·) xs ys

/-- re-indexing of a cohort: `data[[ids[p₀], ids[p₁], …]]` -/
def permute {α : Type} (p : List Nat) (xs : List α) : List α := p.filterMap (xs[·]?)

end LeaspyVerif.Indep
