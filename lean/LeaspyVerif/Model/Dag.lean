/-
Model of dependency-graph construction (property C15, and the well-formedness facts C01 needs).

  src/leaspy/variables/dag.py
    VariablesDAG.__post_init__            → `build`
    _check_consistency_of_nodes /
    _raise_if_bad_nodes_in_edges          → `unknownNodes`, `selfLoops`      (LeaspyInputError)
    _compute_direct_children /
    _raise_if_left_alone_nodes            → `children`, `leftAlone`          (LeaspyInputError)
    compute_topological_order_and_path_matrix → `kahn`, `init`, `processNode`, `relax`  (ValueError)
    compute_sorted_children_and_ancestors → `Result.children`, `Result.ancestors`

Nodes are identified with their rank in the name-sorted list of nodes (the code sorts names first:
`nodes = sorted(direct_ancestors.keys())`, `ix_nodes`), so a graph is `n` and, for each node `m < n`,
the list of its direct ancestors.  Import-free.
-/
namespace LeaspyVerif.Dag

structure Graph where
  n : Nat
  /-- direct ancestors of node `m` (a frozenset in the code: no duplicates; order irrelevant) -/
  anc : Nat → List Nat

inductive Err | input | value
  deriving DecidableEq, Repr

/-- `sorted(direct_children[i])`: the nodes that list `i` among their ancestors, ascending. -/
def Graph.children (g : Graph) (i : Nat) : List Nat :=
  (List.range g.n).filter (fun m => (g.anc m).contains i)

/-- some ancestor is not a node (`unknown_nodes`) -/
def Graph.unknownNodes (g : Graph) : Bool :=
  (List.range g.n).any (fun m => (g.anc m).any (fun a => decide (g.n ≤ a)))

/-- some node is its own ancestor (`self_loops`) -/
def Graph.selfLoops (g : Graph) : Bool :=
  (List.range g.n).any (fun m => (g.anc m).contains m)

/-- some node has neither children nor ancestors (`s_left_alone`) -/
def Graph.leftAlone (g : Graph) : Bool :=
  (List.range g.n).any (fun m => (g.children m).isEmpty && (g.anc m).isEmpty)

/-- State of the modified Kahn loop. -/
structure KS where
  /-- `q_roots` (FIFO) -/
  queue : List Nat
  /-- `sorted_nodes` -/
  out : List Nat
  /-- `direct_ancestors_` : remaining (not yet dropped) ancestors per node -/
  rem : Nat → List Nat
  /-- `path_matrix[a, b]` (indices = name-sorted ranks until the final re-ordering) -/
  P : Nat → Nat → Bool

/-- Body of `for m in direct_children_[n]` for the node `i` being processed. -/
def relax (i : Nat) (s : KS) (m : Nat) : KS :=
  -- path_matrix[:, j] |= path_matrix[:, i] ; path_matrix[i, j] = True
  let P' := fun a b => if b = m then (s.P a m || s.P a i || a == i) else s.P a b
  -- direct_ancestors_[m] = direct_ancestors_[m].difference({n})
  let r := (s.rem m).filter (fun x => x != i)
  { queue := if r.isEmpty then s.queue ++ [m] else s.queue
    out := s.out
    rem := fun x => if x = m then r else s.rem x
    P := P' }

/-- One turn of `while not q_roots.empty()` after `n = q_roots.get()`. -/
def processNode (g : Graph) (s : KS) (i : Nat) : KS :=
  (g.children i).foldl (relax i) { s with out := s.out ++ [i] }

/-- The loop, with fuel (`kahn_queue_empty` in Props/C15 shows `n + 1` turns always suffice). -/
def kahn (g : Graph) : Nat → KS → KS
  | 0, s => s
  | fuel + 1, s =>
    match s.queue with
    | [] => s
    | i :: q => kahn g fuel (processNode g { s with queue := q } i)

def init (g : Graph) : KS :=
  { queue := (List.range g.n).filter (fun m => (g.anc m).isEmpty)
    out := []
    rem := g.anc
    P := fun _ _ => false }

/-- `torch.equal(path_matrix, path_matrix.triu(1))` after re-ordering rows/columns by `out`:
    every true entry lies strictly above the diagonal. -/
def triangular (out : List Nat) (P : Nat → Nat → Bool) : Bool :=
  out.zipIdx.all fun (a, r) =>
    out.zipIdx.all fun (b, c) =>
      !(P a b) || decide (r < c)

structure Result where
  /-- `sorted_variables_names` -/
  order : List Nat
  /-- `sorted_children[i]` -/
  children : Nat → List Nat
  /-- `sorted_ancestors[i]` -/
  ancestors : Nat → List Nat

def kahnRun (g : Graph) : KS := kahn g (g.n + 1) (init g)

def build (g : Graph) : Except Err Result :=
  if g.unknownNodes then .error .input
  else if g.selfLoops then .error .input
  else if g.leftAlone then .error .input
  else
    let s := kahnRun g
    -- `set(sorted_nodes) != set(nodes)`
    if !((List.range g.n).all (fun m => s.out.contains m) && s.out.all (fun m => decide (m < g.n))) then
      .error .value
    else if !(triangular s.out s.P) then .error .value
    else .ok
      { order := s.out
        children := fun i => s.out.filter (fun j => s.P i j)
        ancestors := fun i => s.out.filter (fun a => s.P a i) }

/-- Graph from the wire format: list of ancestor lists. -/
def Graph.ofLists (l : List (List Nat)) : Graph :=
  { n := l.length, anc := fun m => l.getD m [] }

end LeaspyVerif.Dag
