/-
Model of the individual-trajectory closed forms and of `estimate` (property C09; the
exp/log-dependent formulas used by the gauge property C10 live here too).

  src/leaspy/models/time_reparametrized.py   `time_reparametrization`, `alpha = Exp("xi")`
  src/leaspy/models/logistic.py              `LogisticModel.metric`, `.model_with_sources`
  src/leaspy/models/linear.py                `LinearModel.metric`, `.model_with_sources`
  src/leaspy/models/shared_speed_logistic.py `deltas_exp`, `g_deltas_exp`, `metric`, `pad_deltas`,
                                             `.model_with_sources`
  src/leaspy/models/riemanian_manifold.py    `v0 = Exp("log_v0")`, `model_no_sources`
  src/leaspy/models/mcmc_saem_compatible.py  `compute_individual_trajectory` (one row per age, in order)
  src/leaspy/models/base.py                  `BaseModel.estimate` (dict / MultiIndex input, re-indexing join)
  src/leaspy/variables/distributions.py      `WeibullRightCensored(WithSources)Family._extract_reparametrized_nu`
  src/leaspy/models/joint.py                 `_exp_neg_n_log_nu`

Import-free.  Every numeric definition is polymorphic in the number type and in the provider of
`exp`/`log` (`ExpLog`), so that the very same definition is executed on `Float` by the drivers and
reasoned about on `ℝ` in `Props/C09.lean`, `Props/C10.lean`.
-/
namespace LeaspyVerif.Traj

/-- provider of the two transcendental functions the models use (`torch.exp`, `torch.log`). -/
class ExpLog (α : Type) where
  exp : α → α
  log : α → α

instance : ExpLog Float := ⟨Float.exp, Float.log⟩

section Scalar
variable {α : Type} [Add α] [Sub α] [Mul α] [Div α] [Neg α] [OfNat α 1] [ExpLog α]

/-- `alpha = Exp("xi")` -/
def alpha (xi : α) : α := ExpLog.exp xi

/-- `time_reparametrization`: `alpha * (t - tau)` -/
def rt (alpha t tau : α) : α := alpha * (t - tau)

/-- `torch.sigmoid` -/
def sigmoid (x : α) : α := 1 / (1 + ExpLog.exp (-x))

/-- `LogisticModel.metric`: `(g + 1) ** 2 / g` -/
def logisticMetric (g : α) : α := (g + 1) * (g + 1) / g

/-- one entry of `LogisticModel.model_with_sources`:
    `sigmoid(metric * (v0 * rt + space_shift) - log(g))` -/
def logisticVal (metric v0 g r w : α) : α := sigmoid (metric * (v0 * r + w) - ExpLog.log g)

/-- one entry of `LinearModel.model_with_sources`: `g + v0 * rt + space_shift` -/
def linearVal (g v0 r w : α) : α := g + v0 * r + w

/-- `SharedSpeedLogisticModel.deltas_exp`: `exp(-1 * deltas_padded)` -/
def deltasExp (delta : α) : α := ExpLog.exp (-(1 : α) * delta)

/-- `SharedSpeedLogisticModel.g_deltas_exp`: `g * deltas_exp` -/
def gDeltasExp (g de : α) : α := g * de

/-- `SharedSpeedLogisticModel.metric`: `(g_deltas_exp + 1) ** 2 / g_deltas_exp` -/
def sharedMetric (gde : α) : α := (gde + 1) * (gde + 1) / gde

/-- one entry of `SharedSpeedLogisticModel.model_with_sources`:
    `sigmoid(metric * space_shift + rt + deltas_padded - log_g)` -/
def sharedVal (metric delta logG r w : α) : α := sigmoid (metric * w + r + delta - logG)

/-- `JointModel._exp_neg_n_log_nu`: `exp(-1 * n_log_nu)` -/
def nuOf (nLogNu : α) : α := ExpLog.exp (-(1 : α) * nLogNu)

/-- `WeibullRightCensoredFamily._extract_reparametrized_nu`: `exp(-xi) * nu` -/
def nuRep (nu xi : α) : α := ExpLog.exp (-xi) * nu

/-- `WeibullRightCensoredWithSourcesFamily._extract_reparametrized_nu`:
    `nu * exp(-(xi + (1 / rho) * survival_shifts))` -/
def nuRepSources (nu rho xi s : α) : α := nu * ExpLog.exp (-(xi + (1 / rho) * s))

/-- `_extract_reparametrized_event`: `event_time - tau` -/
def eventRep (event tau : α) : α := event - tau

end Scalar

/-- Feature-wise combination of three population/individual vectors; `none` where torch would
    refuse to broadcast (lengths differ). -/
def zip3With? {α β γ δ : Type} (f : α → β → γ → δ) : List α → List β → List γ → Option (List δ)
  | [], [], [] => some []
  | a :: as, b :: bs, c :: cs => (zip3With? f as bs cs).map (f a b c :: ·)
  | _, _, _ => none

def zip2With? {α β δ : Type} (f : α → β → δ) : List α → List β → Option (List δ)
  | [], [] => some []
  | a :: as, b :: bs => (zip2With? f as bs).map (f a b :: ·)
  | _, _ => none

section Rows
variable {α : Type} [Add α] [Sub α] [Mul α] [Div α] [Neg α] [OfNat α 0] [OfNat α 1] [ExpLog α]

/-- `space_shifts = torch.zeros((1, 1))` of `model_no_sources`, broadcast over the features -/
def noShift (logG : List α) : List α := logG.map (fun _ => 0)

/-- `deltas_padded = cat([0.], deltas)` -/
def padDeltas (deltas : List α) : List α := 0 :: deltas

/-- Logistic model, one individual: population `log_g`, `log_v0` (the latent population variables:
    `g = exp log_g`, `v0 = exp log_v0`, `metric = metric(g)`), space shift `w` per feature,
    individual `xi`, `tau`; one row (list over features) per requested age, in the order given. -/
def logisticTraj (logG logV0 w : List α) (xi tau : α) (ages : List α) : Option (List (List α)) :=
  ages.mapM fun t =>
    zip3With? (fun lg lv wk =>
      let g := ExpLog.exp lg
      logisticVal (logisticMetric g) (ExpLog.exp lv) g (rt (alpha xi) t tau) wk) logG logV0 w

/-- Linear model, one individual: population `g`, `log_v0`. -/
def linearTraj (g logV0 w : List α) (xi tau : α) (ages : List α) : Option (List (List α)) :=
  ages.mapM fun t =>
    zip3With? (fun gk lv wk => linearVal gk (ExpLog.exp lv) (rt (alpha xi) t tau) wk) g logV0 w

/-- Shared-speed logistic model, one individual: population scalar `log_g`, `deltas` (dimension − 1). -/
def sharedTraj (logG : α) (deltas w : List α) (xi tau : α) (ages : List α) : Option (List (List α)) :=
  let dp := padDeltas deltas
  ages.mapM fun t =>
    zip2With? (fun d wk =>
      sharedVal (sharedMetric (gDeltasExp (ExpLog.exp logG) (deltasExp d))) d logG (rt (alpha xi) t tau) wk)
      dp w

end Rows

/-! ### `BaseModel.estimate`

`ι` identifiers, `τ` ages, `π` individual parameters, `ρ` one row of estimated values.
`f p t` is the row `compute_individual_trajectory` returns for age `t` (it returns one row per
requested age, in the order given: the per-age functions above).  A table is a list of
`((id, age), row)`; a missing right-hand side in the final join is `none` (pandas: a NaN row). -/
section Estimate
variable {ι τ π ρ : Type}

/-- dict input, dict output: `for subj_id, tpts in timepoints.items(): ip = individual_parameters[subj_id]; …`.
    `none` = `KeyError`-like failure on an identifier without individual parameters. -/
def estimateDict (ips : ι → Option π) (f : π → τ → ρ) (req : List (ι × List τ)) :
    Option (List (ι × List (τ × ρ))) :=
  req.mapM fun it => (ips it.1).map fun p => (it.1, it.2.map fun t => (t, f p t))

/-- `pd.concat({subj_id: DataFrame(ests, index=timepoints[subj_id])}, names=["ID","TIME"])` -/
def toFrame (d : List (ι × List (τ × ρ))) : List ((ι × τ) × ρ) :=
  d.flatMap fun it => it.2.map fun tr => ((it.1, tr.1), tr.2)

/-- dict input, `to_dataframe=True` -/
def estimateFrame (ips : ι → Option π) (f : π → τ → ρ) (req : List (ι × List τ)) :
    Option (List ((ι × τ) × ρ)) :=
  (estimateDict ips f req).map toFrame

variable [DecidableEq ι] [DecidableEq τ]

/-- first-occurrence de-duplication of a list of identifiers -/
def dedup : List ι → List ι
  | [] => []
  | i :: is => i :: (dedup is).filter (· ≠ i)

/-- `timepoints.to_frame()["TIME"].groupby("ID")`: one group per identifier, groups in sorted
    identifier order (`le`), ages of a group in their order of appearance in the index. -/
def groupById (le : ι → ι → Bool) (ix : List (ι × τ)) : List (ι × List τ) :=
  ((dedup (ix.map (·.1))).mergeSort le).map fun i =>
    (i, ix.filterMap fun it => if it.1 = i then some it.2 else none)

/-- `MultiIndex` input, `to_dataframe=False`: the dict built from the groups. -/
def estimateIndexDict (le : ι → ι → Bool) (ips : ι → Option π) (f : π → τ → ρ) (ix : List (ι × τ)) :
    Option (List (ι × List (τ × ρ))) :=
  estimateDict ips f (groupById le ix)

/-- `estimations[~estimations.index.duplicated()]` (keep the first row of every key). -/
def dropDupKeys {κ : Type} [DecidableEq κ] (seen : List κ) : List (κ × ρ) → List (κ × ρ)
  | [] => []
  | e :: es => if e.1 ∈ seen then dropDupKeys seen es else e :: dropDupKeys (e.1 :: seen) es

/-- `empty_df_like_ests[[]].join(estimations, on=["ID","TIME"])`: left join; every left row is
    replaced by all the right rows with its key (one `none` row when there is none). -/
def joinOn {κ : Type} [DecidableEq κ] (ix : List κ) (right : List (κ × ρ)) : List (κ × Option ρ) :=
  ix.flatMap fun k =>
    match right.filter (fun e => e.1 = k) with
    | [] => [(k, none)]
    | ms => ms.map fun e => (k, some e.2)

/-- `MultiIndex` input, data-frame output (the default), as repaired by fix F17:
    group, estimate, concatenate, drop duplicated keys, join back on the requested index. -/
def estimateIndexFrame (le : ι → ι → Bool) (ips : ι → Option π) (f : π → τ → ρ) (ix : List (ι × τ)) :
    Option (List ((ι × τ) × Option ρ)) :=
  (estimateIndexDict le ips f ix).map fun d => joinOn ix (dropDupKeys [] (toFrame d))

/-- the same before fix F17 (no de-duplication before the join): kept to state the defect. -/
def estimateIndexFrameNoDedup (le : ι → ι → Bool) (ips : ι → Option π) (f : π → τ → ρ) (ix : List (ι × τ)) :
    Option (List ((ι × τ) × Option ρ)) :=
  (estimateIndexDict le ips f ix).map fun d => joinOn ix (toFrame d)

end Estimate

end LeaspyVerif.Traj
