/-
Draw programs (C11): the random-draw discipline of a seeded run as a program over abstract generators.
Import-free.

What is modelled.  `harness/draws_c11.py` records, during a REAL seeded `fit` / `personalize` / `simulate`, every event that
touches a random generator, in order (call-through wrappers on `random.*`, `np.random.*`, `torch.manual_seed/seed/get_rng_state/
set_rng_state`, `torch.Generator`, scipy `rvs`, and a `TorchFunctionMode` for every torch draw).  One recorded run = one `Prog`.
The code that produced it is a deterministic function of the values it drew (`Code`, an adaptive program: the number of draws
may depend on the values drawn — `algo/simulate/simulate.py:_generate_visit_ages` loops until the follow-up time is reached).

  generators   `0` python `random`, `1` numpy's global `RandomState`, `2` torch's default generator, `3…` generator objects
  `Interp`     an arbitrary interpretation of the generators as streams: `init g v` the state after seeding generator `g` with
               value `v`, `next g kind amount s` the value drawn and the next state.  Nothing is assumed about it.
  `World`      what the process holds when the run starts: the state of every generator (its history), the contents of state
               snapshots, and what the outside world will answer to entropy seeding.
  `seededFirst` the decidable discipline: every draw is from a generator that was seeded (with a value that is a function of the
               run's seed / a literal) earlier in the same run, or restored from a snapshot taken after such a seeding; no
               event the recorder cannot vouch for.  `algo/base.py:_initialize_seed` + `run` is what establishes it.
  `noLoggingDraws` the decidable form of hypothesis (H2) of `Props/C11.logging_transparent`: no event with a logging call site
               (`algo/fit/fit_output_manager.py`, `io/logs/`) moves a generator.
-/
namespace LeaspyVerif.Draws

/-- class of the call site of an event (innermost deciding leaspy frame; `logging` when any frame is logging code) -/
inductive Site where
  | algorithm | sampler | initialization | logging | other
  deriving DecidableEq, Repr

/-- what a generator is seeded with -/
inductive SeedVal where
  /-- the `seed` of the public call (`AlgorithmSettings.seed`) -/
  | run
  /-- a literal (e.g. the default seed of a fresh `torch.Generator()`) -/
  | const (n : Nat)
  deriving DecidableEq, Repr

def SeedVal.eval (seed : Nat) : SeedVal → Nat
  | .run => seed
  | .const n => n

inductive Op where
  /-- `random.seed(v)`, `np.random.seed(v)`, `torch.manual_seed(v)`, `Generator.manual_seed(v)`, `torch.Generator()` -/
  | seed (g : Nat) (v : SeedVal)
  /-- seeding from the clock / the OS: `random.seed()`, `np.random.seed(None)`, `torch.seed()`, `Generator.seed()` -/
  | entropy (g : Nat)
  /-- a draw of `amount` values by the function / dtype coded `kind` -/
  | draw (g kind amount : Nat)
  /-- `get_rng_state` / `np.random.get_state` / `random.getstate` into snapshot `slot` -/
  | save (g slot : Nat)
  /-- `set_rng_state` / … from snapshot `slot` (a content never saved in this run has a slot of its own) -/
  | restore (g slot : Nat)
  /-- the recorder cannot vouch for generator `g` here (it moved without a recorded event, or its draws are invisible) -/
  | unknown (g : Nat)
  /-- not a generator event: a logging action starts -/
  | note (tag : Nat)
  deriving DecidableEq, Repr

structure Ev where
  site : Site
  op : Op
  deriving DecidableEq, Repr

abbrev Prog := List Ev

def Prog.ops (p : Prog) : List Op := p.map (·.op)

/-! ## Semantics -/

structure Interp (S V : Type) where
  init : Nat → Nat → S
  next : Nat → Nat → Nat → S → V × S

structure World (S : Type) where
  /-- state of every generator: the history of the process -/
  gen : Nat → S
  /-- contents of the state snapshots lying around -/
  slot : Nat → S
  /-- what the outside world supplies when a generator is seeded from entropy (or touched behind the recorder's back) -/
  ext : Nat → S

def upd {α : Type} (f : Nat → α) (i : Nat) (x : α) : Nat → α := fun j => if j = i then x else f j

/-- one event: new world, value handed to the program (draws only) -/
def step {S V : Type} (I : Interp S V) (seed : Nat) (w : World S) : Op → World S × Option V
  | .seed g v => ({ w with gen := upd w.gen g (I.init g (v.eval seed)) }, none)
  | .entropy g => ({ w with gen := upd w.gen g (w.ext g) }, none)
  | .draw g k n => let r := I.next g k n (w.gen g); ({ w with gen := upd w.gen g r.2 }, some r.1)
  | .save g s => ({ w with slot := upd w.slot s (w.gen g) }, none)
  | .restore g s => ({ w with gen := upd w.gen g (w.slot s) }, none)
  | .unknown g => ({ w with gen := upd w.gen g (w.ext g) }, none)
  | .note _ => (w, none)

def consOpt {V : Type} : Option V → List V → List V
  | some v, l => v :: l
  | none, l => l

/-- a list of operations from a world: final world and the values drawn, in order -/
def execOps {S V : Type} (I : Interp S V) (seed : Nat) : World S → List Op → World S × List V
  | w, [] => (w, [])
  | w, o :: os =>
    let r := step I seed w o
    let r' := execOps I seed r.1 os
    (r'.1, consOpt r.2 r'.2)

def exec {S V : Type} (I : Interp S V) (seed : Nat) (w : World S) (p : Prog) : World S × List V :=
  execOps I seed w p.ops

/-- the values drawn by a run -/
def draws {S V : Type} (I : Interp S V) (seed : Nat) (w : World S) (p : Prog) : List V := (exec I seed w p).2

/-! ## The code as a function of the values it draws -/

/-- an adaptive program: after every event the continuation sees the value drawn (`none` for events that draw nothing) -/
inductive Code (V R : Type) where
  | ret : R → Code V R
  | ev : Ev → (Option V → Code V R) → Code V R

/-- running the code from a world: the recorded program (its trace), the values drawn, the result -/
def runCode {S V R : Type} (I : Interp S V) (seed : Nat) : Code V R → World S → Prog × List V × R
  | .ret r, _ => ([], [], r)
  | .ev e k, w =>
    let s := step I seed w e.op
    let r := runCode I seed (k s.2) s.1
    (e :: r.1, consOpt s.2 r.2.1, r.2.2)

/-- straight-line code: a fixed program whose result is a function `f` of the values drawn -/
def Code.ofProg {V R : Type} (f : List V → R) : Prog → List V → Code V R
  | [], acc => .ret (f acc.reverse)
  | e :: p, acc => .ev e (fun v => Code.ofProg f p (consOpt v acc))

/-! ## The decidable discipline -/

/-- which generators / snapshots are, at this point of the run, determined by the run itself -/
structure Known where
  gens : Nat → Bool
  slots : Nat → Bool

def Known.nothing : Known := ⟨fun _ => false, fun _ => false⟩

/-- transfer function of the analysis; `none` = this event is a defect under what is known -/
def Known.after (k : Known) : Op → Option Known
  | .seed g _ => some { k with gens := upd k.gens g true }
  | .entropy g => some { k with gens := upd k.gens g false }
  | .draw g _ _ => if k.gens g then some k else none
  | .save g s => some { k with slots := upd k.slots s (k.gens g) }
  | .restore g s => some { k with gens := upd k.gens g (k.slots s) }
  | .unknown _ => none
  | .note _ => some k

/-- index (counted from `i`) of the first event that is a defect -/
def firstBadOps (k : Known) (i : Nat) : List Op → Option Nat
  | [] => none
  | o :: os =>
    match k.after o with
    | none => some i
    | some k' => firstBadOps k' (i + 1) os

def firstBad (p : Prog) : Option Nat := firstBadOps Known.nothing 0 p.ops

/-- every draw of the run is from a generator the run seeded (or restored from a snapshot of a seeded state) before -/
def seededFirst (p : Prog) : Bool := (firstBad p).isNone

/-- generator-moving operations (a `save` only reads) -/
def Op.moves : Op → Bool
  | .seed .. | .entropy .. | .draw .. | .restore .. | .unknown .. => true
  | .save .. | .note .. => false

def Ev.loggingMove (e : Ev) : Bool := decide (e.site = .logging) && e.op.moves

/-- number of generator-moving events whose call site is logging code -/
def loggingDraws (p : Prog) : Nat := (p.filter Ev.loggingMove).length

/-- (H2), decided on a recorded run -/
def noLoggingDraws (p : Prog) : Bool := loggingDraws p == 0

def Op.inert : Op → Bool
  | .note _ => true
  | _ => false

/-- the program without its markers: what must not depend on logging settings nor on process history -/
def strip (p : Prog) : Prog := p.filter (fun e => !e.op.inert)

/-- operations of the plain fragment: seedings, draws and markers only (what every recorded run of the unchanged code is made of) -/
def Op.plain : Op → Bool
  | .seed .. | .draw .. | .note .. => true
  | _ => false

/-- generators drawn from, in order of first use -/
def gensUsed (p : Prog) : List Nat :=
  p.foldl (fun acc e => match e.op with
    | .draw g _ _ => if acc.contains g then acc else acc ++ [g]
    | _ => acc) []

/-! ### A digest of the stripped program (driver output; equality of digests stands for equality of `strip`) -/

def Site.code : Site → Nat
  | .algorithm => 1 | .sampler => 2 | .initialization => 3 | .logging => 4 | .other => 5

def SeedVal.code : SeedVal → Nat
  | .run => 1
  | .const n => 2 * n + 2

def Op.code : Op → List Nat
  | .seed g v => [1, g, v.code]
  | .entropy g => [2, g]
  | .draw g k n => [3, g, k, n]
  | .save g s => [4, g, s]
  | .restore g s => [5, g, s]
  | .unknown g => [6, g]
  | .note t => [7, t]

def mix (h x : Nat) : Nat := (h * 1000003 + x + 1) % 2305843009213693951

def sig (p : Prog) : Nat :=
  (strip p).foldl (fun h e => (e.site.code :: e.op.code).foldl mix (mix h 0)) 7

/-! ### Shapes found in the code (used by the refutations in `Props/C11.lean`) -/

/-- F32, `models/base.py:BaseModel.fit` as shipped, `initialization_method="random"`: `initialize` (4 × `torch.normal` in
    `models/logistic.py:_compute_initial_values_for_model_parameters`) ran BEFORE `algorithm.run` seeded the generators. -/
def shippedRandomInitFit : Prog :=
  [⟨.initialization, .draw 2 1 3⟩, ⟨.initialization, .draw 2 1 3⟩,
   ⟨.algorithm, .seed 0 .run⟩, ⟨.algorithm, .seed 1 .run⟩, ⟨.algorithm, .seed 2 .run⟩,
   ⟨.algorithm, .draw 0 3 6⟩, ⟨.sampler, .draw 2 2 1⟩, ⟨.sampler, .draw 2 4 1⟩]

/-- the same call after repair F32: `fit` seeds, initializes, and `run` seeds again -/
def repairedRandomInitFit : Prog :=
  [⟨.algorithm, .seed 0 .run⟩, ⟨.algorithm, .seed 1 .run⟩, ⟨.algorithm, .seed 2 .run⟩,
   ⟨.initialization, .draw 2 1 3⟩, ⟨.initialization, .draw 2 1 3⟩,
   ⟨.algorithm, .seed 0 .run⟩, ⟨.algorithm, .seed 1 .run⟩, ⟨.algorithm, .seed 2 .run⟩,
   ⟨.algorithm, .draw 0 3 6⟩, ⟨.sampler, .draw 2 2 1⟩, ⟨.logging, .note 0⟩, ⟨.sampler, .draw 2 4 1⟩]

/-- `_initialize_seed` without `np.random.seed` (the docstring of `algo/base.py:_initialize_seed` says why numpy is seeded):
    `simulate` draws from numpy's global generator only -/
def numpyUnseededSimulate : Prog :=
  [⟨.algorithm, .seed 0 .run⟩, ⟨.algorithm, .seed 2 .run⟩, ⟨.algorithm, .draw 1 5 4⟩, ⟨.algorithm, .draw 1 5 1⟩]

/-- a toy interpretation for the refutations: the state is a counter, a draw returns it -/
def toyInterp : Interp Nat Nat := ⟨fun g v => 100 * (g + 1) + v, fun _ _ n s => (s, s + n)⟩

/-- a process whose generators are all in state `x` -/
def worldOf {S : Type} (x : S) : World S := ⟨fun _ => x, fun _ => x, fun _ => x⟩

/-! ### Reading logging actions off recorded programs (bridge to `Api.runFit`)

`Api.runFit` threads ONE stream of remaining draws (`List D`) through steps and logging actions.  Here that stream is the state
of generator `g`; a logging action executes the events recorded inside it. -/

def actOfProg {A St D V : Type} (I : Interp (List D) V) (seed g : Nat) (bg : World (List D))
    (read : A → St → St) (lp : A → St → Prog) : A → St → List D → St × List D :=
  fun a s d => (read a s, (exec I seed { bg with gen := upd bg.gen g d } (lp a s)).1.gen g)

end LeaspyVerif.Draws
