/-
Model of the maximisation step of MCMC-SAEM (property C04).

  src/leaspy/models/mcmc_saem_compatible.py   `update_parameters` (all updates computed, then mass-assigned)
  src/leaspy/variables/specs.py               `ModelParameter.for_pop_mean / for_ind_mean / for_ind_std`,
                                              `compute_update` (burn-in rule when given)
  src/leaspy/variables/utilities.py           `compute_individual_parameter_std_from_sufficient_statistics`
  src/leaspy/models/utilities.py              `compute_std_from_variance` (tolerance guard), `compute_probs_from_state`,
                                              `compute_ind_param_mean_from_suff_stats_mixture`,
                                              `compute_ind_param_std_from_suff_stats_mixture(_burn_in)`
  src/leaspy/models/mixture.py                `get_variables_specs`: `tau/xi/sources_mean = for_ind_mean_mixture`,
                                              `tau/xi_std = for_ind_std_mixture`, `probs = for_probs`
  src/leaspy/models/obs_models/_gaussian.py   `scalar_noise_std_update`, `diagonal_noise_std_update`,
                                              `y_L2(_per_ft)`, `n_obs(_per_ft)`

Import-free; polymorphic in the number type (`Rat` in the driver, an ordered field in `Props/C04.lean`).
Square roots are not taken: the model returns *variances* (`compute_std_from_variance` = guard + sqrt,
`torch.std` = sqrt of the Bessel-corrected variance) and the harness compares squares.
Tensors: an individual statistic of shape `(n_individuals, d)` is a list of rows; masked tensors are
flattened lists of `(value, observed)` cells with a list `keys` giving the feature index of each cell.
-/
namespace LeaspyVerif.MStep

section
variable {α : Type} [Add α] [Sub α] [Mul α] [Div α] [OfNat α 0] [OfNat α 1] [NatCast α]

/-- `torch.sum` over a list (exact) -/
def sum : List α → α
  | [] => 0
  | x :: xs => x + sum xs

/-- `torch.mean(x, dim=LVL_IND)` for one coordinate: `sum / n` (`n = 0` gives `0/0`, as torch gives `nan`). -/
def mean (xs : List α) : α := sum xs / (xs.length : α)

/-- `ModelParameter.for_pop_mean`: `Identity(pop_var)` — the (averaged) latent value itself. -/
def popMean (s : α) : α := s

/-- `ModelParameter.for_ind_mean`: `Mean(ind_var, dim=LVL_IND)`. -/
def indMean (xs : List α) : α := mean xs

/-- burn-in rule of `for_ind_std`: `Std(ind_var, dim=LVL_IND)` = `torch.std`, unbiased (Bessel) by default:
    the variance is `Σ (x - mean)² / (n - 1)`.  No tolerance guard in this phase. -/
def indVarBurnIn (xs : List α) : α :=
  let m := mean xs
  sum (xs.map (fun x => (x - m) * (x - m))) / ((xs.length - 1 : Nat) : α)

/-- `compute_individual_parameter_std_from_sufficient_statistics` before the guard:
    `mean(x²) - 2 * old_mean * mean(x) + old_mean ** 2`  (with the operation order of the code). -/
def indVar (oldMean : α) (xs xsqr : List α) : α :=
  (mean xsqr - (1 + 1) * oldMean * mean xs) + oldMean * oldMean

end

inductive MErr where
  | convergence   -- `LeaspyConvergenceError` of `compute_std_from_variance`
  | missing       -- a statistic / old value the rule needs is absent (python `KeyError`)
  | shape
  | nan           -- no exception in python: the tensor holds `nan` (`0/0`, `sqrt` of a negative number)
  | inf           -- no exception in python: the tensor holds `±inf` (`a/0`, `a ≠ 0`)
deriving DecidableEq, Repr

/-- `compute_std_from_variance` without the final `sqrt`: `if (variance < tol).any(): raise`. -/
def guardVar {α : Type} [LT α] [DecidableLT α] (tol : α) (v : List α) : Except MErr (List α) :=
  if v.any (fun x => decide (x < tol)) then .error .convergence else .ok v

/-! ### noise updates -/

section
variable {α : Type} [Add α] [Sub α] [Mul α] [Div α] [OfNat α 0] [OfNat α 1] [NatCast α]

/-- weighted sum of the cells attributed to output `k` (`wsum` with `fill_value=0`, see `Model/Masked.lean`) -/
def wsumKey (keys : List Nat) (k : Nat) (cells : List (α × Bool)) : α :=
  sum (((cells.zip keys).filter (fun p => p.2 == k)).map (fun p => if p.1.2 then p.1.1 else 0))

/-- number of observed cells attributed to output `k` (`n_obs`, `n_obs_per_ft`: sum of the weights of `y`) -/
def countKey (keys : List Nat) (k : Nat) (cells : List (α × Bool)) : Nat :=
  ((cells.zip keys).filter (fun p => p.2 == k && p.1.2)).length

/-- what the noise rules read: `y` (data variable, weighted by the mask) from the state, the statistic
    `y_x_model` (a weighted tensor carrying the weights of `y`) and the statistic `model_x_model`
    (a regular tensor). -/
structure NoiseIn (α : Type) where
  y : List (α × Bool)
  yxm : List (α × Bool)
  mxm : List α

/-- `WeightedTensor(model_x_model, y_x_model.weight)` -/
def reweight (v : List α) (c : List (α × Bool)) : List (α × Bool) :=
  List.zipWith (fun x (d : α × Bool) => (x, d.2)) v c

/-- `y_L2` / `y_L2_per_ft`: `Sqr("y").then(wsum_dim_return_weighted_sum_only[, but_dim=LVL_FT])` -/
def yL2 (keys : List Nat) (k : Nat) (y : List (α × Bool)) : α :=
  wsumKey keys k (y.map (fun c => (c.1 * c.1, c.2)))

/-- `diagonal_noise_std_update`, feature `k`, before the guard:
    `(y_L2_per_ft + sum_dim(-2 * y_x_model + model_x_model, but_dim=LVL_FT)) / n_obs_per_ft`. -/
def noiseVarDiag (keys : List Nat) (k : Nat) (i : NoiseIn α) : α :=
  let comb := List.zipWith (fun (c : α × Bool) m => ((0 - (1 + 1)) * c.1 + m, c.2)) i.yxm i.mxm
  (yL2 keys k i.y + wsumKey keys k comb) / (countKey keys k i.y : α)

/-- `scalar_noise_std_update` **after the repair F3**, before the guard:
    `(y_L2 - 2 * sum_dim(y_x_model) + sum_dim(WeightedTensor(model_x_model, y_x_model.weight))) / n_obs`
    (`keys` all `0`: full sums). -/
def noiseVarScalar (keys : List Nat) (i : NoiseIn α) : α :=
  (yL2 keys 0 i.y - (1 + 1) * wsumKey keys 0 i.yxm + wsumKey keys 0 (reweight i.mxm i.yxm))
    / (countKey keys 0 i.y : α)

/-- `scalar_noise_std_update` **before the repair**: `sum_dim(model_x_model)` sums the regular tensor. -/
def noiseVarScalarOld (keys : List Nat) (i : NoiseIn α) : α :=
  (yL2 keys 0 i.y - (1 + 1) * wsumKey keys 0 i.yxm + wsumKey keys 0 (i.mxm.map (fun x => (x, true))))
    / (countKey keys 0 i.y : α)

/-! ### mixture probabilities -/

/-- `torch.nn.Softmax(dim=1)` on one row given the (positive) exponentials `exp(clamp(-nll, -100))`. -/
def softmaxRow (w : List α) : List α := w.map (fun x => x / sum w)

/-- column sums of a list of rows of common length `K` -/
def colSums (K : Nat) (rows : List (List α)) : List α :=
  rows.foldr (fun r acc => List.zipWith (· + ·) r acc) (List.replicate K 0)

/-- `compute_probs_from_state`: `probs_ind.sum(dim=0) / n_inds` -/
def mixtureProbs (K : Nat) (expo : List (List α)) : List α :=
  (colSums K (expo.map softmaxRow)).map (fun s => s / (expo.length : α))

end

/-! ### the batched update -/

/-- `update_parameters`: every rule is evaluated on the *same* pre-step values `old` and statistics `S`
    (`params_updates[mp_name] = mp_var.compute_update(state=state, …)` for all, then the mass assignment). -/
def updateAll {σ τ ρ : Type} (old : σ) (S : τ) (rules : List (String × (σ → τ → ρ))) : List (String × ρ) :=
  rules.map (fun nr => (nr.1, nr.2 old S))

/-- what a *sequential* update would do (each assignment visible to the following rules) — not what the
    code does; kept to state the difference. `set` writes a new value into the state. -/
def updateSeq {σ τ ρ : Type} (set : σ → String → ρ → σ) (S : τ) :
    σ → List (String × (σ → τ → ρ)) → List (String × ρ)
  | _, [] => []
  | st, (n, r) :: rest => let v := r st S; (n, v) :: updateSeq set S (set st n v) rest

/-! ### concrete rules used by the driver -/

/-- pre-step parameter values read by rules (`state[f"{name}_mean"]`), one vector per name -/
abbrev Old (α : Type) := List (String × List α)
/-- sufficient statistics: individual ones are `n × d` (list of rows), population ones `1 × d` -/
structure Stats (α : Type) where
  named : List (String × List (List α))
  noise : Option (NoiseIn α × List Nat × Nat)   -- cells, feature key of each cell, number of features

def lookup {β : Type} (l : List (String × β)) (k : String) : Except MErr β :=
  match l.find? (fun p => p.1 == k) with
  | some p => .ok p.2
  | none => .error .missing

/-- columns of an `n × d` statistic (error if ragged or empty: `d` is read off the first row) -/
def columns {α : Type} (rows : List (List α)) : Except MErr (List (List α)) :=
  match rows with
  | [] => .error .shape
  | r :: _ =>
    if rows.all (fun x => x.length == r.length) then
      .ok ((List.range r.length).map (fun j => rows.filterMap (fun x => x[j]?)))
    else .error .shape

inductive Rule (α : Type) where
  | popMean (var : String)
  | indMean (var : String)
  | indStd (var : String) (tol : α)      -- result: variance
  | noiseScalar (tol : α)                -- result: variance (1 value)
  | noiseDiag (tol : α)                  -- result: variances (one per feature)

section
variable {α : Type} [Add α] [Sub α] [Mul α] [Div α] [OfNat α 0] [OfNat α 1] [NatCast α] [LT α] [DecidableLT α]

/-- `ModelParameter.compute_update` for the five kinds of rule. -/
def Rule.apply (burnIn : Bool) (r : Rule α) (old : Old α) (S : Stats α) : Except MErr (List α) :=
  match r with
  | .popMean v => do
      let rows ← lookup S.named v
      match rows with
      | [row] => pure (row.map MStep.popMean)
      | _ => .error .shape
  | .indMean v => do
      let cols ← (lookup S.named v) >>= columns
      pure (cols.map MStep.indMean)
  | .indStd v tol => do
      let cols ← (lookup S.named v) >>= columns
      if burnIn then
        pure (cols.map indVarBurnIn)
      else do
        let sq ← (lookup S.named (v ++ "_sqr")) >>= columns
        let om ← lookup old (v ++ "_mean")
        if om.length ≠ cols.length ∨ sq.length ≠ cols.length then .error .shape else
        guardVar tol (List.zipWith (fun (p : α × List α) q => indVar p.1 p.2 q) (om.zip cols) sq)
  | .noiseScalar tol =>
      match S.noise with
      | none => .error .missing
      | some (ni, keys, _) => guardVar tol [noiseVarScalar (keys.map (fun _ => 0)) ni]
  | .noiseDiag tol =>
      match S.noise with
      | none => .error .missing
      | some (ni, keys, nFt) => guardVar tol ((List.range nFt).map (fun k => noiseVarDiag keys k ni))

/-- the whole maximisation step: named rules, all evaluated on the pre-step values -/
def step (burnIn : Bool) (old : Old α) (S : Stats α) (rules : List (String × Rule α)) :
    List (String × Except MErr (List α)) :=
  updateAll old S (rules.map (fun nr => (nr.1, fun o s => nr.2.apply burnIn o s)))

end

/-! ### mixture rules

`models/utilities.py`.  All three individual-parameter rules start with

    probs_ind = torch.nn.Softmax(dim=1)(torch.clamp(-state["nll_regul_ind_sum_ind"].value, -100.0))     # (n, K)

(the *responsibilities*; `nll_regul_ind_sum_ind` is a function of the current latent values and of the *pre-step*
parameters `tau/xi/sources_mean`, `tau/xi_std`, `probs`).  As for `softmaxRow`, the exponentials
`exp(clamp(-nll, -100) - rowmax)` are data.  A "column" below is the list over individuals of one cluster's
responsibilities (`probs_ind[:, c]`) or of one coordinate of a latent variable / statistic (`tau[:, 0]`, `sources[:, j]`). -/

section
variable {α : Type} [Add α] [Sub α] [Mul α] [Div α] [OfNat α 0] [OfNat α 1] [NatCast α]

/-- `probs_ind`: one softmax row per individual -/
def resp (expo : List (List α)) : List (List α) := expo.map softmaxRow

/-- `(probs_ind * ind_var).sum(dim=0)` for one cluster and one coordinate -/
def dot (r x : List α) : α := sum (List.zipWith (fun ri xi => ri * xi) r x)

/-- `compute_ind_param_mean_from_suff_stats_mixture`, one cluster `c`, one coordinate:
    `(probs_ind * ind_var).sum(dim=0) / probs_ind.sum(dim=0)` — the responsibility-weighted mean of the **current
    latent values** `state[ip_name]` (the statistic `Collect(ip_name)` is collected but never read; no Bessel-like
    correction, no epsilon).  Division as a field operation; `mixMeanE` says what torch does when the divisor is 0. -/
def mixMean (r x : List α) : α := dot r x / sum r

/-- responsibility-weighted sum of squared deviations from a centre -/
def wsqdev (r x : List α) (c : α) : α := sum (List.zipWith (fun ri xi => ri * ((xi - c) * (xi - c))) r x)

/-- The **documented** dispersion of a cluster (responsibility-weighted mean squared deviation from the centre `c`).
    This is *not* what the code computes (see `mixVar`, `C04.mixVar_not_weighted_counterexample`); reference only. -/
def mixVarDoc (r x : List α) (c : α) : α := wsqdev r x c / sum r

/-- `compute_ind_param_std_from_suff_stats_mixture`, cluster `c`, before `sqrt`:
    `ip_var = torch.mean(ip_sqr_values, dim=0) - 2 * ip_old_mean * torch.mean(ip_values, dim=0) + ip_old_mean**2`
    with `ip_old_mean = state[f"{ip_name}_mean"]` of shape `(K,)`: the **unweighted** means over *all* individuals of the
    statistics `x`, `x²`, centred on the **pre-step** mean of cluster `c`.  Same operation order as `indVar`. -/
def mixVar (oldMeanC : α) (xs xsqr : List α) : α :=
  (mean xsqr - (1 + 1) * oldMeanC * mean xs) + oldMeanC * oldMeanC

/-- last line of both std rules: `(probs_ind * std).sum(dim=0) / probs_ind.sum(dim=0)` where `std` has shape `(K,)`
    (resp. `(1,)` in the memory-less phase) and is broadcast over the individuals: for cluster `c` the *same* number
    `s = std[c]` is averaged with the weights `probs_ind[:, c]`. -/
def mixAvgConst (r : List α) (s : α) : α := sum (r.map (fun ri => ri * s)) / sum r

end

/-- all results, or the first error (python evaluates the whole tensor at once; a `nan` entry does not raise) -/
def collect {β : Type} : List (Except MErr β) → Except MErr (List β)
  | [] => .ok []
  | .ok v :: t => (collect t).map (v :: ·)
  | .error e :: _ => .error e

section
variable {α : Type} [Add α] [Sub α] [Mul α] [Div α] [OfNat α 0] [OfNat α 1] [NatCast α] [LT α] [DecidableLT α]
  [DecidableEq α]

/-- IEEE division as torch performs it, made explicit: `0/0 = nan`, `a/0 = ±inf`. -/
def divE (a b : α) : Except MErr α :=
  if b = 0 then (if a = 0 then .error .nan else .error .inf) else .ok (a / b)

/-- the mixture mean rule with the division made explicit -/
def mixMeanE (r x : List α) : Except MErr α := divE (dot r x) (sum r)

/-- the mixture std rule for cluster `c`, given the variance `v` the code computed (`mixVar` after, `indVarBurnIn` in,
    the memory-less phase), **as a variance**: `std = v.sqrt()` is `nan` for `v < 0` (there is *no*
    `compute_std_from_variance` guard here: the `tol` keyword ends in `**kws`), then `mixAvgConst r std` is `0/0 = nan`
    when cluster `c` has zero total responsibility and `std` otherwise (`C04.mixAvgConst_cancels`). -/
def mixStdVarE (r : List α) (v : α) : Except MErr α :=
  if v < 0 then .error .nan else if sum r = 0 then .error .nan else .ok v

/-- all cluster means of one variable: result of shape `(d, K)` flattened row-major (`tau_mean`: `(K,)`, `sources_mean`: `(d, K)`) -/
def mixMeans (rcols xcols : List (List α)) : Except MErr (List α) :=
  (collect (xcols.map (fun xc => collect (rcols.map (fun rc => mixMeanE rc xc))))).map List.flatten

/-- what the mixture rules read in the **pre-step** state besides the statistics -/
structure MixPre (α : Type) where
  params : Old α                              -- `state[f"{ip_name}_mean"]`: `K` pre-step cluster means per variable
  latents : List (String × List (List α))     -- `state[ip_name]`: current latent values, `n × d`
  expo : List (List α)                        -- `n × K` exponentials of `clamp(-nll_regul_ind_sum_ind, -100)`

inductive MixRule (α : Type) where
  | base (r : Rule α)            -- population means, noise (and the non-mixture rules)
  | mixMean (var : String)       -- `for_ind_mean_mixture`
  | mixStd (var : String)        -- `for_ind_std_mixture` (result: variances)
  | probs (K : Nat)              -- `for_probs`

/-- `ModelParameter.compute_update` for the rule set of `models/mixture.py`. -/
def MixRule.apply (burnIn : Bool) (r : MixRule α) (pre : MixPre α) (S : Stats α) : Except MErr (List α) :=
  match r with
  | .base r => r.apply burnIn pre.params S
  | .mixMean v => do
      let xcols ← (lookup pre.latents v) >>= columns
      let rcols ← columns (resp pre.expo)
      if xcols.any (fun xc => rcols.any (fun rc => rc.length ≠ xc.length)) then .error .shape else
      mixMeans rcols xcols
  | .mixStd v => do
      let rcols ← columns (resp pre.expo)
      if burnIn then do
        -- `state[ip_name].std(dim=0)`: Bessel-corrected dispersion of the current latent values, all individuals
        let xcols ← (lookup pre.latents v) >>= columns
        match xcols with
        | [xc] => collect (rcols.map (fun rc => mixStdVarE rc (indVarBurnIn xc)))
        | _ => .error .shape
      else do
        let cols ← (lookup S.named v) >>= columns
        let sq ← (lookup S.named (v ++ "_sqr")) >>= columns
        let om ← lookup pre.params (v ++ "_mean")
        if om.length ≠ rcols.length then .error .shape else
        match cols, sq with
        | [xc], [qc] => collect ((om.zip rcols).map (fun p => mixStdVarE p.2 (mixVar p.1 xc qc)))
        | _, _ => .error .shape
  | .probs K => pure (mixtureProbs K pre.expo)

/-- the maximisation step of the mixture model: every rule evaluated on the pre-step state -/
def mixStep (burnIn : Bool) (pre : MixPre α) (S : Stats α) (rules : List (String × MixRule α)) :
    List (String × Except MErr (List α)) :=
  updateAll pre S (rules.map (fun nr => (nr.1, fun o s => nr.2.apply burnIn o s)))

end

end LeaspyVerif.MStep
