/-
Model of data ingestion (property C14).

  src/leaspy/io/data/abstract_dataframe_data_reader.py   `_check_ID`, `_clean_index`, `_clean_numeric_data`, `read`
  src/leaspy/io/data/visit_dataframe_data_reader.py      `_check_TIME`, `_set_index`, `_clean_dataframe`, `_load_individuals_data`
  src/leaspy/io/data/event_dataframe_data_reader.py      `_clean_dataframe`, `_load_individuals_data`
  src/leaspy/io/data/joint_dataframe_data_reader.py      `_clean_dataframe` (visit part, event part, cross check)
  src/leaspy/io/data/covariate_dataframe_data_reader.py  `_clean_dataframe_covariates`, `_clean_dataframe`
  src/leaspy/io/data/individual_data.py                  `add_observations` (sorted insertion, duplicate refusal), `to_frame`
  src/leaspy/io/data/dataset.py                          `_construct_values`, `_construct_timepoints`, `_construct_events`,
                                                         `_construct_covariates`, `get_values_patient`, `to_pandas`

Import-free.  Conventions
  * an age is an `Int` in micro-units (the code rounds `TIME` to 6 digits before anything else);
  * an identifier is a `Nat`: its rank in the sort order pandas uses for the `ID` column
    (only equality and order of identifiers are ever used by the code);
  * a value is `Option Rat` (`none` = NaN); values are assumed exactly representable in single precision;
  * `store : Int → Int` is what becomes of an age once written to the single-precision tensor and
    read back and re-rounded to 6 digits by a re-ingestion (identity on single-precision-exact ages);
  * the individual axis is the outer list (a tensor is a list of per-individual slices);
  * pandas `groupby(sort=False)` = groups in order of first appearance, rows in original order;
    pandas `sort_index` = sort by (ID, TIME); both are assumed contracts (DESIGN §4).
-/
namespace LeaspyVerif.Ingest

/-! ## Cells of the caller's table -/

/-- a float cell of the table: finite, NaN, or ±inf -/
inductive Cell (α : Type) where
  | fin (x : α)
  | nan
  | inf
deriving DecidableEq, Repr

/-- classes of rejection (`LeaspyDataInputError` for all of them; the tag names the raising line) -/
inductive Err where
  | idType | idNa | idNegative | idEmpty            -- `_check_ID`
  | timeType | timeNa                               -- `_check_TIME`
  | duplicate                                       -- `_clean_index`: index not unique
  | valueType | valueInf                            -- `_clean_numeric_data`
  | noRow | noFeature                               -- visit `_clean_dataframe`
  | overwrite                                       -- `IndividualData.add_observations`
  | eventTime | eventCode | eventUnique | eventNone | eventCount | eventBefore   -- event / joint readers
  | covNone | covMissing | covInteger | covUnique | covConstant                 -- covariate reader
deriving DecidableEq, Repr

abbrev Obs := List (Option Rat)

structure Visit where
  age : Int
  vals : Obs
deriving DecidableEq

/-- a row of a table whose index passed `_check_TIME` and whose cells passed `_clean_numeric_data` -/
structure Row where
  id : Nat
  age : Int
  vals : Obs
deriving DecidableEq

/-- `IndividualData` (longitudinal part): identifier and the visits as kept by `add_observations` -/
structure Indiv where
  id : Nat
  visits : List Visit
deriving DecidableEq

/-- `Data.individuals` (insertion-ordered dict) -/
abbrev Canon := List Indiv

/-! ## `IndividualData.add_observations` -/

/-- `index = bisect(timepoints, t)` followed by the two `np.concatenate`: `t` goes after every
    leading element `≤ t` (that is `bisect_right` on a sorted array, the assumed contract). -/
def insertVisit (v : Visit) : List Visit → List Visit
  | [] => [v]
  | w :: ws => if w.age ≤ v.age then w :: insertVisit v ws else v :: w :: ws

/-- `t in self.timepoints` -/
def hasAge (a : Int) (l : List Visit) : Bool := l.any (fun w => w.age == a)

/-- the loop of `add_observations` starting from the visits already held (`acc`; `[]` = `None`) -/
def addObservations (acc : List Visit) : List Visit → Except Err (List Visit)
  | [] => .ok acc
  | v :: vs =>
      if hasAge v.age acc then .error .overwrite
      else addObservations (insertVisit v acc) vs

/-! ## `AbstractDataframeDataReader.read` (visit layout) -/

/-- `not df.index.is_unique` for the `(ID, TIME)` index (after rounding) -/
def rowKeyDup : List Row → Bool
  | [] => false
  | r :: rs => rs.any (fun s => s.id == r.id && s.age == r.age) || rowKeyDup rs

/-- a row that `dropna(how="all")` removes (vacuously true when there is no feature column) -/
def allMissing (o : Obs) : Bool := o.all Option.isNone

/-- keys of `groupby(level="ID", sort=False)`: identifiers in order of first appearance -/
def firstIds : List Nat → List Nat
  | [] => []
  | i :: is => i :: (firstIds is).filter (fun j => j != i)

/-- rows of the group of `i`, in table order, as `(timepoints, observations)` -/
def visitsOf (i : Nat) (rows : List Row) : List Visit :=
  (rows.filter (fun r => r.id == i)).map (fun r => ⟨r.age, r.vals⟩)

/-- the loop `for idx_subj, df_subj in df.groupby(level="ID", sort=False)` over the keys `ids` -/
def loadIds (rows : List Row) : List Nat → Except Err Canon
  | [] => .ok []
  | i :: is =>
      match addObservations [] (visitsOf i rows) with
      | .error e => .error e
      | .ok vs =>
          match loadIds rows is with
          | .error e => .error e
          | .ok c => .ok (⟨i, vs⟩ :: c)

def loadAll (rows : List Row) : Except Err Canon :=
  loadIds rows (firstIds (rows.map (fun r => r.id)))

/-- visit `_clean_dataframe` then the loading loop, on the rows that survived `dropna` -/
def loadChecked (dim : Nat) (kept : List Row) : Except Err Canon :=
  if kept.isEmpty then .error .noRow
  else if dim < 1 then .error .noFeature
  else loadAll kept

/-- `Data.from_dataframe(df, "visit")` on a table with valid identifiers, finite ages and
    finite-or-missing numeric values; `dim` = number of feature columns. -/
def ingest (dim : Nat) (rows : List Row) : Except Err Canon :=
  if rowKeyDup rows then .error .duplicate
  else loadChecked dim (rows.filter (fun r => !allMissing r.vals))

/-! ## The caller's raw table and the validations that precede `ingest` -/

inductive IdKind where
  | string | integer | categorical | other    -- `pd.api.types.infer_dtype(s)`; `other` = floating, boolean, mixed, empty, …
deriving DecidableEq, Repr

/-- what `_check_ID` looks at -/
structure IdCol where
  kind : IdKind
  hasNa : Bool
  hasNegative : Bool
  hasEmpty : Bool
deriving DecidableEq, Repr

def checkId (c : IdCol) : Except Err Unit :=
  if c.kind == .other then .error .idType
  else if c.hasNa then .error .idNa
  else if c.kind == .integer && c.hasNegative then .error .idNegative
  else if c.kind == .string && c.hasEmpty then .error .idEmpty
  else .ok ()

structure RawRow where
  id : Nat
  age : Cell Int
  vals : List (Cell Rat)
deriving DecidableEq

structure RawTable where
  idCol : IdCol
  timeNumeric : Bool
  colNumeric : List Bool        -- one flag per feature column: numeric and not complex dtype
  rows : List RawRow
deriving DecidableEq

/-- `_check_TIME`: ±inf are replaced by NaN, any NaN is refused -/
def agesOf : List RawRow → Except Err (List (Nat × Int × List (Cell Rat)))
  | [] => .ok []
  | r :: rs =>
      match r.age with
      | .fin a =>
          match agesOf rs with
          | .ok l => .ok ((r.id, a, r.vals) :: l)
          | .error e => .error e
      | _ => .error .timeNa

def cellToObs : Cell Rat → Option Rat
  | .fin q => some q
  | _ => none

def hasInf (cs : List (Cell Rat)) : Bool := cs.any (fun c => c == .inf)

/-- `Data.from_dataframe(df, "visit")` on an arbitrary table -/
def ingestRaw (t : RawTable) : Except Err Canon :=
  match checkId t.idCol with
  | .error e => .error e
  | .ok () =>
    if !t.timeNumeric then .error .timeType else
    match agesOf t.rows with
    | .error e => .error e
    | .ok rs =>
      let rows : List Row := rs.map (fun r => ⟨r.1, r.2.1, r.2.2.map cellToObs⟩)
      if rowKeyDup rows then .error .duplicate
      else if !t.colNumeric.all id then .error .valueType
      else if rs.any (fun r => hasInf r.2.2) then .error .valueInf
      else ingest t.colNumeric.length rows

/-! ## `Dataset(data)` -/

/-- per-individual slice of the tensors -/
structure PTensor where
  id : Nat
  nVis : Nat                         -- `n_visits_per_individual[i]`
  times : List Int                   -- `timepoints[i]`  (stored ages, padded with 0)
  values : List (List Rat)           -- `values[i]`      (padded with 0, NaN replaced by 0)
  mask : List (List Bool)            -- `mask[i]`
  nObsFt : List Nat                  -- `n_observations_per_ind_per_ft[i]`
deriving DecidableEq

structure Tensor where
  indivs : List PTensor
  nVisMax : Nat
  nVisTotal : Nat                    -- `n_visits`
  nObsFt : List Nat                  -- `n_observations_per_ft`
  nObs : Nat                         -- `n_observations`
deriving DecidableEq

def padTo {α} (n : Nat) (x : α) (l : List α) : List α := l ++ List.replicate (n - l.length) x

def maxList : List Nat → Nat
  | [] => 0                          -- `if self.n_visits_per_individual else 0`
  | n :: ns => max n (maxList ns)

/-- `values[torch.isnan(values)] = 0.0` -/
def fillNaN : Option Rat → Rat
  | some q => q
  | none => 0

/-- column sums of a 0/1 matrix with `dim` columns (`mask.sum(dim=1)`) -/
def colSums (dim : Nat) (m : List (List Bool)) : List Nat :=
  (List.range dim).map (fun k => (m.filter (fun row => row[k]? == some true)).length)

/-- entry-wise sum of integer vectors of length `dim` (`.sum(dim=0)`) -/
def vecSum (dim : Nat) (vs : List (List Nat)) : List Nat :=
  (List.range dim).map (fun k => (vs.map (fun v => match v[k]? with | some n => n | none => 0)).sum)

/-- `_construct_values` + `_construct_timepoints` for one individual.
    `mask = padding_mask * (~isnan(values))`: on a real visit the padding mask is 1 and the entry
    is the NaN test; on a padded row the padding mask is 0 (the padded value is 0.0, not NaN). -/
def tensoriseIndiv (store : Int → Int) (dim nMax : Nat) (p : Indiv) : PTensor :=
  let mask := padTo nMax (List.replicate dim false) (p.visits.map (fun v => v.vals.map Option.isSome))
  { id := p.id
    nVis := p.visits.length
    times := padTo nMax 0 (p.visits.map (fun v => store v.age))
    values := padTo nMax (List.replicate dim 0) (p.visits.map (fun v => v.vals.map fillNaN))
    mask := mask
    nObsFt := colSums dim mask }

def tensorise (store : Int → Int) (dim : Nat) (c : Canon) : Tensor :=
  let nMax := maxList (c.map (fun p => p.visits.length))
  let ps := c.map (tensoriseIndiv store dim nMax)
  let nObsFt := vecSum dim (ps.map (fun p => p.nObsFt))
  { indivs := ps
    nVisMax := nMax
    nVisTotal := (c.map (fun p => p.visits.length)).sum     -- `Data.n_visits`
    nObsFt := nObsFt
    nObs := nObsFt.sum }

/-! ## `Dataset.to_pandas` -/

/-- `values_with_nans[nans] = nan` in `get_values_patient` -/
def recover (q : Rat) (m : Bool) : Option Rat := if m then some q else none

/-- `get_times_patient(i)` and `get_values_patient(i)`: the first `nVis` rows, NaN rebuilt from the mask -/
def patientVisits (p : PTensor) : List Visit :=
  List.zipWith (fun t o => (⟨t, o⟩ : Visit)) (p.times.take p.nVis)
    ((List.zipWith (List.zipWith recover) p.values p.mask).take p.nVis)

/-- `(ID, TIME)` lexicographic order of `sort_index` -/
def rowLe (r s : Row) : Bool := decide (r.id < s.id) || (r.id == s.id && decide (r.age ≤ s.age))

def insertRow (r : Row) : List Row → List Row
  | [] => [r]
  | s :: ss => if rowLe r s then r :: s :: ss else s :: insertRow r ss

def sortRows : List Row → List Row
  | [] => []
  | r :: rs => insertRow r (sortRows rs)

/-- the loop of `to_pandas`: one `IndividualData` per individual, refilled with `add_observations` -/
def framesOf : List PTensor → Except Err (List Row)
  | [] => .ok []
  | p :: ps =>
      match addObservations [] (patientVisits p) with
      | .error e => .error e
      | .ok vs =>
          match framesOf ps with
          | .error e => .error e
          | .ok rs => .ok (vs.map (fun v => (⟨p.id, v.age, v.vals⟩ : Row)) ++ rs)

/-- `Dataset.to_pandas()` (longitudinal part): `pd.concat(...).sort_index()` -/
def toTable (t : Tensor) : Except Err (List Row) :=
  match framesOf t.indivs with
  | .error e => .error e
  | .ok rs => .ok (sortRows rs)

/-- `Data.to_dataframe()`-like flattening of a canonical form (used in statements only) -/
def flatten : Canon → List Row
  | [] => []
  | p :: c => p.visits.map (fun v => (⟨p.id, v.age, v.vals⟩ : Row)) ++ flatten c

/-! ## Events (`EventDataframeDataReader`) -/

structure EvRow where
  id : Nat
  time : Cell Int                    -- `EVENT_TIME` rounded to 6 digits, micro-units
  code : Cell Rat                    -- `EVENT_BOOL`
deriving DecidableEq

structure Event where
  id : Nat
  time : Int
  code : Nat
deriving DecidableEq

/-- checks of `_clean_dataframe` that look at single cells:
    `(time > 0).all()`; indicator not missing, integer valued, not negative. -/
def evCell (r : EvRow) : Except Err Event :=
  match r.time with
  | .inf => .error .valueInf                    -- `_clean_numeric_data`
  | .nan => .error .eventTime                   -- `nan > 0` is False
  | .fin t =>
    if t ≤ 0 then .error .eventTime else
    match r.code with
    | .inf => .error .valueInf
    | .nan => .error .eventCode
    | .fin q => if q.den != 1 || q.num < 0 then .error .eventCode else .ok ⟨r.id, t, q.num.toNat⟩

/-- row by row conversion (cannot fail once the two column-wise checks of `evCells` have passed) -/
def evConv : List EvRow → Except Err (List Event)
  | [] => .ok []
  | r :: rs =>
      match evCell r with
      | .error e => .error e
      | .ok ev =>
          match evConv rs with
          | .error e => .error e
          | .ok l => .ok (ev :: l)

/-- one entry of `(df_event[EVENT_TIME] > 0)` (`nan > 0` is False; ±inf has been refused before) -/
def evTimeOk (r : EvRow) : Bool :=
  match r.time with
  | .fin t => decide (0 < t)
  | _ => false

/-- one entry of `not isna`, `not < 0`, `== astype(int)` on `EVENT_BOOL` -/
def evCodeOk (r : EvRow) : Bool :=
  match r.code with
  | .fin q => q.den == 1 && decide (0 ≤ q.num)
  | _ => false

/-- the cell checks in the order of the code: the whole `EVENT_TIME` column first (`Events must be above 0`),
    then the whole `EVENT_BOOL` column (`Events must be stored in type int`), then `astype(int)`. -/
def evCells (rows : List EvRow) : Except Err (List Event) :=
  if !rows.all evTimeOk then .error .eventTime
  else if !rows.all evCodeOk then .error .eventCode
  else evConv rows

/-- `groupby("ID").nunique().eq(1)` for both columns -/
def evConsistent (l : List Event) : Bool :=
  l.all (fun a => l.all (fun b => a.id != b.id || (a.time == b.time && a.code == b.code)))

/-- `groupby("ID", sort=False).first()` -/
def evFirst (l : List Event) : List Event :=
  (firstIds (l.map (fun e => e.id))).filterMap (fun i => l.find? (fun e => e.id == i))

/-- number of events: the `nb_events` argument against `df_event[EVENT_BOOL].max()` -/
def evCount (nbArg : Option Nat) (l : List Event) : Except Err Nat :=
  let nbMax := maxList (l.map (fun e => e.code))
  match nbArg with
  | some (n + 1) =>
      if n + 1 == nbMax then .ok (n + 1)
      else if nbMax == 0 then .ok (n + 1)       -- warning only
      else .error .eventCount
  | _ => if nbMax == 0 then .error .eventNone else .ok nbMax   -- `if not self.nb_events`

/-- `Data.from_dataframe(df, "event")` after the common cleaning: events per individual and `nb_events` -/
def ingestEvents (nbArg : Option Nat) (rows : List EvRow) : Except Err (List Event × Nat) :=
  match evCells rows with
  | .error e => .error e
  | .ok l =>
    if !evConsistent l then .error .eventUnique
    else if (evFirst l).isEmpty then .error .noRow          -- `len(df_event) == 0`
    else
    match evCount nbArg (evFirst l) with
    | .error e => .error e
    | .ok nb => .ok (evFirst l, nb)

/-- `not df.index.is_unique` for the `ID` index of the event-only layout -/
def evIdDup : List EvRow → Bool
  | [] => false
  | r :: rs => rs.any (fun s => s.id == r.id) || evIdDup rs

def evHasInf (r : EvRow) : Bool := r.time == .inf || r.code == .inf

/-- `Data.from_dataframe(df, "event")` on a table with valid identifiers and numeric columns:
    unique index, no ±inf, rows with both cells missing dropped, then the event checks. -/
def ingestEventTable (nbArg : Option Nat) (rows : List EvRow) : Except Err (List Event × Nat) :=
  if evIdDup rows then .error .duplicate
  else if rows.any evHasInf then .error .valueInf
  else ingestEvents nbArg (rows.filter (fun r => !(r.time == .nan && r.code == .nan)))

/-- `_construct_events`: `event_time[i] = [t] * nb`, `event_bool[i]` one-hot at `code - 1` -/
def eventTensor (nb : Nat) (e : Event) : List Int × List Bool :=
  (List.replicate nb e.time, (List.range nb).map (fun k => k + 1 == e.code))

/-! ## Joint layout (`JointDataframeDataReader`) -/

structure JRow where
  row : Row
  time : Cell Int
  code : Cell Rat
deriving DecidableEq

/-- `dropna(how="all")` sees the feature columns *and* the two event columns -/
def jDropped (r : JRow) : Bool := allMissing r.row.vals && r.time == .nan && r.code == .nan

def lastVisit (i : Nat) (rows : List Row) : Option Int :=
  ((rows.filter (fun r => r.id == i)).map (fun r => r.age)).foldl
    (fun m a => match m with | none => some a | some b => some (max a b)) none

/-- `tol_diff = 0.001` -/
def tolMicro : Int := 1000

/-- cross check: an event earlier than the last visit by more than the tolerance is refused
    unless every such event is censored (then only a warning) -/
def jointCross (evs : List Event) (rows : List Row) : Bool :=
  let before := evs.filter (fun e => match lastVisit e.id rows with
    | some a => decide (e.time - a < -tolMicro)
    | none => false)
  (before.map (fun e => e.code)).sum == 0

def ingestJoint (dim : Nat) (nbArg : Option Nat) (rows : List JRow) : Except Err (Canon × List Event × Nat) :=
  if rowKeyDup (rows.map (fun r => r.row)) then .error .duplicate else
  if rows.any (fun r => r.time == .inf || r.code == .inf) then .error .valueInf else
  let kept := rows.filter (fun r => !jDropped r)
  let vis := kept.map (fun r => r.row)
  if vis.isEmpty then .error .noRow
  else if dim < 1 then .error .noFeature
  else
    match ingestEvents nbArg (kept.map (fun r => ⟨r.row.id, r.time, r.code⟩)) with
    | .error e => .error e
    | .ok (evs, nb) =>
      if !jointCross evs vis then .error .eventBefore else
      match loadAll vis with
      | .error e => .error e
      | .ok c => .ok (c, evs, nb)

/-! ## Covariate layout (`CovariateDataframeDataReader`) -/

structure CRow where
  row : Row
  covs : List (Cell Rat)
deriving DecidableEq

def cDropped (r : CRow) : Bool := allMissing r.row.vals && r.covs.all (fun c => c == .nan)

def covCell : Cell Rat → Except Err Int
  | .inf => .error .valueInf
  | .nan => .error .covMissing
  | .fin q => if q.den != 1 then .error .covInteger else .ok q.num

def covCells : List (Cell Rat) → Except Err (List Int)
  | [] => .ok []
  | c :: cs =>
      match covCell c with
      | .error e => .error e
      | .ok z => match covCells cs with
        | .error e => .error e
        | .ok l => .ok (z :: l)

/-- row by row conversion (cannot fail once the two column-wise checks of `covRows` have passed) -/
def covConv : List CRow → Except Err (List (Nat × List Int))
  | [] => .ok []
  | r :: rs =>
      match covCells r.covs with
      | .error e => .error e
      | .ok z => match covConv rs with
        | .error e => .error e
        | .ok l => .ok ((r.row.id, z) :: l)

/-- one entry of `np.array_equal(col, col.astype(int))` (missing cells are looked at by the check before) -/
def covIntOk : Cell Rat → Bool
  | .fin q => q.den == 1
  | _ => true

/-- the cell checks in the order of the code: first no covariate column may hold a NaN, then every
    covariate column must be integer valued, then `astype(int)`. -/
def covRows (rows : List CRow) : Except Err (List (Nat × List Int)) :=
  if rows.any (fun r => r.covs.any (fun c => c == .nan)) then .error .covMissing
  else if rows.any (fun r => r.covs.any (fun c => !covIntOk c)) then .error .covInteger
  else covConv rows

def covConsistent (l : List (Nat × List Int)) : Bool :=
  l.all (fun a => l.all (fun b => a.1 != b.1 || a.2 == b.2))

def covFirst (l : List (Nat × List Int)) : List (Nat × List Int) :=
  (firstIds (l.map (fun e => e.1))).filterMap (fun i => l.find? (fun e => e.1 == i))

/-- every covariate takes at least two distinct values across individuals -/
def covVaries (nCov : Nat) (l : List (Nat × List Int)) : Bool :=
  (List.range nCov).all (fun k => l.any (fun a => l.any (fun b => a.2[k]? != b.2[k]?)))

def ingestCov (dim nCov : Nat) (rows : List CRow) : Except Err (Canon × List (Nat × List Int)) :=
  -- `CovariateDataframeDataReader.__init__`: `if not covariate_names: raise`
  if nCov < 1 then .error .covNone else
  if rowKeyDup (rows.map (fun r => r.row)) then .error .duplicate else
  -- `_clean_numeric_data` refuses ±inf anywhere before rows are dropped
  if rows.any (fun r => r.covs.any (fun c => c == .inf)) then .error .valueInf else
  let kept := rows.filter (fun r => !cDropped r)
  let vis := kept.map (fun r => r.row)
  if vis.isEmpty then .error .noRow
  else if dim < 1 then .error .noFeature
  else
    match covRows kept with
    | .error e => .error e
    | .ok l =>
      if !covConsistent l then .error .covUnique
      else if !covVaries nCov (covFirst l) then .error .covConstant
      else
        match loadAll vis with
        | .error e => .error e
        | .ok c => .ok (c, covFirst l)

/-! ## Single-precision storage of ages (concrete `store` used by the driver) -/

def pow2 (e : Int) : Rat := if e ≥ 0 then (2 : Rat) ^ e.toNat else 1 / (2 : Rat) ^ (-e).toNat

/-- round-half-even of a rational to an integer -/
def rint (q : Rat) : Int :=
  let f := q.floor
  let r := q - f
  if r < 1/2 then f else if r > 1/2 then f + 1 else if f % 2 == 0 then f else f + 1

/-- nearest number with `p` significant bits, ties to even (exponent range not modelled) -/
def roundSig (p : Nat) (q : Rat) : Rat :=
  if q == 0 then 0 else
  let a := if q < 0 then -q else q
  let e0 : Int := (Nat.log2 a.num.natAbs : Int) - (Nat.log2 a.den : Int)
  let e : Int := if a < pow2 e0 then e0 - 1 else if a ≥ pow2 (e0 + 1) then e0 + 1 else e0
  let scale := pow2 ((p : Int) - 1 - e)
  let m : Rat := (rint (a * scale) : Int)
  if q < 0 then -(m / scale) else m / scale

/-- age in micro-units → float64 → float32 (tensor) → float64 → `round(·, 6)` → micro-units -/
def storeF32 (a : Int) : Int :=
  let x64 := roundSig 53 ((a : Rat) / 1000000)
  let x32 := roundSig 24 x64
  rint (roundSig 53 (x32 * 1000000))

end LeaspyVerif.Ingest
