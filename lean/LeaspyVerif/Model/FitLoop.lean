/-
Model of the per-iteration *composition* of the two sampler-driven loops (properties C19 / C05 / C03:
which inverse temperature the samplers receive, when the maximisation is memory-less, when the
temperature moves).

  src/leaspy/algo/fit/mcmc_saem.py        TensorMcmcSaemAlgorithm._run (for current_iteration in 1 … n_iter),
                                          `_iteration`:  variables = sorted(population + individual latent variables);
                                                         shuffle(variables) if random_order_variables;
                                                         for v in variables: samplers[v].sample(state, temperature_inv=self.temperature_inv)
                                                         self._maximization_step(model, state)
                                                         self._update_temperature()
                                          `_maximization_step`: memory-less iff `_is_burn_in() or k == 1 + n_burn_in_iter`,
                                                         `update_parameters(..., burn_in=self._is_burn_in())`
  src/leaspy/algo/personalize/mcmc.py     McmcPersonalizeAlgorithm._get_individual_parameters (same loop over the
                                          individual latent variables only):
                                                         shuffle(names) if random_order_variables;
                                                         for v in names: samplers[v].sample(state, temperature_inv=self.temperature_inv)
                                                         if not self._is_burn_in(): append the current draws
                                                         self._update_temperature()

Nothing is duplicated: the burn-in / memory-less tests are `Saem.isBurnIn` / `Saem.memoryless`
(`Model/Saem.lean`), the temperature is the state of `Model/Anneal.lean` moved by `Anneal.update`.
No Mathlib.  Polymorphic in the number type like `Anneal` (runs on `Float`, reasoned about over an ordered field).

Latent variables are numbered `0 … nVars-1` by their rank in the sorted list of names; the outcome of
`random.shuffle` at iteration `k` is an *input* of the model (`order k`, a list of variable numbers);
that it is a permutation of all the variables is the hypothesis `ValidOrder` (checked on every
recorded run by the harness; with `random_order_variables = False` it is `List.range nVars`).
-/
import LeaspyVerif.Model.Saem
import LeaspyVerif.Model.Anneal

namespace LeaspyVerif.FitLoop
open LeaspyVerif.Anneal LeaspyVerif.Saem

/-- Which loop. -/
inductive Kind where
  | fit           -- TensorMcmcSaemAlgorithm._run
  | personalize   -- McmcPersonalizeAlgorithm._get_individual_parameters (mean / mode posterior)
  deriving DecidableEq, Repr

/-- What one iteration does, in call order. -/
inductive Event (α : Type) where
  /-- `samplers[v].sample(state, temperature_inv=tinv)` -/
  | sample (v : Nat) (tinv : α)
  /-- `_maximization_step`: `memoryless` = the statistics handed to `update_parameters` are the current ones
      (first branch), `burn` = the `burn_in=` flag it is told. -/
  | mstep (memoryless burn : Bool)
  /-- personalisation: whether the current draws are appended to the histories. -/
  | keep (kept : Bool)
  /-- `_update_temperature()`; `temp` is `self.temperature` after the call. -/
  | updateT (temp : α)
  deriving DecidableEq, Repr

/-- Configuration of one run. -/
structure Config (α : Type) where
  kind : Kind
  /-- `algo_parameters["n_iter"]` -/
  nIter : Nat
  /-- `algo_parameters["n_burn_in_iter"]` as left by the constructor (`Saem.nBurn`) -/
  nBurn : Nat
  /-- `algo_parameters["annealing"]` as left by the constructor -/
  anneal : Anneal.Config α
  /-- number of latent variables that have a sampler (fit: population + individual; personalisation: individual) -/
  nVars : Nat

/-- `order k` is the list of variables in the order they are sampled at iteration `k`. -/
def ValidOrder {α : Type} (c : Config α) (order : Nat → List Nat) : Prop :=
  ∀ k, (order k).Perm (List.range c.nVars)

variable {α : Type} [Sub α] [Div α] [LT α] [LE α] [OfNat α 1] [OfNat α 0] [NatCast α]
  [DecidableLT α] [DecidableLE α]

/-- `self.temperature_inv`: assigned `1 / self.temperature` by `_initialize_annealing` and after every change
    of the temperature in `_update_temperature`, `1.0` by the constructor (temperature `1.0`). -/
def tinv (s : St α) : α := 1 / s.temp

/-- The step between the samplers and the temperature update at iteration `k`. -/
def middle (kind : Kind) (nb k : Nat) : Event α :=
  match kind with
  | .fit => .mstep (memoryless k nb) (isBurnIn k nb)
  | .personalize => .keep (!isBurnIn k nb)

/-- Events of iteration `k` given the annealing state before (`s`) and after (`s'`) its temperature update:
    every sampler is called with the *current* inverse temperature, then the middle step, then the update. -/
def iterationEvents (kind : Kind) (nb : Nat) (ord : List Nat) (k : Nat) (s s' : St α) : List (Event α) :=
  ord.map (fun v => Event.sample v (tinv s)) ++ [middle kind nb k, Event.updateT s'.temp]

/-- One iteration (`current_iteration = k`): the events and the annealing state carried to the next one. -/
def iteration (c : Config α) (clamp : Bool) (ord : List Nat) (k : Nat) (s : St α) :
    Except Err (List (Event α) × St α) :=
  match update c.anneal clamp k s with
  | .error e => .error e
  | .ok s' => .ok (iterationEvents c.kind c.nBurn ord k s s', s')

/-- Iterations `k+1 … k+n` from annealing state `s`. -/
def runFrom (c : Config α) (clamp : Bool) (order : Nat → List Nat) :
    Nat → Nat → St α → Except Err (List (List (Event α)))
  | _, 0, _ => .ok []
  | k, n + 1, s =>
    match iteration c clamp (order (k + 1)) (k + 1) s with
    | .error e => .error e
    | .ok (evs, s') =>
      match runFrom c clamp order (k + 1) n s' with
      | .error e => .error e
      | .ok rest => .ok (evs :: rest)

/-- A whole run: `_initialize_annealing()` (in `_initialize_algo`), then iterations `1 … n_iter`.
    Entry `k-1` of the result is the event list of iteration `k`. -/
def run (c : Config α) (clamp : Bool) (order : Nat → List Nat) : Except Err (List (List (Event α))) :=
  match init c.anneal with
  | .error e => .error e
  | .ok s0 => runFrom c clamp order 0 c.nIter s0

/-! Read-outs used by the statements and by the driver. -/

/-- the inverse temperatures handed to the samplers, in call order -/
def sampleTinvs : List (Event α) → List α
  | [] => []
  | .sample _ t :: es => t :: sampleTinvs es
  | _ :: es => sampleTinvs es

/-- the variables sampled, in call order -/
def sampleVars : List (Event α) → List Nat
  | [] => []
  | .sample v _ :: es => v :: sampleVars es
  | _ :: es => sampleVars es

/-- a sampler call -/
def Event.isSample : Event α → Bool
  | .sample _ _ => true
  | _ => false

/-- the step between the samplers and the temperature update (`_maximization_step`, or the keep-the-draws test) -/
def Event.isMiddle : Event α → Bool
  | .mstep _ _ => true
  | .keep _ => true
  | _ => false

/-- a call of `_update_temperature` -/
def Event.isUpdateT : Event α → Bool
  | .updateT _ => true
  | _ => false

/-- is the event a `keep true` -/
def Event.isKept : Event α → Bool
  | .keep b => b
  | _ => false

/-- number of iterations of a run whose draws are kept (personalisation) -/
def keptCount (l : List (List (Event α))) : Nat :=
  (l.filter (fun evs => evs.any Event.isKept)).length

end LeaspyVerif.FitLoop
