/-
Model of the public API surface of leaspy used by properties C11, C12 and C13.  Import-free.

  (a) logging      src/leaspy/algo/settings.py            AlgorithmSettings.set_logs, OutputsSettings.__init__
                   src/leaspy/algo/fit/fit_output_manager.py  FitOutputManager.__init__, .iteration
                   src/leaspy/algo/fit/mcmc_saem.py       _run (where the output manager is called)
  (b) save / load  src/leaspy/models/base.py              BaseModel.to_dict / save / load
                   src/leaspy/models/mcmc_saem_compatible.py, time_reparametrized.py, joint.py, mixture.py  to_dict
                   src/leaspy/models/settings.py          ModelSettings
                   src/leaspy/models/factory.py           ModelName, model_factory
                   src/leaspy/models/stateful.py          load_parameters
                   src/leaspy/models/utilities.py         tensor_to_list, val_to_tensor
  (c) object state src/leaspy/models/base.py              fit / personalize / estimate / simulate
                   src/leaspy/algo/fit/mcmc_saem.py       _initialize_algo, end of _run
                   src/leaspy/models/mcmc_saem_compatible.py  compute_individual_trajectory
                   src/leaspy/algo/personalize/mcmc.py    _initialize_algo, _terminate_algo
                   src/leaspy/algo/personalize/scipy_minimize.py  _compute_individual_parameters
                   src/leaspy/algo/simulate/simulate.py   _sample_individual_parameters_from_model_parameters

The model follows the code *after* the repairs F6 (FitOutputManager initialises `path_output`) and F8
(scipy_minimize forgets individual latent values inherited from a fit); the behaviour as shipped is kept
next to it (`iterationShipped`, `applyShipped`) so that the defects stay stated.  F7 (the file stores the instance
name and `load` uses it as the model kind) and F21 (double-precision parameters are narrowed by `load`) are
not repaired and are reproduced by the model, as is F23 (a model without feature names is saved with
`"features": null`, which the constructor called by `load` cannot take).
-/
namespace LeaspyVerif.Api

/-- Exception classes that the three properties talk about. -/
inductive Err where
  | algoInput    -- LeaspyAlgoInputError
  | modelInput   -- LeaspyModelInputError
  | value        -- ValueError  (`ModelName(name)` for an unknown name)
  | attribute    -- AttributeError
  | runtime      -- RuntimeError (`Tensor.view` with the wrong number of elements)
  | type         -- TypeError
  deriving DecidableEq, Repr

/-- Outcome of a call (core `Except` has no `DecidableEq`). -/
inductive Out (α : Type) where
  | ok : α → Out α
  | err : Err → Out α
  deriving DecidableEq, Repr

def Out.bind {α β} (x : Out α) (f : α → Out β) : Out β :=
  match x with
  | .ok a => f a
  | .err e => .err e

instance : Monad Out where
  pure := Out.ok
  bind := Out.bind

/-- `[f(a) for a in l]` stopping at the first exception -/
def Out.mapM {α β} (f : α → Out β) : List α → Out (List β)
  | [] => .ok []
  | a :: as =>
    match f a with
    | .err e => .err e
    | .ok b =>
      match Out.mapM f as with
      | .err e => .err e
      | .ok bs => .ok (b :: bs)

def Out.isOk {α} : Out α → Bool
  | .ok _ => true
  | .err _ => false

/-! ## (a) Logging: `set_logs` → `OutputsSettings` → `FitOutputManager.iteration` -/

/-- Keyword arguments of `fit(...)` that `AlgorithmSettings.set_logs` looks at, plus the one runtime fact the
    validation depends on (`dirNonEmpty`: the folder exists and one of `parameter_convergence/`, `plots/`,
    `plots/patients/` is a link, not a directory or not empty). Periodicities are the integers given by the
    caller (`none` = not given / `None`). -/
structure LogReq where
  path : Bool
  print : Option Int
  save : Option Int
  plot : Option Int
  plotPatient : Option Int
  overwrite : Bool := false
  otherNonDefault : Bool := false   -- `plot_sourcewise` / `nb_of_patients_to_plot` differ from their defaults
  dirNonEmpty : Bool := false
  deriving DecidableEq, Repr

/-- `OutputsSettings` after a successful `__init__`. `root` = `root_path is not None`. -/
structure Outputs where
  print : Option Nat
  save : Option Nat
  plot : Option Nat
  plotPatient : Option Nat
  root : Bool
  deriving DecidableEq, Repr

/-- `_set_param_as_int_or_ignore`: `None` stays `None`; an integer `>= 1` is kept; anything else is ignored with
    a warning (the attribute keeps its initial value `None`). -/
def asIntOrIgnore : Option Int → Option Nat
  | none => none
  | some v => if 1 ≤ v then some v.toNat else none

/-- `set_logs`: nothing is created when every setting equals its default (`if settings != default_settings`). -/
def LogReq.isDefault (r : LogReq) : Bool :=
  !r.path && r.print.isNone && r.save.isNone && r.plot.isNone && r.plotPatient.isNone
    && !r.overwrite && !r.otherNonDefault

/-- `AlgorithmSettings.set_logs` followed by `OutputsSettings.__init__`.
    `ok none`  : `settings.logs` stays `None` (no output manager);
    `ok (some o)` : an `OutputsSettings` exists;
    `err algoInput` : `LeaspyAlgoInputError`. -/
def validate (r : LogReq) : Out (Option Outputs) :=
  if r.isDefault then .ok none else
  let print := asIntOrIgnore r.print
  let save := asIntOrIgnore r.save
  let plot := asIntOrIgnore r.plot
  let plotPatient := asIntOrIgnore r.plotPatient
  -- `_set_plot_patient_periodicity` (the plot / save consistency check lives there)
  let consistent : Bool :=
    match plot with
    | none => true
    | some p =>
      match save with
      | none => false                       -- "You can not define a `plot_periodicity` without ..."
      | some s => p % s == 0                -- "should be a multiple of `save_periodicity`"
  if !consistent then .err .algoInput else
  -- `_create_root_folder`
  if !r.path then
    if save.isSome then                     -- `if self.save_periodicity:` → default folder, cleaned if it exists
      .ok (some ⟨print, save, plot, plotPatient, true⟩)
    else
      .ok (some ⟨print, save, plot, plotPatient, false⟩)   -- `return` : root_path stays None
  else
    if r.dirNonEmpty && !r.overwrite then .err .algoInput   -- "already exists and is not empty"
    else .ok (some ⟨print, save, plot, plotPatient, true⟩)

/-- What `FitOutputManager.iteration` may do. -/
inductive Action where
  | print              -- print_algo_statistics, print_model_statistics, print_time
  | save               -- save_model_parameters_convergence (State.save → csv rows)
  | plotPatients       -- save_plot_patient_reconstructions
  | plotConvergence    -- save_plot_convergence_model_parameters
  deriving DecidableEq, Repr

/-- `if p is not None: if iteration == 0 or iteration % p == 0` -/
def fires0 (p : Option Nat) (k : Nat) : Bool :=
  match p with
  | none => false
  | some n => k == 0 || k % n == 0

/-- `if p is not None: if iteration % p == 0` (the convergence plot has no `iteration == 0` clause) -/
def fires (p : Option Nat) (k : Nat) : Bool :=
  match p with
  | none => false
  | some n => k % n == 0

def actionsAt (o : Outputs) (k : Nat) : List Action :=
  (if fires0 o.print k then [.print] else [])
    ++ (if fires0 o.save k then [.save] else [])
    ++ (if fires0 o.plotPatient k then [.plotPatients] else [])
    ++ (if fires o.plot k then [.plotConvergence] else [])

/-- `FitOutputManager.iteration` at iteration `k` (repaired: `path_output` is initialised to `None`, so the
    early `return` is taken when no folder exists).  `none` = `algo.output_manager is None`. -/
def iteration (o : Option Outputs) (k : Nat) : Out (List Action) :=
  match o with
  | none => .ok []
  | some o => if !o.root then .ok [] else .ok (actionsAt o k)

/-- The code as shipped (F6): `self.path_output` only exists when a folder exists; reading it otherwise raises. -/
def iterationShipped (o : Option Outputs) (k : Nat) : Out (List Action) :=
  match o with
  | none => .ok []
  | some o => if !o.root then .err .attribute else .ok (actionsAt o k)

/-- Whole fit, logging side only: outcome of the settings, then of iterations `1 … n`
    (stops at the first error, like the exception would). -/
def logSchedule (r : LogReq) (n : Nat) : Out (List (List Action)) := do
  let o ← validate r
  Out.mapM (fun i => iteration o (i + 1)) (List.range n)

/-! ### Fit loop with logging hooks (for the transparency theorem)

`step k s d` is one MCMC-SAEM iteration on the concrete state `s` consuming a prefix of the draw stream `d`;
`act a s d` is what a logging action does (reads through `model.state`, hence may fill caches; writes files). -/

def applyActs {St D : Type} (act : Action → St → List D → St × List D) :
    List Action → St → List D → St × List D
  | [], s, d => (s, d)
  | a :: as, s, d => let r := act a s d; applyActs act as r.1 r.2

/-- iterations `k+1 … k+n` -/
def runFit {St D : Type} (step : Nat → St → List D → St × List D)
    (act : Action → St → List D → St × List D) (sched : Nat → List Action) :
    Nat → Nat → St → List D → St × List D
  | _, 0, s, d => (s, d)
  | k, n + 1, s, d =>
    let r1 := step (k + 1) s d
    let r2 := applyActs act (sched (k + 1)) r1.1 r1.2
    runFit step act sched (k + 1) n r2.1 r2.2

/-- the schedule of a validated logging configuration -/
def schedOf (o : Option Outputs) (k : Nat) : List Action :=
  match iteration o k with
  | .ok as => as
  | .err _ => []

/-! ## (b) Save / load -/

/-- A tensor as written by `tensor_to_list` / read by `val_to_tensor`: shape and row-major data.
    A python scalar is shape `[]`. Entries are exact rationals (every float is one). -/
structure Tensor where
  shape : List Nat
  data : List Rat
  deriving DecidableEq, Repr

def numel (sh : List Nat) : Nat := sh.foldl (· * ·) 1

/-- `ModelName` -/
inductive Kind where
  | joint | logistic | linear | sharedSpeedLogistic | lme | constant | mixtureLogistic
  deriving DecidableEq, Repr

def Kind.toName : Kind → String
  | .joint => "joint"
  | .logistic => "logistic"
  | .linear => "linear"
  | .sharedSpeedLogistic => "shared_speed_logistic"
  | .lme => "lme"
  | .constant => "constant"
  | .mixtureLogistic => "mixture_logistic"

def Kind.all : List Kind := [.joint, .logistic, .linear, .sharedSpeedLogistic, .lme, .constant, .mixtureLogistic]

/-- `ModelName(name)`: lookup by value; `none` = `ValueError: '<name>' is not a valid ModelName`. -/
def Kind.ofName (s : String) : Option Kind := Kind.all.find? (fun k => k.toName == s)

/-- Constructor hyperparameters that `to_dict` writes at the top level of the file. -/
structure Hyp where
  features : Option (List String)
  dimension : Option Nat
  sourceDim : Option Nat
  scalarNoise : Bool            -- obs_models = {"y": "gaussian-scalar"} vs "gaussian-diagonal"
  nbEvents : Nat := 1           -- joint only
  nClusters : Nat := 0          -- mixture only
  deriving DecidableEq, Repr

/-- `BaseModel.dimension` property -/
def Hyp.dim (h : Hyp) : Option Nat :=
  match h.dimension with
  | some d => some d
  | none => h.features.map List.length

/-- The part of a model object that save / load talk about. `pop` = population latent variables in `state`. -/
structure Model where
  kind : Kind
  name : String
  hyp : Hyp
  params : List (String × Tensor)
  pop : List (String × Tensor)
  deriving DecidableEq, Repr

/-- Content of the json file (`json.dump(to_dict())`), modelled fields only: the `hyperparameters` block and the
    `mixing_matrix` entry are written but never read back (checked on the real files only). -/
structure FileD where
  name : String
  hyp : Hyp
  parameters : List (String × Tensor)
  deriving DecidableEq, Repr

/-- `to_dict`: `"name": self.name` — the *instance* name. -/
def toDict (m : Model) : FileD := ⟨m.name, m.hyp, m.params⟩

/-- Shapes of the `ModelParameter` nodes in DAG order (`parameters_names`), per kind
    (`get_variables_specs` of the model classes; `d` features, `s` sources, `K` clusters, `E` events). -/
def paramSpec (k : Kind) (d s : Nat) (scalarNoise : Bool) (K E : Nat) : List (String × List Nat) :=
  let betas : List (String × List Nat) := if s = 0 then [] else [("betas_mean", [d - 1, s])]
  let noise : List (String × List Nat) := [("noise_std", [if scalarNoise then 1 else d])]
  match k with
  | .logistic =>
    betas ++ [("log_g_mean", [d]), ("log_v0_mean", [d])] ++ noise
      ++ [("tau_mean", [1]), ("tau_std", [1]), ("xi_std", [1])]
  | .linear =>
    betas ++ [("g_mean", [d]), ("log_v0_mean", [d])] ++ noise
      ++ [("tau_mean", [1]), ("tau_std", [1]), ("xi_std", [1])]
  | .sharedSpeedLogistic =>
    betas ++ [("deltas_mean", [d - 1]), ("log_g_mean", [1])] ++ noise
      ++ [("tau_mean", [1]), ("tau_std", [1]), ("xi_mean", [1]), ("xi_std", [1])]
  | .joint =>
    betas ++ [("log_g_mean", [d]), ("log_rho_mean", [E]), ("log_v0_mean", [d]), ("n_log_nu_mean", [E])] ++ noise
      ++ [("tau_mean", [1]), ("tau_std", [1]), ("xi_std", [1])]
      ++ (if s = 0 then [] else [("zeta_mean", [s, E])])
  | .mixtureLogistic =>
    betas ++ [("log_g_mean", [d]), ("log_v0_mean", [d])] ++ noise
      ++ [("probs", [K])]
      ++ (if s = 0 then [] else [("sources_mean", [s, K])])
      ++ [("tau_mean", [K]), ("tau_std", [K]), ("xi_mean", [K]), ("xi_std", [K])]
  | .lme => []
  | .constant => []

/-- Population latent variables: `x` for every parameter `x_mean` that is the mean of a population prior. -/
def popNames : List String := ["betas", "log_g", "g", "log_v0", "deltas", "log_rho", "n_log_nu", "zeta"]

/-- `put_population_latent_variables(PRIOR_MODE)`: the mode of `Normal(x_mean, x_std)` is `x_mean`. -/
def priorMode (params : List (String × Tensor)) : List (String × Tensor) :=
  popNames.filterMap (fun n => (params.lookup (n ++ "_mean")).map (fun t => (n, t)))

/-- `ModelSettings`: the kind is read from the stored (instance) name, lower-cased. -/
structure Settings where
  name : String
  hyp : Hyp
  parameters : List (String × Tensor)
  deriving DecidableEq, Repr

def parseSettings (f : FileD) : Settings := ⟨f.name.toLower, f.hyp, f.parameters⟩

/-- Constructor checks of `BaseModel` / `TimeReparametrizedModel` reached from `load`:
    dimension vs features, source dimension in `[0, d-1]`, univariate ⇒ no sources. -/
def checkHyp (h : Hyp) : Out Hyp :=
  let bad : Bool :=
    match h.dimension, h.features with
    | some d, some fs => d != fs.length
    | _, _ => false
  if bad then .err .modelInput else
  match h.dim with
  | some 1 => .ok { h with sourceDim := some 0 }                     -- `if self.dimension == 1: return 0`
  | some d =>
    match h.sourceDim with
    | some s => if s > d - 1 then .err .modelInput else .ok h
    | none => .ok h
  | none => .ok h

/-- `val_to_tensor(value, shape)`: `torch.tensor(value)` (narrowing python doubles to float32 — `narrow`) then
    `.view(shape)` (fails when the number of elements differs). -/
def loadTensor (narrow : Rat → Rat) (sh : List Nat) (t : Tensor) : Out Tensor :=
  if numel sh = t.data.length then .ok ⟨sh, t.data.map narrow⟩ else .err .runtime

/-- `StatefulModel.load_parameters`: unknown names are refused; provided parameters are installed in DAG
    order with the DAG's shapes; population variables are put at their prior mode. -/
def loadParameters (narrow : Rat → Rat) (spec : List (String × List Nat)) (ps : List (String × Tensor)) :
    Out (List (String × Tensor)) :=
  if ps.any (fun p => (spec.lookup p.1).isNone) then .err .modelInput else
  Out.mapM (fun e =>
    match ps.lookup e.1 with
    | some t => (loadTensor narrow e.2 t).bind (fun t' => .ok (e.1, t'))
    | none => .err .modelInput) (spec.filter (fun e => (ps.lookup e.1).isSome))

/-- `BaseModel.load`: settings → `model_factory(reader.name, **hyperparameters)` → `load_parameters`.
    The new object is named after the kind (`instance_name or name.value`). -/
def load (narrow : Rat → Rat) (f : FileD) : Out Model :=
  let st := parseSettings f
  match Kind.ofName st.name with
  | none => .err .value
  | some k =>
    -- `TimeReparametrizedModel.__init__`: `if "features" in kwargs: dimension = len(kwargs["features"])`;
    -- `to_dict` always writes the key, `null` when the model has no feature names (finding F23)
    if st.hyp.features.isNone then .err .type else
    (checkHyp st.hyp).bind fun h =>
    match h.dim, h.sourceDim with
    | some d, some s =>
      (loadParameters narrow (paramSpec k d s h.scalarNoise h.nClusters h.nbEvents) st.parameters).bind fun ps =>
        .ok ⟨k, k.toName, h, ps, priorMode ps⟩
    | _, _ => .err .modelInput      -- the DAG cannot be built without dimension and source dimension

/-- A model whose parameters are exactly what its DAG expects: names and shapes of `paramSpec`, in order. -/
def Model.canonical (narrow : Rat → Rat) (m : Model) : Bool :=
  match m.hyp.dim, m.hyp.sourceDim with
  | some d, some s =>
    m.params.map (fun p => (p.1, p.2.shape)) == paramSpec m.kind d s m.hyp.scalarNoise m.hyp.nClusters m.hyp.nbEvents
      && m.params.all (fun p => numel p.2.shape == p.2.data.length && p.2.data.all (fun x => narrow x == x))
      && checkHyp m.hyp == .ok m.hyp && m.hyp.features.isSome
  | _, _ => false

/-- Round to the nearest float32 (ties to even), exact on rationals; subnormals / overflow are not modelled
    (the check stays within `1e-30 < |x| < 1e30`). -/
def roundF32 (q : Rat) : Rat :=
  if q == 0 then 0 else
  let a : Rat := q.abs
  let e0 : Int := (Nat.log2 a.num.natAbs : Int) - (Nat.log2 a.den : Int)
  let e : Int := if a < (2 : Rat) ^ e0 then e0 - 1 else e0       -- 2^e ≤ a < 2^(e+1)
  let ulp : Rat := (2 : Rat) ^ (e - 23)
  let m : Rat := a / ulp                                           -- in [2^23, 2^24)
  let fl : Int := m.floor
  let frac : Rat := m - fl
  let r : Int := if frac < 1 / 2 then fl else if frac > 1 / 2 then fl + 1 else (if fl % 2 == 0 then fl else fl + 1)
  let res : Rat := (r : Rat) * ulp
  if q < 0 then -res else res

/-! ## (c) The model object across public calls

`V` is the type of every value (tensors, tables, settings, seeds); external numerical kernels are the fields
of `Ext` — the transcription records *which parts of the object each call hands to them* (read-set) and which
parts it replaces (write-set). -/

structure Obj (V : Type) where
  params : V
  hyper : V
  pop : V
  /-- what a fit leaves in `model.state`: the data variables (`t`, `y`, …) and the individual latent values -/
  residual : Option (V × V)
  deriving DecidableEq, Repr

/-- the part of the object the property protects -/
def Obj.core {V} (o : Obj V) : V × V × V := (o.params, o.hyper, o.pop)

structure Ext (V : Type) where
  /-- population variables at the mode of their priors under the given parameters -/
  priorMode : V → V
  /-- `put_individual_parameters` on a state without individual values: start point from parameters, data, seed -/
  start : V → V → V → V → V
  /-- MCMC-SAEM: (hyper, params, pop, start latents, data, seed) ↦ (params', latents') -/
  saem : V → V → V → V → V → V → V × V
  /-- `compute_individual_trajectory`: (hyper, params, pop, input) -/
  traj : V → V → V → V → V
  /-- mean / mode posterior personalisation (`true` = mean): (hyper, params, pop, data, seed) -/
  mcmc : Bool → V → V → V → V → V → V
  /-- scipy minimize: (hyper, params, pop, data, start point) -/
  optimise : V → V → V → V → V → V
  /-- first row of the individual latent values (`state.get_tensor_value(n)[0]`) -/
  firstRow : V → V
  /-- simulation: (hyper, params, pop, settings, seed) -/
  sim : V → V → V → V → V → V

inductive Call (V : Type) where
  | fit (data seed : V)
  | estimate (input : V)
  | persoMean (data seed : V)
  | persoMode (data seed : V)
  | persoScipy (data seed : V)
  | simulate (settings seed : V)
  | save
  | load
  deriving DecidableEq, Repr

def Call.isFit {V} : Call V → Bool
  | .fit _ _ => true
  | _ => false

/-- object + the file last written by `save` -/
structure World (V : Type) where
  obj : Obj V
  file : Option (V × V)        -- (parameters, hyperparameters) as saved
  deriving DecidableEq, Repr

/-- `BaseModel.load` on the object level: parameters and hyperparameters from the file, population variables at
    their prior mode, nothing else in the state. -/
def reload {V} (E : Ext V) (f : V × V) : Obj V := ⟨f.1, f.2, E.priorMode f.1, none⟩

/-- One public call: new world and the value returned to the caller (`none` for fit / save / load).
    `shipped = true` gives the code before repair F8. -/
def applyGen {V} (E : Ext V) (shipped : Bool) (w : World V) : Call V → World V × Option V
  | .fit data seed =>
    -- `_initialize_algo`: the working state *is* `model.state`; data variables are replaced; individual values
    -- are kept when present (`put_individual_parameters` only fills them when unset)
    let o := w.obj
    let start := match o.residual with
      | some (_, lat) => lat
      | none => E.start o.hyper o.params data seed
    let r := E.saem o.hyper o.params o.pop start data seed
    -- end of `_run`: clone, population variables at prior mode, `model.state = clone` (data and latents stay)
    ({ w with obj := ⟨r.1, o.hyper, E.priorMode r.1, some (data, r.2)⟩ }, none)
  | .estimate input =>
    -- works on `state.clone(disable_auto_fork=True)`; sets `t` and every individual variable
    (w, some (E.traj w.obj.hyper w.obj.params w.obj.pop input))
  | .persoMean data seed =>
    -- `_initialize_algo` overwrites data and puts individual variables at their prior mode;
    -- `_terminate_algo` installs a clone without data and without individual values
    ({ w with obj := { w.obj with residual := none } },
      some (E.mcmc true w.obj.hyper w.obj.params w.obj.pop data seed))
  | .persoMode data seed =>
    ({ w with obj := { w.obj with residual := none } },
      some (E.mcmc false w.obj.hyper w.obj.params w.obj.pop data seed))
  | .persoScipy data seed =>
    -- one clone per individual; `put_individual_parameters(clone)` keeps individual values that are set
    let o := w.obj
    let st := match shipped, o.residual with
      | true, some (_, lat) => E.firstRow lat
      | _, _ => E.start o.hyper o.params data seed
    (w, some (E.optimise o.hyper o.params o.pop data st))
  | .simulate settings seed =>
    (w, some (E.sim w.obj.hyper w.obj.params w.obj.pop settings seed))
  | .save => ({ w with file := some (w.obj.params, w.obj.hyper) }, none)
  | .load =>
    match w.file with
    | some f => ({ w with obj := reload E f }, none)
    | none => (w, none)

def apply {V} (E : Ext V) : World V → Call V → World V × Option V := applyGen E false
def applyShipped {V} (E : Ext V) : World V → Call V → World V × Option V := applyGen E true

/-- a history of calls: final world and the list of returned values -/
def runGen {V} (E : Ext V) (shipped : Bool) : World V → List (Call V) → World V × List (Option V)
  | w, [] => (w, [])
  | w, c :: cs =>
    let r := applyGen E shipped w c
    let rest := runGen E shipped r.1 cs
    (rest.1, r.2 :: rest.2)

def run {V} (E : Ext V) : World V → List (Call V) → World V × List (Option V) := runGen E false

/-- the object as `load(save(·))` would return it -/
def freshCopy {V} (E : Ext V) (o : Obj V) : Obj V := reload E (o.params, o.hyper)

/-- Symbolic externals: every kernel returns the term recording what it was given. Used by the driver, so that
    "same result" means "computed from the same reads". -/
def symExt : Ext String where
  priorMode p := s!"mode({p})"
  start h p d s := s!"start({h},{p},{d},{s})"
  saem h p pop st d s := (s!"theta({h},{p},{pop},{st},{d},{s})", s!"z({h},{p},{pop},{st},{d},{s})")
  traj h p pop i := s!"traj({h},{p},{pop},{i})"
  mcmc mean h p pop d s := s!"{if mean then "mean" else "mode"}({h},{p},{pop},{d},{s})"
  optimise h p pop d st := s!"argmin({h},{p},{pop},{d},{st})"
  firstRow l := s!"row0({l})"
  sim h p pop c s := s!"sim({h},{p},{pop},{c},{s})"

end LeaspyVerif.Api
