/-
Model of the "prior-standardized coordinates" of optimisation-based personalisation (property C17).

  src/leaspy/algo/personalize/scipy_minimize.py
    `_AffineScaling`            (loc, scale), `.shape` asserts `scale.shape == loc.shape`
    `_AffineScaling.from_latent_variable`   loc = prior mode, scale = prior stddev, 0-d tensors reshaped to `(1,)`
    `_AffineScalings1D.__post_init__`       every scaling 1-D; `cumdims = (0,) + accumulate(dims)`;
                                            `slices[n] = slice(cumdims[i], cumdims[i+1])`, `length = cumdims[-1]`
    `_AffineScalings1D.stack / unstack / scaling / unscaling / from_state`
    `ScipyMinimizeAlgorithm.obj_no_jac`                       objective evaluated at `scaling.unscaling(x)`
    `ScipyMinimizeAlgorithm._get_individual_parameters_patient`
                                            `x0 = scaling.scaling(initial_point)`, result `scaling.unscaling(res.x)`

Core Lean only.  Polymorphic in the number type: the driver runs it on `Rat` (exact rationals of the recorded floats),
the theorems are over a field.  The optimiser itself (`scipy.optimize.minimize`) is a parameter (`opt`), not modelled.

Modelling decisions (each mirrors what the python objects are):
  * `scalings` and `slices` are python dicts built from the same keys in the same insertion order, so `self.slices[n]`
    for the i-th key of `self.scalings` is the i-th slice: the model pairs them by position (`List.zip`);
    the mapping `x` handed to `stack` / `scaling` is a *different* dict and is looked up by name (`KeyError` = `Err.key`).
  * python slicing `t[a:b]` clamps to the tensor's length (`slice`): nothing is raised for a too short / too long vector.
  * `torch` / `numpy` broadcasting of two 1-D operands (`bcast`): equal lengths, or one of them has length 1; else raise.
  * `torch.cat([])` raises (`Err.runtime`): a scalings object without any variable cannot scale anything.
  * `unstack` returns `x[None, slice]`, a `(1, dim)` tensor: the model keeps its single row.
  * `.float()` / `.detach()` / `.numpy()` conversions are representation changes, invisible in exact arithmetic.
-/

namespace LeaspyVerif.Scalings

/-- `KeyError` / `RuntimeError` or numpy `ValueError` (broadcast, empty `torch.cat`) / `AssertionError` -/
inductive Err where
  | key | runtime | assert
  deriving DecidableEq, Repr

/-- a tensor, as far as this code looks at it: 0-d, 1-d, or of higher dimension (then only refused) -/
inductive Tns (α : Type) where
  | scalar (x : α)
  | vec (xs : List α)
  | higher (shape : List Nat)
  deriving DecidableEq, Repr

/-- one `_AffineScaling` (1-D) under its variable name -/
structure Scaling (α : Type) where
  name : String
  loc : List α
  scale : List α
  deriving DecidableEq, Repr

/-- `_AffineScalings1D.scalings`: an ordered dict -/
abbrev Scalings (α : Type) := List (Scaling α)

/-- a mapping variable name ↦ 1-D values (a python dict, in insertion order) -/
abbrev Point (α : Type) := List (String × List α)

variable {α : Type}

/-! ### construction -/

/-- `from_latent_variable`: `t.reshape(1) if t.ndim == 0 else t` -/
def reshape1 : Tns α → Tns α
  | .scalar x => .vec [x]
  | t => t

/-- `__post_init__` for one entry: `scl.ndim == 1` (which evaluates `shape`: `assert self.scale.shape == shape`) -/
def checkOne (n : String) (loc scale : Tns α) : Except Err (Scaling α) :=
  match loc, scale with
  | .vec l, .vec s => if l.length = s.length then .ok ⟨n, l, s⟩ else .error .assert
  | _, _ => .error .assert

/-- `_AffineScalings1D({name: _AffineScaling(loc, scale), …})` -/
def mk? : List (String × Tns α × Tns α) → Except Err (Scalings α)
  | [] => .ok []
  | (n, l, s) :: r =>
    match checkOne n l s with
    | .error e => .error e
    | .ok sc =>
      match mk? r with
      | .error e => .error e
      | .ok t => .ok (sc :: t)

/-- `from_state`: per individual latent variable in DAG order, `(name, prior mode, prior stddev)` -/
def fromLatent (raw : List (String × Tns α × Tns α)) : Except Err (Scalings α) :=
  mk? (raw.map (fun r => (r.1, reshape1 r.2.1, reshape1 r.2.2)))

/-! ### dimensions, slices, length -/

def dim (sc : Scaling α) : Nat := sc.loc.length

/-- `dims = {n: scl.shape[0]}` -/
def dims (s : Scalings α) : List Nat := s.map dim

def names (s : Scalings α) : List String := s.map (·.name)

/-- `(off,) + accumulate(ds)` shifted by `off` -/
def cumFrom (off : Nat) : List Nat → List Nat
  | [] => [off]
  | d :: ds => off :: cumFrom (off + d) ds

/-- `cumdims = (0,) + tuple(accumulate(dims.values()))` -/
def cumdims (s : Scalings α) : List Nat := cumFrom 0 (dims s)

/-- the slices of the variables of `s` when the first one starts at `off`: `(name, start, stop)` -/
def slicesFrom (off : Nat) : Scalings α → List (String × Nat × Nat)
  | [] => []
  | sc :: r => (sc.name, off, off + dim sc) :: slicesFrom (off + dim sc) r

/-- `self.slices` -/
def slices (s : Scalings α) : List (String × Nat × Nat) := slicesFrom 0 s

/-- `self.length` (`cumdims[-1]`) = `len(self)` -/
def length (s : Scalings α) : Nat := (dims s).sum

/-- python `v[a:b]` for `0 ≤ a`, `0 ≤ b`: clamped -/
def slice {β : Type} (a b : Nat) (v : List β) : List β := (v.drop a).take (b - a)

/-! ### stack / unstack -/

def stackGo (x : Point α) : Scalings α → Except Err (List α)
  | [] => .ok []
  | sc :: r =>
    match x.lookup sc.name with
    | none => .error .key
    | some v =>
      match stackGo x r with
      | .error e => .error e
      | .ok w => .ok (v ++ w)

/-- `torch.cat([x[n] for n in self.scalings])`: the list is built first (`KeyError`), then concatenated
    (`torch.cat` refuses an empty list).  No length is looked at. -/
def stack (s : Scalings α) (x : Point α) : Except Err (List α) :=
  match stackGo x s with
  | .error e => .error e
  | .ok w => if s.isEmpty then .error .runtime else .ok w

/-- `{n: x[None, self.slices[n]] for n in self.scalings}` -/
def unstack (s : Scalings α) (v : List α) : Point α :=
  (slices s).map (fun t => (t.1, slice t.2.1 t.2.2 v))

/-! ### scaling / unscaling -/

/-- elementwise binary operation of two 1-D tensors with broadcasting -/
def bcast (op : α → α → α) (xs ys : List α) : Except Err (List α) :=
  if xs.length = ys.length then .ok (List.zipWith op xs ys)
  else match xs, ys with
    | [x], _ => .ok (ys.map (op x))
    | _, [y] => .ok (xs.map (fun x => op x y))
    | _, _ => .error .runtime

/-- `(piece - scaling.loc) / scaling.scale` -/
def scaleOne [Sub α] [Div α] (sc : Scaling α) (piece : List α) : Except Err (List α) :=
  match bcast (· - ·) piece sc.loc with
  | .error e => .error e
  | .ok d => bcast (· / ·) d sc.scale

/-- `scaling.loc + scaling.scale * piece` -/
def unscaleOne [Add α] [Mul α] (sc : Scaling α) (piece : List α) : Except Err (List α) :=
  match bcast (· * ·) sc.scale piece with
  | .error e => .error e
  | .ok m => bcast (· + ·) sc.loc m

/-- `[f(scaling, v[self.slices[n]]) for n, scaling in self.scalings.items()]`, concatenated; first failure wins -/
def catParts (f : Scaling α → List α → Except Err (List α)) (v : List α) :
    List (Scaling α × String × Nat × Nat) → Except Err (List α)
  | [] => .ok []
  | (sc, t) :: r =>
    match f sc (slice t.2.1 t.2.2 v) with
    | .error e => .error e
    | .ok p =>
      match catParts f v r with
      | .error e => .error e
      | .ok q => .ok (p ++ q)

/-- `torch.cat([f(scaling, v[self.slices[n]]) for …])` -/
def cat (s : Scalings α) (f : Scaling α → List α → Except Err (List α)) (v : List α) : Except Err (List α) :=
  match catParts f v (s.zip (slices s)) with
  | .error e => .error e
  | .ok w => if s.isEmpty then .error .runtime else .ok w

/-- `_AffineScalings1D.scaling`: natural scale ↦ standardized, concatenated -/
def scaling [Sub α] [Div α] (s : Scalings α) (x : Point α) : Except Err (List α) :=
  match stack s x with
  | .error e => .error e
  | .ok st => cat s scaleOne st

/-- `_AffineScalings1D.unscaling`: standardized, concatenated ↦ natural scale, split back -/
def unscaling [Add α] [Mul α] (s : Scalings α) (v : List α) : Except Err (Point α) :=
  match cat s unscaleOne v with
  | .error e => .error e
  | .ok u => .ok (unstack s u)

/-! ### how the optimisation uses them -/

/-- `obj_no_jac(x, state, scaling)`: the loss `f` of the state evaluated at `scaling.unscaling(x)` -/
def objective [Add α] [Mul α] {β : Type} (f : Point α → β) (s : Scalings α) (v : List α) : Except Err β :=
  match unscaling s v with
  | .error e => .error e
  | .ok x => .ok (f x)

/-- `_get_individual_parameters_patient`: `res = minimize(obj, x0 = scaling.scaling(initial_point), …)`,
    returned `scaling.unscaling(res.x)`.  `opt obj x0` stands for `res.x` (scipy: not modelled). -/
def patient [Add α] [Sub α] [Mul α] [Div α] {β : Type}
    (opt : (List α → Except Err β) → List α → List α) (f : Point α → β)
    (s : Scalings α) (init : Point α) : Except Err (Point α) :=
  match scaling s init with
  | .error e => .error e
  | .ok x0 => unscaling s (opt (objective f s) x0)

/-! ### vocabulary of the statements -/

/-- what `mk?` guarantees -/
def Valid (s : Scalings α) : Prop := ∀ sc ∈ s, sc.loc.length = sc.scale.length

/-- at least one variable, equal shapes of loc and scale, distinct names (keys of a python dict) -/
def WellFormed (s : Scalings α) : Prop := s ≠ [] ∧ Valid s ∧ (s.map (·.name)).Nodup

/-- no prior standard deviation is zero -/
def NonzeroScale [OfNat α 0] (s : Scalings α) : Prop := ∀ sc ∈ s, ∀ c ∈ sc.scale, c ≠ 0

/-- a mapping with exactly the variables of `s`, in order, each of the variable's dimension -/
def Shaped : Scalings α → Point α → Prop
  | [], [] => True
  | sc :: s, kv :: x => kv.1 = sc.name ∧ kv.2.length = sc.loc.length ∧ Shaped s x
  | _, _ => False

/-- the prior modes, as a point -/
def modes (s : Scalings α) : Point α := s.map (fun sc => (sc.name, sc.loc))

/-- per coordinate of the concatenated vector: `(loc, scale)` -/
def params (s : Scalings α) : List (α × α) := (s.map (fun sc => sc.loc.zip sc.scale)).flatten

/-- the concatenated values of a point -/
def flat (x : Point α) : List α := (x.map (·.2)).flatten

/-- `x ↦ (x − loc) / scale` on one coordinate -/
def stdz [Sub α] [Div α] (x : α) (p : α × α) : α := (x - p.1) / p.2

/-- `v ↦ loc + scale · v` on one coordinate -/
def unstdz [Add α] [Mul α] (v : α) (p : α × α) : α := p.1 + p.2 * v

end LeaspyVerif.Scalings
