/-
Model of the two benchmark models (property C20).

  src/leaspy/algo/personalize/constant_prediction_algo.py   `_get_feature_values`, `_get_individual_last_values`
  src/leaspy/models/constant.py                             `ConstantModel.compute_individual_trajectory`
  src/leaspy/io/data/abstract_dataframe_data_reader.py      `drop_full_nan` (visits without any observed feature are dropped at ingestion)
  src/leaspy/algo/personalize/lme_personalize.py            `_remove_nans`, `_get_individual_random_effects_and_residuals`,
                                                            `_generic_get_random_effects`
  src/leaspy/models/lme.py                                  `LMEModel.compute_individual_trajectory`

Import-free.  Numbers are core `Rat` (exact); a missing observation (NaN) is `none`.
A visit history is a list of `(age, row)` in *input order*; nothing assumes it sorted or duplicate-free.
Outcomes `Option _` at the outermost level: `none` = the python code raises / produces a non-finite number
(empty history for `last`/`last-known`/`max`, singular matrix, zero denominators, individual without any
observation or empty list of requested ages in the LME model); never a silent default.
-/
namespace LeaspyVerif.Bench

/-- one feature of one individual, in input order: `(age, value or NaN)` -/
abbrev Col := List (Rat × Option Rat)

/-- one individual, in input order: `(age, values of all features)` (`times`, `values` of the python code) -/
abbrev Visits := List (Rat × List (Option Rat))

inductive PredType where
  | last | lastKnown | max | mean
  deriving DecidableEq, Repr

/-- `values[:, j]` together with `times`; `none` when a row has no entry `j` (ragged input: not a tensor). -/
def column (j : Nat) : Visits → Option Col
  | [] => some []
  | (a, row) :: vs =>
    match row[j]?, column j vs with
    | some x, some rest => some ((a, x) :: rest)
    | _, _ => none

/-- Reader default `drop_full_nan=True`: a visit at which no feature is observed is removed before the
    algorithm sees the history. -/
def dropFullNan (vs : Visits) : Visits := vs.filter fun v => v.2.any Option.isSome

/-! ### `sorted(range(len(times)), key=times.__getitem__, reverse=True)`

Python's `sorted` is stable, also with `reverse=True`: visits come out by decreasing age and visits of
equal age keep their input order.  Modelled by a stable insertion sort. -/

def insertDesc {β} (x : Rat × β) : List (Rat × β) → List (Rat × β)
  | [] => [x]
  | y :: ys => if y.1 ≤ x.1 then x :: y :: ys else y :: insertDesc x ys

def sortDesc {β} : List (Rat × β) → List (Rat × β)
  | [] => []
  | x :: xs => insertDesc x (sortDesc xs)

def present (x : Rat × Option Rat) : Bool := x.2.isSome

/-- `LAST`: `values[sorted_indices[0]]` — the value at the most recent visit, NaN included.
    `none`: `IndexError` on an empty history. -/
def last (c : Col) : Option (Option Rat) := (sortDesc c).head?.map Prod.snd

/-- `numpy.argmax` of a boolean vector: index of the first `True`, `0` when there is none. -/
def argmaxBool : List Bool → Nat
  | [] => 0
  | true :: _ => 0
  | false :: bs => if bs.any id then argmaxBool bs + 1 else 0

/-- `LAST_KNOWN`: `values_sorted_desc[(~isnan(values_sorted_desc)).argmax(axis=0), j]`.
    `none`: `ValueError` (argmax of an empty sequence) on an empty history. -/
def lastKnown (c : Col) : Option (Option Rat) :=
  let s := sortDesc c
  (s[argmaxBool (s.map present)]?).map Prod.snd

/-- the non-NaN values of a feature, in input order -/
def presentVals (c : Col) : List Rat := c.filterMap Prod.snd

def maxList : List Rat → Option Rat
  | [] => none
  | x :: xs =>
    match maxList xs with
    | none => some x
    | some m => some (if m ≤ x then x else m)

/-- `MAX`: `numpy.nanmax(values, axis=0)`: maximum of the non-NaN values, NaN when there is none.
    `none`: `ValueError` (zero-size array) on an empty history. -/
def maxP (c : Col) : Option (Option Rat) :=
  if c.isEmpty then none else some (maxList (presentVals c))

/-- `MEAN`: `numpy.nanmean(values, axis=0)`: sum of the non-NaN values over their number, NaN when there
    is none (also on an empty history: numpy only warns). -/
def meanP (c : Col) : Option (Option Rat) :=
  let p := presentVals c
  some (if p.isEmpty then none else some (p.sum / (p.length : Rat)))

def featureValue : PredType → Col → Option (Option Rat)
  | .last => last
  | .lastKnown => lastKnown
  | .max => maxP
  | .mean => meanP

/-- `_get_feature_values(times, values)` for `nf` features: one value (or NaN) per feature. -/
def predict (pt : PredType) (nf : Nat) (vs : Visits) : Option (List (Option Rat)) :=
  (List.range nf).mapM fun j =>
    match column j vs with
    | some c => featureValue pt c
    | none => none

/-- `ConstantModel.compute_individual_trajectory`: `[[values] * len(timepoints)]`. -/
def constTraj (vals : List (Option Rat)) (ts : List Rat) : List (List (Option Rat)) :=
  ts.map fun _ => vals

/-- personalize (`constant_prediction`) then estimate at `ts`, as the public API chains them. -/
def constEstimate (pt : PredType) (nf : Nat) (vs : Visits) (ts : List Rat) :
    Option (List (Option Rat) × List (List (Option Rat))) :=
  (predict pt nf vs).map fun ip => (ip, constTraj ip ts)

/-! ### Linear mixed-effects benchmark -/

structure LmeParams where
  agesMean : Rat
  agesStd : Rat
  fe0 : Rat      -- fe_params[0]
  fe1 : Rat      -- fe_params[1]

/-- `(times - ages_mean) / ages_std` -/
def normAge (p : LmeParams) (t : Rat) : Rat := (t - p.agesMean) / p.agesStd

/-- `_remove_nans`: `(age, value)` of the observed visits, input order kept. -/
def removeNans (c : Col) : List (Rat × Rat) :=
  c.filterMap fun x => x.2.map fun y => (x.1, y)

/-- rows `(a, r)`: normalised age (second column of `X = add_constant(ages_norm)`) and residual
    `values - X @ fe_params`. -/
def residuals (p : LmeParams) (obs : List (Rat × Rat)) : List (Rat × Rat) :=
  obs.map fun x => (normAge p x.1, x.2 - (1 * p.fe0 + normAge p x.1 * p.fe1))

def sumBy (f : Rat × Rat → Rat) (l : List (Rat × Rat)) : Rat := (l.map f).sum

/-- intercept-only branch: `np.sum(residuals) / (n + cov_re_unscaled_inv.item())`.
    `none`: zero denominator (numpy yields inf/nan). -/
def lmeIntercept (cinv : Rat) (ar : List (Rat × Rat)) : Option Rat :=
  let d := (ar.length : Rat) + cinv
  if d = 0 then none else some (sumBy (fun x => x.2) ar / d)

/-- `_generic_get_random_effects` for a one-column `Z` (rows `(z, r)`):
    `inv(Z'Z + cinv) · (Z' resid)`. -/
def lmeGeneric1 (cinv : Rat) (zr : List (Rat × Rat)) : Option Rat :=
  let d := sumBy (fun x => x.1 * x.1) zr + cinv
  if d = 0 then none else some (1 / d * sumBy (fun x => x.1 * x.2) zr)

/-- 2×2 matrix `[[a, b], [c, d]]` -/
structure Mat2 where
  a : Rat
  b : Rat
  c : Rat
  d : Rat

def Mat2.det (m : Mat2) : Rat := m.a * m.d - m.b * m.c

/-- `np.linalg.inv` of a 2×2 matrix, written out; `none` = `LinAlgError: Singular matrix`. -/
def Mat2.inv (m : Mat2) : Option Mat2 :=
  if m.det = 0 then none
  else some ⟨m.d / m.det, -m.b / m.det, -m.c / m.det, m.a / m.det⟩

/-- `Z'Z + cov_re_unscaled_inv` for `Z = X = [1, a]` (rows `(a, r)`). -/
def lmeNormalMatrix (cinv : Mat2) (ar : List (Rat × Rat)) : Mat2 :=
  ⟨(ar.length : Rat) + cinv.a, sumBy (fun x => x.1) ar + cinv.b,
   sumBy (fun x => x.1) ar + cinv.c, sumBy (fun x => x.1 * x.1) ar + cinv.d⟩

/-- `_generic_get_random_effects(resid, Z = X, cov_re_unscaled_inv)`:
    `G = inv(Z'Z + cinv)`, result `G · (Z' resid)`. -/
def lmeGeneric2 (cinv : Mat2) (ar : List (Rat × Rat)) : Option (Rat × Rat) :=
  match (lmeNormalMatrix cinv ar).inv with
  | none => none
  | some G =>
    let u0 := sumBy (fun x => x.2) ar
    let u1 := sumBy (fun x => x.1 * x.2) ar
    some (G.a * u0 + G.b * u1, G.c * u0 + G.d * u1)

/-- `_get_individual_random_effects_and_residuals`: `[random_intercept]` without random slope,
    `[random_intercept, random_slope_age]` with.  Without random slope only entry `a` of `cinv` is read
    (`cov_re_unscaled_inv.item()`). -/
def lmeRandomEffects (p : LmeParams) (slope : Bool) (cinv : Mat2) (c : Col) : Option (List Rat) :=
  if p.agesStd = 0 then none
  else if (removeNans c).isEmpty then none   -- `sm.add_constant` raises ValueError on an empty array
  else
    let ar := residuals p (removeNans c)
    if slope then (lmeGeneric2 cinv ar).map fun b => [b.1, b.2]
    else (lmeIntercept cinv.a ar).map fun b => [b]

/-- `LMEModel.compute_individual_trajectory`: `X @ (fe_params + re_params)` at the normalised ages,
    `re_params = [b0, 0]` without random slope.  `none`: wrong number of individual parameters
    (`KeyError`), `ages_std = 0` (non-finite output), or no requested age (`sm.add_constant` raises
    `ValueError` on an empty array). -/
def lmeTraj (p : LmeParams) (slope : Bool) (re : List Rat) (ts : List Rat) : Option (List Rat) :=
  if p.agesStd = 0 then none
  else if ts.isEmpty then none
  else
    match slope, re with
    | false, [b0] => some (ts.map fun t => 1 * (p.fe0 + b0) + normAge p t * (p.fe1 + 0))
    | true, [b0, b1] => some (ts.map fun t => 1 * (p.fe0 + b0) + normAge p t * (p.fe1 + b1))
    | _, _ => none

end LeaspyVerif.Bench
