/-
Model of the individual-parameter container (property C16).

  src/leaspy/io/outputs/individual_parameters.py
     IndividualParameters.add_individual_parameters      → `add`
     IndividualParameters.to_dataframe / from_dataframe  → `toTable` / `fromTable`
     IndividualParameters.to_pytorch / from_pytorch      → `toTorch` / `fromTorch`
     IndividualParameters._save_json / _load_json        → `toJson` / `fromJson`
     IndividualParameters.save / load (csv)              → `saveCsv` / `loadCsv`

Import-free.  The model follows the code *after* the repairs proposed in /verif/fixes:
  F10   `to_dataframe` gives a scalar parameter (shape `()`) one column, like a length-1 one;
  F12a  `add_individual_parameters` checks the type of every element of a list value
        (the pinned code looks at the first element only).
  F12b  `save("….json")` writes numpy scalar values as python numbers (the pinned code raises TypeError);
  F12c  `load("….csv")` reads identifiers verbatim and floats exactly (the pinned code turns "NA", "null", "", …
        into NaN and loses the last bit of about one value in eight).
Everything else is the code as it is, including the defects kept as findings
(F11 prefix split on `_`, F12 scalars come back as length-1 lists).

Python objects → values: a `dict` is an association list in insertion order with distinct keys
(`NodupKeys`); a parameter / column name is a `List Char` (python `str`), an identifier a `String`.
The number type `q` is a parameter (the driver runs on `Rat`: python ints / floats as exact rationals).
-/
namespace LeaspyVerif.IndParams

abbrev Name := List Char

/-- shape tuple: `()` = `[]`, `(n,)` = `[n]` -/
abbrev Shape := List Nat

/-- exceptions raised on the modelled paths -/
inductive Err
  | input      -- LeaspyIndividualParamsInputError
  | attr       -- AttributeError (`None.items()` on an empty container, `'str'.append` in from_dataframe)
  | invariant  -- a state that cannot be built through `add` (KeyError / ragged rows); never produced on consistent containers
  deriving DecidableEq, Repr

/-- an element of a python list handed to `add`: a supported scalar (int, float, numpy int/float) or anything else -/
inductive RawElem (q : Type)
  | num (x : q)
  | bad
  deriving DecidableEq, Repr

/-- a dictionary value handed to `add` (numpy arrays are `tolist()`-ed first by the code) -/
inductive RawVal (q : Type)
  | num (x : q)
  | bad                              -- str, bool, None, dict, …
  | list (xs : List (RawElem q))     -- python list (or 1-D ndarray)
  deriving DecidableEq, Repr

inductive RawId
  | str (s : String)
  | nonStr                           -- int, float (nan), None, …
  deriving DecidableEq, Repr

inductive RawParams (q : Type)
  | notDict
  | dict (d : List (Name × RawVal q))
  deriving Repr

/-- a stored parameter value -/
inductive Val (q : Type)
  | scalar (x : q)
  | vec (xs : List q)
  deriving DecidableEq, Repr

structure Container (q : Type) where
  ids : List String                               -- `_indices`
  params : List (String × List (Name × Val q))    -- `_individual_parameters` (insertion order)
  shapes : Option (List (Name × Shape))           -- `_parameters_shape` (`None` until the first add)
  deriving DecidableEq, Repr

def empty {q} : Container q := { ids := [], params := [], shapes := none }

def shapeOf {q} : Val q → Shape
  | .scalar _ => []
  | .vec xs => [xs.length]

/-- `functools.reduce(operator.mul, shape, 1)` -/
def sizeOf (s : Shape) : Nat := s.foldl (· * ·) 1

def flat {q} : Val q → List q
  | .scalar x => [x]
  | .vec xs => xs

def elemNum {q} : RawElem q → Option q
  | .num x => some x
  | .bad => none

/-- type check + shape extraction of one dictionary value (F12a repaired: every element is checked). -/
def checkVal {q} : RawVal q → Option (Val q)
  | .num x => some (.scalar x)
  | .bad => none
  | .list xs => if xs.isEmpty then none else (xs.mapM elemNum).map .vec

/-- python `dict.__eq__` on association lists with distinct keys -/
def dictEq {β} [BEq β] (a b : List (Name × β)) : Bool :=
  a.length == b.length && a.all (fun kv => b.lookup kv.1 == some kv.2)

/-- python `d[k] = v` -/
def dictSet {β} : List (Name × β) → Name → β → List (Name × β)
  | [], k, v => [(k, v)]
  | (k', v') :: rest, k, v => if k' == k then (k', v) :: rest else (k', v') :: dictSet rest k v

def checkDict {q} (d : List (Name × RawVal q)) : Option (List (Name × Val q)) :=
  d.mapM (fun kv => (checkVal kv.2).map (fun v => (kv.1, v)))

/-- `add_individual_parameters` -/
def add {q} (c : Container q) (i : RawId) (p : RawParams q) : Except Err (Container q) :=
  match i with
  | .nonStr => .error .input
  | .str s =>
    if c.ids.contains s then .error .input else
    match p with
    | .notDict => .error .input
    | .dict d =>
      match checkDict d with
      | none => .error .input
      | some vals =>
        let psh := vals.map (fun kv => (kv.1, shapeOf kv.2))
        match c.shapes with
        | none => .ok { ids := c.ids ++ [s], params := c.params ++ [(s, vals)], shapes := some psh }
        | some sh =>
          if dictEq sh psh then .ok { c with ids := c.ids ++ [s], params := c.params ++ [(s, vals)] }
          else .error .input

/-- a sequence of additions; the index of the first refused one is reported -/
def addAll {q} : Container q → Nat → List (RawId × RawParams q) → Except (Err × Nat) (Container q)
  | c, _, [] => .ok c
  | c, k, (i, p) :: rest =>
    match add c i p with
    | .error e => .error (e, k)
    | .ok c' => addAll c' (k + 1) rest

/-! ### table form (pandas DataFrame indexed by ID) -/

structure Table (q : Type) where
  cols : List Name
  rows : List (RawId × List q)
  deriving DecidableEq, Repr

/-- `"source" in p_name` -/
def hasInfix (pat : List Char) : List Char → Bool
  | [] => pat.isEmpty
  | c :: cs => pat.isPrefixOf (c :: cs) || hasInfix pat cs

def hasSource (n : Name) : Bool := hasInfix "source".toList n

/-- `str(i)` -/
def idxStr (i : Nat) : List Char := (Nat.repr i).toList

/-- column labels of one parameter (`to_dataframe`, F10 repaired: the size, not `shape[0]`) -/
def colNames (n : Name) (s : Shape) : List Name :=
  if sizeOf s == 1 && !hasSource n then [n]
  else (List.range (sizeOf s)).map (fun i => n ++ '_' :: idxStr i)

/-- the cells one parameter contributes to a row: `append(v)` for shape `()`, `+= v` otherwise -/
def cells {q} (s : Shape) (v : Val q) : Except Err (List q) :=
  match s, v with
  | [], .scalar x => .ok [x]
  | _ :: _, .vec xs => .ok xs
  | _, _ => .error .invariant

def lookupE {β} (l : List (Name × β)) (k : Name) : Except Err β :=
  match l.lookup k with
  | some v => .ok v
  | none => .error .invariant

def lookupId {β} (l : List (String × β)) (k : String) : Except Err β :=
  match l.lookup k with
  | some v => .ok v
  | none => .error .invariant

def rowOf {q} (sh : List (Name × Shape)) (d : List (Name × Val q)) : Except Err (List q) :=
  (sh.mapM (fun ns => lookupE d ns.1 >>= cells ns.2)).map List.flatten

/-- `to_dataframe` -/
def toTable {q} (c : Container q) : Except Err (Table q) :=
  match c.shapes with
  | none => .error .attr
  | some sh => do
    let rows ← c.ids.mapM (fun i => do
      let d ← lookupId c.params i
      let r ← rowOf sh d
      pure (RawId.str i, r))
    pure { cols := sh.flatMap (fun ns => colNames ns.1 ns.2), rows := rows }

/-- what `from_dataframe` remembers per parameter: one label (`str`) or a list of labels -/
inductive ColSpec
  | single (label : Name)
  | many (labels : List Name)
  deriving DecidableEq, Repr

/-- `name.split("_")[0]` -/
def prefixOf (n : Name) : Name := n.takeWhile (· != '_')

/-- the `final_names` loop of `from_dataframe` -/
def groupCols : List Name → List (Name × ColSpec) → Except Err (List (Name × ColSpec))
  | [], acc => .ok acc
  | n :: ns, acc =>
    let p := prefixOf n
    if p == n then groupCols ns (dictSet acc n (.single n))
    else match acc.lookup p with
      | none => groupCols ns (acc ++ [(p, .many [n])])
      | some (.many l) => groupCols ns (dictSet acc p (.many (l ++ [n])))
      | some (.single _) => .error .attr

/-- pandas label selection on one row: all cells whose column label is `l`, in column order -/
def cellsAt {q} (row : List (Name × q)) (l : Name) : List q :=
  (row.filter (fun kv => kv.1 == l)).map (·.2)

/-- `np.array(row[col].tolist())` / `np.array([row[col]])`, then `tolist()` inside `add` -/
def selectSpec {q} (row : List (Name × q)) : ColSpec → RawVal q
  | .single l =>
    match cellsAt row l with
    | [x] => .list [.num x]
    | _ => .list [.bad]          -- duplicated label: a nested list, refused by `add`
  | .many ls => .list ((ls.flatMap (cellsAt row)).map .num)

def fromTableRows {q} (spec : List (Name × ColSpec)) (cols : List Name) :
    Container q → List (RawId × List q) → Except Err (Container q)
  | c, [] => .ok c
  | c, (i, vals) :: rest =>
    let row := cols.zip vals
    match add c i (.dict (spec.map (fun ps => (ps.1, selectSpec row ps.2)))) with
    | .error e => .error e
    | .ok c' => fromTableRows spec cols c' rest

/-- `from_dataframe` -/
def fromTable {q} (t : Table q) : Except Err (Container q) :=
  match groupCols t.cols [] with
  | .error e => .error e
  | .ok spec => fromTableRows spec t.cols empty t.rows

/-- `save("….csv")`: refuses the empty container, else writes `to_dataframe()` -/
def saveCsv {q} (c : Container q) : Except Err (Table q) :=
  match c.shapes with
  | none => .error .input
  | some _ => toTable c

/-- `load("….csv")` (F12c repaired: identifiers are read verbatim, floats exactly; pandas' CSV writer / reader are
    trusted to give back the labels, identifiers and cells of a table whose column labels are distinct) -/
def loadCsv {q} (t : Table q) : Except Err (Container q) := fromTable t

/-! ### tensor form -/

inductive Tensor (q : Type)
  | d1 (xs : List q)             -- shape (n,)
  | d2 (rows : List (List q))    -- shape (n, k)
  deriving DecidableEq, Repr

def tensorLen {q} : Tensor q → Nat
  | .d1 xs => xs.length
  | .d2 rows => rows.length

/-- `tensor[i].tolist()` for every `i` -/
def tensorRows {q} : Tensor q → List (RawVal q)
  | .d1 xs => xs.map .num
  | .d2 rows => rows.map (fun r => .list (r.map .num))

/-- `to_pytorch`: always 2-D `(n_individuals, size)`, values converted by `rnd` (float32 rounding) -/
def toTorch {q} (rnd : q → q) (c : Container q) : Except Err (List String × List (Name × Tensor q)) :=
  match c.shapes with
  | none => .error .attr
  | some sh => do
    let ts ← sh.mapM (fun ns => do
      let rows ← c.ids.mapM (fun i => do
        let d ← lookupId c.params i
        let v ← lookupE d ns.1
        let r ← cells ns.2 v
        pure (r.map rnd))
      pure (ns.1, Tensor.d2 rows))
    pure (c.ids, ts)

def splitHeads {q} (cols : List (Name × List (RawVal q))) :
    Option (List (Name × RawVal q) × List (Name × List (RawVal q))) :=
  (cols.mapM (fun (kc : Name × List (RawVal q)) => match kc.2 with
      | v :: rest => some ((kc.1, v), (kc.1, rest))
      | [] => none)).map List.unzip

def fromTorchRows {q} : Container q → List RawId → List (Name × List (RawVal q)) → Except Err (Container q)
  | c, [], _ => .ok c
  | c, i :: is, cols =>
    match splitHeads cols with
    | none => .error .invariant      -- excluded by the length check of `fromTorch`
    | some (heads, rests) =>
      match add c i (.dict heads) with
      | .error e => .error e
      | .ok c' => fromTorchRows c' is rests

/-- `from_pytorch` -/
def fromTorch {q} (ids : List RawId) (d : List (Name × Tensor q)) : Except Err (Container q) :=
  if d.any (fun kt => tensorLen kt.2 != ids.length) then .error .input
  else fromTorchRows empty ids (d.map (fun kt => (kt.1, tensorRows kt.2)))

/-! ### JSON form -/

structure Json (q : Type) where
  indices : List String
  individual_parameters : List (String × List (Name × Val q))
  parameters_shape : List (Name × Shape)
  deriving DecidableEq, Repr

/-- `save(…json)`: refuses the empty container -/
def toJson {q} (c : Container q) : Except Err (Json q) :=
  match c.shapes with
  | none => .error .input
  | some sh => .ok { indices := c.ids, individual_parameters := c.params, parameters_shape := sh }

/-- `_load_json` (no validation; shape lists become tuples) -/
def fromJson {q} (j : Json q) : Container q :=
  { ids := j.indices, params := j.individual_parameters, shapes := some j.parameters_shape }

/-! ### helpers used by the theorems and the driver -/

def mapVal {q} (f : q → q) : Val q → Val q
  | .scalar x => .scalar (f x)
  | .vec xs => .vec (xs.map f)

/-- the container with every value sent through `f` -/
def mapVals {q} (f : q → q) (c : Container q) : Container q :=
  { c with params := c.params.map (fun ip => (ip.1, ip.2.map (fun kv => (kv.1, mapVal f kv.2)))) }

/-- scalars turned into length-1 vectors (what F12 does) -/
def vecOfVal {q} : Val q → Val q
  | .scalar x => .vec [x]
  | .vec xs => .vec xs

/-- the parameters of one individual listed in the order of the recorded shapes (same python dict) -/
def reorder {q} (sh : List (Name × Shape)) (d : List (Name × Val q)) : List (Name × Val q) :=
  sh.filterMap (fun ns => (d.lookup ns.1).map (fun v => (ns.1, v)))

/-- every individual's dict listed in the order of the recorded shapes -/
def normalize {q} (sh : List (Name × Shape)) (c : Container q) : Container q :=
  { c with params := c.params.map (fun ip => (ip.1, reorder sh ip.2)) }

end LeaspyVerif.IndParams
