/-
Model of one sampling step of the MCMC samplers (properties C03, C07).

  src/leaspy/samplers/base.py    `_metropolis_step`, `_group_metropolis_step`
  src/leaspy/samplers/gibbs.py   `AbstractPopulationGibbsSampler.sample`, `_proposed_change_idx`,
                                 `_get_iterator_indices` (Gibbs / FastGibbs / Metropolis-Hastings),
                                 `IndividualGibbsSampler.sample`, `_proposed_change`
  src/leaspy/algo/algo_with_samplers.py   one sampler per latent variable (name, shape, scale)

Import-free.  Two number types: `α` for the values of the latent variable (float32 tensors in the
code), `β` for the negative log-likelihood terms, the inverse temperature and the uniform draws.
`exp : β → β` is a parameter (`Float.exp` in the driver, `Real.exp` in `Props/C03.lean`).
Randomness is an explicit input: `zs` are the results of `torch.randn`, `us` those of `torch.rand`,
in call order; the unused suffixes are returned.

Not modelled here (other properties): the State cache / fork / revert mechanics (C01, C02) — a step
returns the value `if accepted then proposed else current` —, the acceptance history and the
adaptation of `std` (C19), the `random.shuffle` of the blocks (the visited order is an input).
How the blocks themselves are chosen for a variable of any shape (iterator, draw shapes, `std` entry,
masks) is `Model/Blocks.lean`; `Props/C03.lean` (`sampler_tables_agree`) ties the 2-D tables below to it.
-/
namespace LeaspyVerif.Sampler

/-- Proposed change on a variable with `n` (flattened, row-major) entries:
    `std * z_k` at the k-th position of `block`, zero elsewhere.
    `_proposed_change_idx`: `self.std[idx] * torch.randn(shape_idx)` put at `indices=idx`
    (`State.put(..., indices=idx, accumulate=True)` adds it to the current value on that block only). -/
def proposal {α} [OfNat α 0] [Mul α] (n : Nat) (block : List Nat) (std : α) (z : List α) : List α :=
  (List.range n).map fun i =>
    match (block.zip z).lookup i with
    | some zi => std * zi
    | none => 0

/-- entry-wise addition (`accumulate=True`) -/
def addL {α} [Add α] (x d : List α) : List α := List.zipWith (· + ·) x d

/-- `(new_regularity - previous_regularity) * temperature_inv + (new_attachment - previous_attachment)` -/
def D {β} [Add β] [Mul β] (tinv dA dR : β) : β := dR * tinv + dA

/-- `torch.rand(...) < alpha` -/
def acceptAlpha {β} [LT β] [DecidableLT β] (u a : β) : Bool := decide (u < a)

/-- `alpha = exp(-1 * D)`, then `_metropolis_step(alpha)` -/
def accept {β} [Neg β] [LT β] [DecidableLT β] (exp : β → β) (u d : β) : Bool :=
  acceptAlpha u (exp (-d))

/-- One block of a population sampler: the flat positions it covers, its (scalar) proposal
    standard deviation `std[idx]`, and what the sampler reads to decide: the change of
    `nll_attach` and of `nll_regul_<name>` between the current and the proposed value. -/
structure Block (α β : Type) where
  idx : List Nat
  std : α
  dE : List α → List α → β × β

structure PopOut (α β : Type) where
  value : List α
  acc : List Bool
  props : List (List α)
  zs : List α
  us : List β

/-- `AbstractPopulationGibbsSampler.sample`: loop over the (already shuffled) blocks; each block draws
    `|block|` normals, proposes, reads the two nll terms, draws one uniform — always — and keeps the
    proposal iff `u < alpha`.  `none` iff the provided draws are exhausted. -/
def popSample {α β} [OfNat α 0] [Mul α] [Add α] [Add β] [Mul β] [Neg β] [LT β] [DecidableLT β]
    (exp : β → β) (tinv : β) : List (Block α β) → List α → List α → List β → Option (PopOut α β)
  | [], cur, zs, us => some ⟨cur, [], [], zs, us⟩
  | b :: bs, cur, zs, us =>
    if zs.length < b.idx.length then none else
    match us with
    | [] => none
    | u :: us' =>
      let prop := addL cur (proposal cur.length b.idx b.std (zs.take b.idx.length))
      let e := b.dE cur prop
      let a := accept exp u (D tinv e.1 e.2)
      match popSample exp tinv bs (if a then prop else cur) (zs.drop b.idx.length) us' with
      | none => none
      | some r => some { r with acc := a :: r.acc, props := prop :: r.props }

/-- The index blocks of the three population samplers for a variable of shape `rows × cols`
    (`_get_iterator_indices` = `ndindex(shape_adapted_std)`; a 1-D variable of length `k` is `k × 1`
    for Gibbs/FastGibbs). -/
def gibbsBlocks (rows cols : Nat) : List (List Nat) := (List.range (rows * cols)).map fun i => [i]
def fastGibbsBlocks (rows cols : Nat) : List (List Nat) :=
  (List.range rows).map fun r => (List.range cols).map fun c => r * cols + c
def mhBlocks (rows cols : Nat) : List (List Nat) := [List.range (rows * cols)]

/-- One individual seen by `IndividualGibbsSampler.sample`: its own row of the variable, its own
    `std[j]`, and the change of its own `nll_attach_ind[j]`, `nll_regul_<name>_ind[j]`. -/
structure Ind (α β : Type) where
  cur : List α
  std : α
  dE : List α → List α → β × β

/-- decision and new row for one individual -/
def indOne {α β} [Mul α] [Add α] [Add β] [Mul β] [Neg β] [LT β] [DecidableLT β]
    (exp : β → β) (tinv : β) (p : Ind α β) (z : List α) (u : β) : List α × Bool :=
  let prop := addL p.cur (z.map (p.std * ·))
  let e := p.dE p.cur prop
  let a := accept exp u (D tinv e.1 e.2)
  (if a then prop else p.cur, a)

/-- rows of `torch.randn((n, d))` in row-major order -/
def chunks {α} (d : Nat) : Nat → List α → List (List α)
  | 0, _ => []
  | n + 1, zs => zs.take d :: chunks d n (zs.drop d)

structure IndOut (α β : Type) where
  rows : List (List α × Bool)
  zs : List α
  us : List β

/-- `IndividualGibbsSampler.sample`: one `randn((n, *shape))` (n·d normals), one `rand((n,))`
    (n uniforms), decision and partial revert per individual. -/
def indSample {α β} [Mul α] [Add α] [Add β] [Mul β] [Neg β] [LT β] [DecidableLT β]
    (exp : β → β) (tinv : β) (d : Nat) (inds : List (Ind α β)) (zs : List α) (us : List β) :
    Option (IndOut α β) :=
  if zs.length < inds.length * d ∨ us.length < inds.length then none else
  some {
    rows := List.zipWith (fun (pz : Ind α β × List α) u => indOne exp tinv pz.1 pz.2 u)
              (inds.zip (chunks d inds.length zs)) (us.take inds.length)
    zs := zs.drop (inds.length * d)
    us := us.drop inds.length }

end LeaspyVerif.Sampler
