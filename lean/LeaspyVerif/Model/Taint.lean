/-
Positional taint analysis of the recorded torch programs of leaspy (property C06).

`harness/c06_masked.py` records, with the tracer of C07 (`harness/trace_c07.py`), the torch operations the real code
executes from the `Dataset` tensors (`values`, `mask`, `timepoints`, …) to the quantities C06 names: the attachment terms,
the sufficient statistics, the inputs of the noise update, the updated parameters, the model values.  The recorded program
(`Trace.TNode`, the IR of `Model/Trace.lean`) is translated here into a *gather program*: every output element of every
node is `elt g [operands]`, where the operands are listed by position (`deps`) — so the dependence of every single number on
every single input number is explicit — and analysed by an abstract interpretation over

    known v   the element is this constant in every run (derived from the mask and program constants only)
    clean     the element is the same in any two runs that agree outside the garbage positions
    dirty     the element may depend on what is stored at a garbage position

The garbage positions are the premise of the property (cells of `values` with mask 0, ages of visits without any observed
feature) and are supplied with the program.  The rules are IEEE-faithful because they never assume anything about the
arithmetic: an operation on a dirty operand is dirty (`0 * garbage` is NOT clean: `0 * nan = nan`), unless it is a `where`
/ `masked_fill` whose condition is a *known* constant — then only the selected branch matters (`masked_fill(~m, 0)` IS
clean).  Soundness (`Props/C06.lean`, `taint_sound`) holds for every interpretation `Ops α` of the scalar operations, in
particular for the IEEE-like `XVal` of `Model/Masked.lean` (kernel-checked examples) and for hardware doubles (the driver).

Part 1  gather programs: semantics `evalG` (generic in the element type: the concrete runs, the abstract run and the joint
        run used in the soundness proof are instances), abstract values, abstract element function `eltA`.
Part 2  translation `toGather` of a recorded program: per torch operation the list of operands of every output element,
        computed from the recorded shapes with the tensor library of `Model/Trace.lean` run on *position labels*
        (`fnApply` on tensors whose entries are `(node, flat position)`).  Like `Trace.lowerOp`, this table is validated on
        every run (the gather evaluation must reproduce the real tensors and agree with `Trace.fnApply`), not proved.

Imports `Model/Trace.lean` (IR, tensors) and `Model/Masked.lean` (`XVal` for the examples); no Mathlib.
-/
import LeaspyVerif.Model.Trace
import LeaspyVerif.Model.Masked

namespace LeaspyVerif.Taint
open LeaspyVerif.Trace

/-! ## Part 1 — gather programs -/

/-- how one output element is computed from its gathered operands -/
inductive GOp where
  | copy                -- the operand itself (views, reshapes, expands, index expressions, concatenations, transposes)
  | ew (o : Ew)         -- elementwise operation (operands in argument order)
  | red (k : Red)       -- reduction of all operands
  | dot                 -- `x₀·y₀ + x₁·y₁ + …` (operands alternate): matmul
  deriving DecidableEq, Repr

inductive GNode (α : Type) where
  /-- `k`-th input tensor, flattened -/
  | input (k : Nat)
  | const (data : List α)
  /-- one list of operands `(node, flat position)` per output element -/
  | gather (g : GOp) (deps : List (List (Nat × Nat)))
  deriving Repr

/-- the operands that exist (a missing operand is a read outside a tensor: dropped; `elt` then sees fewer operands) -/
def operands {β} (env : List (List β)) (d : List (Nat × Nat)) : List β :=
  d.filterMap fun (a, q) => (env[a]?).bind (·[q]?)

def evalNode {α β} (elt : GOp → List β → β) (cst : α → β) (inputs : Nat → List β) (env : List (List β)) : GNode α → List β
  | .input k => inputs k
  | .const data => data.map cst
  | .gather g deps => deps.map fun d => elt g (operands env d)

def runG {α β} (elt : GOp → List β → β) (cst : α → β) (inputs : Nat → List β) : List (GNode α) → List (List β) → List (List β)
  | [], env => env
  | nd :: rest, env => runG elt cst inputs rest (env ++ [evalNode elt cst inputs env nd])

/-- values (flattened) of all nodes -/
def evalG {α β} (elt : GOp → List β → β) (cst : α → β) (inputs : Nat → List β) (nodes : List (GNode α)) : List (List β) :=
  runG elt cst inputs nodes []

/-- element `q` of node `o` -/
def cell {β} (env : List (List β)) (o q : Nat) : Option β := (env[o]?).bind (·[q]?)

/-! ### concrete element function -/

def dotApply {α} (O : Ops α) : List α → α → α
  | x :: y :: r, acc => dotApply O r (O.add acc (O.mul x y))
  | _, acc => acc

/-- the scalar computation of one output element -/
def elt {α} (O : Ops α) : GOp → List α → α
  | .copy, xs => match xs with | x :: _ => x | [] => O.zero
  | .ew o, xs => ewApply O o xs
  | .red k, xs => redApply O k xs
  | .dot, xs => dotApply O xs O.zero

/-! ### abstract values -/

inductive AVal (α : Type) where
  | known (v : α)
  | clean
  | dirty
  deriving DecidableEq, Repr

def AVal.isDirty {α} : AVal α → Bool
  | .dirty => true
  | _ => false

/-- all operands are known constants -/
def allKnown {α} : List (AVal α) → Option (List α)
  | [] => some []
  | .known v :: r => (allKnown r).map (v :: ·)
  | _ :: _ => none

/-- the general rule: constants fold, anything touching a dirty operand is dirty, the rest is clean -/
def eltGen {α} (O : Ops α) (g : GOp) (xs : List (AVal α)) : AVal α :=
  match allKnown xs with
  | some vs => .known (elt O g vs)
  | none => if xs.any AVal.isDirty then .dirty else .clean

/-- a `where` (`masked_fill`) whose condition is a known constant is its selected branch -/
def whereKnown {α} (O : Ops α) : List (AVal α) → Option (AVal α)
  | [.known c, y, z] => some (if O.eq c O.zero then z else y)
  | _ => none

/-- abstract element function: the general rule, except for a `where` with a known condition -/
def eltA {α} (O : Ops α) (g : GOp) (xs : List (AVal α)) : AVal α :=
  if g = .ew .where_ then
    match whereKnown O xs with
    | some a => a
    | none => eltGen O g xs
  else eltGen O g xs

/-- abstract run -/
def taint {α} (O : Ops α) (ainputs : Nat → List (AVal α)) (nodes : List (GNode α)) : List (List (AVal α)) :=
  evalG (eltA O) AVal.known ainputs nodes

/-- concrete run -/
def evalC {α} (O : Ops α) (inputs : Nat → List α) (nodes : List (GNode α)) : List (List α) :=
  evalG (elt O) id inputs nodes

/-- abstract input from the premise of the property: a `known` input is a constant of the analysis (the mask), otherwise
    the positions flagged as garbage are dirty and the others clean -/
def absInput {α} (isKnown : Bool) (garbage : List Bool) (x : List α) : List (AVal α) :=
  if isKnown then x.map AVal.known
  else (x.zip garbage).map fun (_, g) => if g then .dirty else .clean

/-! ## Part 2 — from the recorded IR to a gather program -/

/-- position labels: entry `q` of the tensor of node `a` is `(a, q)` -/
def labelT (a : Nat) (shape : List Nat) : Tn (Nat × Nat) :=
  ⟨shape, ((List.range (numel shape)).map fun q => (a, q)).toArray⟩

/-- the tensor library moves labels exactly as it moves numbers; the arithmetic fields are never used on labels.
    `zero` (what a read outside a tensor returns) is a label that no node carries. -/
def noNode : Nat := 1000000007
def lblOps : Ops (Nat × Nat) :=
  { zero := (noNode, 0), one := (noNode, 0), add := fun a _ => a, sub := fun a _ => a, mul := fun a _ => a, div := fun a _ => a,
    lt := fun _ _ => false, eq := fun _ _ => false, exp := id, log := id, pow := fun a _ => a, sqrt := id, ofNat := fun _ => (noNode, 0) }

structure GInfo where
  shape : List Nat
  deriving Repr

/-- operands of every output element of a recorded operation (`none`: the operation is not in the table) -/
def gatherOp {α} (shapes : List (List Nat)) (o : TOp α) (args : List Nat) (outShape : List Nat) :
    Option (GOp × List (List (Nat × Nat))) :=
  let sh := fun (a : Nat) => (shapes[a]?).getD []
  let lbls := args.map fun a => labelT a (sh a)
  -- the per-tensor operation (dims normalised) that `Trace.lowerPlain` assigns when nothing is batched
  let infos : List Info := shapes.map fun s => ⟨false, s, 0, none⟩
  let fn? : Option (Fn α) := match (lowerPlain infos o args outShape).1 with
    | .op f _ => some f
    | _ => none
  let single := fun (t : Tn (Nat × Nat)) => (GOp.copy, t.data.toList.map fun l => [l])
  match o with
  | .const _ => none            -- (constants are `GNode.const`)
  | .ew e =>
    let rank := outShape.length
    let ts := lbls.map (trimTo rank)
    let out := ts.foldl (fun s t => bshape s t.shape) []
    some (.ew e, (List.range (numel out)).map fun p => ts.map (·.bget lblOps (unravel out p)))
  | .red k _ _ =>
    match fn?, lbls with
    | some (.red _ dims keep), [t] =>
      let keepShape := t.shape.zipIdx.map fun (d, i) => if dims.contains i then 1 else d
      let pos := (List.range (numel t.shape)).map fun i =>
        ravel keepShape ((unravel t.shape i).zipIdx.map fun (v, a) => if dims.contains a then 0 else v)
      let vals := t.data.toList.zip pos
      let _ := keep
      some (.red k, (List.range (numel keepShape)).map fun o => (vals.filter (·.2 = o)).map (·.1))
    | _, _ => none
  | .matmul =>
    match lbls with
    | [a, b] =>
      let a2 : Tn (Nat × Nat) := if a.shape.length = 1 then ⟨1 :: a.shape, a.data⟩ else a
      let b2 : Tn (Nat × Nat) := if b.shape.length = 1 then ⟨b.shape ++ [1], b.data⟩ else b
      if a2.shape.length ≠ 2 || b2.shape.length ≠ 2 then none else
      let m := a2.shape.getD 0 0
      let k := a2.shape.getD 1 0
      let p := b2.shape.getD 1 0
      some (.dot, (List.range (m * p)).map fun q =>
        (List.range k).flatMap fun l => [a2.get lblOps [q / p, l], b2.get lblOps [l, q % p]])
    | _ => none
  | .view | .squeeze _ | .unsqueeze _ | .expand | .getitem _ | .cat _ | .stack _ | .transpose _ _ =>
    match fn? with
    | some f => some (single (fnApply lblOps (match f with
        | .reshape s => .reshape s | .expand s => .expand s | .index ix => .index ix | .cat d => .cat d
        | .stack d => .stack d | .transpose a b => .transpose a b | _ => .unknown "") lbls))
    | none => none
  | _ => none

/-- the translated program and, per node, whether the operation was outside the table (then the node is the extra
    input `unkBase + id`, to be declared all dirty) -/
def unkBase : Nat := 1000000

def toGatherNode {α} (shapes : List (List Nat)) (pb ib : Nat) (id : Nat) : TNode α → GNode α × List Nat × Bool
  | .pop k s => (.input (pb + k), s, false)
  | .ind k s => (.input (ib + k), s, false)
  | .ind1 k s => (.input (ib + k), s, false)
  | .unk _ s => (.input (unkBase + id), s, true)
  | .op (.const t) _ s => (.const t.data.toList, s, false)
  | .op o args s =>
    match gatherOp shapes o args s with
    | some (g, deps) => if deps.length = numel s then (.gather g deps, s, false) else (.input (unkBase + id), s, true)
    | none => (.input (unkBase + id), s, true)
  | .escape a _ =>
    let s := (shapes[a]?).getD []
    (.gather .copy ((List.range (numel s)).map fun q => [(a, q)]), s, false)

def toGatherFrom {α} (pb ib : Nat) : List (TNode α) → List (List Nat) → List (GNode α) → List Nat →
    List (GNode α) × List (List Nat) × List Nat
  | [], shapes, acc, bad => (acc, shapes, bad)
  | nd :: rest, shapes, acc, bad =>
    let (g, s, b) := toGatherNode shapes pb ib acc.length nd
    toGatherFrom pb ib rest (shapes ++ [s]) (acc ++ [g]) (if b then bad ++ [acc.length] else bad)

/-- translation of a recorded program: inputs `popBase + k` are the population-level ones (`P`), `indBase + k` the data
    inputs (`I`, `J`), `unkBase + node id` stands for a node that could not be translated -/
def popBase : Nat := 0
def indBase : Nat := 500000

def toGather {α} (nodes : List (TNode α)) : List (GNode α) × List (List Nat) × List Nat :=
  toGatherFrom popBase indBase nodes [] [] []

/-! ### scalars of the kernel-checked examples: the IEEE-like values of `Model/Masked.lean` -/

open LeaspyVerif.Masked in
/-- `XVal` as scalars: exact rationals with `±inf`, `nan` (`0 * nan = nan`, `nan` absorbing, comparisons with `nan` false);
    `exp`, `log`, `pow`, `sqrt` are placeholders (the example programs do not use them) -/
def xvalOps : Ops XVal :=
  { zero := XVal.zero, one := XVal.one, add := XVal.add, sub := XVal.sub, mul := XVal.mul, div := XVal.div,
    lt := fun a b => match a, b with
      | .fin x, .fin y => decide (x < y)
      | .ninf, .fin _ => true | .ninf, .pinf => true | .fin _, .pinf => true
      | _, _ => false,
    eq := fun a b => match a, b with
      | .fin x, .fin y => decide (x = y)
      | .pinf, .pinf => true | .ninf, .ninf => true
      | _, _ => false,
    exp := id, log := id, pow := fun a _ => a, sqrt := id, ofNat := fun n => XVal.fin (n : Rat) }

end LeaspyVerif.Taint

namespace LeaspyVerif.Taint

/-- the premise of the property on one input tensor: the two runs agree at every position that is not garbage -/
inductive AgreeOutside {α : Type} : List Bool → List α → List α → Prop where
  | nil : AgreeOutside [] [] []
  | cons (g : Bool) (a b : α) (gs : List Bool) (as bs : List α) :
      (g = false → a = b) → AgreeOutside gs as bs → AgreeOutside (g :: gs) (a :: as) (b :: bs)

end LeaspyVerif.Taint
