/-
Model of the likelihood terms of leaspy (property C08).

  src/leaspy/variables/distributions.py
      NormalFamily.nll_constant_standard / _nll / _nll_jacobian / _nll_and_jacobian
      StatelessDistributionFamilyFromTorchDistribution._nll  (BernoulliFamily: torch Bernoulli.log_prob)
      AbstractWeibullRightCensoredFamily._extract_reparametrized_event / compute_log_survival /
          compute_log_likelihood_hazard / compute_hazard / _nll
      WeibullRightCensoredFamily._extract_reparametrized_nu
      WeibullRightCensoredWithSourcesFamily._extract_reparametrized_nu
  src/leaspy/constants.py      INFINITY = float(10**307)
  src/leaspy/utils/weighted_tensor  sum_dim(but_dim=LVL_IND) of the entry-wise values (masked entries count 0)

Import-free.  Every definition is polymorphic in the number type: the driver runs it on `Float`
(IEEE double, `Transc Float` below), the theorems of `Props/C08.lean` are about the very same
definitions on `ℝ` (`Transc ℝ` is declared there).  The code is modelled as written: the hard-coded
Gaussian formula, the `torch.where` ladders, the clamps, the finite `INFINITY`.
Rounding is not modelled.
-/
namespace LeaspyVerif.Dist

/-- The transcendental operations the formulas use. -/
class Transc (α : Type) where
  exp : α → α
  log : α → α
  sqrt : α → α
  pow : α → α → α
  pi : α

instance : Transc Float where
  exp := Float.exp
  log := Float.log
  sqrt := Float.sqrt
  pow := Float.pow
  pi := 3.141592653589793   -- `math.pi`

section Scalar
variable {α : Type} [Add α] [Sub α] [Mul α] [Div α] [Neg α] [LT α] [DecidableLT α]
  [OfScientific α] [Transc α]

/-! ### Normal family -/

/-- `NormalFamily.nll_constant_standard = 0.5 * torch.log(2 * torch.tensor(math.pi))`.
    (In the code this is a 0-dim *float32* tensor whatever the dtype of the inputs: the driver is
    therefore also given the stored value, see `normalNllWith`.) -/
def nllConstantStandard : α := 0.5 * Transc.log (2.0 * Transc.pi)

/-- `NormalFamily._nll` with the additive constant as a parameter:
    `0.5 * ((x - loc) / scale) ** 2 + torch.log(scale) + c`. -/
def normalNllWith (c x loc scale : α) : α :=
  0.5 * (((x - loc) / scale) * ((x - loc) / scale)) + Transc.log scale + c

/-- `NormalFamily._nll` (entry-wise value). -/
def normalNll (x loc scale : α) : α := normalNllWith nllConstantStandard x loc scale

/-- `NormalFamily._nll_jacobian`: `(x - loc) / scale**2`. -/
def normalNllJac (x loc scale : α) : α := (x - loc) / (scale * scale)

/-- second component of `NormalFamily._nll_and_jacobian`: `z / scale` with `z = (x - loc) / scale`. -/
def normalNllJacZ (x loc scale : α) : α := ((x - loc) / scale) / scale

/-! ### Bernoulli family (`-torch.distributions.Bernoulli(probs).log_prob(x)`)

`log_prob` is `-binary_cross_entropy_with_logits(logits, x)` with
`logits = probs_to_logits(probs, is_binary=True) = log(ps) - log1p(-ps)`,
`ps = probs.clamp(eps, 1 - eps)`, `eps = torch.finfo(dtype).eps`. -/

/-- `clamp_probs`: `probs.clamp(min=eps, max=1 - eps)`. -/
def clampProb (eps p : α) : α :=
  if p < eps then eps else if (1.0 - eps) < p then 1.0 - eps else p

/-- `probs_to_logits(ps, is_binary=True)` on an already clamped probability. -/
def logit (ps : α) : α := Transc.log ps - Transc.log (1.0 - ps)

/-- `binary_cross_entropy_with_logits(l, y)`: `(1 - y) * l + log(1 + exp(-l))`
    (torch evaluates the last term in its overflow-safe form; same real function). -/
def bceWithLogits (l y : α) : α := (1.0 - y) * l + Transc.log (1.0 + Transc.exp (-l))

/-- `BernoulliFamily._nll` entry: `-Bernoulli(p).log_prob(y)`. -/
def bernoulliNll (eps p y : α) : α := bceWithLogits (logit (clampProb eps p)) y

/-! ### Right-censored Weibull family -/

/-- `constants.INFINITY = float(10**307)`. -/
def infinity : α := 1e307

/-- `_extract_reparametrized_event`: `event_time - tau`. -/
def reparamEvent (t tau : α) : α := t - tau

/-- `WeibullRightCensoredFamily._extract_reparametrized_nu`: `torch.exp(-xi) * nu`. -/
def nuRep (nu xi : α) : α := Transc.exp (-xi) * nu

/-- `WeibullRightCensoredWithSourcesFamily._extract_reparametrized_nu`:
    `nu * torch.exp(-(xi + (1 / rho) * survival_shifts))`. -/
def nuRepSources (nu rho xi s : α) : α := nu * Transc.exp (-(xi + (1.0 / rho) * s))

/-- `torch.clamp(t, min=0.0)` (a NaN stays a NaN). -/
def clampMin0 (t : α) : α := if t < 0.0 then 0.0 else t

/-- `compute_log_survival`: `-((clamp(t', min=0) / nu') ** rho)`. -/
def logSurvival (t' nu' rho : α) : α := -(Transc.pow (clampMin0 t' / nu') rho)

/-- first `torch.where` of `compute_log_likelihood_hazard`:
    `where(t' > 0, (rho / nu') * (t' / nu') ** (rho - 1.0), -INFINITY)`. -/
def hazardLadder (t' nu' rho : α) : α :=
  if 0.0 < t' then (rho / nu') * Transc.pow (t' / nu') (rho - 1.0) else -infinity

/-- `compute_hazard` (used for predictions): same expression, `0.0` in the other branch. -/
def hazard (t' nu' rho : α) : α :=
  if 0.0 < t' then (rho / nu') * Transc.pow (t' / nu') (rho - 1.0) else 0.0

/-- `compute_log_likelihood_hazard`:
    `log_hazard = where(hazard > 0, log(hazard), hazard)` then `where(event_bool != 0, log_hazard, 0.0)`. -/
def logHazard (ev : Bool) (t' nu' rho : α) : α :=
  let h := hazardLadder t' nu' rho
  let lh := if 0.0 < h then Transc.log h else h
  if ev then lh else 0.0

/-- `_nll` on reparametrised quantities: `-1 * (log_survival + log_hazard)`. -/
def weibullNllCore (ev : Bool) (t' nu' rho : α) : α :=
  (-1.0) * (logSurvival t' nu' rho + logHazard ev t' nu' rho)

/-- `WeibullRightCensoredFamily._nll` entry. -/
def weibullNll (ev : Bool) (t nu rho xi tau : α) : α :=
  weibullNllCore ev (reparamEvent t tau) (nuRep nu xi) rho

/-- `WeibullRightCensoredWithSourcesFamily._nll` entry. -/
def weibullNllSources (ev : Bool) (t nu rho xi tau s : α) : α :=
  weibullNllCore ev (reparamEvent t tau) (nuRepSources nu rho xi s) rho

end Scalar

/-! ### Broadcasting (right-aligned, size-1 axes repeat) and the per-individual sum

Tensors are a shape and the row-major list of entries.  Only what the likelihood terms need:
the value of input `k` seen from output position `j`, and the sum over all axes but the first. -/

/-- `torch.broadcast_shapes` of two shapes (`none` = RuntimeError). -/
def broadcastShape (a b : List Nat) : Option (List Nat) :=
  let rec go : List Nat → List Nat → Option (List Nat)
    | [], ys => some ys
    | xs, [] => some xs
    | x :: xs, y :: ys =>
      if x = y ∨ y = 1 then (go xs ys).map (x :: ·)
      else if x = 1 then (go xs ys).map (y :: ·)
      else none
  (go a.reverse b.reverse).map List.reverse

/-- Flat index into a tensor of shape `shape` of the entry that output position `outIdx`
    (a multi-index into `outShape`, row-major, same length) reads.
    Both lists are given reversed (last axis first). -/
def bindexRev : (shapeRev outIdxRev : List Nat) → (stride : Nat) → Nat
  | [], _, _ => 0
  | _, [], _ => 0
  | s :: ss, i :: is, stride =>
    (if s = 1 then 0 else i * stride) + bindexRev ss is (stride * s)

/-- Multi-index (reversed: last axis first) of the flat position `k` in `outShape`. -/
def unravelRev : (outShapeRev : List Nat) → Nat → List Nat
  | [], _ => []
  | s :: ss, k => (k % s) :: unravelRev ss (k / s)

def numel (shape : List Nat) : Nat := shape.foldl (· * ·) 1

/-- entry of tensor `(shape, data)` read at flat output position `k` of `outShape`. -/
def bget {α} (shape : List Nat) (data : List α) (outShape : List Nat) (k : Nat) : Option α :=
  data[bindexRev shape.reverse (unravelRev outShape.reverse k) 1]?

/-- A tensor: shape and row-major entries. -/
structure Tensor (α : Type) where
  shape : List Nat
  data : List α

/-- entry-wise map over the broadcast of an arbitrary list of tensors. -/
def mapN {α β} (f : List α → β) (ts : List (Tensor α)) : Option (Tensor β) := do
  let s ← ts.foldlM (fun acc t => broadcastShape acc t.shape) []
  let out ← (List.range (numel s)).mapM fun k => do
    let xs ← ts.mapM fun t => bget t.shape t.data s k
    pure (f xs)
  pure ⟨s, out⟩

/-- `sum_dim(·, but_dim=LVL_IND)` of a weighted tensor: per first-axis index the sum of the
    entries whose weight is non-zero (`filled(0)`), in row-major order. `mask = none`: no weight. -/
def sumButFirst {α} [Add α] [OfScientific α] (t : Tensor α) (mask : Option (List Bool)) : Option (List α) :=
  match t.shape with
  | [] => none
  | n :: rest =>
    let m := numel rest
    let vals : List α := match mask with
      | none => t.data
      | some ws => List.zipWith (fun v w => if w then v else 0.0) t.data ws
    if vals.length ≠ n * m then none else
    some ((List.range n).map fun i => ((vals.drop (i * m)).take m).foldl (· + ·) 0.0)

end LeaspyVerif.Dist
