/-
Model of the variable collection `NamedVariables` (property C15: "NamedVariables adds implicit
sufficient-statistic and regularity nodes") and of the definitions `VariablesDAG.from_dict` reads from it.

  src/leaspy/variables/specs.py
    NamedVariables.__setitem__        → `setItem`   (reserved / automatic / used names refused; companions of a latent
                                                     variable added one by one through the same `__setitem__`, so a refusal
                                                     half-way leaves what was added before it — modelled as such)
    NamedVariables.update / __init__  → `addAll`    (items one after the other, stopping at the first refusal)
    NamedVariables._auto_vars         → `autoDefs`  (`nll_regul_ind_sum_ind` = Sum over the *sorted set* of individual
                                                     latent variables, `nll_regul_ind_sum` = SumDim of it)
    __iter__ / __len__                → `keys`
    IndividualLatentVariable /
    PopulationLatentVariable
      .get_regularity_variables       → `companions`
    VariablesDAG.from_dict            → `definitions` (name ↦ set of direct ancestors, explicit entries then automatic ones)

Modelled kinds of definitions: variables without dependencies (`DataVariable`, `Hyperparameter`, …), `LinkedVariable`
(its dependencies = the parameter names of its function), individual / population latent variables with a prior of
parameters `(mean, std)`.  `ModelParameter` (no dependency of its own; the dedicated sufficient-statistic variables of its `Collect` are added through the
same `update` as the companions of a latent variable).  NOT modelled: the mixture prior's special case for `sources`
(same names, other functions).  Imports only `Model/Dag.lean` (itself import-free).
-/
import LeaspyVerif.Model.Dag

namespace LeaspyVerif.Specs

inductive Def where
  | plain
  | link (deps : List String)
  | ind (mean std : String)
  | pop (mean std : String)
  /-- `ModelParameter` with the dedicated sufficient-statistic variables of its `Collect` (name, dependencies), in dict order -/
  | param (dedicated : List (String × List String))
  deriving Repr, DecidableEq

def forbiddenNames : List String :=
  ["all", "pop", "ind", "sum", "tot", "full", "nll", "attach", "regul", "state", "suff_stats"]

def automaticNames : List String := ["nll_regul_ind_sum_ind", "nll_regul_ind_sum"]

def regulIndName (n : String) : String := "nll_regul_" ++ n ++ "_ind"
def regulName (n : String) : String := "nll_regul_" ++ n

structure Coll where
  /-- `self.data`: explicit entries in insertion order, each with the names it directly depends on -/
  entries : List (String × List String)
  /-- `self._latent_ind_vars` (a set; listed in insertion order here, sorted when used) -/
  indVars : List String
  deriving Repr

def Coll.empty : Coll := { entries := [], indVars := [] }

def Coll.has (c : Coll) (n : String) : Bool := c.entries.any (fun e => e.1 == n)

/-- direct dependencies of a definition added under `name` -/
def ownDeps : Def → List String
  | .plain => []
  | .link deps => deps
  | .ind _ _ => []
  | .pop _ _ => []
  | .param _ => []

/-- `get_regularity_variables(name)` as (name, dependencies) in dict order -/
def companions (name : String) : Def → List (String × List String)
  | .ind m s => [(regulIndName name, [name, m, s]), (regulName name, [regulIndName name])]
  | .pop m s => [(regulName name, [name, m, s])]
  | .param ded => ded
  | _ => []

/-- the name checks of `__setitem__` -/
def refusedName (c : Coll) (n : String) : Bool :=
  forbiddenNames.contains n || automaticNames.contains n || c.has n

/-- guarded append of one entry: the only way the collection ever grows -/
def push (c : Coll) (e : String × List String) : Coll := { c with entries := c.entries ++ [e] }

/-- adding the companions one by one; `false` = a `ValueError` was raised (what was added before stays) -/
def addPlain : Coll → List (String × List String) → Coll × Bool
  | c, [] => (c, true)
  | c, (n, deps) :: rest =>
    if refusedName c n then (c, false)
    else addPlain (push c (n, deps)) rest

/-- `self._latent_ind_vars.add(name)` for an individual latent variable (after its companions went in) -/
def register (c : Coll) (name : String) : Def → Coll
  | .ind _ _ => { c with indVars := if c.indVars.contains name then c.indVars else c.indVars ++ [name] }
  | _ => c

/-- `nv[name] = var` -/
def setItem (c : Coll) (name : String) (d : Def) : Coll × Bool :=
  if refusedName c name then (c, false)
  else
    let r := addPlain (push c (name, ownDeps d)) (companions name d)
    if r.2 then (register r.1 name d, true) else (r.1, false)

/-- `update(items)` / the constructor: items in order, stopping at the first refusal -/
def addAll : Coll → List (String × Def) → Coll × Bool
  | c, [] => (c, true)
  | c, (n, d) :: rest =>
    match setItem c n d with
    | (c', true) => addAll c' rest
    | (c', false) => (c', false)

/-- insertion of one string in a sorted list (python's `sorted` on `str`: code-point order = `String` `<`) -/
def insertSorted (x : String) : List String → List String
  | [] => [x]
  | y :: ys => if x < y then x :: y :: ys else if x = y then y :: ys else y :: insertSorted x ys

def sortNames (l : List String) : List String := l.foldr insertSorted []

/-- `_auto_vars` as (name, dependencies) -/
def autoDefs (c : Coll) : List (String × List String) :=
  [("nll_regul_ind_sum_ind", (sortNames c.indVars).map regulIndName), ("nll_regul_ind_sum", ["nll_regul_ind_sum_ind"])]

/-- `iter(nv)` -/
def keys (c : Coll) : List String := c.entries.map (·.1) ++ automaticNames

/-- what `VariablesDAG.from_dict(nv)` reads: every key with its direct ancestors -/
def definitions (c : Coll) : List (String × List String) := c.entries ++ autoDefs c

/-! ### from the definitions to the graph construction (`VariablesDAG.from_dict` → `__post_init__`)

`compute_topological_order_and_path_matrix` starts with `nodes = sorted(direct_ancestors.keys())` and works on the ranks;
`Model/Dag.lean` starts from the ranks.  `graphOf` is that first step: a name's rank is its position in the sorted list of
names, a dependency that is not a key gets the rank `n` (an unknown node for `Dag.build`). -/

def rankedNames (defs : List (String × List String)) : List String := sortNames (defs.map (·.1))

def graphOf (defs : List (String × List String)) : Dag.Graph :=
  let names := rankedNames defs
  { n := names.length
    anc := fun m =>
      match names[m]? with
      | none => []
      | some nm =>
        match defs.find? (fun e => e.1 == nm) with
        | some e => e.2.map (fun a => names.idxOf a)
        | none => [] }

/-- `VariablesDAG.from_dict(nv)`: refusal class, or the variables in graph order, by name -/
def fromDict (c : Coll) : Except Dag.Err (List String) :=
  let defs := definitions c
  let names := rankedNames defs
  match Dag.build (graphOf defs) with
  | .error e => .error e
  | .ok r => .ok (r.order.map (fun i => names.getD i ""))

end LeaspyVerif.Specs
