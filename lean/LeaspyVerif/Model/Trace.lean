/-
Model of the *recorded* individual-level computations of leaspy (property C07).

`harness/trace_c07.py` records, with `torch.overrides.TorchFunctionMode`, every torch operation that the
real code executes while it computes the individual-level quantities on a real `State`
(`nll_attach_ind`, `nll_regul_<ip>_ind`, `nll_regul_ind_sum_ind`, the `model` rows, one step of
`IndividualGibbsSampler.sample`), reconstructs the dataflow graph between tensors and sends it to the driver as
a program in the textual IR of Part 3 (`TNode`).  This file is what the driver runs on that program:

  Part 1  the *structural* IR (`Node`): a program is a list of nodes over earlier nodes; a value is either
          unbatched (`Val.un`, one tensor) or batched (`Val.ba`, one tensor per individual = axis 0 of
          the torch tensor).  An operation is applied row by row to its batched arguments — except to the
          arguments it takes `whole`: those are first concatenated over ALL individuals (this is how a
          reduction / index / broadcast that touches axis 0 is expressed, and its semantics really reads
          every row).  The dependence analysis `types` / `rowLocal` (`pop` / `ind` / `mixed`) is decidable.
          The operations are abstract here (`Sem`): the theorems of `Props/C07.lean` hold for every
          interpretation, in particular for float32 kernels.
  Part 2  a concrete interpretation: dense row-major tensors (`Tn`) and the row functions (`Fn`): elementwise
          operations with right-aligned broadcasting, reductions, reshapes, expands, index expressions,
          concatenations, matmul, softmax, cumsum.
  Part 3  the recorded IR (`TNode`: torch operation, dims, index expression, recorded shapes) and its
          *lowering* to Part 1 (`lower`): this is the classification table — for each torch operation and
          each configuration of batched / unbatched arguments, either the per-row operation that is
          equivalent to it (dims shifted by one, row shapes) or "takes its batched arguments whole".
          Fail-closed: an operation that is not in the table takes every argument whole.

Import-free.  Nothing here is specific to one leaspy model: the program comes from the code at run time.
-/
namespace LeaspyVerif.Trace

/-! ## Part 1 — structural IR, semantics, dependence analysis -/

/-- dependence of a node on the individual-level inputs -/
inductive Ty where
  | pop    -- no dependence on individual-level inputs; unbatched
  | ind    -- batched; row `j` depends only on rows `j` of the individual-level inputs (and on `pop` values)
  | mixed  -- anything else
  deriving DecidableEq, Repr, Inhabited

/-- an argument: an earlier node, taken row by row, or `whole` (all individuals concatenated on axis 0) -/
structure Arg where
  id : Nat
  whole : Bool
  deriving DecidableEq, Repr

inductive Node (φ : Type) where
  /-- `k`-th population-level input (parameters, hyper-parameters, values computed from them only) -/
  | pop (k : Nat)
  /-- `k`-th individual-level input, axis 0 = individuals (latent values, data, masks, position-indexed draws) -/
  | ind (k : Nat)
  /-- an input the tracer could not classify: unbatched, but typed `mixed` -/
  | unk (k : Nat)
  /-- operation `f` on earlier nodes -/
  | op (f : φ) (args : List Arg)
  /-- the value leaves the tensor world (`bool(x)`, `x.item()`, …): later control flow may depend on it -/
  | escape (a : Nat)
  deriving Repr

structure Prog (φ : Type) where
  nodes : List (Node φ)
  outs : List Nat

/-- a value: one tensor, or one tensor per individual -/
inductive Val (ρ : Type) where
  | un (r : ρ)
  | ba (g : Nat → ρ)

def Val.at {ρ} : Val ρ → Nat → ρ
  | .un r, _ => r
  | .ba g, j => g j

def Val.isBa {ρ} : Val ρ → Bool
  | .un _ => false
  | .ba _ => true

/-- interpretation of the operations: `fn f` on the (row) tensors of the arguments;
    `concat` rebuilds the tensor with axis 0 from the rows of all individuals -/
structure Sem (φ ρ : Type) where
  fn : φ → List ρ → ρ
  concat : List ρ → ρ

/-- the inputs: `pop k`, `unk k`; `ind k j` = row `j` of the `k`-th individual-level input -/
structure Inputs (ρ : Type) where
  pop : Nat → ρ
  ind : Nat → Nat → ρ
  unk : Nat → ρ

/-- all `n` individuals' rows as one tensor -/
def wholeOf {φ ρ} (S : Sem φ ρ) (n : Nat) : Val ρ → ρ
  | .un r => r
  | .ba g => S.concat ((List.range n).map g)

def resolve {φ ρ} (S : Sem φ ρ) (n : Nat) (env : List (Val ρ)) (a : Arg) : Option (Val ρ) :=
  (env[a.id]?).map fun v => if a.whole then .un (wholeOf S n v) else v

/-- value of a node given the values `env` of the earlier nodes; `n` = number of individuals.
    Arguments that do not exist are dropped (the analysis rejects such programs). -/
def evalNode {φ ρ} (S : Sem φ ρ) (n : Nat) (L : Inputs ρ) (env : List (Val ρ)) : Node φ → Val ρ
  | .pop k => .un (L.pop k)
  | .ind k => .ba (L.ind k)
  | .unk k => .un (L.unk k)
  | .op f args =>
    let vs := args.filterMap (resolve S n env)
    if vs.any Val.isBa then .ba (fun j => S.fn f (vs.map (·.at j))) else .un (S.fn f (vs.map (·.at 0)))
  | .escape a => match env[a]? with
    | some v => v
    | none => .un (S.concat [])

def run {φ ρ} (S : Sem φ ρ) (n : Nat) (L : Inputs ρ) : List (Node φ) → List (Val ρ) → List (Val ρ)
  | [], env => env
  | nd :: rest, env => run S n L rest (env ++ [evalNode S n L env nd])

/-- values of all nodes of the program -/
def eval {φ ρ} (S : Sem φ ρ) (n : Nat) (L : Inputs ρ) (p : Prog φ) : List (Val ρ) := run S n L p.nodes []

/-! ### the analysis -/

def join : List Ty → Ty
  | [] => .pop
  | .mixed :: _ => .mixed
  | .pop :: ts => join ts
  | .ind :: ts => match join ts with
    | .mixed => .mixed
    | _ => .ind

def argTy (tys : List Ty) (a : Arg) : Ty :=
  match tys[a.id]? with
  | none => .mixed
  | some t => if a.whole then (if t = .pop then .pop else .mixed) else t

def typeNode {φ} (tys : List Ty) : Node φ → Ty
  | .pop _ => .pop
  | .ind _ => .ind
  | .unk _ => .mixed
  | .op _ args => join (args.map (argTy tys))
  | .escape a => if tys[a]? = some .pop then .pop else .mixed

def typesFrom {φ} : List (Node φ) → List Ty → List Ty
  | [], tys => tys
  | nd :: rest, tys => typesFrom rest (tys ++ [typeNode tys nd])

def types {φ} (p : Prog φ) : List Ty := typesFrom p.nodes []

def Node.isEscape {φ} : Node φ → Bool
  | .escape _ => true
  | _ => false

/-- every requested output is `ind` (or `pop`) -/
def outsLocal {φ} (p : Prog φ) : Bool :=
  let tys := types p
  p.outs.all fun o => tys[o]? = some .ind || tys[o]? = some .pop

/-- no value that depends on individual-level inputs leaves the tensor world
    (so that the recorded straight-line program is the same for all inputs) -/
def noEscape {φ} (p : Prog φ) : Bool :=
  (p.nodes.zip (types p)).all fun (nd, t) => !nd.isEscape || t = .pop

def rowLocal {φ} (p : Prog φ) : Bool := outsLocal p && noEscape p

/-! ### re-indexing of inputs -/

/-- individual `j` alone: a batch whose only row is row `j` -/
def Inputs.restrictTo {ρ} (L : Inputs ρ) (j : Nat) : Inputs ρ :=
  { L with ind := fun k _ => L.ind k j }

/-- re-ordering (or any re-indexing) of the individuals: row `j` of the new batch is row `σ j` of the old one -/
def Inputs.reindex {ρ} (L : Inputs ρ) (σ : Nat → Nat) : Inputs ρ :=
  { L with ind := fun k j => L.ind k (σ j) }

/-- rows `0 … n-1` of a value -/
def Val.rows {ρ} (v : Val ρ) (n : Nat) : List ρ := (List.range n).map v.at

end LeaspyVerif.Trace

namespace LeaspyVerif.Trace

/-! ## Part 2 — dense tensors and the row functions

Executable only (no theorem looks inside): an out-of-range read yields `Ops.zero` and an ill-formed call an empty
tensor — this happens only for ill-shaped programs, which the comparison of the evaluation with the real tensors
(`evaltrace`) exposes; the theorems of `Props/C07.lean` are independent of these functions. -/

/-- dense row-major tensor -/
structure Tn (α : Type) where
  shape : List Nat
  data : Array α
  deriving DecidableEq, Repr

/-- scalar operations the row functions need (instantiated with `Float` in the driver, with `Rat` — no
    transcendental function — in the kernel-checked examples) -/
structure Ops (α : Type) where
  zero : α
  one : α
  add : α → α → α
  sub : α → α → α
  mul : α → α → α
  div : α → α → α
  lt : α → α → Bool
  eq : α → α → Bool
  exp : α → α
  log : α → α
  pow : α → α → α
  sqrt : α → α
  ofNat : Nat → α

def numel (s : List Nat) : Nat := s.foldl (· * ·) 1

/-- multi-index of the flat position `i` -/
def unravel : List Nat → Nat → List Nat
  | [], _ => []
  | _ :: ds, i => (i / numel ds) :: unravel ds (i % numel ds)

/-- flat position of a multi-index -/
def ravel (s ix : List Nat) : Nat := (s.zip ix).foldl (fun acc (d, i) => acc * d + i) 0

def Tn.get {α} (O : Ops α) (t : Tn α) (ix : List Nat) : α := t.data.getD (ravel t.shape ix) O.zero

def build {α} (s : List Nat) (f : List Nat → α) : Tn α :=
  ⟨s, ((List.range (numel s)).map fun i => f (unravel s i)).toArray⟩

/-- right-aligned broadcast of two shapes -/
def bshape (a b : List Nat) : List Nat :=
  let rec go : List Nat → List Nat → List Nat
    | [], ys => ys
    | xs, [] => xs
    | x :: xs, y :: ys => (if x = 1 then y else x) :: go xs ys
  (go a.reverse b.reverse).reverse

/-- entry of `t`, broadcast to a shape of which `ix` is a multi-index (right-aligned; size-1 axes repeat) -/
def Tn.bget {α} (O : Ops α) (t : Tn α) (ix : List Nat) : α :=
  let ix' := ix.drop (ix.length - t.shape.length)
  t.get O ((t.shape.zip ix').map fun (d, i) => if d = 1 then 0 else i)

/-- drop leading axes of size 1 until the rank is at most `k` (an unbatched operand `(1, …)` against rows) -/
def trimTo {α} (k : Nat) (t : Tn α) : Tn α :=
  let rec go : Nat → List Nat → List Nat
    | 0, s => s
    | f + 1, s => if s.length > k then (match s with | 1 :: r => go f r | _ => s) else s
  { t with shape := go t.shape.length t.shape }

/-- elementwise operations (booleans are 0 / 1) -/
inductive Ew where
  | add | sub | mul | div | pow | ge | gt | le | lt | eq | ne | and | or | not | neg | exp | log | log1p | sigmoid
  | sign | abs | sqrt | square | id | where_ | maximum | minimum | bce | fill0 | fill1
  deriving DecidableEq, Repr

def ofBool {α} (O : Ops α) (b : Bool) : α := if b then O.one else O.zero

def ewApply {α} (O : Ops α) (o : Ew) (xs : List α) : α :=
  let x := xs.getD 0 O.zero
  let y := xs.getD 1 O.zero
  let z := xs.getD 2 O.zero
  let neg := fun a => O.sub O.zero a
  let max := fun a b => if O.lt a b then b else a
  let abs := fun a => if O.lt a O.zero then neg a else a
  let log1p := fun a => O.log (O.add O.one a)
  match o with
  | .add => O.add x y | .sub => O.sub x y | .mul => O.mul x y | .div => O.div x y | .pow => O.pow x y
  | .ge => ofBool O (!O.lt x y) | .gt => ofBool O (O.lt y x) | .le => ofBool O (!O.lt y x) | .lt => ofBool O (O.lt x y)
  | .eq => ofBool O (O.eq x y) | .ne => ofBool O (!O.eq x y)
  | .and => ofBool O (!O.eq x O.zero && !O.eq y O.zero) | .or => ofBool O (!O.eq x O.zero || !O.eq y O.zero)
  | .not => ofBool O (O.eq x O.zero)
  | .neg => neg x | .exp => O.exp x | .log => O.log x | .log1p => log1p x
  | .sigmoid => O.div O.one (O.add O.one (O.exp (neg x)))
  | .sign => if O.lt x O.zero then neg O.one else if O.lt O.zero x then O.one else O.zero
  | .abs => abs x | .sqrt => O.sqrt x | .square => O.mul x x | .id => x
  | .where_ => if O.eq x O.zero then z else y
  | .maximum => max x y | .minimum => if O.lt y x then y else x
  | .bce => O.add (O.sub (max x O.zero) (O.mul x y)) (log1p (O.exp (neg (abs x))))
  | .fill0 => O.zero | .fill1 => O.one

/-- reductions -/
inductive Red where
  | sum | prod | max | min | mean | all | any | median
  deriving DecidableEq, Repr

/-- insertion into a list sorted by `lt` -/
def insertSorted {α} (lt : α → α → Bool) (x : α) : List α → List α
  | [] => [x]
  | y :: r => if lt x y then x :: y :: r else y :: insertSorted lt x r

def redApply {α} (O : Ops α) (k : Red) (xs : List α) : α :=
  match k with
  | .sum => xs.foldl O.add O.zero
  | .prod => xs.foldl O.mul O.one
  | .max => match xs with | [] => O.zero | x :: r => r.foldl (fun a b => if O.lt a b then b else a) x
  | .min => match xs with | [] => O.zero | x :: r => r.foldl (fun a b => if O.lt b a then b else a) x
  | .mean => O.div (xs.foldl O.add O.zero) (O.ofNat xs.length)
  | .all => ofBool O (xs.all fun x => !O.eq x O.zero)
  | .any => ofBool O (xs.any fun x => !O.eq x O.zero)
  | .median => ((xs.foldl (fun acc x => insertSorted O.lt x acc) [])[(xs.length - 1) / 2]?).getD O.zero   -- torch: the lower median

/-- index expression items of `x[...]` -/
inductive Ix where
  | all                                   -- `:`
  | new                                   -- `None`
  | ell                                   -- `...`
  | at (k : Int)                          -- integer
  | slice (start stop : Option Int) (step : Nat)
  deriving DecidableEq, Repr

def Ix.consumes : Ix → Bool
  | .all | .at _ | .slice _ _ _ => true
  | _ => false

/-- replace `...` by the right number of `:` -/
def expandEll (ixs : List Ix) (ndim : Nat) : List Ix :=
  let used := (ixs.filter Ix.consumes).length
  ixs.flatMap fun i => if i = .ell then List.replicate (ndim - used) .all else [i]

def normIdx (k : Int) (d : Nat) : Nat := if k < 0 then (k + d).toNat else k.toNat

/-- per output axis: `(source axis or none, start, step, length)`; picked axes are listed separately -/
structure IxPlan where
  outDims : List (Option Nat × Nat × Nat × Nat)   -- (source axis, start, step, length)
  picks : List (Nat × Nat)                        -- (source axis, position)

def ixPlan (ixs : List Ix) (shape : List Nat) : IxPlan :=
  let rec go : List Ix → Nat → List Nat → IxPlan → IxPlan
    | [], ax, ds, p => { p with outDims := p.outDims ++ (ds.zipIdx.map fun (d, i) => (some (ax + i), 0, 1, d)) }
    | .new :: r, ax, ds, p => go r ax ds { p with outDims := p.outDims ++ [(none, 0, 1, 1)] }
    | .ell :: r, ax, ds, p => go r ax ds p
    | _ :: r, ax, [], p => go r ax [] p
    | .all :: r, ax, d :: ds, p => go r (ax + 1) ds { p with outDims := p.outDims ++ [(some ax, 0, 1, d)] }
    | .at k :: r, ax, d :: ds, p => go r (ax + 1) ds { p with picks := p.picks ++ [(ax, normIdx k d)] }
    | .slice a b st :: r, ax, d :: ds, p =>
      let st := if st = 0 then 1 else st
      let lo := match a with | none => 0 | some k => min (normIdx k d) d
      let hi := match b with | none => d | some k => min (normIdx k d) d
      let len := if hi ≤ lo then 0 else (hi - lo + st - 1) / st
      go r (ax + 1) ds { p with outDims := p.outDims ++ [(some ax, lo, st, len)] }
  go (expandEll ixs shape.length) 0 shape ⟨[], []⟩

/-- the row functions -/
inductive Fn (α : Type) where
  | const (t : Tn α)
  /-- elementwise with broadcasting; operands of rank > `rank` lose their leading size-1 axes -/
  | ew (o : Ew) (rank : Nat)
  | red (k : Red) (dims : List Nat) (keep : Bool)
  | reshape (shape : List Nat)
  | expand (shape : List Nat)
  | index (ixs : List Ix)
  | cat (dim : Nat)
  | stack (dim : Nat)
  | matmul
  | transpose (d0 d1 : Nat)
  | softmax (dim : Nat)
  | cumsum (dim : Nat)
  /-- `x[mask]` (boolean mask over the leading axes of `x`): the selected sub-tensors, in row-major order -/
  | mselect
  /-- `x[mask] = v` out of place: `v` is a scalar or has one sub-tensor per selected position -/
  | mscatter
  /-- not in the table: no semantics (empty tensor); only reachable through `whole` arguments -/
  | unknown (name : String)

def setAt (l : List Nat) (i v : Nat) : List Nat := l.set i v

def fnApply {α} (O : Ops α) : Fn α → List (Tn α) → Tn α
  | .const t, _ => t
  | .ew o rank, args =>
    let ts := args.map (trimTo rank)
    let out := ts.foldl (fun s t => bshape s t.shape) []
    build out fun ix => ewApply O o (ts.map (·.bget O ix))
  | .red k dims keep, args =>
    match args with
    | [t] =>
      let keepShape := t.shape.zipIdx.map fun (d, i) => if dims.contains i then 1 else d
      let outShape := if keep then keepShape
        else (t.shape.zipIdx.filter fun (_, i) => !dims.contains i).map (·.1)
      -- position in the kept-shape of each input entry
      let pos := (List.range (numel t.shape)).map fun i =>
        ravel keepShape ((unravel t.shape i).zipIdx.map fun (v, a) => if dims.contains a then 0 else v)
      let vals := t.data.toList.zip pos
      ⟨outShape, ((List.range (numel keepShape)).map fun o =>
        redApply O k ((vals.filter (·.2 = o)).map (·.1))).toArray⟩
    | _ => ⟨[0], #[]⟩
  | .reshape s, args => match args with
    | [t] => ⟨s, t.data⟩
    | _ => ⟨[0], #[]⟩
  | .expand s, args => match args with
    | [t] => build s fun ix => t.bget O ix
    | _ => ⟨[0], #[]⟩
  | .index ixs, args => match args with
    | [t] =>
      let p := ixPlan ixs t.shape
      let outShape := p.outDims.map (·.2.2.2)
      build outShape fun ix =>
        let src0 := (List.replicate t.shape.length 0)
        let src1 := p.picks.foldl (fun s (ax, k) => setAt s ax k) src0
        let src2 := (p.outDims.zip ix).foldl (fun s ((ax?, lo, st, _), i) =>
          match ax? with | some ax => setAt s ax (lo + st * i) | none => s) src1
        t.get O src2
    | _ => ⟨[0], #[]⟩
  | .cat dim, args => match args with
    | [] => ⟨[0], #[]⟩
    | t0 :: _ =>
      let sizes := args.map fun t => t.shape.getD dim 0
      let outShape := setAt t0.shape dim (sizes.foldl (· + ·) 0)
      build outShape fun ix =>
        let i := ix.getD dim 0
        let rec pick : List (Tn α) → Nat → α
          | [], _ => O.zero
          | t :: r, i => let d := t.shape.getD dim 0; if i < d then t.get O (setAt ix dim i) else pick r (i - d)
        pick args i
  | .stack dim, args => match args with
    | [] => ⟨[0], #[]⟩
    | t0 :: _ =>
      let outShape := t0.shape.take dim ++ [args.length] ++ t0.shape.drop dim
      build outShape fun ix =>
        match args[ix.getD dim 0]? with
        | some t => t.get O (ix.take dim ++ ix.drop (dim + 1))
        | none => O.zero
  | .matmul, args => match args with
    | [a, b] =>
      let a2 : Tn α := if a.shape.length = 1 then ⟨1 :: a.shape, a.data⟩ else a
      let b2 : Tn α := if b.shape.length = 1 then ⟨b.shape ++ [1], b.data⟩ else b
      let m := a2.shape.getD 0 0
      let k := a2.shape.getD 1 0
      let p := b2.shape.getD 1 0
      let r := build [m, p] fun ix =>
        (List.range k).foldl (fun acc l => O.add acc (O.mul (a2.get O [ix.getD 0 0, l]) (b2.get O [l, ix.getD 1 0]))) O.zero
      let s := (if a.shape.length = 1 then [] else [m]) ++ (if b.shape.length = 1 then [] else [p])
      ⟨s, r.data⟩
    | _ => ⟨[0], #[]⟩
  | .transpose d0 d1, args => match args with
    | [t] =>
      let sw := fun (l : List Nat) => setAt (setAt l d0 (l.getD d1 0)) d1 (l.getD d0 0)
      build (sw t.shape) fun ix => t.get O (sw ix)
    | _ => ⟨[0], #[]⟩
  | .softmax dim, args => match args with
    | [t] =>
      let d := t.shape.getD dim 0
      build t.shape fun ix =>
        let xs := (List.range d).map fun l => t.get O (setAt ix dim l)
        let m := redApply O .max xs
        let es := xs.map fun x => O.exp (O.sub x m)
        O.div (O.exp (O.sub (t.get O ix) m)) (es.foldl O.add O.zero)
    | _ => ⟨[0], #[]⟩
  | .cumsum dim, args => match args with
    | [t] =>
      build t.shape fun ix =>
        (List.range (ix.getD dim 0 + 1)).foldl (fun acc l => O.add acc (t.get O (setAt ix dim l))) O.zero
    | _ => ⟨[0], #[]⟩
  | .mselect, args => match args with
    | [x, m] =>
      let rest := x.shape.drop m.shape.length
      let rn := numel rest
      let sel := (List.range (numel m.shape)).filter fun i => !O.eq (m.data.getD i O.zero) O.zero
      ⟨sel.length :: rest, sel.foldl (fun acc i => acc ++ x.data.extract (i * rn) ((i + 1) * rn)) #[]⟩
    | _ => ⟨[0], #[]⟩
  | .mscatter, args => match args with
    | [x, m, v] =>
      let rn := numel (x.shape.drop m.shape.length)
      let scalar := v.shape.isEmpty
      let step := fun (st : Array α × Nat) (i : Nat) =>
        let (acc, c) := st
        let xs := x.data.extract (i * rn) ((i + 1) * rn)
        if O.eq (m.data.getD i O.zero) O.zero then (acc ++ xs, c)
        else if scalar then (acc ++ xs.map (fun _ => v.data.getD 0 O.zero), c + 1)
        else (acc ++ v.data.extract (c * rn) ((c + 1) * rn), c + 1)
      ⟨x.shape, ((List.range (numel m.shape)).foldl step (#[], 0)).1⟩
    | _ => ⟨[0], #[]⟩
  | .unknown _, _ => ⟨[0], #[]⟩

/-- rows of all individuals → the tensor with axis 0 -/
def concatRows {α} (rows : List (Tn α)) : Tn α :=
  match rows with
  | [] => ⟨[0], #[]⟩
  | r :: _ => ⟨rows.length :: r.shape, rows.foldl (fun acc t => acc ++ t.data) #[]⟩

def tensorSem {α} (O : Ops α) : Sem (Fn α) (Tn α) := ⟨fnApply O, concatRows⟩

/-- row `j` of a tensor whose axis 0 is the individuals (how the driver feeds a recorded batched input) -/
def rowOf {α} (t : Tn α) (j : Nat) : Tn α :=
  let s := t.shape.drop 1
  ⟨s, t.data.extract (j * numel s) ((j + 1) * numel s)⟩

/-- row `j` of a tensor whose axis 1 is the individuals (`acceptation_history`: history × individuals) -/
def rowOf1 {α} (O : Ops α) (t : Tn α) (j : Nat) : Tn α := fnApply O (.index [.all, .at j]) [t]

end LeaspyVerif.Trace

namespace LeaspyVerif.Trace

/-! ## Part 3 — the recorded IR and its lowering (the classification table) -/

/-- a recorded torch operation with the parameters that matter (dims may be negative, as in the call) -/
inductive TOp (α : Type) where
  | const (t : Tn α)                                  -- python scalar / tensor created from constants
  | ew (o : Ew)                                       -- elementwise, any arity, broadcasting
  | red (k : Red) (dims : List Int) (keep : Bool)     -- `dims = []`: all axes
  | view                                              -- view / reshape / flatten: to the recorded output shape
  | squeeze (dim : Option Int)
  | unsqueeze (dim : Int)
  | expand
  | getitem (ixs : List Ix)
  | cat (dim : Int)
  | stack (dim : Int)
  | matmul
  | transpose (d0 d1 : Int)
  | softmax (dim : Int)
  | cumsum (dim : Int)
  | mselect                                           -- `x[mask]`, boolean mask tensor
  | mscatter                                          -- `x[mask] = v` (recorded as the new value of `x`)
  | unknown (name : String)

inductive TNode (α : Type) where
  | pop (k : Nat) (shape : List Nat)
  | ind (k : Nat) (shape : List Nat)      -- full shape, axis 0 = individuals
  | ind1 (k : Nat) (shape : List Nat)     -- full shape, axis 1 = individuals (`acceptation_history`: history × individuals)
  | unk (k : Nat) (shape : List Nat)
  | op (o : TOp α) (args : List Nat) (shape : List Nat)   -- recorded output shape
  | escape (a : Nat) (isAssert : Bool)    -- `isAssert`: a whitelisted assertion site (raises or does nothing)

/-- what the lowering knows about an earlier node: is its lowered value batched, its recorded full shape, and how
    the rows of a batched value make up the torch tensor:
    `axis = 0`, `ragged = none`: stacked on axis 0 (the normal case);
    `axis = 1`: stacked on axis 1 (row `j` is `t[:, j]`);
    `ragged = some m`: the result of `x[mask]` with the batched boolean mask of node `m`: row `j` holds the entries
    selected in individual `j`'s row and the torch tensor is their concatenation (shape depends on the data). -/
structure Info where
  batched : Bool
  shape : List Nat
  axis : Nat := 0
  ragged : Option Nat := none
  deriving Repr

def Info.plain (i : Info) : Bool := i.axis = 0 && i.ragged.isNone

def normDim (d : Int) (ndim : Nat) : Nat := if d < 0 then (d + ndim).toNat else d.toNat

def rowArgs (args : List Nat) : List Arg := args.map (⟨·, false⟩)
/-- batched arguments are taken whole -/
def wholeArgs (infos : List Info) (args : List Nat) : List Arg :=
  args.map fun a => ⟨a, (infos[a]?.map (·.batched)).getD true⟩

/-- The table.  Returns the lowered node and whether its value is batched.
    `row f` = the operation acts on each individual's row as `f` (dims shifted by one, row shapes);
    `whole f` = it does not: every batched argument is concatenated over all individuals first. -/
def lowerPlain {α} (infos : List Info) (o : TOp α) (args : List Nat) (outShape : List Nat) : Node (Fn α) × Bool :=
  let ai := args.map fun a => (infos[a]?).getD ⟨true, [], 0, none⟩
  let anyB := ai.any (·.batched)
  let row := fun (f : Fn α) => (Node.op f (rowArgs args), true)
  let whole := fun (f : Fn α) => (Node.op f (wholeArgs infos args), false)
  let nd := outShape.length
  if !anyB then
    -- no batched argument: the recorded operation itself on unbatched tensors
    let f : Fn α := match o with
      | .const t => .const t
      | .ew e => .ew e nd
      | .red k dims keep =>
        let n0 := (ai.headD ⟨false, [], 0, none⟩).shape.length
        .red k (if dims.isEmpty then List.range n0 else dims.map (normDim · n0)) keep
      | .view | .squeeze _ | .unsqueeze _ => .reshape outShape
      | .expand => .expand outShape
      | .getitem ixs => .index ixs
      | .cat d => .cat (normDim d nd)
      | .stack d => .stack (normDim d nd)
      | .matmul => .matmul
      | .transpose a b => .transpose (normDim a nd) (normDim b nd)
      | .softmax d => .softmax (normDim d nd)
      | .cumsum d => .cumsum (normDim d nd)
      | .mselect => .mselect
      | .mscatter => .mscatter
      | .unknown s => .unknown s
    (Node.op f (rowArgs args), false)
  else
  let a0 := ai.headD ⟨true, [], 0, none⟩
  let n0 := a0.shape.length
  match o with
  | .const t => whole (.const t)
  | .ew e =>
    -- a batched operand must have the rank of the result (its axis 0 is then axis 0 of the result);
    -- an unbatched one must have a smaller rank, or a leading axis of size 1
    let ok := ai.all fun i => if i.batched then i.shape.length = nd else (i.shape.length < nd || i.shape.head? = some 1)
    if ok && nd ≥ 1 then row (.ew e (nd - 1)) else whole (.ew e nd)
  | .red k dims keep =>
    let ds := if dims.isEmpty then List.range n0 else dims.map (normDim · n0)
    if ds.contains 0 then whole (.red k ds keep) else row (.red k (ds.map (· - 1)) keep)
  | .view =>
    if nd ≥ 1 && n0 ≥ 1 && outShape.head? = a0.shape.head? then row (.reshape (outShape.drop 1)) else whole (.reshape outShape)
  | .squeeze d =>
    match d with
    | none => whole (.reshape outShape)       -- squeezes axis 0 as well when there is one individual
    | some d => if normDim d n0 = 0 then whole (.reshape outShape) else row (.reshape (outShape.drop 1))
  | .unsqueeze d =>
    if normDim d (n0 + 1) = 0 then whole (.reshape outShape) else row (.reshape (outShape.drop 1))
  | .expand =>
    if nd = n0 then row (.expand (outShape.drop 1)) else whole (.expand outShape)
  | .getitem ixs =>
    match expandEll ixs n0 with
    | .all :: rest => row (.index rest)
    | [] => row (.index [])
    | _ => whole (.index ixs)
  | .cat d =>
    let ok := ai.all fun i => i.batched && i.shape.length = nd
    if ok && normDim d nd ≠ 0 then row (.cat (normDim d nd - 1)) else whole (.cat (normDim d nd))
  | .stack d =>
    let ok := ai.all fun i => i.batched && i.shape.length + 1 = nd
    if ok && normDim d nd ≠ 0 then row (.stack (normDim d nd - 1)) else whole (.stack (normDim d nd))
  | .matmul =>
    match ai with
    | [a, b] =>
      if a.batched && !b.batched && a.shape.length ≥ 2 && a.shape.length ≤ 3 && b.shape.length = 2 then row .matmul
      else whole .matmul
    | _ => whole .matmul
  | .transpose a b =>
    if normDim a n0 ≠ 0 && normDim b n0 ≠ 0 then row (.transpose (normDim a n0 - 1) (normDim b n0 - 1))
    else whole (.transpose (normDim a n0) (normDim b n0))
  | .softmax d => if normDim d n0 ≠ 0 then row (.softmax (normDim d n0 - 1)) else whole (.softmax 0)
  | .cumsum d => if normDim d n0 ≠ 0 then row (.cumsum (normDim d n0 - 1)) else whole (.cumsum 0)
  | .mselect => whole .mselect      -- the row-wise configurations are in `lowerOp`
  | .mscatter => whole .mscatter
  | .unknown s => whole (.unknown s)

def TOp.name {α} : TOp α → String
  | .const _ => "const" | .ew _ => "ew" | .red _ _ _ => "red" | .view => "view" | .squeeze _ => "squeeze"
  | .unsqueeze _ => "unsqueeze" | .expand => "expand" | .getitem _ => "getitem" | .cat _ => "cat" | .stack _ => "stack"
  | .matmul => "matmul" | .transpose _ _ => "transpose" | .softmax _ => "softmax" | .cumsum _ => "cumsum"
  | .mselect => "mselect" | .mscatter => "mscatter" | .unknown s => s

/-- The table, continued: values whose rows are not stacked on axis 0.
    * axis 1 (`acceptation_history`, history × individuals): reductions / index expressions / concatenations that leave
      axis 1 alone act on each individual's column; `x.unsqueeze(0)` of an axis-0 value produces such a value;
    * ragged (`x[mask]` with a batched boolean mask of the same leading axis): each individual's row keeps its own
      selected entries; elementwise operations with scalars keep that layout; `x[mask] = v` with `v` selected by the SAME
      mask node (or a scalar) writes each individual's entries back into its own row.
    Every other use of such a value is outside the table (fail-closed: `unknown "layout:…"`, typed `mixed`). -/
def lowerOp {α} (infos : List Info) (o : TOp α) (args : List Nat) (outShape : List Nat) : Node (Fn α) × Info :=
  let ai := args.map fun a => (infos[a]?).getD ⟨true, [], 0, none⟩
  let nd := outShape.length
  let bad : Node (Fn α) × Info := (Node.op (.unknown ("layout:" ++ o.name)) (wholeArgs infos args), ⟨false, outShape, 0, none⟩)
  let rowI := fun (f : Fn α) (axis : Nat) (rg : Option Nat) => ((Node.op f (rowArgs args), ⟨true, outShape, axis, rg⟩) : Node (Fn α) × Info)
  let plain := fun (_ : Unit) => let (n, b) := lowerPlain infos o args outShape; ((n, ⟨b, outShape, 0, none⟩) : Node (Fn α) × Info)
  let special := ai.any fun i => i.batched && !i.plain
  if !special then
    match o, ai with
    | .mselect, [x, m] =>
      if x.batched && m.batched && m.shape.length ≥ 1 && m.shape.length ≤ x.shape.length then rowI .mselect 0 (args[1]?)
      else plain ()
    | .mscatter, [x, m, v] =>
      if x.batched && m.batched && !v.batched && v.shape.isEmpty && m.shape.length ≥ 1 && m.shape.length ≤ x.shape.length
      then rowI .mscatter 0 none else plain ()
    | .unsqueeze d, [x] =>
      if x.batched && normDim d (x.shape.length + 1) = 0 then rowI (.reshape (1 :: x.shape.drop 1)) 1 none else plain ()
    | _, _ => plain ()
  else
    let bs := ai.filter (·.batched)
    let b0 := bs.headD ⟨true, [], 0, none⟩
    let sameLayout := bs.all fun i => i.axis = b0.axis && i.ragged = b0.ragged
    let scalarsOnly := ai.all fun i => i.batched || i.shape.isEmpty
    match o with
    | .ew e =>
      if sameLayout && scalarsOnly then
        if b0.ragged.isSome then rowI (.ew e nd) 0 b0.ragged
        else if bs.all (fun i => i.shape.length = nd) && nd ≥ 2 then rowI (.ew e (nd - 1)) 1 none else bad
      else bad
    | .red k dims keep =>
      match ai with
      | [x] =>
        let n0 := x.shape.length
        let ds := if dims.isEmpty then List.range n0 else dims.map (normDim · n0)
        if x.ragged.isSome || x.axis ≠ 1 || ds.contains 1 then bad
        else rowI (.red k (ds.map fun d => if d < 1 then d else d - 1) keep) (if ds.contains 0 && !keep then 0 else 1) none
      | _ => bad
    | .getitem ixs =>
      match ai with
      | [x] =>
        if x.ragged.isSome || x.axis ≠ 1 then bad else
        match expandEll ixs x.shape.length with
        | first :: rest =>
          if !first.consumes then bad else
          let ax := match first with | .at _ => 0 | _ => 1
          match rest with
          | [] => rowI (.index [first]) ax none
          | .all :: tail => rowI (.index (first :: tail)) ax none
          | _ => bad
        | [] => bad
      | _ => bad
    | .cat d =>
      let ok := ai.all fun i => i.batched && i.axis = 1 && i.ragged.isNone && i.shape.length = nd
      let dd := normDim d nd
      if ok && dd ≠ 1 then rowI (.cat (if dd = 0 then 0 else dd - 1)) 1 none else bad
    | .mscatter =>
      match ai with
      | [x, m, v] =>
        if x.batched && x.plain && m.batched && m.plain && v.batched && v.axis = 0 && v.ragged.isSome && v.ragged = args[1]?
        then rowI .mscatter 0 none else bad
      | _ => bad
    | _ => bad

def lowerNode {α} (infos : List Info) : TNode α → Node (Fn α) × Info
  | .pop k s => (.pop k, ⟨false, s, 0, none⟩)
  | .ind k s => (.ind k, ⟨true, s, 0, none⟩)
  | .ind1 k s => (.ind k, ⟨true, s, 1, none⟩)
  | .unk k s => (.unk k, ⟨false, s, 0, none⟩)
  | .op o args s => lowerOp infos o args s
  | .escape a isAssert =>
    let i := (infos[a]?).getD ⟨true, [], 0, none⟩
    -- an assertion only raises: it is kept as a (consumer-less) identity node
    (if isAssert then .op (.ew .id i.shape.length) [⟨a, false⟩] else .escape a, i)

def lowerFrom {α} : List (TNode α) → List Info → List (Node (Fn α)) → List (Node (Fn α)) × List Info
  | [], infos, acc => (acc, infos)
  | nd :: rest, infos, acc => let (n, i) := lowerNode infos nd; lowerFrom rest (infos ++ [i]) (acc ++ [n])

/-- lowering of a recorded program; node ids are preserved -/
def lower {α} (nodes : List (TNode α)) (outs : List Nat) : Prog (Fn α) := ⟨(lowerFrom nodes [] []).1, outs⟩

/-- inputs of a recorded run: each individual-level input is given as the full tensor (axis 0 = individuals) -/
def inputsOf {α} (pops inds unks : List (Tn α)) : Inputs (Tn α) :=
  { pop := fun k => (pops[k]?).getD ⟨[0], #[]⟩,
    ind := fun k j => rowOf ((inds[k]?).getD ⟨[0], #[]⟩) j,
    unk := fun k => (unks[k]?).getD ⟨[0], #[]⟩ }

/-- the same with, for each individual-level input, the axis (0 or 1) on which the individuals are -/
def inputsOfAx {α} (O : Ops α) (pops : List (Tn α)) (inds : List (Tn α × Nat)) (unks : List (Tn α)) : Inputs (Tn α) :=
  { pop := fun k => (pops[k]?).getD ⟨[0], #[]⟩,
    ind := fun k j => match inds[k]? with
      | some (t, ax) => if ax = 1 then rowOf1 O t j else rowOf t j
      | none => ⟨[0], #[]⟩,
    unk := fun k => (unks[k]?).getD ⟨[0], #[]⟩ }

/-- the torch tensor of a value, given its layout -/
def layoutWhole {α} (O : Ops α) (n : Nat) (i : Info) (v : Val (Tn α)) : Tn α :=
  match v with
  | .un r => r
  | .ba g =>
    let rows := (List.range n).map g
    if i.ragged.isSome then fnApply O (.cat 0) rows
    else if i.axis = 1 then fnApply O (.transpose 0 1) [concatRows rows]
    else concatRows rows

/-- ancestors-or-self of node `o` -/
def Node.argIds {φ} : Node φ → List Nat
  | .op _ args => args.map (·.id)
  | .escape a => [a]
  | _ => []

def ancestors {φ} (nodes : List (Node φ)) (o : Nat) : List Nat :=
  -- nodes only refer to earlier ones: one backward sweep
  (List.range (o + 1)).reverse.foldl (fun acc k =>
    if acc.contains k then acc ++ ((nodes[k]?.map Node.argIds).getD []).filter (!acc.contains ·) else acc) [o]

end LeaspyVerif.Trace

namespace LeaspyVerif.Trace

/-- row `j` of output `o` (`none`: no such node) -/
def outAt {φ ρ} (S : Sem φ ρ) (n : Nat) (L : Inputs ρ) (p : Prog φ) (o j : Nat) : Option ρ :=
  ((eval S n L p)[o]?).map (·.at j)

end LeaspyVerif.Trace

namespace LeaspyVerif.Trace

/-- exact rational scalars for the kernel-checked examples (`exp`, `log`, `pow`, `sqrt` are placeholders: the
    example programs only use rational operations) -/
def ratOps : Ops Rat :=
  { zero := 0, one := 1, add := (· + ·), sub := (· - ·), mul := (· * ·), div := (· / ·),
    lt := fun a b => decide (a < b), eq := fun a b => decide (a = b),
    exp := id, log := id, pow := fun a _ => a, sqrt := id, ofNat := fun n => (n : Rat) }

end LeaspyVerif.Trace
