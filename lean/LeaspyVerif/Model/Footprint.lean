/-
Footprint of one public call (`estimate`, `personalize`, `simulate`) on a model object — property C13.

The harness (`harness/footprint_c13.py`) records, while a real call runs, every event that can change a `State`
object or the model object itself:

  src/leaspy/variables/state.py      State.__setitem__ / __getitem__ (uncached) / revert / clone / precompute_all /
                                     clear / auto_fork_type = … ; to_device, (un)track_variable, in-place tensor writes
  src/leaspy/models/stateful.py      `model._state = …` (the `state` setter), any other attribute of the model object

State identities: 0 = `model.state` as it was when the call started, k > 0 = the k-th clone born during the call.
The state operations are the `Op`s of `Model/State.lean` (the C01 model); the model-level events are added here.

Two analyses of a recorded history, both decidable and independent of every value:
  * `touchesOriginal` / `writesOriginal` — does some event address state 0 (at all / otherwise than by filling its
    cache), or the model object;
  * `analyse` — an abstract interpreter for the calls that *do* work on `model.state` and then re-bind the model to a
    cleaned clone (mean / mode posterior personalisation, src/leaspy/algo/personalize/mcmc.py `_initialize_algo`,
    `_terminate_algo`): per state, are the protected variables still those of the original, is the pending fork free
    of protected keys, which variables are known to be unset.
Their soundness against `State.step` is proved in `Props/C13.lean` (lemmas in `Lemmas/Footprint.lean`).
-/
import LeaspyVerif.Model.State
import LeaspyVerif.Model.Api

namespace LeaspyVerif.Footprint
open LeaspyVerif.State

/-- One recorded event. -/
inductive Ev (V M : Type) where
  /-- an operation of the `State` class -/
  | op (o : Op V M)
  /-- something outside the vocabulary happened to state `sid` (an in-place write into one of its tensors,
      `to_device`, `track_variable`, a `State` that was not born in a clone): its new content is arbitrary -/
  | havoc (sid : Nat) (s' : Option (St V))
  /-- the clone `dst` of `src` shares the storage of variable `i` with its source; by itself this changes no value
      (the in-place write that would is a `havoc`), but the copy-by-value reading of `clone` is no longer warranted -/
  | shared (src dst i : Nat)
  /-- `model._state = <state sid>` -/
  | bind (sid : Nat)
  /-- `model.<attribute k> = v` -/
  | attr (k : Nat) (v : V)

/-- The model object during a call: its states, which one is `model.state`, its other attributes. -/
structure World (V : Type) where
  store : Store V
  bound : Nat
  attrs : Nat → Option V

def stepEv {V M} (g : Graph V) (mix : M → V → V → V) (w : World V) : Ev V M → World V
  | .op o => { w with store := (step g mix w.store o).1 }
  | .havoc sid s' => { w with store := fun k => if k = sid then s' else w.store k }
  | .shared _ _ _ => w
  | .bind sid => { w with bound := sid }
  | .attr k v => { w with attrs := fun j => if j = k then some v else w.attrs j }

def runEv {V M} (g : Graph V) (mix : M → V → V → V) : World V → List (Ev V M) → World V
  | w, [] => w
  | w, e :: h => runEv g mix (stepEv g mix w e) h

/-! ### which state an operation addresses -/

/-- the only state an operation can change -/
def target {V M} : Op V M → Nat
  | .get sid _ | .isSet sid _ | .set sid _ _ | .put sid _ _ _ | .revert sid _ | .precompute sid
  | .setMode sid _ | .clear sid => sid
  | .clone _ dst _ _ => dst

/-- operations that can only fill the cache of their state -/
def isRead {V M} : Op V M → Bool
  | .get _ _ | .precompute _ => true
  | _ => false

/-- operations that change nothing at all -/
def isNeutral {V M} : Op V M → Bool
  | .isSet _ _ => true
  | _ => false

/-- the event can change the content of state `k` (filling its cache included) -/
def Ev.addresses {V M} (k : Nat) : Ev V M → Bool
  | .op o => target o == k && !isNeutral o
  | .havoc sid _ => sid == k
  | _ => false

/-- the event can only fill the cache of state `k` -/
def Ev.readsOnly {V M} (k : Nat) : Ev V M → Bool
  | .op o => target o == k && isRead o
  | _ => false

/-- the event concerns the model object rather than one state -/
def Ev.modelLevel {V M} : Ev V M → Bool
  | .shared _ _ _ | .bind _ | .attr _ _ => true
  | _ => false

def Ev.touches0 {V M} (e : Ev V M) : Bool := e.addresses 0 || e.modelLevel
def Ev.writes0 {V M} (e : Ev V M) : Bool := (e.addresses 0 && !e.readsOnly 0) || e.modelLevel

/-- some event addresses the original state, re-binds the model's state, writes a model attribute, or the
    copy-by-value reading of a clone is not warranted -/
def touchesOriginal {V M} (h : List (Ev V M)) : Bool := h.any Ev.touches0

/-- same, reads of the original state (which can only fill its cache) allowed -/
def writesOriginal {V M} (h : List (Ev V M)) : Bool := h.any Ev.writes0

/-- index of the first touching event -/
def firstTouch {V M} (h : List (Ev V M)) : Option Nat := h.findIdx? Ev.touches0

/-! ### abstract interpretation -/

/-- what is known about one state, relative to the original state 0 and a set `P` of protected variables -/
structure Abs where
  /-- every protected variable holds what it held in the original state when the call started -/
  same : Bool
  /-- the pending fork (if any) has no protected key: a revert cannot move a protected variable -/
  forkFree : Bool
  /-- independent variables known to be unset -/
  cleared : List Nat
  deriving DecidableEq, Repr

abbrev AbsStore := List (Nat × Abs)

def AbsStore.get : AbsStore → Nat → Option Abs
  | [], _ => none
  | (k, a) :: r, j => if k = j then some a else AbsStore.get r j

def AbsStore.erase (α : AbsStore) (k : Nat) : AbsStore := α.filter (fun p => p.1 != k)

def AbsStore.set (α : AbsStore) (k : Nat) : Option Abs → AbsStore
  | none => α.erase k
  | some a => (k, a) :: α.erase k

/-- `__setitem__` goes through: a known, settable independent variable -/
def settable {V} (g : Graph V) (i : Nat) : Bool := decide (i < g.n) && (g.kind i == Kind.indep true)

/-- neither the variable nor any of its descendants (the keys of the fork an assignment takes) is protected -/
def safeVar {V} (g : Graph V) (P : List Nat) (i : Nat) : Bool := (i :: g.desc i).all (fun k => !P.contains k)

def absSet {V} (g : Graph V) (P : List Nat) (i : Nat) (isNone : Bool) (a : Abs) : Abs :=
  if settable g i then
    { same := a.same && safeVar g P i
      forkFree := safeVar g P i
      cleared := if isNone then i :: a.cleared else a.cleared.filter (fun r => r != i) }
  else a

/-- `put` with a transformation: a read, then (when the read succeeds) an assignment of a value -/
def absPut {V} (g : Graph V) (P : List Nat) (i : Nat) (a : Abs) : Abs :=
  if settable g i then
    { same := a.same && safeVar g P i
      forkFree := a.forkFree && safeVar g P i
      cleared := a.cleared.filter (fun r => r != i) }
  else a

def absRevert (a : Abs) : Abs := { same := a.same && a.forkFree, forkFree := true, cleared := [] }

def absClone (a : Abs) (keepLastFork : Bool) : Abs :=
  { same := a.same, forkFree := if keepLastFork then a.forkFree else true, cleared := a.cleared }

def onState (α : AbsStore) (sid : Nat) (f : Abs → Abs) : AbsStore :=
  match α.get sid with
  | none => α
  | some a => α.set sid (some (f a))

def absOp {V M} (g : Graph V) (P : List Nat) (α : AbsStore) : Op V M → AbsStore
  | .get _ _ => α
  | .isSet _ _ => α
  | .set sid i v => onState α sid (absSet g P i v.isNone)
  | .put sid i none _ => onState α sid (absSet g P i false)
  | .put sid i (some _) _ => onState α sid (absPut g P i)
  | .revert sid _ => onState α sid absRevert
  | .clone src dst _ b =>
    match α.get src with
    | none => α.set dst none
    | some x => α.set dst (some (absClone x b))
  | .precompute _ => α
  | .setMode _ _ => α
  | .clear sid => onState α sid (fun _ => { same := false, forkFree := true, cleared := [] })

structure Res where
  abs : AbsStore
  bound : Nat
  attrsWritten : Bool
  sharedSeen : Bool
  deriving DecidableEq, Repr

def absEv {V M} (g : Graph V) (P : List Nat) (r : Res) : Ev V M → Res
  | .op o => { r with abs := absOp g P r.abs o }
  | .havoc sid _ => { r with abs := r.abs.set sid none }
  | .shared _ _ _ => { r with abs := [], sharedSeen := true }
  | .bind sid => { r with bound := sid }
  | .attr _ _ => { r with attrsWritten := true }

def analyse {V M} (g : Graph V) (P : List Nat) : Res → List (Ev V M) → Res
  | r, [] => r
  | r, e :: h => analyse g P (absEv g P r e) h

/-- at the start of a call: the original state is itself; nothing is known about its pending fork -/
def Res.init : Res :=
  { abs := [(0, { same := true, forkFree := false, cleared := [] })], bound := 0, attrsWritten := false,
    sharedSeen := false }

/-! ### link with the object abstraction of `Model/Api.lean` (part c) -/

/-- the variables of the graph by role (`dag.sorted_variables_by_type`) -/
structure Classes where
  params : List Nat
  hyper : List Nat
  pop : List Nat
  data : List Nat
  ind : List Nat
  deriving DecidableEq, Repr

/-- what the property protects -/
def Classes.prot (c : Classes) : List Nat := c.params ++ c.hyper ++ c.pop
/-- what a fit leaves behind -/
def Classes.resid (c : Classes) : List Nat := c.data ++ c.ind

def nonLinked {V} (g : Graph V) (l : List Nat) : Bool := l.all (fun i => g.kind i != Kind.linked)

/-- the `Api.Obj` a state stands for: the values of the parameters, hyper-parameters, population variables, and
    what is stored in the data / individual variables (`none` when all of them are unset) -/
def objOf {V} (c : Classes) (s : St V) : Api.Obj (List (Option V)) :=
  { params := c.params.map s.vals
    hyper := c.hyper.map s.vals
    pop := c.pop.map s.vals
    residual := if c.resid.all (fun i => (s.vals i).isNone) then none
                else some (c.data.map s.vals, c.ind.map s.vals) }

/-- verdict for the calls that must not write to `model.state` at all (estimate, scipy_minimize, simulate) -/
def pureVerdict {V M} (g : Graph V) (c : Classes) (h : List (Ev V M)) : Bool :=
  !writesOriginal h && nonLinked g (c.prot ++ c.resid)

/-- verdict for mean / mode posterior personalisation: they run on `model.state` and re-bind the model to a clone;
    the state bound at the end has the protected variables of the original and no data / individual value -/
def mcmcVerdict {V M} (g : Graph V) (c : Classes) (h : List (Ev V M)) : Bool :=
  let r := analyse g c.prot Res.init h
  nonLinked g c.prot && !r.attrsWritten &&
    match r.abs.get r.bound with
    | some a => a.same && c.resid.all (fun i => a.cleared.contains i)
    | none => false

/-- the calls whose footprint is recorded -/
def isQuery {W} : Api.Call W → Bool
  | .estimate _ | .persoMean _ _ | .persoMode _ _ | .persoScipy _ _ | .simulate _ _ => true
  | _ => false

def verdict {V M W} (g : Graph V) (c : Classes) : Api.Call W → List (Ev V M) → Bool
  | .estimate _, h | .persoScipy _ _, h | .simulate _ _, h => pureVerdict g c h
  | .persoMean _ _, h | .persoMode _ _, h => mcmcVerdict g c h
  | _, _ => false

/-- between two calls: the state bound to the model becomes state 0 of the next recording, clones are forgotten -/
def rebase {V} (w : World V) : World V :=
  { w with store := fun k => if k = 0 then w.store w.bound else none, bound := 0 }

/-- a history of recorded calls -/
def runCalls {V M W} (g : Graph V) (mix : M → V → V → V) : World V → List (Api.Call W × List (Ev V M)) → World V
  | w, [] => w
  | w, p :: r => runCalls g mix (rebase (runEv g mix w p.2)) r

end LeaspyVerif.Footprint
