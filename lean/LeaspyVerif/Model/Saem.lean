/-
Model of the stochastic-approximation schedule of MCMC-SAEM (property C05).

  src/leaspy/algo/algo_with_samplers.py   __init__ (length of the memory-less phase), `_is_burn_in`
  src/leaspy/algo/fit/mcmc_saem.py        __init__ (step-power check), `_maximization_step`

Import-free.  Definitions are polymorphic in the number type so that the very same
definition is executed on `Float` by the driver and reasoned about over a field in `Props/C05.lean`.
-/
namespace LeaspyVerif.Saem

/-- `_is_burn_in`: `current_iteration <= n_burn_in_iter`. -/
def isBurnIn (k nb : Nat) : Bool := decide (k ≤ nb)

/-- first condition of `_maximization_step`:
    `self._is_burn_in() or self.current_iteration == 1 + n_burn_in_iter`. -/
def memoryless (k nb : Nat) : Bool := isBurnIn k nb || k == 1 + nb

/-- The statistics handed to `update_parameters` at iteration `k`, given the ones kept from
    iteration `k-1` (`prev`) and the current ones (`s`).
    `e j` is the step size `j ** (-power)` for `j = k - n_burn_in_iter`. -/
def stepStats {α} [Add α] [Sub α] [Mul α] [OfNat α 1]
    (e : Nat → α) (nb k : Nat) (prev s : α) : α :=
  if memoryless k nb then s else prev * (1 - e (k - nb)) + e (k - nb) * s

/-- Iterations `k, k+1, …` with current statistics `ss`; returns per iteration the statistics
    handed to the maximisation and the `burn_in` flag it is told. -/
def runFrom {α} [Add α] [Sub α] [Mul α] [OfNat α 1]
    (e : Nat → α) (nb : Nat) : Nat → α → List α → List (α × Bool)
  | _, _, [] => []
  | k, prev, s :: ss =>
      let S := stepStats e nb k prev s
      (S, isBurnIn k nb) :: runFrom e nb (k + 1) S ss

/-- A whole run: iterations `1 … ss.length`.  Iteration 1 is always memory-less, so the initial
    `prev` is irrelevant (the code has no value for it either: the attribute is first assigned there). -/
def run {α} [Add α] [Sub α] [Mul α] [OfNat α 1]
    (e : Nat → α) (nb : Nat) (ss : List α) : List (α × Bool) :=
  match ss with
  | [] => []
  | s :: _ => runFrom e nb 1 s ss

/-- Constructor check of `TensorMcmcSaem`: `0.5 < power <= 1` (on doubles, as in python). -/
def powerOk (p : Float) : Bool := decide (0.5 < p) && decide (p ≤ 1)

/-- Length of the memory-less phase (`AlgoWithSamplersMixin.__init__`):
    the explicit count when given, else `int(frac * n_iter)` (double product, truncated). -/
def nBurn (nIter : Nat) (count : Option Nat) (frac : Option Float) : Option Nat :=
  match count, frac with
  | some c, _ => some c
  | none, some f => some (Float.floor (f * Float.ofNat nIter)).toUInt64.toNat
  | none, none => none        -- LeaspyAlgoInputError

/-- step size on doubles: python `int ** float` -/
def stepSizeF (power : Float) (j : Nat) : Float := Float.pow (Float.ofNat j) (-power)

/-! ## Part 2 — the update exactly as written, its unrolled weights

`_maximization_step` (mcmc_saem.py):

    burn_in_step = self.current_iteration - self.algo_parameters["n_burn_in_iter"]
    burn_in_step **= -self.algo_parameters["burn_in_step_power"]
    self.sufficient_statistics = {
        k: v * (1.0 - burn_in_step) + burn_in_step * sufficient_statistics[k]
        for k, v in self.sufficient_statistics.items()
    }

`burn_in_step` and `1.0 - burn_in_step` are Python doubles; each is cast to the dtype of the tensor it
multiplies.  On float32 statistics `float32(1.0 - e)` and `1 - float32(e)` differ (by one ulp for about 1 % of
the steps), so the complement is a separate parameter `c` of the executable model: over a field `c = 1 - e`
(`Props/C05.lean: stepStatsW_eq`), on doubles `complF`, on float32 tensors `complF32`. -/

/-- `stepStats` with both weights as the code computes them: `prev * c + e * s`. -/
def stepStatsW {α} [Add α] [Mul α] (e c : Nat → α) (nb k : Nat) (prev s : α) : α :=
  if memoryless k nb then s else prev * c (k - nb) + e (k - nb) * s

/-- `1.0 - burn_in_step` on doubles. -/
def complF (power : Float) (j : Nat) : Float := 1.0 - stepSizeF power j

/-- the step size as it reaches a float32 tensor: the double, cast. -/
def stepSizeF32 (power : Float) (j : Nat) : Float32 := (stepSizeF power j).toFloat32

/-- the complement as it reaches a float32 tensor: computed on doubles, then cast. -/
def complF32 (power : Float) (j : Nat) : Float32 := (complF power j).toFloat32

/-- `w · c(j+1-nb) · c(j+2-nb) · … · c(k-nb)`, multiplied from the left in iteration order (this is the order in
    which the code multiplies a contribution by the successive complements). -/
def decay {α} [Mul α] (c : Nat → α) (nb : Nat) (w : α) (j k : Nat) : α :=
  (List.range' (j + 1) (k - j)).foldl (fun acc i => acc * c (i - nb)) w

/-- Weight of the statistics of iteration `j` in the statistics used at iteration `k` (`j, k ≥ 1`):
    memory-less phase (`k ≤ nb+1`): 1 for `j = k`, else 0;
    afterwards: 0 for `j ≤ nb` and for `j > k`; the reset iteration `nb+1` enters with weight 1, iteration
    `j ≥ nb+2` with `e (j-nb)`, both then decayed by the complements of the later iterations. -/
def weight {α} [Mul α] [OfNat α 0] [OfNat α 1] (e c : Nat → α) (nb k j : Nat) : α :=
  if k ≤ nb + 1 then (if j = k then 1 else 0)
  else if j ≤ nb ∨ k < j then 0
  else if j = nb + 1 then decay c nb 1 j k
  else decay c nb (e (j - nb)) j k

/-- `Σ_i w(j+i) · s_i` over a list of statistics whose first element belongs to iteration `j`. -/
def weightedSum {α} [Add α] [Mul α] [OfNat α 0] (w : Nat → α) : Nat → List α → α
  | _, [] => 0
  | j, s :: ss => w j * s + weightedSum w (j + 1) ss

/-- The unrolled form: `Σ_j weight k j · s_j` over the statistics `s_1, s_2, …` (all of `ss`; the weight of
    `j > k` is 0). -/
def unrolled {α} [Add α] [Mul α] [OfNat α 0] [OfNat α 1] (e c : Nat → α) (nb k : Nat) (ss : List α) : α :=
  weightedSum (weight e c nb k) 1 ss

/-! ## Part 3 — a signed memory-less count, statistics as dictionaries of tensors

Before the repair of F27 nothing forbade `n_burn_in_iter < 0` (negative count or fraction, see Part 4; it can still
be assigned after construction): `_is_burn_in` is then never true,
`current_iteration == 1 + n_burn_in_iter` neither (for `k ≥ 1`), and the very first iteration takes the
convex branch while `self.sufficient_statistics` is still the `None` assigned by `FitAlgorithm.__init__`.

Statistics are a `dict[str, Tensor]`.  A tensor is modelled as the flat list of its entries (1-D); a dict as
the association list in insertion order (keys pairwise distinct — a Python dict cannot repeat a key). -/

/-- `_is_burn_in` for a signed count. -/
def isBurnInZ (k : Nat) (nb : Int) : Bool := decide ((k : Int) ≤ nb)

/-- first condition of `_maximization_step` for a signed count. -/
def memorylessZ (k : Nat) (nb : Int) : Bool := isBurnInZ k nb || decide ((k : Int) = 1 + nb)

/-- `current_iteration - n_burn_in_iter`, the base of the step size (≥ 2 whenever the convex branch is taken
    at an iteration `k ≥ 1`). -/
def lagZ (k : Nat) (nb : Int) : Nat := ((k : Int) - nb).toNat

/-- what aborts a run inside `_maximization_step` -/
inductive RunErr where
  /-- `None.items()`: convex branch before any statistics were kept -/
  | attributeError
  /-- `sufficient_statistics[k]` for a kept key `k` that the new statistics do not have -/
  | keyError
  /-- torch: shapes that cannot be broadcast -/
  | runtimeError
  deriving DecidableEq, Repr

abbrev Dict (κ α : Type) := List (κ × List α)

/-- `d[k]` / `k in d` -/
def lookup {κ β : Type} [DecidableEq κ] (k : κ) : List (κ × β) → Option β
  | [] => none
  | (k', v) :: r => if k' = k then some v else lookup k r

/-- `x + y` for two 1-D tensors with torch broadcasting: equal lengths entry-wise; a length-1 operand is
    repeated; anything else is `RuntimeError` (`none`). -/
def bAdd {α} [Add α] (xs ys : List α) : Option (List α) :=
  if xs.length = ys.length then some (List.zipWith (· + ·) xs ys)
  else match xs, ys with
    | [a], _ => some (ys.map (a + ·))
    | _, [b] => some (xs.map (· + b))
    | _, _ => none

/-- `v * (1.0 - burn_in_step) + burn_in_step * s` for one key: two scalar multiplications, one tensor addition. -/
def convexT {α} [Add α] [Mul α] (ej cj : α) (v s : List α) : Option (List α) :=
  bAdd (v.map (· * cj)) (s.map (ej * ·))

/-- The dict comprehension: iterates over the KEPT dict (`self.sufficient_statistics.items()`), in its order;
    the first key that fails decides the exception. -/
def mstepD {κ α} [DecidableEq κ] [Add α] [Mul α] (ej cj : α) (new : Dict κ α) :
    Dict κ α → Except RunErr (Dict κ α)
  | [] => .ok []
  | (k, v) :: rest =>
    match lookup k new with
    | none => .error .keyError
    | some s =>
      match convexT ej cj v s with
      | none => .error .runtimeError
      | some t =>
        match mstepD ej cj new rest with
        | .error err => .error err
        | .ok r => .ok ((k, t) :: r)

/-- `self.sufficient_statistics` after the first part of `_maximization_step` at iteration `k`;
    `st` is the attribute before (`none` = Python `None`). -/
def stepD {κ α} [DecidableEq κ] [Add α] [Mul α] (e c : Nat → α) (nb : Int) (k : Nat)
    (st : Option (Dict κ α)) (new : Dict κ α) : Except RunErr (Dict κ α) :=
  if memorylessZ k nb then .ok new
  else match st with
    | none => .error .attributeError
    | some old => mstepD (e (lagZ k nb)) (c (lagZ k nb)) new old

/-- What a run hands to `update_parameters` (statistics, `burn_in` flag) until it ends or aborts. -/
structure RunOut (κ α : Type) where
  calls : List (Dict κ α × Bool)
  err : Option RunErr

def runDFrom {κ α} [DecidableEq κ] [Add α] [Mul α] (e c : Nat → α) (nb : Int) :
    Nat → Option (Dict κ α) → List (Dict κ α) → RunOut κ α
  | _, _, [] => ⟨[], none⟩
  | k, st, s :: ss =>
    match stepD e c nb k st s with
    | .error err => ⟨[], some err⟩        -- the exception leaves before `update_parameters`
    | .ok S =>
      let out := runDFrom e c nb (k + 1) (some S) ss
      ⟨(S, isBurnInZ k nb) :: out.calls, out.err⟩

/-- iterations `1 … ss.length`, the attribute starts as `None`. -/
def runD {κ α} [DecidableEq κ] [Add α] [Mul α] (e c : Nat → α) (nb : Int) (ss : List (Dict κ α)) :
    RunOut κ α :=
  runDFrom e c nb 1 none ss

/-- entry `i` of the tensor a dictionary holds for `key` (a read-out used by the statements) -/
def entry {κ α} [DecidableEq κ] (d : Dict κ α) (key : κ) (i : Nat) : Option α :=
  (lookup key d).bind (fun v => v[i]?)

/-! ## Part 4 — the constructor

`AlgorithmWithSamplersMixin.__init__` then `TensorMcmcSaemAlgorithm.__init__` (MRO order: the burn-in length is
derived first, then the step power is tested, then — since the repair of F27 — the sign of the length).  `AlgorithmSettings` validates none of `n_iter`,
`n_burn_in_iter`, `n_burn_in_iter_frac`, `burn_in_step_power`.

    if self.algo_parameters.get("n_burn_in_iter", None) is None:
        if n_burn_in_iter_frac is None: raise LeaspyAlgoInputError
        self.algo_parameters["n_burn_in_iter"] = int(n_burn_in_iter_frac * self.algo_parameters["n_iter"])
    elif n_burn_in_iter_frac is not None:
        warnings.warn(…, FutureWarning)          # the count has priority
    …
    if not (0.5 < self.algo_parameters["burn_in_step_power"] <= 1): raise LeaspyAlgoInputError
    if self.algo_parameters["n_burn_in_iter"] < 0: raise LeaspyAlgoInputError          # fix of F27

`int(x)` of a Python float truncates toward zero, raises `ValueError` on nan and `OverflowError` on ±inf. -/

inductive CtorErr where
  | algoInput        -- LeaspyAlgoInputError
  | valueError       -- int(nan)
  | overflowError    -- int(±inf)
  deriving DecidableEq, Repr

/-- A double, as `int()` sees it. -/
inductive Dbl where
  | nan
  | inf
  | fin (x : Rat)
  deriving DecidableEq, Repr

/-- Python `int(x)` on a finite value: truncation toward zero. -/
def truncZ (x : Rat) : Int := Int.tdiv x.num x.den

def intOfDbl : Dbl → Except CtorErr Int
  | .nan => .error .valueError
  | .inf => .error .overflowError
  | .fin x => .ok (truncZ x)

/-- The memory-less length left in `algo_parameters["n_burn_in_iter"]`; `prod` is the double
    `n_burn_in_iter_frac * n_iter` (absent when the fraction is `None`). -/
def nBurnQ (count : Option Int) (prod : Option Dbl) : Except CtorErr Int :=
  match count, prod with
  | some c, _ => .ok c
  | none, none => .error .algoInput
  | none, some x => intOfDbl x

/-- the `FutureWarning`: a count and a fraction are both given. -/
def warnsDeprecated {β : Type} (count : Option Int) (frac : Option β) : Bool := count.isSome && frac.isSome

/-- The whole constructor BEFORE the repair of finding F27 (leaspy up to d664c36): burn-in length first, step
    power last, nothing else — a negative length was accepted.  Kept to state what the repair changed. -/
def ctorQOld (count : Option Int) (prod : Option Dbl) (powerOk : Bool) : Except CtorErr Int :=
  match nBurnQ count prod with
  | .error err => .error err
  | .ok nb => if powerOk then .ok nb else .error .algoInput

/-- The whole constructor (leaspy 9714692, fix of F27), in MRO order: burn-in length first
    (`AlgorithmWithSamplersMixin.__init__`), then in `TensorMcmcSaemAlgorithm.__init__` the step power and, last,

        if self.algo_parameters["n_burn_in_iter"] < 0: raise LeaspyAlgoInputError(…)  -/
def ctorQ (count : Option Int) (prod : Option Dbl) (powerOk : Bool) : Except CtorErr Int :=
  match nBurnQ count prod with
  | .error err => .error err
  | .ok nb =>
    if !powerOk then .error .algoInput
    else if nb < 0 then .error .algoInput
    else .ok nb

/-- exact value of a double, from its bits -/
def dblOfFloat (x : Float) : Dbl :=
  let b : Nat := x.toBits.toNat
  let neg : Bool := b / 2 ^ 63 == 1
  let ex : Nat := (b / 2 ^ 52) % 2048
  let m : Nat := b % 2 ^ 52
  if ex == 2047 then (if m == 0 then .inf else .nan)
  else
    let num : Nat := if ex == 0 then m else (2 ^ 52 + m) * 2 ^ (ex - 1075)
    let den : Nat := if ex == 0 then 2 ^ 1074 else 2 ^ (1075 - ex)
    let mag : Rat := mkRat (num : Int) den
    .fin (if neg then -mag else mag)

/-- on doubles: the product is the double product `frac * float(n_iter)`. -/
def nBurnZ (nIter : Int) (count : Option Int) (frac : Option Float) : Except CtorErr Int :=
  nBurnQ count (frac.map (fun f => dblOfFloat (f * Float.ofInt nIter)))

def ctorZ (nIter : Int) (count : Option Int) (frac : Option Float) (power : Float) : Except CtorErr Int :=
  ctorQ count (frac.map (fun f => dblOfFloat (f * Float.ofInt nIter))) (powerOk power)

end LeaspyVerif.Saem
