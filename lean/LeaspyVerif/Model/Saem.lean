/-
Model of the stochastic-approximation schedule of MCMC-SAEM (property C05).

  src/leaspy/algo/algo_with_samplers.py   __init__ (length of the memory-less phase), `_is_burn_in`
  src/leaspy/algo/fit/mcmc_saem.py        __init__ (step-power check), `_maximization_step`

Import-free.  Definitions are polymorphic in the number type so that the very same
definition is executed on `Float` by the driver and reasoned about over a field in `Props/C05.lean`.
-/
namespace LeaspyVerif.Saem

/-- `_is_burn_in`: `current_iteration <= n_burn_in_iter`. -/
def isBurnIn (k nb : Nat) : Bool := decide (k ≤ nb)

/-- first condition of `_maximization_step`:
    `self._is_burn_in() or self.current_iteration == 1 + n_burn_in_iter`. -/
def memoryless (k nb : Nat) : Bool := isBurnIn k nb || k == 1 + nb

/-- The statistics handed to `update_parameters` at iteration `k`, given the ones kept from
    iteration `k-1` (`prev`) and the current ones (`s`).
    `e j` is the step size `j ** (-power)` for `j = k - n_burn_in_iter`. -/
def stepStats {α} [Add α] [Sub α] [Mul α] [OfNat α 1]
    (e : Nat → α) (nb k : Nat) (prev s : α) : α :=
  if memoryless k nb then s else prev * (1 - e (k - nb)) + e (k - nb) * s

/-- Iterations `k, k+1, …` with current statistics `ss`; returns per iteration the statistics
    handed to the maximisation and the `burn_in` flag it is told. -/
def runFrom {α} [Add α] [Sub α] [Mul α] [OfNat α 1]
    (e : Nat → α) (nb : Nat) : Nat → α → List α → List (α × Bool)
  | _, _, [] => []
  | k, prev, s :: ss =>
      let S := stepStats e nb k prev s
      (S, isBurnIn k nb) :: runFrom e nb (k + 1) S ss

/-- A whole run: iterations `1 … ss.length`.  Iteration 1 is always memory-less, so the initial
    `prev` is irrelevant (the code has no value for it either: the attribute is first assigned there). -/
def run {α} [Add α] [Sub α] [Mul α] [OfNat α 1]
    (e : Nat → α) (nb : Nat) (ss : List α) : List (α × Bool) :=
  match ss with
  | [] => []
  | s :: _ => runFrom e nb 1 s ss

/-- Constructor check of `TensorMcmcSaem`: `0.5 < power <= 1` (on doubles, as in python). -/
def powerOk (p : Float) : Bool := decide (0.5 < p) && decide (p ≤ 1)

/-- Length of the memory-less phase (`AlgoWithSamplersMixin.__init__`):
    the explicit count when given, else `int(frac * n_iter)` (double product, truncated). -/
def nBurn (nIter : Nat) (count : Option Nat) (frac : Option Float) : Option Nat :=
  match count, frac with
  | some c, _ => some c
  | none, some f => some (Float.floor (f * Float.ofNat nIter)).toUInt64.toNat
  | none, none => none        -- LeaspyAlgoInputError

/-- step size on doubles: python `int ** float` -/
def stepSizeF (power : Float) (j : Nat) : Float := Float.pow (Float.ofNat j) (-power)

end LeaspyVerif.Saem
