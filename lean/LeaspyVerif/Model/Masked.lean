/-
Model of leaspy's masked ("weighted") tensors (properties C06, C04, C07).

  src/leaspy/utils/weighted_tensor/_weighted_tensor.py   WeightedTensor: `filled`, `weighted_value`,
                                                         `wsum`, `sum`, `valued`, `map`, `__neg__`,
                                                         `_apply_operation` (weight propagation table)
  src/leaspy/utils/weighted_tensor/_utils.py             `sum_dim`, `wsum_dim(but_dim=…)`
  src/leaspy/utils/weighted_tensor/_factory.py           `factory_weighted_tensor_unary_operator`
  src/leaspy/models/obs_models/_gaussian.py              `y_getter`, `y_L2`, `n_obs`, `y_x_model`,
                                                         `model_x_model`, scalar / diagonal noise update
  src/leaspy/models/obs_models/_base.py                  `nll_attach_ind` = nll(y).then(sum_dim, but_dim=IND)
  src/leaspy/models/mcmc_saem_compatible.py              `put_data_variables` (t weighted by mask.any(ft))
  src/leaspy/models/logistic.py / linear.py              `model_with_sources` (… `.weighted_value`)

Import-free.  Conventions
  * A tensor is flattened (row-major); broadcasting of *values* to the common shape is done by the
    caller before an operation (torch semantics), as is `weight.expand(result.shape)`.
  * A value is an `XVal`: an exact rational or one of the IEEE specials.  Rounding is not modelled,
    `0 * inf = nan`, `inf - inf = nan`, `nan` is absorbing.  Signed zeros are identified.
  * A weighted tensor is a list of cells `(value, weight)`; leaspy only ever uses boolean weights
    (`mask.to(torch.bool)`), so the weight of a cell is a `Bool`.  The `__post_init__` assertion
    `weight.shape == value.shape` holds by construction.
  * A reduction `sum_dim(x, but_dim=…)` is described by a list `keys` giving, for every cell, the index
    of the output cell it is accumulated into (individual index for `but_dim=LVL_IND`, feature index for
    `but_dim=LVL_FT`, all `0` for a full sum) and the number of output cells.
-/
namespace LeaspyVerif.Masked

/-- IEEE-like extended values over exact rationals. -/
inductive XVal where
  | fin (q : Rat)
  | pinf
  | ninf
  | nan
deriving DecidableEq, Repr, Inhabited

namespace XVal

def zero : XVal := fin 0
def one : XVal := fin 1

def isFinite : XVal → Bool
  | fin _ => true
  | _ => false

def neg : XVal → XVal
  | fin q => fin (-q)
  | pinf => ninf
  | ninf => pinf
  | nan => nan

/-- the infinity with the sign of `q`, `nan` for `q = 0` (IEEE `q * inf`) -/
def signedInf (q : Rat) : XVal :=
  if q = 0 then nan else if 0 < q then pinf else ninf

def add : XVal → XVal → XVal
  | fin a, fin b => fin (a + b)
  | fin _, pinf => pinf
  | fin _, ninf => ninf
  | fin _, nan => nan
  | pinf, fin _ => pinf
  | pinf, pinf => pinf
  | pinf, ninf => nan
  | pinf, nan => nan
  | ninf, fin _ => ninf
  | ninf, pinf => nan
  | ninf, ninf => ninf
  | ninf, nan => nan
  | nan, _ => nan

def mul : XVal → XVal → XVal
  | fin a, fin b => fin (a * b)
  | fin a, pinf => signedInf a
  | fin a, ninf => signedInf (-a)
  | fin _, nan => nan
  | pinf, fin b => signedInf b
  | pinf, pinf => pinf
  | pinf, ninf => ninf
  | pinf, nan => nan
  | ninf, fin b => signedInf (-b)
  | ninf, pinf => ninf
  | ninf, ninf => pinf
  | ninf, nan => nan
  | nan, _ => nan

def sub (a b : XVal) : XVal := add a (neg b)

/-- IEEE division restricted to what the formulas need: finite / non-zero finite is exact, anything
    involving a special or a zero divisor follows IEEE (`x/0 = ±inf`, `0/0 = nan`, `x/inf = 0`). -/
def div : XVal → XVal → XVal
  | fin a, fin b => if b = 0 then signedInf a else fin (a / b)
  | fin _, pinf => fin 0
  | fin _, ninf => fin 0
  | pinf, fin b => if 0 ≤ b then pinf else ninf
  | ninf, fin b => if 0 ≤ b then ninf else pinf
  | _, _ => nan

def sqr (a : XVal) : XVal := mul a a

/-- python `bool * float`: `True → 1.0`, `False → 0.0`, then an IEEE product. -/
def ofBool (b : Bool) : XVal := if b then one else zero

end XVal

/-- One cell of a weighted tensor. -/
abbrev Cell := XVal × Bool
/-- A (flattened) weighted tensor. -/
abbrev WT := List Cell

/-- `WeightedTensor.filled(fill_value)` on one cell: `value.masked_fill(weight == 0, fill_value)`. -/
def Cell.filled (fill : XVal) (c : Cell) : XVal := if c.2 then c.1 else fill

/-- `WeightedTensor.weighted_value` on one cell: `weight * filled(0)`. -/
def Cell.weighted (c : Cell) : XVal := XVal.mul (XVal.ofBool c.2) (c.filled XVal.zero)

/-- `filled(fill_value)` on one cell with `fill_value=None` meaning "raw value". -/
def Cell.filledOpt (fill : Option XVal) (c : Cell) : XVal :=
  match fill with
  | none => c.1
  | some f => c.filled f

/-- `WeightedTensor.filled(fill_value)`; `fill_value=None` returns the raw values. -/
def filled (fill : Option XVal) (t : WT) : List XVal := t.map (Cell.filledOpt fill)

/-- `WeightedTensor.weighted_value`. -/
def weightedValue (t : WT) : List XVal := t.map Cell.weighted

/-- `torch.Tensor.sum` (exact; the order is irrelevant for exact `XVal` addition). -/
def xsum : List XVal → XVal
  | [] => XVal.zero
  | x :: xs => XVal.add x (xsum xs)

/-- `weight.sum()` for boolean weights. -/
def sumWeights (t : WT) : Nat := (t.filter (·.2)).length

/-- `WeightedTensor.wsum(fill_value=…)` over all cells of `t`:
    `weighted_values = weight * self.filled(0)`; `weighted_sum = weighted_values.sum()`;
    `sum_weights = weight.sum()`; `weighted_sum.masked_fill(sum_weights == 0, fill_value), sum_weights`. -/
def wsum (fill : XVal) (t : WT) : XVal × Nat :=
  let n := sumWeights t
  (if n = 0 then fill else xsum (weightedValue t), n)

/-- the cells accumulated into output cell `k` -/
def group (keys : List Nat) (k : Nat) (t : WT) : WT :=
  ((t.zip keys).filter (fun p => p.2 == k)).map Prod.fst

/-- `wsum_dim(x, fill_value, dim/but_dim)`: one `wsum` per output cell. -/
def wsumDim (fill : XVal) (keys : List Nat) (nOut : Nat) (t : WT) : List (XVal × Nat) :=
  (List.range nOut).map (fun k => wsum fill (group keys k t))

/-! ### tensors with optional weights and `_apply_operation` -/

/-- A regular tensor (`weight is None`) or a weighted tensor. -/
inductive MT where
  | plain (v : List XVal)
  | wt (c : WT)
deriving DecidableEq, Repr

inductive Err where
  | shape          -- torch would refuse / broadcast differently: the caller did not align the operands
  | weightsDiffer  -- `NotImplementedError`: binary operation on two weighted tensors with different weights
  | unbound        -- variable missing in the environment
deriving DecidableEq, Repr

namespace MT

def length : MT → Nat
  | plain v => v.length
  | wt c => c.length

def values : MT → List XVal
  | plain v => v
  | wt c => c.map Prod.fst

def weights : MT → Option (List Bool)
  | plain _ => none
  | wt c => some (c.map Prod.snd)

/-- the cells `wsum` works on: `weight = ones_like(value)` when `weight is None` -/
def cells : MT → WT
  | plain v => v.map (fun x => (x, true))
  | wt c => c

end MT

/-- `_apply_operation(a, b, op)` (both orders; `reverse` only swaps the arguments of `op`):
    values are combined cell-wise; weights: `None,None → None`; exactly one weighted → its weights;
    both weighted → the common weights if `torch.equal`, else `NotImplementedError`. -/
def binop (f : XVal → XVal → XVal) (a b : MT) : Except Err MT :=
  if a.length ≠ b.length then .error .shape else
  match a, b with
  | .plain x, .plain y => .ok (.plain (List.zipWith f x y))
  | .wt x, .plain y => .ok (.wt (List.zipWith (fun c v => (f c.1 v, c.2)) x y))
  | .plain x, .wt y => .ok (.wt (List.zipWith (fun v c => (f v c.1, c.2)) x y))
  | .wt x, .wt y =>
      if x.map Prod.snd = y.map Prod.snd then
        .ok (.wt (List.zipWith (fun c d => (f c.1 d.1, c.2)) x y))
      else .error .weightsDiffer

/-- `factory_weighted_tensor_unary_operator(f, fill_value)` / `WeightedTensor.map`:
    `f` on `filled(fill_value)`, same weights; on a regular tensor just `f`. -/
def mapOp (f : XVal → XVal) (fill : Option XVal) : MT → MT
  | .plain v => .plain (v.map f)
  | .wt c => .wt (c.map (fun d => (f (Cell.filledOpt fill d), d.2)))

/-- `.weighted_value` (a regular tensor). -/
def weightedOp : MT → MT
  | .plain v => .plain v
  | .wt c => .plain (weightedValue c)

/-- `WeightedTensor(value, other.weight)` as used by the repaired `scalar_noise_std_update`:
    `if not isinstance(a, WeightedTensor): a = WeightedTensor(a, b.weight)`. -/
def reweight (a b : MT) : Except Err MT :=
  match a, b with
  | .wt c, _ => .ok (.wt c)
  | .plain v, .plain _ => .ok (.plain v)
  | .plain v, .wt d => if v.length ≠ d.length then .error .shape else .ok (.wt (List.zipWith (fun x (c : Cell) => (x, c.2)) v d))

/-- `sum_dim(x, but_dim/dim)` (first component of `wsum` with `fill_value = 0`; a plain `torch.sum`
    on a regular tensor, which is the same as all weights one). -/
def sumDimOp (keys : List Nat) (nOut : Nat) (t : MT) : Except Err MT :=
  if keys.length ≠ t.length then .error .shape
  else .ok (.plain ((wsumDim XVal.zero keys nOut t.cells).map Prod.fst))

/-- `wsum_dim_return_sum_of_weights_only` -/
def sumWeightsOp (keys : List Nat) (nOut : Nat) (t : MT) : Except Err (List Nat) :=
  if keys.length ≠ t.length then .error .shape
  else .ok ((wsumDim XVal.zero keys nOut t.cells).map Prod.snd)

/-! ### expression language: the compositions leaspy builds from data variables -/

inductive BinOp where
  | add | sub | mul | div
deriving DecidableEq, Repr

def BinOp.fn : BinOp → XVal → XVal → XVal
  | .add => XVal.add
  | .sub => XVal.sub
  | .mul => XVal.mul
  | .div => XVal.div

/-- unary cell-wise functions: `__neg__`, `torch.square`; `ext i` stands for a real function the model
    does not evaluate (`torch.exp`, `torch.sigmoid`, `torch.log`): table entry `i` of the evaluation
    context, an arbitrary function `XVal → XVal`. -/
inductive UnOp where
  | neg | sqr | ext (i : Nat)
deriving DecidableEq, Repr

inductive MExpr where
  | var (i : Nat)                                     -- `state[name]` (data variable, latent, parameter; aligned)
  | bin (op : BinOp) (a b : MExpr)                    -- `_apply_operation`
  | un (op : UnOp) (fill : Option XVal) (a : MExpr)   -- unary operator on `filled(fill)`, weights kept
  | weighted (a : MExpr)                              -- `.weighted_value`
  | reweight (a b : MExpr)                            -- `WeightedTensor(a, b.weight)` if `a` is unweighted
  | sumDim (keys : List Nat) (nOut : Nat) (a : MExpr) -- `sum_dim(a, but_dim/dim)`
deriving Repr

/-- evaluation context: variables and the table of external unary functions -/
structure Ctx where
  vars : List MT
  ext : Nat → XVal → XVal

def UnOp.fn (ctx : Ctx) : UnOp → XVal → XVal
  | .neg => XVal.neg
  | .sqr => XVal.sqr
  | .ext i => ctx.ext i

def eval (ctx : Ctx) : MExpr → Except Err MT
  | .var i => match ctx.vars[i]? with
      | some t => .ok t
      | none => .error .unbound
  | .bin op a b => do
      let x ← eval ctx a
      let y ← eval ctx b
      binop op.fn x y
  | .un op fill a => do
      let x ← eval ctx a
      pure (mapOp (op.fn ctx) fill x)
  | .weighted a => do
      let x ← eval ctx a
      pure (weightedOp x)
  | .reweight a b => do
      let x ← eval ctx a
      let y ← eval ctx b
      reweight x y
  | .sumDim keys nOut a => do
      let x ← eval ctx a
      sumDimOp keys nOut x

/-! ### the compositions of `FullGaussianObservationModel` and `model_with_sources`

Variable numbering used by these expressions: `0 = y` (weighted by `mask`), `1 = model`
(regular tensor, the `.weighted_value` returned by `model_with_sources`), further variables are free. -/

def eY : MExpr := .var 0
def eModel : MExpr := .var 1

/-- `y_x_model = Prod("y", "model")` -/
def eYxModel : MExpr := .bin .mul eY eModel
/-- `model_x_model = Sqr("model")` -/
def eModelxModel : MExpr := .un .sqr none eModel
/-- `y_L2 = Sqr("y").then(wsum_dim_return_weighted_sum_only)` (or `but_dim=LVL_FT`) -/
def eYL2 (keys : List Nat) (nOut : Nat) : MExpr := .sumDim keys nOut (.un .sqr none eY)

/-- numerator of `diagonal_noise_std_update`: `y_L2_per_ft + sum_dim(-2 * y_x_model + model_x_model, but_dim=LVL_FT)`;
    `two` is the index of a regular tensor filled with `-2`. -/
def eNoiseNumDiag (minusTwo : Nat) (keys : List Nat) (nOut : Nat) : MExpr :=
  .bin .add (eYL2 keys nOut)
    (.sumDim keys nOut (.bin .add (.bin .mul (.var minusTwo) eYxModel) eModelxModel))

/-- numerator of `scalar_noise_std_update` **before the repair F3**:
    `y_L2 - 2 * sum_dim(y_x_model) + sum_dim(model_x_model)` — the last sum is over a regular tensor. -/
def eNoiseNumScalarOld (two : Nat) (keys : List Nat) : MExpr :=
  .bin .add (.bin .sub (eYL2 keys 1) (.bin .mul (.var two) (.sumDim keys 1 eYxModel)))
    (.sumDim keys 1 eModelxModel)

/-- numerator of `scalar_noise_std_update` after the repair: `model_x_model` takes the weights of `y_x_model`. -/
def eNoiseNumScalar (two : Nat) (keys : List Nat) : MExpr :=
  .bin .add (.bin .sub (eYL2 keys 1) (.bin .mul (.var two) (.sumDim keys 1 eYxModel)))
    (.sumDim keys 1 (.reweight eModelxModel eYxModel))

/-- `nll_attach_ind` up to the terms that do not involve the data:
    `sum_dim(0.5 * ((y - model) / noise_std) ** 2 + log(noise_std) + c, but_dim=LVL_IND)`;
    `half`, `scale`, `logScalePlusC` are indices of (pre-broadcast) regular tensors. -/
def eNllAttachInd (half scale logScalePlusC : Nat) (keys : List Nat) (nOut : Nat) : MExpr :=
  .sumDim keys nOut
    (.bin .add
      (.bin .mul (.var half) (.un .sqr none (.bin .div (.bin .sub eY eModel) (.var scale))))
      (.var logScalePlusC))

/-- `model_with_sources`: with `t` (variable `tVar`, weighted by `mask.any(ft)`, broadcast over features),
    `a`, `b` regular tensors (slope and offset after reparametrisation, broadcast):
    `WeightedTensor(sigmoid(filled(a * t + b, 0)), weights).weighted_value`; `sig` is the index of the
    external function.  The linear model is the same without the sigmoid (`ext` = identity). -/
def eModelOf (tVar a b sig : Nat) : MExpr :=
  .weighted (.un (.ext sig) (some XVal.zero) (.bin .add (.bin .mul (.var a) (.var tVar)) (.var b)))

end LeaspyVerif.Masked
