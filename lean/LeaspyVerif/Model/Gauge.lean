/-
Model of the re-centring of `xi` and of the construction of the space shifts (property C10).

  src/leaspy/models/riemanian_manifold.py     `_center_xi_realizations`
  src/leaspy/models/joint.py                  `_center_xi_realizations` (also shifts `n_log_nu`)
  src/leaspy/utils/linalg.py                  `compute_orthonormal_basis` (1-D metric branch, the only
                                              one the models use: `OrthoBasis("v0", "metric_sqr")`,
                                              `OrthoBasis("collin_to_d_gamma_t0", "g_metric")`)
  src/leaspy/models/time_reparametrized.py    `mixing_matrix = (orthonormal_basis @ betas).T`,
                                              `space_shifts = sources @ mixing_matrix`
  src/leaspy/models/shared_speed_logistic.py  `denom`, `gamma_t0`, `g_metric`, `collin_to_d_gamma_t0`
  src/leaspy/variables/specs.py               `ModelParameter.for_ind_std`: statistics `xi`, `xi_sqr = Sqr("xi")` collected
                                              by `compute_sufficient_statistics` *after* the centring (`suffXi`);
                                              `nll_regul_xi = SumDim(nll_regul_xi_ind)` (`regulSum`)

Import-free, purely algebraic (field operations, one comparison for `torch.sign`); the square root
of `torch.norm` is a *parameter* (`sqrt`), so the definitions run on `Float` (driver, `Float.sqrt`),
on `Rat` for inputs whose norms are rational, and are reasoned about over an ordered field / `ℝ`.

Vectors and matrices of the linear-algebra part are index functions `Nat → α` / `Nat → Nat → α`
with an explicit dimension; sums range over `0 … n-1` only.  `orthoBasis1D` is the list-level entry
point with the shape / positivity checks of the code.
-/
namespace LeaspyVerif.Gauge

section Center
variable {α : Type} [Add α] [Sub α] [Div α] [OfNat α 0] [OfNat α 1]

/-- `n` as a number (`1 + … + 1`) -/
def natLit : Nat → α
  | 0 => 0
  | n + 1 => natLit n + 1

def sum (l : List α) : α := l.foldr (· + ·) 0

/-- `torch.mean(state["xi"])` over all individuals -/
def mean (l : List α) : α := sum l / natLit l.length

/-- `RiemanianManifoldModel._center_xi_realizations`:
    `xi <- xi - mean(xi)`, `log_v0 <- log_v0 + mean(xi)`.  Returns `(xi, log_v0)`. -/
def center (xi logV0 : List α) : List α × List α :=
  let m := mean xi
  (xi.map (· - m), logV0.map (· + m))

/-- `JointModel._center_xi_realizations`: additionally `n_log_nu <- n_log_nu + mean(xi)`.
    Returns `(xi, log_v0, n_log_nu)`. -/
def centerJoint (xi logV0 nLogNu : List α) : List α × List α × List α :=
  let m := mean xi
  (xi.map (· - m), logV0.map (· + m), nLogNu.map (· + m))

end Center

section GaugeGroup
variable {α : Type} [Add α] [Sub α] [Mul α] [Div α] [OfNat α 0] [OfNat α 1]

/-- The one-parameter gauge group the re-centring moves along: `xi <- xi - c`, `log_v0 <- log_v0 + c`
    (`center xi logV0 = shift (mean xi) xi logV0`, by definition). -/
def shift (c : α) (xi logV0 : List α) : List α × List α :=
  (xi.map (· - c), logV0.map (· + c))

/-- … and for the joint model: also `n_log_nu <- n_log_nu + c`. -/
def shiftJoint (c : α) (xi logV0 nLogNu : List α) : List α × List α × List α :=
  (xi.map (· - c), logV0.map (· + c), nLogNu.map (· + c))

/-- `Sqr("xi")`: the linked variable `xi_sqr` collected next to `xi` by `ModelParameter.for_ind_std`. -/
def sqr (xi : List α) : List α := xi.map fun x => x * x

/-- The sufficient statistics `xi`, `xi_sqr` as `RiemanianManifoldModel.compute_sufficient_statistics`
    collects them: **after** `_center_xi_realizations`.  Returned: `(xi, xi_sqr)`. -/
def suffXi (xi logV0 : List α) : List α × List α :=
  let x := (center xi logV0).1
  (x, sqr x)

/-- `nll_regul_xi = SumDim(nll_regul_xi_ind)`: the sum over individuals of an entry-wise term
    (`Normal("xi_mean", "xi_std")._nll`, given as a parameter; `Model/Dist.lean` has the formula). -/
def regulSum (nll : α → α) (xi : List α) : α := sum (xi.map nll)

end GaugeGroup

section Linalg
variable {α : Type} [Add α] [Sub α] [Mul α] [Div α] [Neg α] [OfNat α 0] [OfNat α 1]

/-- `f 0 + f 1 + … + f (n-1)` -/
def sumTo : Nat → (Nat → α) → α
  | 0, _ => 0
  | n + 1, f => sumTo n f + f n

/-- canonical inner product of two vectors of dimension `n` -/
def dot (n : Nat) (a b : Nat → α) : α := sumTo n fun i => a i * b i

variable [LT α] [DecidableLT α]

/-- `torch.sign` -/
def sign (x : α) : α := if 0 < x then 1 else if x < 0 then -1 else 0

/-- `alpha = -torch.sign(a[j]) * torch.norm(a)` of `compute_orthonormal_basis`, for the already
    metric-scaled vector `a = G_metric * dgamma_t0` and the stripped column `j`. -/
def hhAlpha (sqrt : α → α) (n : Nat) (a : Nat → α) (j : Nat) : α :=
  -(sign (a j)) * sqrt (dot n a a)

/-- `u_vector = a - alpha * e_j` -/
def hhU (sqrt : α → α) (n : Nat) (a : Nat → α) (j : Nat) : Nat → α :=
  fun i => a i - hhAlpha sqrt n a j * (if i = j then 1 else 0)

/-- The Householder matrix of `compute_orthonormal_basis`:
    `v = u / norm(u)`;  `Q = eye(n) - 2 * v.view(-1, 1) * v`. -/
def householderQ (sqrt : α → α) (n : Nat) (a : Nat → α) (j : Nat) : Nat → Nat → α :=
  let u := hhU sqrt n a j
  let nu := sqrt (dot n u u)
  let v : Nat → α := fun i => u i / nu
  fun i k => (if i = k then 1 else 0) - (1 + 1) * v i * v k

/-- `torch.cat((Q[:, :j], Q[:, j+1:]), dim=1)`: column `c` (of `n-1`) of the returned basis -/
def basis (sqrt : α → α) (n : Nat) (a : Nat → α) (j : Nat) : Nat → Nat → α :=
  fun i c => householderQ sqrt n a j i (if c < j then c else c + 1)

/-- `mixing_matrix = (orthonormal_basis @ betas).T`, entry `(s, k)`; `betas` is `(n-1) × ns` -/
def mixing (n : Nat) (B betas : Nat → Nat → α) : Nat → Nat → α :=
  fun s k => sumTo (n - 1) fun c => B k c * betas c s

/-- `space_shifts = sources @ mixing_matrix` for one individual, entry `k` -/
def spaceShift (ns : Nat) (src : Nat → α) (M : Nat → Nat → α) : Nat → α :=
  fun k => sumTo ns fun s => src s * M s k

/-! Gram matrices (executable forms of the orthonormality statements) -/

/-- `(QᵀQ)[k, l]` for the full Householder matrix -/
def gramQ (sqrt : α → α) (n : Nat) (a : Nat → α) (j : Nat) : Nat → Nat → α :=
  fun k l => dot n (fun i => householderQ sqrt n a j i k) (fun i => householderQ sqrt n a j i l)

/-- `(BᵀB)[c, c']` for the returned basis: canonical inner products of its columns -/
def gramBasis (sqrt : α → α) (n : Nat) (a : Nat → α) (j : Nat) : Nat → Nat → α :=
  fun c c' => dot n (fun i => basis sqrt n a j i c) (fun i => basis sqrt n a j i c')

/-- the inner product of the diagonal metric `G`: `⟨x, y⟩_G = Σ x_i G_i y_i` (equation (1) of the
    docstring of `compute_orthonormal_basis`) -/
def dotG (n : Nat) (G x y : Nat → α) : α := sumTo n fun i => x i * G i * y i

/-- `(Bᵀ diag(G) B)[c, c']`: inner products of the columns of the returned basis *for the metric* -/
def gramBasisG (sqrt : α → α) (n : Nat) (G a : Nat → α) (j : Nat) : Nat → Nat → α :=
  fun c c' => dotG n G (fun i => basis sqrt n a j i c) (fun i => basis sqrt n a j i c')

/-- `(B Bᵀ)[i, k]` -/
def projBasis (sqrt : α → α) (n : Nat) (a : Nat → α) (j : Nat) : Nat → Nat → α :=
  fun i k => sumTo (n - 1) fun c => basis sqrt n a j i c * basis sqrt n a j k c

/-! shared-speed model: the quantities handed to `OrthoBasis("collin_to_d_gamma_t0", "g_metric")` -/

/-- `denom = 1 + g_deltas_exp` -/
def ssDenom (gde : α) : α := 1 + gde
/-- `gamma_t0 = 1 / denom` -/
def ssGamma (denom : α) : α := 1 / denom
/-- `g_metric = 1 / (gamma_t0 * (1 - gamma_t0)) ** 2` -/
def ssGMetric (gamma : α) : α := 1 / ((gamma * (1 - gamma)) * (gamma * (1 - gamma)))
/-- `collin_to_d_gamma_t0 = deltas_exp / denom ** 2` -/
def ssCollin (de denom : α) : α := de / (denom * denom)

/-! list-level entry point -/

inductive Err where
  | negMetric   -- "Incoherent 1D metric with negative values."          (LeaspyModelInputError)
  | size        -- "Incoherent 1D metric size"                            (LeaspyModelInputError)
  | stripCol    -- `assert 0 <= strip_col < dimension`                    (AssertionError)
  deriving Repr, DecidableEq

/-- extension of a list by zeros; every sum below ranges over `l.length` only, so the padding
    value is never read (it only makes the index function total). -/
def vec (l : List α) : Nat → α := fun i => match l[i]? with | some x => x | none => 0

def tabulate (n m : Nat) (M : Nat → Nat → α) : List (List α) :=
  (List.range n).map fun i => (List.range m).map fun c => M i c

/-- `compute_orthonormal_basis(dgamma_t0, G_metric, strip_col=j)` for a 1-D `G_metric`:
    the checks in the order of the code, then `a = G_metric * dgamma_t0` and the stripped
    Householder matrix as `n` rows of `n-1` entries. -/
def orthoBasis1D (sqrt : α → α) (dgamma G : List α) (j : Nat) : Except Err (List (List α)) :=
  if !(G.all fun x => decide (0 < x)) then .error .negMetric
  else if G.length ≠ dgamma.length then .error .size
  else if !(decide (j < dgamma.length)) then .error .stripCol
  else
    let n := dgamma.length
    let a := vec (List.zipWith (· * ·) G dgamma)
    .ok (tabulate n (n - 1) (basis sqrt n a j))

end Linalg

end LeaspyVerif.Gauge
