/-
Model of the plateau annealing scheme (property C19, temperature part).

  src/leaspy/algo/algo_with_annealing.py   AlgorithmWithAnnealingMixin.__init__ (number of annealing
                                           iterations), `_initialize_annealing`, `_update_temperature`
                                           (default, non-oscillating scheme)
  callers: algo/fit/mcmc_saem.py `_initialize_algo` / `_iteration`, algo/personalize/mcmc.py
           (`_initialize_annealing()` once, then `_update_temperature()` at the end of every
           iteration `current_iteration = 1 … n_iter`).

Import-free.  Polymorphic in the number type: the same definitions run on `Float` (IEEE double, same
operation order as the python code, so bit-identical) in `drivers/C19.lean` and are reasoned about
over an ordered field in `Props/C19.lean`.

The model is the code *with the repairs* fixes/F4.patch, fixes/F5c.patch (input validation) applied;
the repair fixes/F5a.patch (last plateau is exactly 1) is the `clamp` flag of `update`
(`clamp = false` is the code of the snapshot, kept so that `Props/C19.lean` can show that the repair
changes nothing in exact arithmetic).
-/
namespace LeaspyVerif.Anneal

/-- `Float.ofNat` as the `Nat` cast used by the polymorphic definitions (python: `float / int`). -/
scoped instance : NatCast Float := ⟨Float.ofNat⟩

/-- The two exception classes that matter here. -/
inductive Err where
  | algoInput   -- LeaspyAlgoInputError
  | zeroDiv     -- ZeroDivisionError
  deriving DecidableEq, Repr

/-- `algo_parameters["annealing"]` after the constructor. -/
structure Config (α : Type) where
  /-- `do_annealing` -/
  on : Bool
  /-- `initial_temperature` -/
  t0 : α
  /-- `n_plateau` (python `int`; any other type is refused by `_initialize_annealing`) -/
  nPlateau : Int
  /-- `annealing.n_iter` as left by the constructor (`int(n_iter_frac * n_iter)` or the explicit count) -/
  nAnneal : Int

/-- The mutable attributes: `temperature`, and `(_annealing_period, _annealing_temperature_decrement)`
    (`none` ↔ `_annealing_period is None`). `temperature_inv` is always `1 / temperature`. -/
structure St (α : Type) where
  temp : α
  sched : Option (Int × α)
  deriving DecidableEq

/-- `AlgorithmWithAnnealingMixin.__init__`: number of iterations with annealing.
    An explicit `annealing.n_iter` has priority; otherwise `int(n_iter_frac * n_iter)` (double product,
    truncated towards zero); both `None` is refused. -/
def annealCount (nIter : Nat) (count : Option Int) (frac : Option Float) : Except Err Int :=
  match count, frac with
  | some c, _ => .ok c
  | none, some f =>
      let x := f * Float.ofNat nIter
      if x < 0 then .ok (-(Int.ofNat (Float.floor (-x)).toUInt64.toNat))
      else .ok (Int.ofNat (Float.floor x).toUInt64.toNat)
  | none, none => .error .algoInput

variable {α : Type} [Sub α] [Div α] [LT α] [LE α] [OfNat α 1] [OfNat α 0] [NatCast α]
  [DecidableLT α] [DecidableLE α]

/-- `_initialize_annealing` (with fixes F4 and F5c).
    Order of the python statements: (F5c: refuse `initial_temperature < 1`), set the temperature,
    check `n_plateau` is a positive int, `n_plateau == 1` → warn and keep `T0` for ever,
    period `= n_iter // (n_plateau - 1)` (F4: refuse a period `<= 0`),
    decrement `= (T0 - 1.0) / (n_plateau - 1)`, refuse a decrement `<= 0`. -/
def init (c : Config α) : Except Err (St α) :=
  if !c.on then .ok ⟨1, none⟩                      -- constructor values: temperature = 1.0, period None
  else if c.t0 < 1 then .error .algoInput           -- fix F5c
  else if c.nPlateau ≤ 0 then .error .algoInput
  else if c.nPlateau = 1 then .ok ⟨c.t0, none⟩      -- warning "you will stay at initial temperature"
  else
    let period := c.nAnneal / (c.nPlateau - 1)      -- python `//` (floor) with a positive divisor = Int.ediv
    if period ≤ 0 then .error .algoInput            -- fix F4
    else
      let dec : α := (c.t0 - 1) / ((c.nPlateau - 1).toNat : α)
      if dec ≤ 0 then .error .algoInput
      else .ok ⟨c.t0, some (period, dec)⟩

/-- `_update_temperature` at `current_iteration = k` (default scheme).
    `k % period` with `period = 0` is python's `ZeroDivisionError`.
    `clamp = true` is fix F5a: once `k // period >= n_plateau - 1` the temperature is set to exactly 1. -/
def update (c : Config α) (clamp : Bool) (k : Nat) (s : St α) : Except Err (St α) :=
  match s.sched with
  | none => .ok s                                   -- `not annealing_on or _annealing_period is None`
  | some (period, dec) =>
    if (k : Int) ≤ c.nAnneal then
      if period = 0 then .error .zeroDiv
      else if (k : Int) % period = 0 then
        let t := s.temp - dec
        let t := if t < 1 then 1 else t             -- max(self.temperature, 1)
        let t := if clamp && decide (c.nPlateau - 1 ≤ (k : Int) / period) then 1 else t
        .ok { s with temp := t }
      else .ok s
    else .ok s

/-- State after iteration `k` (iterations are numbered `1 … n_iter`; `k = 0` is the initial state). -/
def iter (c : Config α) (clamp : Bool) (s0 : St α) : Nat → Except Err (St α)
  | 0 => .ok s0
  | k + 1 => iter c clamp s0 k >>= update c clamp (k + 1)

/-- Linear-time version used by the driver: temperatures after iterations `k+1 … k+n`. -/
def trace (c : Config α) (clamp : Bool) : Nat → Nat → St α → Except Err (List α)
  | _, 0, _ => .ok []
  | k, n + 1, s =>
    match update c clamp (k + 1) s with
    | .error e => .error e
    | .ok s' =>
      match trace c clamp (k + 1) n s' with
      | .error e => .error e
      | .ok rest => .ok (s'.temp :: rest)

/-- A whole run: the temperature after `_initialize_annealing` followed by the temperatures after each
    of the `nIter` iterations, or the exception class (`init` errors are refusals, `trace` errors are
    crashes of an accepted configuration). -/
def run (c : Config α) (clamp : Bool) (nIter : Nat) : Except Err (List α) :=
  match init c with
  | .error e => .error e
  | .ok s0 =>
    match trace c clamp 0 nIter s0 with
    | .error e => .error e
    | .ok l => .ok (s0.temp :: l)

end LeaspyVerif.Anneal
