/-
Model of the lazily cached variable graph (properties C01, C02).

  src/leaspy/variables/state.py   State.__getitem__ / _get_or_compute_and_cache / __setitem__ / put /
                                  revert / clone / auto_fork / precompute_all / clear / is_variable_set
  src/leaspy/variables/specs.py   IndepVariable.compute (→ None), LinkedVariable.compute, Hyperparameter

Import-free.  Polymorphic in the value type `V` (tensors in the code) and in the type `M` of
per-individual masks; `mix m old cur` is the entry-wise selection performed by a partial revert
(`old` where the mask is set, `cur` elsewhere).
-/
namespace LeaspyVerif.State

inductive Kind
  /-- `IndepVariable` (hyper-parameter, model parameter, data or latent variable); `settable` = `is_settable` -/
  | indep (settable : Bool)
  /-- `LinkedVariable` -/
  | linked
  deriving DecidableEq, Repr

/-- The stateless graph (`VariablesDAG`) together with the node definitions. -/
structure Graph (V : Type) where
  n : Nat
  kind : Nat → Kind
  /-- direct ancestors (`LinkedVariable.parameters`) -/
  parents : Nat → List Nat
  /-- `LinkedVariable.f` applied to the values of `parents`, in that order -/
  fn : Nat → List V → V
  /-- `Hyperparameter.value` (initial content of the cache), `none` for every other node -/
  init : Nat → Option V
  /-- `dag.sorted_variables_names` -/
  order : List Nat
  /-- `dag.sorted_children` -/
  desc : Nat → List Nat
  /-- `dag.sorted_ancestors` -/
  anc : Nat → List Nat

inductive Err
  /-- `LeaspyInputError` -/
  | input
  /-- a linked variable's function was handed a `None` (python: `TypeError` or similar) -/
  | internal
  deriving DecidableEq, Repr

abbrev Cache (V : Type) := Nat → Option V

def upd {V} (c : Cache V) (i : Nat) (v : Option V) : Cache V := fun j => if j = i then v else c j

/-- `for child in sorted_children: self._values[child] = None` -/
def resetAll {V} (c : Cache V) (l : List Nat) : Cache V := fun j => if j ∈ l then none else c j

/-- `self._values.update(fork)` -/
def restore {V} (c : Cache V) (f : List (Nat × Option V)) : Cache V :=
  fun j => match f.find? (fun p => p.1 == j) with
    | some p => p.2
    | none => c j

structure St (V : Type) where
  /-- `_values` -/
  vals : Cache V
  /-- `_last_fork` -/
  fork : Option (List (Nat × Option V))
  /-- `auto_fork_type is not None` (REF and COPY coincide on immutable values) -/
  mode : Bool

/-- `State.__init__` / `clear` -/
def initial {V} (g : Graph V) (mode : Bool) : St V := { vals := g.init, fork := none, mode := mode }

/-- `self.dag[name].compute(self._values)`; a `None` result is the `LeaspyInputError` of
    `_get_or_compute_and_cache`. -/
def compute {V} (g : Graph V) (c : Cache V) (i : Nat) : Except Err V :=
  match g.kind i with
  | .indep _ => .error .input
  | .linked =>
    match (g.parents i).mapM c with
    | some ps => .ok (g.fn i ps)
    | none => .error .internal

/-- `for parent in sorted_ancestors[name]: self._get_or_compute_and_cache(parent)`;
    what was computed before an error stays cached. -/
def walk {V} (g : Graph V) : List Nat → Cache V → Cache V × Option Err
  | [], c => (c, none)
  | a :: l, c =>
    match c a with
    | some _ => walk g l c
    | none =>
      match compute g c a with
      | .ok v => walk g l (upd c a (some v))
      | .error e => (c, some e)

/-- `State.__getitem__` -/
def get {V} (g : Graph V) (s : St V) (i : Nat) : St V × Except Err V :=
  if g.n ≤ i then (s, .error .input) else
  match s.vals i with
  | some v => (s, .ok v)
  | none =>
    match walk g (g.anc i) s.vals with
    | (c, some e) => ({ s with vals := c }, .error e)
    | (c, none) =>
      match compute g c i with
      | .ok v => ({ s with vals := upd c i (some v) }, .ok v)
      | .error e => ({ s with vals := c }, .error e)

/-- `State.is_variable_set` -/
def isSet {V} (g : Graph V) (s : St V) (i : Nat) : Except Err Bool :=
  if g.n ≤ i then .error .input else .ok (s.vals i).isSome

/-- `State.__setitem__` -/
def set {V} (g : Graph V) (s : St V) (i : Nat) (v : Option V) : St V × Except Err Unit :=
  if g.n ≤ i then (s, .error .input) else
  match g.kind i with
  | .indep true =>
    let ch := g.desc i
    let fork := if s.mode then some ((i :: ch).map (fun k => (k, s.vals k))) else none
    ({ vals := resetAll (upd s.vals i v) ch, fork := fork, mode := s.mode }, .ok ())
  | _ => (s, .error .input)

/-- `State.put`: read the current value, transform it out of place (`index_put`, `+`), assign.
    With `transform = none` it is a plain assignment (`indices == ()` and not `accumulate`). -/
def put {V} (g : Graph V) (s : St V) (i : Nat) (t : Option (V → V)) (v : V) : St V × Except Err Unit :=
  match t with
  | none => set g s i (some v)
  | some t =>
    match get g s i with
    | (s', .ok cur) => set g s' i (some (t cur))
    | (s', .error e) => (s', .error e)

/-- `State.revert` -/
def revert {V M} (mix : M → V → V → V) (s : St V) (mask : Option M) : St V × Except Err Unit :=
  match s.fork with
  | none => (s, .error .input)
  | some f =>
    match mask with
    | none => ({ s with vals := restore s.vals f, fork := none }, .ok ())
    | some m =>
      let f' := f.map fun (k, old) =>
        (k, match old, s.vals k with
            | some o, some c => some (mix m o c)
            | _, _ => none)
      ({ s with vals := restore s.vals f', fork := none }, .ok ())

/-- `State.clone` -/
def clone {V} (s : St V) (disableAutoFork keepLastFork : Bool) : St V :=
  { vals := s.vals
    fork := if keepLastFork then s.fork else none
    mode := if disableAutoFork then false else s.mode }

/-- `State.precompute_all` -/
def precompute {V} (g : Graph V) (s : St V) : St V × Except Err Unit :=
  match walk g g.order s.vals with
  | (c, some e) => ({ s with vals := c }, .error e)
  | (c, none) => ({ s with vals := c }, .ok ())

/-- `state.auto_fork_type = …` / the `auto_fork` context manager -/
def setMode {V} (s : St V) (m : Bool) : St V := { s with mode := m }

/-- `State.clear` -/
def clear {V} (g : Graph V) (s : St V) : St V := { vals := g.init, fork := none, mode := s.mode }

/-! ### histories over several states (a state and its clones) -/

inductive Op (V M : Type) where
  | get (sid i : Nat)
  | isSet (sid i : Nat)
  | set (sid i : Nat) (v : Option V)
  | put (sid i : Nat) (t : Option (V → V)) (v : V)
  | revert (sid : Nat) (mask : Option M)
  | clone (src dst : Nat) (disableAutoFork keepLastFork : Bool)
  | precompute (sid : Nat)
  | setMode (sid : Nat) (m : Bool)
  | clear (sid : Nat)

inductive Out (V : Type) where
  | read (r : Except Err V)
  | bool (r : Except Err Bool)
  | unit (r : Except Err Unit)
  | noState

abbrev Store (V : Type) := Nat → Option (St V)

def Store.put {V} (σ : Store V) (sid : Nat) (s : St V) : Store V :=
  fun k => if k = sid then some s else σ k

def step {V M} (g : Graph V) (mix : M → V → V → V) (σ : Store V) : Op V M → Store V × Out V
  | .get sid i =>
    match σ sid with
    | none => (σ, .noState)
    | some s => let r := get g s i; (σ.put sid r.1, .read r.2)
  | .isSet sid i =>
    match σ sid with
    | none => (σ, .noState)
    | some s => (σ, .bool (isSet g s i))
  | .set sid i v =>
    match σ sid with
    | none => (σ, .noState)
    | some s => let r := set g s i v; (σ.put sid r.1, .unit r.2)
  | .put sid i t v =>
    match σ sid with
    | none => (σ, .noState)
    | some s => let r := put g s i t v; (σ.put sid r.1, .unit r.2)
  | .revert sid mask =>
    match σ sid with
    | none => (σ, .noState)
    | some s => let r := revert mix s mask; (σ.put sid r.1, .unit r.2)
  | .clone src dst a b =>
    match σ src with
    | none => (σ, .noState)
    | some s => (σ.put dst (clone s a b), .unit (.ok ()))
  | .precompute sid =>
    match σ sid with
    | none => (σ, .noState)
    | some s => let r := precompute g s; (σ.put sid r.1, .unit r.2)
  | .setMode sid m =>
    match σ sid with
    | none => (σ, .noState)
    | some s => (σ.put sid (setMode s m), .unit (.ok ()))
  | .clear sid =>
    match σ sid with
    | none => (σ, .noState)
    | some s => (σ.put sid (clear g s), .unit (.ok ()))

def run {V M} (g : Graph V) (mix : M → V → V → V) : Store V → List (Op V M) → Store V × List (Out V)
  | σ, [] => (σ, [])
  | σ, op :: h =>
    let r := step g mix σ op
    let r' := run g mix r.1 h
    (r'.1, r.2 :: r'.2)

/-- successive reads (the state after them) -/
def gets {V} (g : Graph V) (s : St V) (js : List Nat) : St V :=
  js.foldl (fun s j => (get g s j).1) s

end LeaspyVerif.State
