/-
Model of the simulation algorithm `simulate` (property C18).

  src/leaspy/algo/simulate/simulate.py   SimulationAlgorithm.__init__, _set_param_study, _check_features,
                                         _check_params, _validate_algo_parameters,
                                         _sample_individual_parameters_from_model_parameters (ids, failure modes),
                                         _generate_visit_ages, _generate_dataset (rounding + de-duplication)
  src/leaspy/algo/simulate/base.py       BaseSimulationAlgorithm._run (default spacing, Data.from_dataframe)
  src/leaspy/io/data/individual_data.py  IndividualData.add_observations (sorted insertion, overwrite refusal)

The model follows the code *after* the repairs F13 F14 F15 F16 F16b F16c F16d (fixes/*.patch); the defects that are
kept as findings (F16e F16f F16g F16h) are reproduced.

Import-free.  Everything numeric is polymorphic in the number type `α`: the driver runs the very same
definitions on `Float` (IEEE double, bit-compared with numpy), the theorems are over `Rat` / an ordered field.
The random draws are explicit inputs (recorded from `numpy.random.normal` by the harness).
-/
namespace LeaspyVerif.Simulate

/-- Python exception classes that can leave `model.simulate`. -/
inductive Err
  | algoInput        -- LeaspyAlgoInputError : the documented refusal
  | keyError         -- KeyError
  | typeError        -- TypeError
  | attributeError   -- AttributeError
  | valueError       -- ValueError (pandas / scipy)
  | dataInput        -- LeaspyDataInputError (IndividualData.add_observations: overwrite of a time-point)
  deriving DecidableEq, Repr

/-! ## The design, as far as the code distinguishes values -/

/-- One entry of the `visit_parameters` dictionary. -/
inductive Val (α : Type)
  | absent                 -- key not in the dictionary
  | int (n : Int)          -- a python `int`
  | float (x : α)          -- a finite python `float`
  | nan                    -- float('nan')
  | posInf                 -- float('inf')
  | negInf                 -- float('-inf')
  | other                  -- anything else (str, None, list, numpy integer …)
  deriving Repr

inductive VisitType
  | noDict      -- `visit_parameters` is None (the default of default_simulate.json)
  | absent      -- no key "visit_type"
  | random
  | dataframe
  | unknown     -- any other value ("regular", None, …)
  deriving DecidableEq, Repr

/-- one element of the `features` list; `blank` is `not feature.strip()` (computed by the driver:
    string trimming does not reduce in the kernel) -/
inductive Feat
  | notStr
  | str (s : String) (blank : Bool)
  deriving DecidableEq, Repr

inductive Features
  | notList
  | list (fs : List Feat)
  deriving Repr

/-- where a name is found in a DataFrame -/
inductive Where
  | missing | index | column
  deriving DecidableEq, Repr

/-- identifier found in the `ID` column of the visit table -/
inductive TId
  | str (s : String)
  | int (n : Int)
  deriving DecidableEq, Repr

/-- python `str(id)` -/
def TId.toStr : TId → String
  | .str s => s
  | .int n => toString n

/-- `visit_parameters["df_visits"]` -/
inductive Table (α : Type)
  | absent
  | notFrame
  | frame (idAt timeAt : Where) (timeNull : Bool) (rows : List (TId × α))
  deriving Repr

structure Design (α : Type) where
  features : Features
  visitType : VisitType
  patientNumber : Val α
  firstVisitMean : Val α
  firstVisitStd : Val α
  followUpMean : Val α
  followUpStd : Val α
  distMean : Val α
  distStd : Val α
  minSpacing : Val α
  table : Table α

section Validation
variable {α : Type} [LT α] [LE α] [DecidableLT α] [DecidableLE α] [OfNat α 0]

/-- `isinstance(value, int)` -/
def Val.isInt : Val α → Bool
  | .int _ => true
  | _ => false

/-- `isinstance(value, (int, float))` -/
def Val.isNum : Val α → Bool
  | .int _ | .float _ | .nan | .posInf | .negInf => true
  | _ => false

def Val.isAbsent : Val α → Bool
  | .absent => true
  | _ => false

/-- python `value <= 0` on a numeric value (`nan` compares false with everything). -/
def Val.le0 : Val α → Bool
  | .int n => decide (n ≤ 0)
  | .float x => decide (x ≤ 0)
  | .negInf => true
  | _ => false

/-- python `value < 0` on a numeric value. -/
def Val.lt0 : Val α → Bool
  | .int n => decide (n < 0)
  | .float x => decide (x < 0)
  | .negInf => true
  | _ => false

/-- `_check_features`. -/
def checkFeatures : Features → Except Err Unit
  | .notList => .error .algoInput
  | .list [] => .error .algoInput
  | .list fs =>
    if fs.all (fun f => match f with
      | .notStr => false
      | .str _ blank => !blank) then .ok () else .error .algoInput

/-- `_set_param_study` (runs in `__init__` *before* any validation): reads the keys of the design
    (`dict_param[...]`), and for a table `dict_param["df_visits"].groupby("ID")`. -/
def setParamStudy (d : Design α) : Except Err Unit :=
  match d.visitType with
  | .random =>
    if d.patientNumber.isAbsent || d.firstVisitMean.isAbsent || d.firstVisitStd.isAbsent
        || d.followUpMean.isAbsent || d.followUpStd.isAbsent || d.distMean.isAbsent || d.distStd.isAbsent
    then .error .keyError else .ok ()
  | .dataframe =>
    match d.table with
    | .absent => .error .keyError
    | .notFrame => .error .attributeError
    | .frame idAt _ _ _ => if idAt = .missing then .error .keyError else .ok ()
  | _ => .ok ()

/-- one `("…_mean", (int, float))` requirement: type only -/
def meanOk (v : Val α) : Bool := v.isNum
/-- one `("…_std", (int, float))` requirement: type, `elif value < 0` -/
def stdOk (v : Val α) : Bool := v.isNum && !v.lt0
/-- `("patient_number", int)`: type, `elif value <= 0` -/
def patientNumberOk (v : Val α) : Bool := v.isInt && !v.le0
/-- optional `min_spacing_between_visits`: when present type `(int, float)`, `elif value < 0` -/
def spacingOk (v : Val α) : Bool := v.isAbsent || (v.isNum && !v.lt0)

/-- `_check_params(requirements)` for the random design: `true` iff no error is collected. -/
def checkParamsRandom (d : Design α) : Bool :=
  patientNumberOk d.patientNumber && meanOk d.firstVisitMean && stdOk d.firstVisitStd
    && meanOk d.followUpMean && stdOk d.followUpStd && meanOk d.distMean && stdOk d.distStd
    && spacingOk d.minSpacing

/-- `_validate_algo_parameters` for the random design, after `_check_features`:
    `_check_params(requirements)`, then (repaired, F14) `distance_visit_mean <= 0` alone refuses. -/
def validateRandom (d : Design α) : Except Err Unit :=
  if checkParamsRandom d && !d.distMean.le0 then .ok () else .error .algoInput

/-- `_validate_algo_parameters` for the table design, after `_check_features`:
    `("df_visits", pd.DataFrame)`, columns `ID` and `TIME`, no null `TIME`. -/
def validateTable : Table α → Except Err Unit
  | .frame idAt timeAt timeNull _ =>
    if idAt = .column ∧ timeAt = .column ∧ timeNull = false then .ok () else .error .algoInput
  | _ => .error .algoInput

/-- `SimulationAlgorithm.__init__`: `settings.parameters["visit_parameters"]["visit_type"]`, `_set_param_study`,
    then `_validate_algo_parameters` (`_check_features` first, "No configuration for this type of visit" for an
    unknown type).  Everything here happens before `run`, hence before the seed is set and before any draw. -/
def validate (d : Design α) : Except Err Unit :=
  match d.visitType with
  | .noDict => .error .typeError
  | .absent => .error .keyError
  | .unknown =>
    match checkFeatures d.features with
    | .error e => .error e
    | .ok () => .error .algoInput
  | .random =>
    match setParamStudy d with
    | .error e => .error e
    | .ok () =>
      match checkFeatures d.features with
      | .error e => .error e
      | .ok () => validateRandom d
  | .dataframe =>
    match setParamStudy d with
    | .error e => .error e
    | .ok () =>
      match checkFeatures d.features with
      | .error e => .error e
      | .ok () => validateTable d.table

end Validation

/-! ## Visit ages -/

section Ages
variable {α : Type} [LT α] [DecidableLT α] [Add α] [Neg α] [OfNat α 0]

/-- `np.abs` -/
def absV (x : α) : α := if x < 0 then -x else x

/-- The `while time < AGE_FOLLOW_UP: time += draw; age_visits.append(time)` loop of
    `_generate_visit_ages` for one individual.  `steps` is the stream of scalar
    `np.random.normal(distance_visit_mean, distance_visit_std)` draws still available (the fuel);
    returns the ages and the unused draws, `none` when the draws run out before the loop ends. -/
def genAges (followUp : α) : α → List α → Option (List α × List α)
  | t, steps =>
    if t < followUp then
      match steps with
      | [] => none
      | s :: ss => (fun r => (t :: r.1, r.2)) <$> genAges followUp (t + s) ss
    else some ([t], steps)

/-- All individuals in order (`for id_ in df_ind.index.values`), sharing one stream of draws.
    `base i = tau_i + first_visit_draw_i`, `followUp i = base i + |follow_up_draw_i|`. -/
def genAll (tau fv fu : Nat → α) : List Nat → List α → Option (List (List α) × List α)
  | [], steps => some ([], steps)
  | i :: is, steps =>
    let base := tau i + fv i
    match genAges (base + absV (fu i)) base steps with
    | none => none
    | some (ages, rest) =>
      match genAll tau fv fu is rest with
      | none => none
      | some (r, rest') => some (ages :: r, rest')

end Ages

/-! ## Rounding, de-duplication, sorted insertion -/

/-- `~index.duplicated()` (keep = first) restricted to one individual. -/
def dedupAux {β : Type} [DecidableEq β] (seen : List β) : List β → List β
  | [] => []
  | a :: as => if a ∈ seen then dedupAux seen as else a :: dedupAux (a :: seen) as

def dedup {β : Type} [DecidableEq β] (l : List β) : List β := dedupAux [] l

/-- `bisect(self.timepoints, t)` + concatenation: insert after every element `≤ t`. -/
def bisectInsert : List Int → Int → List Int
  | [], t => [t]
  | a :: as, t => if t < a then t :: a :: as else a :: bisectInsert as t

/-- one round of `IndividualData.add_observations` -/
def insertAge (tps : List Int) (t : Int) : Except Err (List Int) :=
  if t ∈ tps then .error .dataInput else .ok (bisectInsert tps t)

/-- `Data.from_dataframe` for one individual: the rows in data-frame order. -/
def addObservations (ts : List Int) : Except Err (List Int) := ts.foldlM insertAge []

/-- From the generated ages of one individual to the ages of `Result.data`, in units of `10^-p`:
    `df_sim["TIME"].round(p)`, `df_sim[~df_sim.index.duplicated()]`, `Data.from_dataframe`. -/
def finalize {α : Type} (key : α → Int) (ages : List α) : Except Err (List Int) :=
  addObservations (dedup (ages.map key))

/-! ## Numbers: what the pipeline needs from the number type -/

structure NumEnv (α : Type) where
  ofInt : Int → α
  /-- `numpy.round(x, p)` in units of `10^-p`: `rint(x * 10**p)` -/
  roundKey : Nat → α → Int
  /-- `k / 10**p` -/
  ofKey : Nat → Int → α
  /-- `sorted(rounding_options.items())` -/
  options : List (Nat × α)
  /-- finest precision `max(rounding_options)` (F13 repair) -/
  finest : Nat
  /-- `1 / 365` -/
  defaultSpacing : α
  /-- neither nan nor ±inf (always true for exact numbers) -/
  isFinite : α → Bool

/-- round-half-even of `n / d` (`d > 0`): what `rint` does on an exactly known quotient. -/
def rintFrac (n : Int) (d : Nat) : Int :=
  let q := n / (d : Int)
  let r := n % (d : Int)
  if 2 * r < d then q
  else if (d : Int) < 2 * r then q + 1
  else if q % 2 = 0 then q else q + 1

def pow10 (p : Nat) : Nat := 10 ^ p

def ratEnv : NumEnv Rat where
  ofInt := fun n => (n : Rat)
  roundKey := fun p x => rintFrac (x * (pow10 p : Nat)).num (x * (pow10 p : Nat)).den
  ofKey := fun p k => (k : Rat) / (pow10 p : Nat)
  options := [(0, 1), (1, 1 / 10), (2, 1 / 100), (3, 1 / 1000)]
  finest := 3
  defaultSpacing := 1 / 365
  isFinite := fun _ => true

/-- `rint` on doubles, written with `floor` (exact for |y| < 2^52: `y - floor y` is computed exactly). -/
def rintF (y : Float) : Float :=
  let f := Float.floor y
  let d := y - f
  if d < 0.5 then f
  else if 0.5 < d then f + 1
  else if Float.floor (f / 2) * 2 == f then f else f + 1

def pow10F (p : Nat) : Float := Float.ofNat (pow10 p)

def floatEnv : NumEnv Float where
  ofInt := Float.ofInt
  -- numpy: decimals = 0 → rint(x); else rint(x * 10**p)
  roundKey := fun p x => (rintF (if p = 0 then x else x * pow10F p)).toInt64.toInt
  ofKey := fun p k => if p = 0 then Float.ofInt k else Float.ofInt k / pow10F p
  options := [(0, 1), (1, 0.1), (2, 0.01), (3, 0.001)]
  finest := 3
  defaultSpacing := 1 / 365
  isFinite := Float.isFinite

section Run
variable {α : Type} [LT α] [LE α] [DecidableLT α] [DecidableLE α] [Add α] [Neg α] [OfNat α 0]

/-- `_generate_dataset`: first precision whose unit is `≤ min_spacing_between_visits`
    (`for precision, val in sorted(rounding_options.items()): if val <= min_spacing: …; break`),
    the finest one when there is none (repair F13; `None` → `TypeError` before). -/
def precisionOf (E : NumEnv α) (minSpacing : α) : Nat :=
  match E.options.find? (fun o => decide (o.2 ≤ minSpacing)) with
  | some o => o.1
  | none => E.finest

/-- Rounding precision of a run: `self.param_study.get("min_spacing_between_visits", 1 / 365)` fed to the
    loop above; a table design never carries the key.  `nan` compares false with every option (finest
    precision), `inf` is above the first one. -/
def precisionOfDesign (E : NumEnv α) (d : Design α) : Option Nat :=
  match d.visitType, d.minSpacing with
  | .random, .int n => some (precisionOf E (E.ofInt n))
  | .random, .float x => some (precisionOf E x)
  | .random, .nan => some E.finest
  | .random, .posInf => some (match E.options with | o :: _ => o.1 | [] => E.finest)
  | .random, .absent => some (precisionOf E E.defaultSpacing)
  | .random, _ => none                      -- refused by validation
  | _, _ => some (precisionOf E E.defaultSpacing)

/-- every numeric entry that feeds a random draw is a finite number -/
def Val.finite : Val α → Bool
  | .nan | .posInf | .negInf => false
  | _ => true

def Design.drawsFinite (d : Design α) : Bool :=
  match d.visitType with
  | .random =>
    d.firstVisitMean.finite && d.firstVisitStd.finite && d.followUpMean.finite
      && d.followUpStd.finite && d.distMean.finite && d.distStd.finite
  | _ => true

/-- What the simulation needs to know of the fitted `LogisticModel`. -/
structure ModelInfo where
  dimension : Nat
  sourceDim : Nat

/-- names of a validated feature list -/
def Features.names : Features → List String
  | .notList => []
  | .list fs => fs.filterMap (fun f => match f with | .str s _ => some s | .notStr => none)

/-- `Nodup` as a boolean -/
def allDistinct {β : Type} [DecidableEq β] : List β → Bool
  | [] => true
  | a :: as => !(a ∈ as) && allDistinct as

/-- The random draws consumed by `_run` that matter for the design (recorded by the harness):
    `tau i` (second `np.random.normal` call), `fv i`, `fu i` (first-visit and follow-up arrays),
    `steps` the scalar draws of the `while` loops in order. -/
structure Draws (α : Type) where
  tau : Nat → α
  fv : Nat → α
  fu : Nat → α
  steps : List α

/-- ids and visit ages of a table: `df_visits.groupby("ID")["TIME"].apply(list)`, keys `str(ID)` (repair F15) -/
def tableIds (rows : List (TId × α)) : List TId := dedup (rows.map (·.1))
def tableAges (rows : List (TId × α)) (i : TId) : List α := (rows.filter (fun r => r.1 = i)).map (·.2)

/-- one simulated individual: identifier, final ages in units of `10^-precision` -/
structure Indiv where
  id : String
  keys : List Int
  deriving Repr, DecidableEq

def finalizeAll (key : α → Int) : List (String × List α) → Except Err (List Indiv)
  | [] => .ok []
  | (i, ages) :: rest => do
    let ks ← finalize key ages
    let r ← finalizeAll key rest
    pure (⟨i, ks⟩ :: r)

/-- `_run` for a validated random design with `n` individuals at precision `p`.
    A non-finite age (nan parameters give nan draws, F16h) ends in scipy's "Domain error in arguments". -/
def runRandom (E : NumEnv α) (p : Nat) (n : Nat) (r : Draws α) : Option (Except Err (List Indiv × Nat)) :=
  match genAll r.tau r.fv r.fu (List.range n) r.steps with
  | none => none
  | some (ages, rest) =>
    if !(ages.all (fun l => l.all E.isFinite)) then some (.error .valueError) else
    let named := ((List.range n).zip ages).map (fun x => (toString x.1, x.2))
    some ((fun out => (out, rest.length)) <$> finalizeAll (E.roundKey p) named)

/-- `_run` for a validated table design (precision `p` is always that of the default spacing). -/
def runTable (E : NumEnv α) (p : Nat) (rows : List (TId × α)) : Except Err (List Indiv) :=
  -- F16g: `pd.concat([])` : "No objects to concatenate"
  if rows.isEmpty then .error .valueError else
  if !(rows.all (fun r => E.isFinite r.2)) then .error .valueError else
  finalizeAll (E.roundKey p) ((tableIds rows).map (fun i => (i.toStr, tableAges rows i)))

/-- F16f: `columns=[f"w_{i}" …len(features)]` / `columns=[feat + "_no_noise" …]` against `dimension` values,
    `df_long.loc[:, feat]` with a repeated name. -/
def featuresFit (d : Design α) (m : ModelInfo) : Bool :=
  d.features.names.length = m.dimension && allDistinct d.features.names

/-- `model.simulate(...)`: constructor (validation), then `_run`.
    Returns the rounding precision, the individuals with their final ages, and the number of unused step draws.
    Failure modes kept as findings: F16f (feature list does not match the model), F16g (empty table),
    F16h (nan). `none` = the supplied step draws ran out (no verdict). -/
def run (E : NumEnv α) (d : Design α) (m : ModelInfo) (r : Draws α) :
    Option (Except Err (Nat × List Indiv × Nat)) :=
  match validate d with
  | .error e => some (.error e)
  | .ok () =>
    if !featuresFit d m then some (.error .valueError) else
    match precisionOfDesign E d with
    | none => some (.error .valueError)   -- unreachable: validated
    | some p =>
      match d.visitType with
      | .random =>
        match d.patientNumber with
        | .int n =>
          match runRandom E p n.toNat r with
          | none => none
          | some res => some ((fun o => (p, o.1, o.2)) <$> res)
        | _ => some (.error .valueError)      -- unreachable after validation
      | .dataframe =>
        match d.table with
        | .frame _ _ _ rows => some ((fun out => (p, out, r.steps.length)) <$> runTable E p rows)
        | _ => some (.error .valueError)      -- unreachable after validation
      | _ => some (.error .valueError)        -- unreachable after validation

end Run

end LeaspyVerif.Simulate
