/-
Model of sampling-based personalisation (property C17).

  src/leaspy/algo/personalize/mcmc.py            `_get_individual_parameters`: which iterations are kept
                                                 (`if not self._is_burn_in()`), `from_pytorch(dataset.indices, …)`
  src/leaspy/algo/algo_with_samplers.py          `_is_burn_in`: `current_iteration <= n_burn_in_iter`
  src/leaspy/algo/personalize/mean_posterior.py  `value_var.mean(dim=0)`
  src/leaspy/algo/personalize/mode_posterior.py  `torch.argmin(attachments + 1.0 * regularities, dim=0)` (first minimum on CPU),
                                                 `value_var[indices_iter_best, indices_individuals]`

Core Lean only (imports the container model because the code calls `IndividualParameters.from_pytorch`).
Definitions are polymorphic in the number type: the driver runs the argmin on `Float32` (the very additions and
comparisons torch performs) and the mean on `Rat`; the theorems are over an ordered field.
The optimiser (`scipy_minimize.py`, scipy's Powell) is *not* modelled; the prior-standardized coordinates it works in are
(`Model/Scalings.lean`).
-/
import LeaspyVerif.Model.IndParams

namespace LeaspyVerif.Personalize
open LeaspyVerif.IndParams

/-- `_is_burn_in`: `current_iteration <= n_burn_in_iter` -/
def isBurnIn (k nBurn : Nat) : Bool := decide (k ≤ nBurn)

/-- what the history lists contain after the loop, for iterations `k, k+1, …` producing `xs` -/
def keptFrom {β} (nBurn : Nat) : Nat → List β → List β
  | _, [] => []
  | k, x :: xs => if isBurnIn k nBurn then keptFrom nBurn (k + 1) xs else x :: keptFrom nBurn (k + 1) xs

/-- iterations are numbered from 1 -/
def kept {β} (nBurn : Nat) (xs : List β) : List β := keptFrom nBurn 1 xs

def sum {α} [Add α] [OfNat α 0] (l : List α) : α := l.foldl (· + ·) 0

/-- `mean_posterior` for one coordinate of one individual: `xs` = its value at iterations `1 … n`.
    `none`: nothing was kept (`torch.stack` of an empty list raises). `cnt` converts the count. -/
def meanKept {α} [Add α] [Div α] [OfNat α 0] (cnt : Nat → α) (nBurn : Nat) (xs : List α) : Option α :=
  let k := kept nBurn xs
  if k.isEmpty then none else some (sum k / cnt k.length)

/-- scan for the first minimum: `best` at index `bi` so far, next index `i` -/
def argminFrom {α} [LT α] [DecidableLT α] (best : α) (bi i : Nat) : List α → Nat
  | [] => bi
  | x :: xs => if x < best then argminFrom x i (i + 1) xs else argminFrom best bi (i + 1) xs

/-- `torch.argmin` of a 1-D tensor without NaN: index of the first minimal entry -/
def argmin {α} [LT α] [DecidableLT α] : List α → Option Nat
  | [] => none
  | x :: xs => some (argminFrom x 0 1 xs)

/-- `attachments + regularity_factor * regularities` with `regularity_factor = 1.0` (exact), kept iterations only -/
def keptLoss {α} [Add α] (nBurn : Nat) (att reg : List α) : List α :=
  List.zipWith (· + ·) (kept nBurn att) (kept nBurn reg)

/-- index (among the kept draws) selected by `mode_posterior` for one individual -/
def modeIndex {α} [Add α] [LT α] [DecidableLT α] (nBurn : Nat) (att reg : List α) : Option Nat :=
  argmin (keptLoss nBurn att reg)

/-- the draw returned for one individual: `draws` = its realisations at iterations `1 … n` -/
def modeOf {α β} [Add α] [LT α] [DecidableLT α] (nBurn : Nat) (att reg : List α) (draws : List β) : Option β :=
  match modeIndex nBurn att reg with
  | none => none
  | some i => (kept nBurn draws)[i]?

/-- `IndividualParameters.from_pytorch(dataset.indices, individual_parameters_torch)`:
    `est` = per variable the `(n_individuals, dim)` tensor of estimates -/
def align {q} (ids : List String) (est : List (Name × List (List q))) : Except Err (Container q) :=
  fromTorch (ids.map RawId.str) (est.map (fun kt => (kt.1, Tensor.d2 kt.2)))

end LeaspyVerif.Personalize
