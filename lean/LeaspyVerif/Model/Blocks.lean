/-
Model of how the samplers choose their blocks (property C03).

  src/leaspy/samplers/base.py    `AbstractSampler.__init__` (acceptation history of shape
                                 `shape_acceptation`), `AbstractPopulationSampler.__init__`
                                 (ndim ∈ {1, 2}; a mask is refused: `NotImplementedError`)
  src/leaspy/samplers/gibbs.py   `shape_adapted_std` of the three population samplers and of the
                                 individual sampler, `_get_iterator_indices`
                                 (`list(ndindex(self.shape_adapted_std))`; full Gibbs with a mask:
                                 `mask.nonzero()`), `_get_shuffled_iterator_indices`,
                                 `_should_mask_changes`, `_proposed_change_idx`
                                 (`self.std[idx] * torch.randn(self.shape[len(idx):])`, times
                                 `self.mask[idx].float()` when the changes are masked),
                                 `IndividualGibbsSampler._proposed_change`
                                 (`self.std[:, None, …] * torch.randn((n_patients, *self.shape))`)

Import-free.  A variable of shape `s` is addressed by flat row-major coordinates `0 … numel s - 1`
(the layout of a contiguous tensor; `State.put(name, change, indices=idx, accumulate=True)` adds
`change[rest]` to `value[idx + rest]`).  Nothing is specialised to 1-D / 2-D shapes: the
definitions follow the code for any number of axes, the restriction of the population samplers to
one or two axes is the constructor's (`construct`).

Not modelled: `scale` validation and the initial value of `std` (only its shape and the entry read
by every block), the contents of the draws (see `Model/Sampler.lean`), `random.shuffle` itself (the
visiting order is an input, `reorder`).
-/
namespace LeaspyVerif.Blocks

/-- `sampler_pop`: "Gibbs", "FastGibbs", "Metropolis-Hastings". -/
inductive Kind where
  | gibbs | fastGibbs | mh
  deriving DecidableEq, Repr

abbrev Shape := List Nat

/-- number of entries of a tensor of shape `s` (`()` has one entry) -/
def numel : Shape → Nat
  | [] => 1
  | d :: ds => d * numel ds

/-- `numpy.ndindex(*s)`: all multi-indices, last axis fastest. -/
def ndindex : Shape → List (List Nat)
  | [] => [[]]
  | d :: ds => (List.range d).flatMap fun i => (ndindex ds).map (i :: ·)

/-- row-major flat position of a full multi-index of a tensor of shape `s` -/
def flat : Shape → List Nat → Nat
  | _ :: ds, i :: is => i * numel ds + flat ds is
  | _, _ => 0

/-- number of leading axes the iterator runs over = `len(self.shape_adapted_std)`:
    `self.shape` (Gibbs), `(self.shape[0],)` (FastGibbs), `()` (Metropolis-Hastings). -/
def lead : Kind → Shape → Nat
  | .gibbs, s => s.length
  | .fastGibbs, _ => 1
  | .mh, _ => 0

/-- `shape_adapted_std` = shape of `std`, of `accepted_array` and of one row of the acceptation
    history.  (`(self.shape[0],)` raises `IndexError` on a 0-d shape: that is `construct`'s
    business, `take 1` is only its value on the shapes for which the property exists.) -/
def stdShape (k : Kind) (s : Shape) : Shape := s.take (lead k s)

/-- What the constructor of a population sampler raises. -/
inductive CtorErr where
  /-- `IndexError` from `self.shape[0]` (FastGibbs on a 0-d shape), raised by
      `AbstractSampler.__init__` when it sizes the acceptation history -/
  | index
  /-- `LeaspyModelInputError("Dimension of population variable should be 1 or 2")` -/
  | model
  /-- `NotImplementedError("WIP: Masked samplers are not supported yet …")` -/
  | notImplemented
  deriving DecidableEq, Repr

/-- The checks of the constructors in the order in which they are executed:
    `AbstractSampler.__init__` evaluates `shape_acceptation` first, then
    `AbstractPopulationSampler.__init__` tests `ndim`, then refuses any mask. -/
def construct (k : Kind) (s : Shape) (mask : Option (List Bool)) : Except CtorErr Unit :=
  if k = .fastGibbs ∧ s = [] then .error .index
  else if s.length ≠ 1 ∧ s.length ≠ 2 then .error .model
  else if mask.isSome then .error .notImplemented
  else .ok ()

/-- One element of the sampling loop. -/
structure Blk where
  /-- the tuple `idx` produced by the iterator -/
  idx : List Nat
  /-- shape of the normal draw `torch.randn(self.shape[len(idx):])` -/
  zshape : Shape
  /-- flat coordinates of the variable receiving the entries of the (flattened) draw, in order -/
  coords : List Nat
  /-- flat position in `std` of the scalar `self.std[idx]` that multiplies the whole draw -/
  stdIdx : Nat
  /-- `none`: the change is `std[idx] * z`; `some ks`: it is further multiplied entry-wise by
      `mask[idx].float()`, `ks` being the mask entries of `coords` -/
  keep : Option (List Bool)
  deriving DecidableEq, Repr

/-- value of a flat boolean mask at coordinate `i` (the mask has the shape of the variable) -/
def maskAt (m : List Bool) (i : Nat) : Bool := m[i]? == some true

/-- `_should_mask_changes`: `self.mask is not None`, overridden to `False` by the full Gibbs
    sampler (which skips the masked coordinates in its iterator instead). -/
def shouldMask (k : Kind) (mask : Option (List Bool)) : Bool :=
  match k with
  | .gibbs => false
  | _ => mask.isSome

/-- `_get_iterator_indices`. -/
def iterIndices (k : Kind) (s : Shape) (mask : Option (List Bool)) : List (List Nat) :=
  match k, mask with
  | .gibbs, some m => (ndindex s).filter fun idx => maskAt m (flat s idx)
  | _, _ => ndindex (stdShape k s)

/-- The block of one iterator element (`_proposed_change_idx(idx)` put at `indices=idx`). -/
def blkOf (k : Kind) (s : Shape) (mask : Option (List Bool)) (idx : List Nat) : Blk :=
  let coords := (ndindex (s.drop idx.length)).map fun rest => flat s (idx ++ rest)
  { idx := idx
    zshape := s.drop idx.length
    coords := coords
    stdIdx := flat (stdShape k s) idx
    keep := if shouldMask k mask then mask.map fun m => coords.map (maskAt m) else none }

/-- The blocks of one sweep in iterator (unshuffled) order. -/
def blocksOf (k : Kind) (s : Shape) (mask : Option (List Bool) := none) : List Blk :=
  (iterIndices k s mask).map (blkOf k s mask)

/-- number of normal draws consumed by a block: the whole `randn(shape_idx)`, masked or not -/
def Blk.normals (b : Blk) : Nat := b.coords.length

/-- coordinates that can actually move: those of the block whose mask factor is not zero -/
def Blk.perturbed (b : Blk) : List Nat :=
  match b.keep with
  | none => b.coords
  | some ks => (b.coords.zip ks).filterMap fun ck => if ck.2 then some ck.1 else none

/-- `_get_shuffled_iterator_indices`: the iterator list in the order `σ` chosen by
    `random.shuffle` (`σ` = positions in the unshuffled list; the identity when
    `random_order_dimension=False`). -/
def reorder {α} (σ : List Nat) (l : List α) : List α := σ.filterMap (l[·]?)

/-- Number of normals and of uniforms drawn by one sweep (one uniform per iterator element). -/
def sweepDraws (bs : List Blk) : Nat × Nat := ((bs.map Blk.normals).sum, bs.length)

/-- Change proposed for a block on a variable with `n` flat entries: zero outside `coords`,
    `std * z_k` at `coords[k]`, multiplied by the 0/1 mask factor when the changes are masked
    (`change_idx * self.mask[idx].float()`; the product with `0` is the code's way of leaving a
    masked coordinate alone). -/
def blockChange {α} [OfNat α 0] [OfNat α 1] [Mul α] (n : Nat) (b : Blk) (std : α) (z : List α) : List α :=
  (List.range n).map fun i =>
    match b.keep with
    | none =>
      (match (b.coords.zip z).lookup i with
       | some zi => std * zi
       | none => 0)
    | some ks =>
      (match (b.coords.zip (z.zip ks)).lookup i with
       | some (zi, k) => std * zi * (if k then 1 else 0)
       | none => 0)

/-- Individual sampler: the variable has shape `(n_patients, *shape)`, `std` has shape
    `(n_patients,)` and is broadcast over the trailing axes; all the draws come from a single
    `randn((n_patients, *shape))`.  The rows are the blocks of a FastGibbs layout on that shape;
    the decisions are taken in one grouped step (one `rand((n_patients,))`). -/
def indBlocks (n : Nat) (s : Shape) : List Blk := blocksOf .fastGibbs (n :: s) none

end LeaspyVerif.Blocks
