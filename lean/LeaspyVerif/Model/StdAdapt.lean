/-
Model of the acceptance window and of the adaptive proposal scale of the Gibbs samplers
(property C19, proposal-scale part).

  src/leaspy/samplers/base.py    AbstractSampler.__init__ (`acceptation_history = zeros(L, …)`),
                                 `_update_acceptation_rate` (rolling window: drop oldest, append newest)
  src/leaspy/samplers/gibbs.py   GibbsSamplerMixin.__init__ (`_counter = 0`, `std`), `_update_std`

Every `sample()` call ends with `_update_acceptation_rate(accepted)` then `_update_std()`.
`std`, the window and the acceptance means are tensors with one entry per *block* (coordinate for
"Gibbs", row for "FastGibbs", the whole variable for "Metropolis-Hastings", individual for the
individual sampler); `_update_std` treats the entries independently (boolean-mask in-place products),
so the model is written for one block and the driver maps it over the blocks.

Import-free and polymorphic in the number type: run on `Float32` by `drivers/C19.lean` (torch keeps
`std` and the window in float32: mean = float32 sum / float32 count, python scalars are rounded to
float32 before comparison / product — see `Params.ofDoubles`), reasoned about over an ordered field
in `Props/C19.lean`.
-/
namespace LeaspyVerif.StdAdapt

scoped instance : NatCast Float32 := ⟨Float32.ofNat⟩

/-- Parameters of one sampler as `_update_std` sees them. -/
structure Params (α : Type) where
  /-- `acceptation_history_length` -/
  window : Nat
  /-- `_mean_acceptation_lower_bound_before_adaptation`, `…upper…` -/
  lo : α
  hi : α
  /-- the scalars `1 - _adaptive_std_factor` and `1 + _adaptive_std_factor` -/
  shrink : α
  grow : α

/-- The scalars as the documentation defines them: multipliers `1 - f`, `1 + f`. -/
def Params.ofFactor {α : Type} [Add α] [Sub α] [OfNat α 1] (window : Nat) (lo hi f : α) : Params α :=
  ⟨window, lo, hi, 1 - f, 1 + f⟩

/-- What torch does with the python doubles: `1 - f` and `1 + f` are computed in double, and every
    python scalar is rounded to float32 when it meets the float32 tensor. -/
def Params.ofDoubles (window : Nat) (lo hi f : Float) : Params Float32 :=
  ⟨window, lo.toFloat32, hi.toFloat32, (1 - f).toFloat32, (1 + f).toFloat32⟩

/-- One block: the shared call counter, its column of the acceptance window (oldest first), its scale. -/
structure Blk (α : Type) where
  counter : Nat
  win : List Bool
  std : α

variable {α : Type} [Mul α] [Div α] [LT α] [NatCast α] [DecidableLT α]

/-- `_update_acceptation_rate`: `cat([history[1:], accepted.unsqueeze(0)])`. -/
def pushWin (win : List Bool) (a : Bool) : List Bool := win.drop 1 ++ [a]

/-- `acceptation_history.mean(dim=0)`: (number of acceptances in the window) / (rows of the window). -/
def meanAcc (win : List Bool) : α := ((win.count true : Nat) : α) / ((win.length : Nat) : α)

/-- The two masked in-place products of `_update_std`, in the order of the code:
    `std[mean < lo] *= 1 - f` then `std[mean > hi] *= 1 + f` (both masks computed beforehand). -/
def adapt (p : Params α) (m s : α) : α :=
  let s1 := if m < p.lo then s * p.shrink else s
  if p.hi < m then s1 * p.grow else s1

/-- Sampler construction: counter 0, window of `L` zeros, initial scale. -/
def Blk.init (p : Params α) (std0 : α) : Blk α := ⟨0, List.replicate p.window false, std0⟩

/-- End of one `sample()` call with acceptance decision `a` for this block:
    window update, `_counter += 1`, adaptation iff `_counter % L == 0`. (`L = 0`: see `run`.) -/
def Blk.step (p : Params α) (b : Blk α) (a : Bool) : Blk α :=
  let win := pushWin b.win a
  let c := b.counter + 1
  if c % p.window = 0 then ⟨c, win, adapt p (meanAcc win) b.std⟩ else ⟨c, win, b.std⟩

/-- State after a whole acceptance history. -/
def Blk.after (p : Params α) (b : Blk α) (accs : List Bool) : Blk α := accs.foldl (Blk.step p) b

/-- Scale after each call (what `sampler.std` shows after each `sample()`). -/
def Blk.trace (p : Params α) (b : Blk α) : List Bool → List α
  | [] => []
  | a :: accs => let b' := Blk.step p b a; b'.std :: Blk.trace p b' accs

/-- A run from construction; a window length 0 makes python raise `ZeroDivisionError`
    (`_counter % 0`) at the first call. -/
def run (p : Params α) (std0 : α) (accs : List Bool) : Option (List α) :=
  if p.window = 0 ∧ accs ≠ [] then none else some (Blk.trace p (Blk.init p std0) accs)

end LeaspyVerif.StdAdapt
