/-
C16 — individual-parameter containers convert losslessly.
Property theorems only (helper lemmas live in `Lemmas/IndParams.lean`).  Model: `Model/IndParams.lean`.

Full-strength statement (NOT true of the code, kept visible):

    ∀ c, Consistent c → c.shapes ≠ none →
        toTable c >>= fromTable = .ok c'  with c' ≃ c            -- (T)
      ∧ toTorch rnd c >>= fromTorch   = .ok c'' with c'' ≃ mapVals rnd c   -- (P)
      ∧ (toJson c).map fromJson = .ok c                            -- (J)

(J) holds (`json_roundtrip`).  (T) and (P) fail on scalar parameters (F12: they come back as length-1
vectors — `table_roundtrip_scalar_counterexample`, `torch_roundtrip_scalar_counterexample`) and (T) fails on
names containing `_` (F11 — `table_roundtrip_underscore_counterexample`).  Proved instead, under the exact
decidable guards `AllVec` / `NoUnderscore`:  `table_roundtrip_partial`, `torch_roundtrip_vec`.
`≃` is equality of python dicts: the converted container lists each individual's parameters in the order of the
recorded shapes (`normalize`); `normalize_lookup` / `normalize_eq_of_aligned` say that this is the same dict,
and literally the same list when the individual's own key order is that of the shapes.
-/
import LeaspyVerif.Lemmas.IndParams

namespace LeaspyVerif.C16
open LeaspyVerif.IndParams

variable {q : Type}

/-! ### additions -/

/-- A value is refused exactly when it is not a supported scalar, is an empty list, or is a list with an
    element of an unsupported type. -/
theorem checkVal_none_iff (v : RawVal q) :
    checkVal v = none ↔ (v = .bad ∨ v = .list [] ∨ ∃ xs, v = .list xs ∧ RawElem.bad ∈ xs) := by
  cases v with
  | num x => simp [checkVal]
  | bad => simp [checkVal]
  | list xs =>
    cases xs with
    | nil => simp [checkVal]
    | cons x xs =>
      simp only [checkVal, List.isEmpty_cons, Bool.false_eq_true, if_false, Option.map_eq_none_iff, mapM_elemNum_none_iff]
      simp

/-- An addition is refused exactly for: a non-string identifier, an identifier already present, a non-dict,
    an unsupported value, or shapes that differ (as a dict) from the recorded ones. -/
theorem add_rejects_iff (c : Container q) (i : RawId) (p : RawParams q) :
    (∃ e, add c i p = .error e) ↔
      (i = .nonStr ∨ (∃ s, i = .str s ∧ s ∈ c.ids) ∨ p = .notDict ∨
       (∃ d, p = .dict d ∧ ∃ kv ∈ d, checkVal kv.2 = none) ∨
       (∃ d vals sh, p = .dict d ∧ checkDict d = some vals ∧ c.shapes = some sh ∧
          dictEq sh (vals.map (fun kv => (kv.1, shapeOf kv.2))) = false)) := by
  cases i with
  | nonStr => simp [add]
  | str s =>
    by_cases hs : s ∈ c.ids
    · simp [add, hs]
    · cases p with
      | notDict => simp [add, hs]
      | dict d =>
        cases hd : checkDict d with
        | none =>
          have := (checkDict_none_iff d).1 hd
          simp only [add, hd]
          simp [hs]; exact Or.inl (by simpa using this)
        | some vals =>
          have hn : ¬ ∃ kv ∈ d, checkVal kv.2 = none := by
            rw [← checkDict_none_iff, hd]; simp
          cases hsh : c.shapes with
          | none => simp [add, hs, hd, hsh]; simpa using hn
          | some sh =>
            by_cases he : dictEq sh (vals.map (fun kv => (kv.1, shapeOf kv.2))) = true
            · simp [add, hs, hd, hsh, he]; simpa using hn
            · simp [add, hs, hd, hsh, he]

/-- Every refusal is a `LeaspyIndividualParamsInputError`, and leaves no trace (the model is pure). -/
theorem add_error_is_input (c : Container q) (i : RawId) (p : RawParams q) (e : Err)
    (h : add c i p = .error e) : e = .input := by
  unfold add at h
  split at h
  · cases h; rfl
  · split at h
    · cases h; rfl
    · split at h
      · cases h; rfl
      · split at h
        · cases h; rfl
        · split at h
          · cases h
          · dsimp only at h
            split at h
            · cases h
            · cases h; rfl

/-- An accepted addition appends the identifier and its values and touches nothing else. -/
theorem add_ok_appends (c c' : Container q) (i : RawId) (p : RawParams q) (h : add c i p = .ok c') :
    ∃ s d vals, i = .str s ∧ p = .dict d ∧ checkDict d = some vals ∧ s ∉ c.ids ∧
      c'.ids = c.ids ++ [s] ∧ c'.params = c.params ++ [(s, vals)] ∧
      c'.shapes = some (match c.shapes with
                        | none => vals.map (fun kv => (kv.1, shapeOf kv.2))
                        | some sh => sh) := by
  unfold add at h
  split at h
  · cases h
  · rename_i s
    split at h
    · cases h
    · rename_i hs
      split at h
      · cases h
      · rename_i d
        split at h
        · cases h
        · rename_i vals hvals
          refine ⟨s, d, vals, rfl, rfl, hvals, by simpa using hs, ?_⟩
          split at h
          · rename_i hsh
            cases h; simp [hsh]
          · rename_i sh hsh
            dsimp only at h
            split at h
            · cases h; simp [hsh]
            · cases h

/-- `Consistent` (ids distinct, one dict per id, every dict carries exactly the recorded names with the
    recorded shapes, no empty vector) holds of the empty container and is preserved by every accepted addition
    of a python dict (distinct keys): every container built through the API is consistent. -/
theorem add_preserves_consistent (c c' : Container q) (i : RawId) (d : List (Name × RawVal q))
    (hc : Consistent c) (hd : NodupKeys d) (h : add c i (.dict d) = .ok c') : Consistent c' := by
  exact add_consistent c c' i d hc hd h

theorem empty_consistent : Consistent (empty : Container q) := by
  constructor <;> simp [empty]

/-! ### JSON -/

/-- JSON round trip, full strength: any non-empty container, any shapes (scalar, length-1, length-n), any names. -/
theorem json_roundtrip (c : Container q) (h : c.shapes ≠ none) :
    (toJson c).map fromJson = .ok c := by
  obtain ⟨ids, params, shapes⟩ := c
  cases shapes with
  | none => simp at h
  | some sh => rfl

/-- saving is refused exactly for the empty container -/
theorem json_refuses_iff_empty (c : Container q) :
    (∃ e, toJson c = .error e) ↔ c.shapes = none := by
  unfold toJson
  cases c.shapes <;> simp

theorem json_roundtrip_file (j : Json q) : toJson (fromJson j) = .ok j := by
  rfl

/-! ### table (F10 repaired) -/

/-- F10 repaired: every consistent non-empty container — scalar parameters included — has a table form. -/
theorem toTable_total (c : Container q) (hc : Consistent c) (h : c.shapes ≠ none) :
    ∃ t, toTable c = .ok t := by
  cases hs : c.shapes with
  | none => exact absurd hs h
  | some sh => exact ⟨_, toTable_consistent c sh hc hs⟩

/-- Table round trip under the guard `AllVec ∧ NoUnderscore`: identifiers (as strings, in order), names,
    shapes and values all come back; each dict is listed in the order of the recorded shapes. -/
theorem table_roundtrip_partial (c : Container q) (sh : List (Name × Shape))
    (hc : Consistent c) (hs : c.shapes = some sh) (hv : AllVec sh) (hu : NoUnderscore sh) :
    (toTable c >>= fromTable) = .ok (normalize sh c) := by
  exact table_roundtrip c sh hc hs hv hu

/-- CSV round trip (F12c repaired) under the same guard, for every identifier. -/
theorem csv_roundtrip_partial (c : Container q) (sh : List (Name × Shape))
    (hc : Consistent c) (hs : c.shapes = some sh) (hv : AllVec sh) (hu : NoUnderscore sh) :
    (saveCsv c >>= loadCsv) = .ok (normalize sh c) := by
  have : saveCsv c = toTable c := by simp [saveCsv, hs]
  rw [this]
  exact table_roundtrip c sh hc hs hv hu

/-- saving as CSV is refused (with an input error) exactly for the empty container -/
theorem csv_refuses_iff_empty (c : Container q) (hc : Consistent c) :
    saveCsv c = .error .input ↔ c.shapes = none := by
  constructor
  · intro h
    cases hs : c.shapes with
    | none => rfl
    | some sh =>
      obtain ⟨t, ht⟩ := toTable_total c hc (by simp [hs])
      simp [saveCsv, hs, ht] at h
  · intro h
    simp [saveCsv, h]

/-! ### tensors -/

/-- Tensor round trip for vector parameters: identifiers, names, shapes come back and every value comes back
    rounded by `rnd` (float32). -/
theorem torch_roundtrip_vec (rnd : q → q) (c : Container q) (sh : List (Name × Shape))
    (hc : Consistent c) (hs : c.shapes = some sh) (hv : AllVec sh) :
    (toTorch rnd c >>= fun it => fromTorch (it.1.map RawId.str) it.2) = .ok (mapVals rnd (normalize sh c)) := by
  exact torch_roundtrip rnd c sh hc hs hv

/-- … hence exactly, when the values are single-precision numbers already. -/
theorem torch_roundtrip_vec_exact (rnd : q → q) (c : Container q) (sh : List (Name × Shape))
    (hc : Consistent c) (hs : c.shapes = some sh) (hv : AllVec sh)
    (hr : ∀ ip ∈ c.params, ∀ kv ∈ ip.2, mapVal rnd kv.2 = kv.2) :
    (toTorch rnd c >>= fun it => fromTorch (it.1.map RawId.str) it.2) = .ok (normalize sh c) := by
  rw [torch_roundtrip rnd c sh hc hs hv, mapVals_normalize_eq rnd c sh hr]

/-! ### what `normalize` is -/

/-- `normalize` keeps identifiers and shapes, and every recorded name looks up to the same value:
    for a consistent container it is the same python object. -/
theorem normalize_lookup (c : Container q) (sh : List (Name × Shape)) (hn : NodupKeys sh) :
    (normalize sh c).ids = c.ids ∧ (normalize sh c).shapes = c.shapes ∧
    (normalize sh c).params.map (·.1) = c.params.map (·.1) ∧
    ∀ i d, (i, d) ∈ c.params → ∀ ns ∈ sh, (reorder sh d).lookup ns.1 = d.lookup ns.1 := by
  have _ := hn
  refine ⟨rfl, rfl, by simp [normalize, List.map_map, Function.comp_def], ?_⟩
  intro i d _ ns hns
  rw [lookup_reorder, if_pos (List.mem_map.2 ⟨ns, hns, rfl⟩)]

/-- … and literally the same value when each individual's dict lists its keys in the recorded order
    (always the case for containers made by `from_pytorch`, `from_dataframe`, the personalisation algorithms). -/
theorem normalize_eq_of_aligned (c : Container q) (sh : List (Name × Shape)) (hn : NodupKeys sh)
    (ha : ∀ ip ∈ c.params, ip.2.map (fun kv => (kv.1, shapeOf kv.2)) = sh) :
    normalize sh c = c := by
  obtain ⟨ids, params, shapes⟩ := c
  simp only [normalize, Container.mk.injEq, true_and, and_true]
  have : ∀ ip ∈ params, (fun ip : String × List (Name × Val q) => (ip.1, reorder sh ip.2)) ip = id ip := by
    intro ip hip
    simp [reorder_of_aligned sh ip.2 hn (ha ip hip)]
  rw [List.map_congr_left this]; simp

/-! ### refutations of the full-strength statement (witnesses; `Int` values) -/

private def mk (adds : List (RawId × RawParams Int)) : Except Err (Container Int) :=
  match addAll empty 0 adds with
  | .ok c => .ok c
  | .error e => .error e.1

/-- F12 through the table: a scalar parameter comes back as a length-1 vector. -/
theorem table_roundtrip_scalar_counterexample :
    (mk [(.str "a", .dict [("xi".toList, .num 1)])] >>= toTable >>= fromTable)
      = .ok { ids := ["a"], params := [("a", [("xi".toList, .vec [1])])], shapes := some [("xi".toList, [1])] }
    ∧ mk [(.str "a", .dict [("xi".toList, .num 1)])]
      = .ok { ids := ["a"], params := [("a", [("xi".toList, .scalar 1)])], shapes := some [("xi".toList, [])] } := by
  decide +kernel

/-- F12 through tensors. -/
theorem torch_roundtrip_scalar_counterexample :
    (mk [(.str "a", .dict [("xi".toList, .num 1)])] >>= toTorch id >>= fun it => fromTorch (it.1.map RawId.str) it.2)
      = .ok { ids := ["a"], params := [("a", [("xi".toList, .vec [1])])], shapes := some [("xi".toList, [1])] } := by
  decide +kernel

/-- F11: a name containing `_` is cut at the first `_` by `from_dataframe`. -/
theorem table_roundtrip_underscore_counterexample :
    (mk [(.str "a", .dict [("log_v0".toList, .list [.num 1])])] >>= toTable >>= fromTable)
      = .ok { ids := ["a"], params := [("a", [("log".toList, .vec [1])])], shapes := some [("log".toList, [1])] } := by
  decide +kernel

/-- F11, other faces: two parameters merged into one; a conversion that raises `AttributeError`. -/
theorem table_roundtrip_underscore_counterexample_merge :
    (mk [(.str "a", .dict [("a".toList, .list [.num 1, .num 2]), ("a_0".toList, .list [.num 3])])] >>= toTable >>= fromTable)
      = .ok { ids := ["a"], params := [("a", [("a".toList, .vec [1, 3, 2, 1, 3])])], shapes := some [("a".toList, [5])] }
    ∧ (mk [(.str "a", .dict [("a".toList, .list [.num 1]), ("a_b".toList, .list [.num 3, .num 4])])] >>= toTable >>= fromTable)
      = .error .attr := by
  decide +kernel

/-! ### non-vacuity -/

/-- the guards of the partial theorems are satisfiable by a container with a numeric-looking id,
    a length-1, a length-2 and a "source" parameter -/
example : ∃ c : Container Int, mk [(.str "001", .dict [("tau".toList, .list [.num 70]), ("sources".toList, .list [.num 1, .num (-2)])]),
                                   (.str "1e3", .dict [("sources".toList, .list [.num 3, .num 4]), ("tau".toList, .list [.num 71])])] = .ok c
    ∧ (toTable c >>= fromTable) = .ok (normalize [("tau".toList, [1]), ("sources".toList, [2])] c) := by
  refine ⟨_, rfl, ?_⟩
  decide +kernel

end LeaspyVerif.C16
