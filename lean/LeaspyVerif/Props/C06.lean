/-
C06 — missing and padded observations never influence any result.
Property theorems only (relations and helper lemmas: `Lemmas/Masked.lean`).  Model: `Model/Masked.lean`.

All statements are for arbitrary list lengths (= arbitrary tensor shapes, flattened), arbitrary masks and
arbitrary `XVal` contents (finite, `±inf`, `nan`) of the masked cells.
-/
import LeaspyVerif.Lemmas.Masked
import LeaspyVerif.Lemmas.Taint

namespace LeaspyVerif.C06
open LeaspyVerif.Masked

/-! ### 1. `wsum`: what sits under the mask is irrelevant -/

/-- Two weighted tensors with the same weights whose values agree on the unmasked cells have the same
    weighted sum and the same sum of weights — whatever (finite, huge, `nan`, `±inf`) the masked cells hold. -/
theorem wsum_mask_irrelevant (fill : XVal) (a a' : WT) (h : MaskEquiv a a') :
    wsum fill a = wsum fill a' := h.wsum fill

/-- Same for a reduction over some dimensions (`wsum_dim(…, dim/but_dim)`), every output cell and its count. -/
theorem wsumDim_mask_irrelevant (fill : XVal) (keys : List Nat) (n : Nat) (a a' : WT) (h : MaskEquiv a a') :
    wsumDim fill keys n a = wsumDim fill keys n a' := h.wsumDim fill keys n

/-- `wsum` is a function of the unmasked cells only. -/
theorem wsum_only_unmasked (fill : XVal) (a : WT) :
    wsum fill a = wsum fill (a.filter (·.2)) := by
  have hv : xsum (weightedValue a) = xsum (weightedValue (a.filter (·.2))) := by
    induction a with
    | nil => rfl
    | cons c l ih =>
      obtain ⟨x, b⟩ := c
      cases b with
      | true => simp [weightedValue, xsum] at ih ⊢; rw [ih]
      | false =>
        simp only [weightedValue, List.map_cons, xsum, Cell.weighted_false, XVal.zero_add'] at ih ⊢
        simpa using ih
  have hw : sumWeights a = sumWeights (a.filter (·.2)) := by simp [sumWeights]
  simp [wsum, ← hw, hv]

/-- Padding: appending any number of weight-0 cells (with any content) changes neither the weighted sum
    nor the sum of weights. -/
theorem wsum_padding_irrelevant (fill : XVal) (a pad : WT) (hpad : ∀ c ∈ pad, c.2 = false) :
    wsum fill (a ++ pad) = wsum fill a := by
  rw [wsum_only_unmasked fill (a ++ pad), wsum_only_unmasked fill a]
  have : pad.filter (·.2) = [] := by
    rw [List.filter_eq_nil_iff]; intro c hc; simp [hpad c hc]
  simp [List.filter_append, this]

/-- Padding under a reduction over dimensions: the padded cells may be attributed to any output cell. -/
theorem wsumDim_padding_irrelevant (fill : XVal) (keys padKeys : List Nat) (n : Nat) (a pad : WT)
    (hk : keys.length = a.length) (hpad : ∀ c ∈ pad, c.2 = false) :
    wsumDim fill (keys ++ padKeys) n (a ++ pad) = wsumDim fill keys n a := by
  unfold wsumDim
  apply List.map_congr_left
  intro k _
  have hz : (a ++ pad).zip (keys ++ padKeys) = a.zip keys ++ pad.zip padKeys :=
    List.zip_append hk.symm
  have : group (keys ++ padKeys) k (a ++ pad) = group keys k a ++ group padKeys k pad := by
    simp [group, hz, List.filter_append]
  rw [this]
  apply wsum_padding_irrelevant
  intro c hc
  simp only [group, List.mem_map, List.mem_filter] at hc
  obtain ⟨p, ⟨hp, _⟩, rfl⟩ := hc
  exact hpad _ (List.of_mem_zip hp).1

/-- The order in which `torch.sum` accumulates is irrelevant for exact values, specials included. -/
theorem xsum_perm (l l' : List XVal) (h : l.Perm l') : xsum l = xsum l' := by
  have comm : ∀ a b : XVal, XVal.add a b = XVal.add b a := by
    intro a b; cases a <;> cases b <;> simp [XVal.add, Rat.add_comm]
  have assoc : ∀ a b c : XVal, XVal.add (XVal.add a b) c = XVal.add a (XVal.add b c) := by
    intro a b c; cases a <;> cases b <;> cases c <;> simp [XVal.add, Rat.add_assoc]
  induction h with
  | nil => rfl
  | cons x _ ih => simp [xsum, ih]
  | swap x y l => simp only [xsum]; rw [← assoc, ← assoc, comm x y]
  | trans _ _ ih1 ih2 => exact ih1.trans ih2

/-! ### 2. a non-finite number at a masked position never propagates into a sum -/

/-- If every *unmasked* cell is finite (and the fill value is), the weighted sum is finite — whatever the
    masked cells hold. -/
theorem nonfinite_never_propagates (fill : XVal) (a : WT)
    (hfill : fill.isFinite = true) (hobs : ∀ c ∈ a, c.2 = true → c.1.isFinite = true) :
    (wsum fill a).1.isFinite = true := by
  have hx : (xsum (weightedValue a)).isFinite = true := by
    induction a with
    | nil => rfl
    | cons c l ih =>
      have ihl := ih (fun d hd => hobs d (List.mem_cons_of_mem _ hd))
      obtain ⟨x, b⟩ := c
      cases b with
      | false =>
        simp only [weightedValue, List.map_cons, xsum, Cell.weighted_false, XVal.zero_add'] at ihl ⊢
        exact ihl
      | true =>
        have hxf := hobs (x, true) (List.mem_cons_self) rfl
        simp only [weightedValue, List.map_cons, xsum, Cell.weighted_true] at ihl ⊢
        cases x <;> simp [XVal.isFinite] at hxf
        revert ihl
        cases xsum (List.map Cell.weighted l) <;> simp [XVal.isFinite, XVal.add]
  unfold wsum
  simp only
  split
  · exact hfill
  · exact hx

/-- The `weighted_value` of a tensor is `0` on every masked cell, whatever is stored there
    (this is what `model_with_sources` returns at padded visits). -/
theorem weightedValue_masked_zero (a : WT) (i : Nat) (x : XVal) (h : a[i]? = some (x, false)) :
    (weightedValue a)[i]? = some XVal.zero := by
  simp [weightedValue, h, Cell.weighted_false]

/-! ### 3. weight propagation of `_apply_operation` -/

/-- The weight table of `_apply_operation`: no weights if neither operand has; the weights of the weighted
    operand if exactly one has; the common weights if both have the same; an error if they differ. -/
theorem binop_weight_table (f : XVal → XVal → XVal) (a b : MT) (hl : a.length = b.length) :
    match a.weights, b.weights with
    | none, none => ∃ r, binop f a b = .ok r ∧ r.weights = none
    | some w, none => ∃ r, binop f a b = .ok r ∧ r.weights = some w
    | none, some w => ∃ r, binop f a b = .ok r ∧ r.weights = some w
    | some w, some w' =>
        (w = w' → ∃ r, binop f a b = .ok r ∧ r.weights = some w) ∧
        (w ≠ w' → binop f a b = .error .weightsDiffer) := by
  cases a with
  | plain x =>
    cases b with
    | plain y => simp_all [MT.weights, binop, MT.length]
    | wt y =>
      simp only [MT.length] at hl
      simp only [MT.weights, binop, MT.length, hl, ne_eq, not_true_eq_false, if_false]
      exact ⟨_, rfl, congrArg some (zipWith_pw_weights (fun v c => f v c.1) y x hl)⟩
  | wt x =>
    cases b with
    | plain y =>
      simp only [MT.length] at hl
      simp only [MT.weights, binop, MT.length, hl, ne_eq, not_true_eq_false, if_false]
      exact ⟨_, rfl, congrArg some (zipWith_wp_weights (fun c v => f c.1 v) x y hl)⟩
    | wt y =>
      simp only [MT.length] at hl
      simp only [MT.weights, binop, MT.length, hl, ne_eq, not_true_eq_false, if_false]
      constructor
      · intro hw
        rw [if_pos hw]
        exact ⟨_, rfl, congrArg some (zipWith_wp_weights (fun c d => f c.1 d.1) x y hl)⟩
      · intro hw; rw [if_neg hw]

/-! ### 4. non-interference for the expression language -/

private theorem binop_fillRel (f : XVal → XVal → XVal) {x x' y y' : MT}
    (hx : FillRel x x') (hy : FillRel y y') : ResRel FillRel (binop f x y) (binop f x' y') := by
  have hlx := hx.length_eq
  have hly := hy.length_eq
  unfold binop
  rw [← hlx, ← hly]
  split
  · simp [ResRel]
  · cases x with
    | plain v =>
      cases x' with
      | wt _ => simp [FillRel] at hx
      | plain v' =>
        simp only [FillRel] at hx; subst hx
        cases y with
        | plain u =>
          cases y' with
          | wt _ => simp [FillRel] at hy
          | plain u' => simp only [FillRel] at hy; subst hy; simp [ResRel, FillRel]
        | wt c =>
          cases y' with
          | plain _ => simp [FillRel] at hy
          | wt c' => exact zipWith_pw_maskEquiv f hy v
    | wt c =>
      cases x' with
      | plain _ => simp [FillRel] at hx
      | wt c' =>
        simp only [FillRel] at hx
        cases y with
        | plain u =>
          cases y' with
          | wt _ => simp [FillRel] at hy
          | plain u' =>
            simp only [FillRel] at hy; subst hy
            exact zipWith_wp_maskEquiv f hx u
        | wt d =>
          cases y' with
          | plain _ => simp [FillRel] at hy
          | wt d' =>
            simp only [FillRel] at hy
            simp only [← hx.weights, ← hy.weights]
            split
            · rename_i hw
              exact zipWith_ww_maskEquiv f hx hy hw
            · simp [ResRel]

private theorem mapOp_fillRel (f : XVal → XVal) (fill : Option XVal) {x x' : MT}
    (hx : FillRel x x') : FillRel (mapOp f fill x) (mapOp f fill x') := by
  cases x with
  | plain v => cases x' with
    | plain v' => simp only [FillRel] at hx; subst hx; simp [mapOp, FillRel]
    | wt _ => simp [FillRel] at hx
  | wt c => cases x' with
    | plain _ => simp [FillRel] at hx
    | wt c' =>
      simp only [FillRel] at hx
      simp only [mapOp, FillRel]
      refine Rel2.map (fun a b hab => ⟨hab.1, fun e => ?_⟩) hx
      simp only at e ⊢
      cases fill with
      | none => simp [Cell.filledOpt, hab.2 e]
      | some v => simp [Cell.filledOpt, hab.filled v]

private theorem weightedOp_fillRel {x x' : MT} (hx : FillRel x x') :
    FillRel (weightedOp x) (weightedOp x') := by
  cases x with
  | plain v => cases x' with
    | plain v' => simpa [FillRel, weightedOp] using hx
    | wt _ => simp [FillRel] at hx
  | wt c => cases x' with
    | plain _ => simp [FillRel] at hx
    | wt c' => simp only [FillRel] at hx; simp [weightedOp, FillRel, hx.weightedValue]

private theorem reweight_fillRel {x x' y y' : MT} (hx : FillRel x x') (hy : FillRel y y') :
    ResRel FillRel (reweight x y) (reweight x' y') := by
  cases x with
  | wt c => cases x' with
    | plain _ => simp [FillRel] at hx
    | wt c' => simpa [reweight, ResRel] using hx
  | plain v => cases x' with
    | wt _ => simp [FillRel] at hx
    | plain v' =>
      simp only [FillRel] at hx; subst hx
      cases y with
      | plain u => cases y' with
        | plain u' => simp [reweight, ResRel, FillRel]
        | wt _ => simp [FillRel] at hy
      | wt d => cases y' with
        | plain _ => simp [FillRel] at hy
        | wt d' =>
          simp only [FillRel] at hy
          simp only [reweight, ← Rel2.length_eq hy]
          split
          · simp [ResRel]
          · exact zipWith_reweight_maskEquiv hy v

private theorem sumDimOp_fillRel (keys : List Nat) (n : Nat) {x x' : MT} (hx : FillRel x x') :
    sumDimOp keys n x = sumDimOp keys n x' := by
  simp [sumDimOp, hx.length_eq, hx.cells.wsumDim]

private theorem resRel_bind {R : MT → MT → Prop} {r r' : Except Err MT} {k k' : MT → Except Err MT}
    (h : ResRel R r r') (hk : ∀ x x', R x x' → ResRel R (k x) (k' x')) :
    ResRel R (r >>= k) (r' >>= k') := by
  cases r <;> cases r' <;> simp_all [ResRel, bind, Except.bind]

/-- two evaluation contexts that differ only in what is stored under the masks of their weighted variables -/
def EnvFillRel (ctx ctx' : Ctx) : Prop := ctx.ext = ctx'.ext ∧ Rel2 FillRel ctx.vars ctx'.vars

/-- **Non-interference.**  For every expression of the language (every composition of `_apply_operation`,
    unary operators with or without fill, `.weighted_value`, re-weighting and reductions over dimensions),
    two environments that differ only in the values stored at masked cells of their weighted variables give:
    the same error, or results that are again equal up to what sits under the (identical) weights; regular
    results — in particular every sum — are equal. -/
theorem nonInterference (e : MExpr) (ctx ctx' : Ctx) (h : EnvFillRel ctx ctx') :
    ResRel FillRel (eval ctx e) (eval ctx' e) := by
  induction e with
  | var i =>
    simp only [eval]
    rcases h.2.getElem? i with ⟨h1, h2⟩ | ⟨a, b, h1, h2, hab⟩
    · simp [h1, h2, ResRel]
    · simp [h1, h2, ResRel, hab]
  | bin op a b iha ihb =>
    simp only [eval]
    exact resRel_bind iha fun x x' hx => resRel_bind ihb fun y y' hy => binop_fillRel _ hx hy
  | un op fill a ih =>
    simp only [eval]
    refine resRel_bind ih fun x x' hx => ?_
    have : op.fn ctx = op.fn ctx' := by cases op <;> simp [UnOp.fn, h.1]
    rw [this]
    exact mapOp_fillRel _ _ hx
  | weighted a ih =>
    simp only [eval]
    exact resRel_bind ih fun x x' hx => weightedOp_fillRel hx
  | reweight a b iha ihb =>
    simp only [eval]
    exact resRel_bind iha fun x x' hx => resRel_bind ihb fun y y' hy => reweight_fillRel hx hy
  | sumDim keys n a ih =>
    simp only [eval]
    refine resRel_bind ih fun x x' hx => ?_
    rw [sumDimOp_fillRel keys n hx]
    cases sumDimOp keys n x' with
    | error e => simp [ResRel]
    | ok r => cases r with
      | plain v => simp [ResRel, FillRel]
      | wt c => simp [ResRel, FillRel, MaskEquiv.refl]

/-- Corollary: every reduction (`sum_dim`, hence `nll_attach_ind`, `y_L2`, `y_x_model`/`model_x_model` sums,
    noise updates) evaluates to *exactly* the same outcome in the two environments. -/
theorem sums_equal (keys : List Nat) (n : Nat) (e : MExpr) (ctx ctx' : Ctx) (h : EnvFillRel ctx ctx') :
    eval ctx (.sumDim keys n e) = eval ctx' (.sumDim keys n e) := by
  have := nonInterference e ctx ctx' h
  simp only [eval]
  cases h1 : eval ctx e <;> cases h2 : eval ctx' e <;> simp_all [ResRel, bind, Except.bind]
  exact sumDimOp_fillRel keys n this

/-- Observation counts (`n_obs`, `n_obs_per_ft`) are equal too. -/
theorem counts_equal (keys : List Nat) (n : Nat) (e : MExpr) (ctx ctx' : Ctx) (h : EnvFillRel ctx ctx') :
    (eval ctx e >>= sumWeightsOp keys n) = (eval ctx' e >>= sumWeightsOp keys n) := by
  have := nonInterference e ctx ctx' h
  cases h1 : eval ctx e <;> cases h2 : eval ctx' e <;> simp_all [ResRel, bind, Except.bind]
  simp [sumWeightsOp, this.length_eq, this.cells.wsumDim]

/-! ### 5. only *observed* cells matter: unobserved model values never enter a reduction

`FillRel` lets only the content of masked cells vary.  The stronger relation `ObsRel m` also lets *regular*
tensors (the model values) differ on cells that are not observed (`m` false): this is the clause
"noise estimates use observed entries only". -/

private theorem binop_obsRel (m : List Bool) (f : XVal → XVal → XVal) {x x' y y' : MT}
    (hx : ObsRel m x x') (hy : ObsRel m y y') : ResRel (ObsRel m) (binop f x y) (binop f x' y') := by
  have hlx := hx.length_eq
  have hly := hy.length_eq
  unfold binop
  rw [hlx.1, hlx.2, hly.1, hly.2]
  simp only [ne_eq, not_true_eq_false, if_false]
  cases x with
  | plain v =>
    cases x' with
    | wt _ => simp [ObsRel] at hx
    | plain v' =>
      simp only [ObsRel] at hx
      cases y with
      | plain u =>
        cases y' with
        | wt _ => simp [ObsRel] at hy
        | plain u' =>
          simp only [ObsRel] at hy
          exact Rel3.zipWith (fun b _ _ _ _ h1 h2 e => by rw [h1 e, h2 e]) hx hy
      | wt c =>
        cases y' with
        | plain _ => simp [ObsRel] at hy
        | wt c' =>
          simp only [ObsRel] at hy
          exact Rel3.zipWith (T := CellObs) (fun b _ _ _ _ h1 h2 => ⟨h2.1, fun e => by
            simp only; rw [h1 e, h2.2 e]⟩) hx hy
  | wt c =>
    cases x' with
    | plain _ => simp [ObsRel] at hx
    | wt c' =>
      simp only [ObsRel] at hx
      cases y with
      | plain u =>
        cases y' with
        | wt _ => simp [ObsRel] at hy
        | plain u' =>
          simp only [ObsRel] at hy
          exact Rel3.zipWith (T := CellObs) (fun b _ _ _ _ h1 h2 => ⟨h1.1, fun e => by
            simp only; rw [h1.2 e, h2 e]⟩) hx hy
      | wt d =>
        cases y' with
        | plain _ => simp [ObsRel] at hy
        | wt d' =>
          simp only [ObsRel] at hy
          simp only [← Rel3.weights hx, ← Rel3.weights hy]
          split
          · exact Rel3.zipWith (T := CellObs) (fun b _ _ _ _ h1 h2 => ⟨h1.1, fun e => by
              simp only; rw [h1.2 e, h2.2 e]⟩) hx hy
          · simp [ResRel]

private theorem mapOp_obsRel (m : List Bool) (f : XVal → XVal) (fill : Option XVal) {x x' : MT}
    (hx : ObsRel m x x') : ObsRel m (mapOp f fill x) (mapOp f fill x') := by
  cases x with
  | plain v => cases x' with
    | plain v' =>
      simp only [ObsRel] at hx
      exact Rel3.map (fun b _ _ h e => by rw [h e]) hx
    | wt _ => simp [ObsRel] at hx
  | wt c => cases x' with
    | plain _ => simp [ObsRel] at hx
    | wt c' =>
      simp only [ObsRel] at hx
      refine Rel3.map (S := CellObs) (fun b a a' h => ⟨h.1, fun e => ?_⟩) hx
      obtain ⟨x, w⟩ := a; obtain ⟨x', w'⟩ := a'
      have h1 : w = w' := h.1
      have h2 : x = x' := h.2 e
      subst h1 h2; rfl

private theorem weightedOp_obsRel (m : List Bool) {x x' : MT} (hx : ObsRel m x x') :
    ObsRel m (weightedOp x) (weightedOp x') := by
  cases x with
  | plain v => cases x' with
    | plain v' => simpa [ObsRel, weightedOp] using hx
    | wt _ => simp [ObsRel] at hx
  | wt c => cases x' with
    | plain _ => simp [ObsRel] at hx
    | wt c' =>
      simp only [ObsRel] at hx
      refine Rel3.map (S := ValObs) (fun b a a' h e => ?_) hx
      obtain ⟨x, w⟩ := a; obtain ⟨x', w'⟩ := a'
      have h1 : w = w' := h.1
      have h2 : x = x' := h.2 e
      subst h1 h2; rfl

private theorem reweight_obsRel (m : List Bool) {x x' y y' : MT} (hx : ObsRel m x x') (hy : ObsRel m y y') :
    ResRel (ObsRel m) (reweight x y) (reweight x' y') := by
  have hlx := hx.length_eq
  have hly := hy.length_eq
  cases x with
  | wt c => cases x' with
    | plain _ => simp [ObsRel] at hx
    | wt c' => simpa [reweight, ResRel] using hx
  | plain v => cases x' with
    | wt _ => simp [ObsRel] at hx
    | plain v' =>
      cases y with
      | plain u => cases y' with
        | plain u' => simpa [reweight, ResRel] using hx
        | wt _ => simp [ObsRel] at hy
      | wt d => cases y' with
        | plain _ => simp [ObsRel] at hy
        | wt d' =>
          simp only [ObsRel] at hx hy
          simp only [MT.length] at hlx hly
          simp only [reweight, hlx.1, hlx.2, hly.1, hly.2, ne_eq, not_true_eq_false, if_false, ResRel, ObsRel]
          exact Rel3.zipWith (T := CellObs) (fun b _ _ _ _ h1 h2 => ⟨h2.1, fun e => h1 e⟩) hx hy

/-- two contexts whose variables agree on the observed cells `m` (and have identical weights) -/
def EnvObsRel (m : List Bool) (ctx ctx' : Ctx) : Prop :=
  ctx.ext = ctx'.ext ∧ Rel2 (ObsRel m) ctx.vars ctx'.vars

/-- Every reduction-free composition preserves "agree on the observed cells". -/
theorem eval_observed (m : List Bool) (e : MExpr) (he : sumFree e = true) (ctx ctx' : Ctx)
    (h : EnvObsRel m ctx ctx') : ResRel (ObsRel m) (eval ctx e) (eval ctx' e) := by
  induction e with
  | var i =>
    simp only [eval]
    rcases h.2.getElem? i with ⟨h1, h2⟩ | ⟨a, b, h1, h2, hab⟩
    · simp [h1, h2, ResRel]
    · simp [h1, h2, ResRel, hab]
  | bin op a b iha ihb =>
    simp only [sumFree, Bool.and_eq_true] at he
    simp only [eval]
    exact resRel_bind (iha he.1) fun x x' hx => resRel_bind (ihb he.2) fun y y' hy => binop_obsRel m _ hx hy
  | un op fill a ih =>
    simp only [sumFree] at he
    simp only [eval]
    refine resRel_bind (ih he) fun x x' hx => ?_
    have : op.fn ctx = op.fn ctx' := by cases op <;> simp [UnOp.fn, h.1]
    rw [this]
    exact mapOp_obsRel m _ _ hx
  | weighted a ih =>
    simp only [sumFree] at he
    simp only [eval]
    exact resRel_bind (ih he) fun x x' hx => weightedOp_obsRel m hx
  | reweight a b iha ihb =>
    simp only [sumFree, Bool.and_eq_true] at he
    simp only [eval]
    exact resRel_bind (iha he.1) fun x x' hx => resRel_bind (ihb he.2) fun y y' hy => reweight_obsRel m hx hy
  | sumDim keys n a ih => simp [sumFree] at he

/-- **Observed entries only.**  A reduction of a composition whose weights lie below the observation mask
    (e.g. are the weights of `y`) gives exactly the same sums and counts in two contexts that agree on the
    observed cells — whatever the model predicts, and whatever is stored, at unobserved cells. -/
theorem observedOnly (m : List Bool) (e : MExpr) (he : sumFree e = true) (ctx ctx' : Ctx)
    (h : EnvObsRel m ctx ctx') (keys : List Nat) (n : Nat)
    (c : WT) (hev : eval ctx e = .ok (.wt c)) (hb : Below (c.map Prod.snd) m) :
    eval ctx (.sumDim keys n e) = eval ctx' (.sumDim keys n e) := by
  have hrel := eval_observed m e he ctx ctx' h
  rw [hev] at hrel
  simp only [eval, hev]
  cases h2 : eval ctx' e with
  | error _ => simp [h2, ResRel] at hrel
  | ok r =>
    rw [h2] at hrel
    cases r with
    | plain _ => simp [ResRel, ObsRel] at hrel
    | wt c' =>
      simp only [ResRel, ObsRel] at hrel
      have hme : FillRel (.wt c) (.wt c') := Rel3.maskEquiv hrel hb
      simp only [bind, Except.bind]
      exact sumDimOp_fillRel keys n hme

/-- The three sums of the *repaired* scalar noise update and the sums of the diagonal one are reductions of
    compositions carrying the weights of `y`: they depend on observed cells only. -/
theorem noise_update_observedOnly (y : WT) (model model' : List XVal) (rest rest' : List MT) (ext : Nat → XVal → XVal)
    (keys : List Nat) (n : Nat)
    (hm : Rel3 ValObs (y.map Prod.snd) model model') (hrest : Rel2 (ObsRel (y.map Prod.snd)) rest rest') :
    let ctx : Ctx := ⟨.wt y :: .plain model :: rest, ext⟩
    let ctx' : Ctx := ⟨.wt y :: .plain model' :: rest', ext⟩
    eval ctx (.sumDim keys n eYxModel) = eval ctx' (.sumDim keys n eYxModel) ∧
    eval ctx (.sumDim keys n (.reweight eModelxModel eYxModel)) = eval ctx' (.sumDim keys n (.reweight eModelxModel eYxModel)) ∧
    eval ctx (eYL2 keys n) = eval ctx' (eYL2 keys n) := by
  intro ctx ctx'
  have hl := (Rel3.length_eq hm).1
  have hyy : Rel3 CellObs (y.map Prod.snd) y y := by
    clear hm hl hrest
    induction y with
    | nil => exact .nil
    | cons c y ih => exact .cons ⟨rfl, fun _ => rfl⟩ ih
  have henv : EnvObsRel (y.map Prod.snd) ctx ctx' :=
    ⟨rfl, .cons (by simpa [ObsRel] using hyy) (.cons (by simpa [ObsRel] using hm) hrest)⟩
  have hlen : (MT.wt y).length = (MT.plain model).length := by simp [MT.length, hl]
  refine ⟨?_, ?_, ?_⟩
  · refine observedOnly _ eYxModel rfl ctx ctx' henv keys n
      (List.zipWith (fun (c : Cell) v => (XVal.mul c.1 v, c.2)) y model) ?_ ?_
    · simp [eval, eYxModel, eY, eModel, ctx, binop, hlen, BinOp.fn, bind, Except.bind]
    · rw [zipWith_wp_weights (fun c v => XVal.mul c.1 v) y model (by simpa using hl.symm)]
      exact Below.refl _
  · refine observedOnly _ (.reweight eModelxModel eYxModel) rfl ctx ctx' henv keys n
      (List.zipWith (fun x (c : Cell) => (x, c.2)) (model.map XVal.sqr)
        (List.zipWith (fun (c : Cell) v => (XVal.mul c.1 v, c.2)) y model)) ?_ ?_
    · have hl' : model.length = y.length := by simpa using hl
      simp [eval, eYxModel, eModelxModel, eY, eModel, ctx, binop, hlen, BinOp.fn, bind, Except.bind, mapOp,
        UnOp.fn, reweight, hl', pure, Except.pure]
    · rw [zipWith_pw_weights (fun x _ => x) _ _ (by simp [hl]),
        zipWith_wp_weights (fun c v => XVal.mul c.1 v) y model (by simpa using hl.symm)]
      exact Below.refl _
  · refine observedOnly _ (.un .sqr none eY) rfl ctx ctx' henv keys n
      (y.map (fun d => (XVal.sqr d.1, d.2))) ?_ ?_
    · simp [eval, eY, ctx, mapOp, UnOp.fn, Cell.filledOpt, bind, Except.bind, pure, Except.pure]
    · simp only [List.map_map, Function.comp_def]
      exact Below.refl _

/-- **F3 (before the repair).**  The old scalar update summed `model²` as a regular tensor: two contexts
    that agree on every observed cell (one visit, second feature missing; the model predicts `1/4` resp. `3/4`
    for the missing feature) give different sums — the noise estimate used unobserved entries. -/
theorem scalarNoiseOld_counterexample :
    ∃ (m : List Bool) (ctx ctx' : Ctx), EnvObsRel m ctx ctx' ∧
      eval ctx (.sumDim [0, 0] 1 eModelxModel) ≠ eval ctx' (.sumDim [0, 0] 1 eModelxModel) := by
  refine ⟨[true, false],
    ⟨[.wt [(.fin (1/2), true), (.fin 0, false)], .plain [.fin (1/2), .fin (1/4)]], fun _ x => x⟩,
    ⟨[.wt [(.fin (1/2), true), (.fin 0, false)], .plain [.fin (1/2), .fin (3/4)]], fun _ x => x⟩, ?_, ?_⟩
  · refine ⟨rfl, .cons ?_ (.cons ?_ .nil)⟩
    · exact .cons ⟨rfl, fun _ => rfl⟩ (.cons ⟨rfl, fun _ => rfl⟩ .nil)
    · exact .cons (fun _ => rfl) (.cons (fun e => by cases e) .nil)
  · decide +kernel

/-! ### 6. padding at expression level -/

/-- the second context is the first one with `p` extra trailing (padded) cells in every variable -/
def EnvPadRel (p : Nat) (ctx ctx' : Ctx) : Prop := ctx.ext = ctx'.ext ∧ Rel2 (PadRel p) ctx.vars ctx'.vars

theorem eval_padding (p : Nat) (e : MExpr) (he : sumFree e = true) (ctx ctx' : Ctx) (h : EnvPadRel p ctx ctx') :
    PadRes p (eval ctx e) (eval ctx' e) := by
  induction e with
  | var i =>
    simp only [eval]
    rcases h.2.getElem? i with ⟨h1, h2⟩ | ⟨a, b, h1, h2, hab⟩
    · simp [h1, h2, PadRes]
    · simp [h1, h2, PadRes, hab]
  | bin op a b iha ihb =>
    simp only [sumFree, Bool.and_eq_true] at he
    simp only [eval]
    exact padRes_bind (iha he.1) fun x x' hx => padRes_bind (ihb he.2) fun y y' hy => binop_padRel p _ hx hy
  | un op fill a ih =>
    simp only [sumFree] at he
    simp only [eval]
    refine padRes_bind (ih he) fun x x' hx => ?_
    have : op.fn ctx = op.fn ctx' := by cases op <;> simp [UnOp.fn, h.1]
    rw [this]
    exact mapOp_padRel p _ _ hx
  | weighted a ih =>
    simp only [sumFree] at he
    simp only [eval]
    exact padRes_bind (ih he) fun x x' hx => weightedOp_padRel p hx
  | reweight a b iha ihb =>
    simp only [sumFree, Bool.and_eq_true] at he
    simp only [eval]
    exact padRes_bind (iha he.1) fun x x' hx => padRes_bind (ihb he.2) fun y y' hy => reweight_padRel p hx hy
  | sumDim keys n a ih => simp [sumFree] at he


/-- **Padding at expression level.**  A reduction of a composition that evaluates to a weighted tensor gives exactly
    the same sums when every variable carries `p` extra trailing cells (weight 0 and arbitrary content for weighted
    variables, arbitrary values for regular ones) — the padded cells may be attributed to any output cell. -/
theorem padding_irrelevant (p : Nat) (e : MExpr) (he : sumFree e = true) (ctx ctx' : Ctx) (h : EnvPadRel p ctx ctx')
    (keys padKeys : List Nat) (n : Nat) (c : WT) (hev : eval ctx e = .ok (.wt c))
    (hk : keys.length = c.length) (hpk : padKeys.length = p) :
    eval ctx' (.sumDim (keys ++ padKeys) n e) = eval ctx (.sumDim keys n e) := by
  have hrel := eval_padding p e he ctx ctx' h
  rw [hev] at hrel
  cases h2 : eval ctx' e with
  | error _ => simp [h2, PadRes] at hrel
  | ok r =>
    rw [h2] at hrel
    cases r with
    | plain _ => simp [PadRes, PadRel] at hrel
    | wt c' =>
      obtain ⟨d, hd, hdf, rfl⟩ := hrel
      simp only [eval, hev, h2, bind, Except.bind, sumDimOp, MT.length, MT.cells, List.length_append, hk, hpk, hd,
        ne_eq, not_true_eq_false, if_false]
      rw [wsumDim_padding_irrelevant XVal.zero keys padKeys n c d hk hdf]

/-! ### non-vacuity -/

/-- `nan`, `inf` and `1e30` under the mask: the sum is the sum of the two observed cells. -/
example : wsum XVal.zero [(.fin 1, true), (.nan, false), (.pinf, false), (.fin (3/2), true), (.fin (10^30), false)]
    = (.fin (5/2), 2) := by decide +kernel

/-- an unmasked `nan` does propagate (the hypothesis of `nonfinite_never_propagates` is needed) -/
example : (wsum XVal.zero [(.fin 1, true), (.nan, true)]).1 = .nan := by decide +kernel

/-- an all-masked aggregate is filled -/
example : wsum (.fin 7) [(.nan, false), (.ninf, false)] = (.fin 7, 0) := by decide +kernel

/-- the repaired scalar expression on the F3 witness: both contexts give the same sum -/
example :
    eval ⟨[.wt [(.fin (1/2), true), (.fin 0, false)], .plain [.fin (1/2), .fin (1/4)]], fun _ x => x⟩
        (.sumDim [0, 0] 1 (.reweight eModelxModel eYxModel))
      = eval ⟨[.wt [(.fin (1/2), true), (.nan, false)], .plain [.fin (1/2), .fin (3/4)]], fun _ x => x⟩
        (.sumDim [0, 0] 1 (.reweight eModelxModel eYxModel)) := by decide +kernel

/-! ### 9. Recorded programs: positional taint analysis (`Model/Taint.lean`)

The sections above are about a hand-written model of the weighted tensors.  This one is about the torch program that the
real code executed on this run, from the `Dataset` tensors to the quantities the property names: it is translated to a
gather program (every output element lists the input elements it is computed from) and the abstract interpretation
`Taint.taint` marks every element `known` / `clean` / `dirty`.  `taint_sound`: an element that is not `dirty` has the same
value in any two runs that agree outside the garbage positions — for EVERY interpretation of the scalar operations (so for
IEEE arithmetic: nothing is assumed about `0 * nan`), every content of the garbage positions, every value of the clean
inputs.  What stays outside Lean: that the gather program is the computation the code performs (the translation
`Taint.toGather` is validated on every run against the real tensors and against `Trace.fnApply`), and the amount of padding
(one recorded program has one shape; see `padding_content_irrelevant_partial`). -/

section Recorded
open LeaspyVerif.Trace LeaspyVerif.Taint
variable {α : Type}

/-- `taint_sound` — joint form: the inputs of the two runs and their abstract description are given together, element by
    element (`Good`: a `known v` element is `v` in both runs, a `clean` one is equal in both).  Every element of every node
    that the analysis does not mark `dirty` is then equal in the two runs. -/
theorem taint_sound (O : Ops α) (nodes : List (GNode α)) (J : Nat → List (Joint α)) (hJ : ∀ k, ∀ t ∈ J k, Good t)
    (o q : Nat) (a : AVal α) (ha : cell (taint O (fun k => (J k).map p3) nodes) o q = some a) (hc : a ≠ .dirty) :
    cell (evalC O (fun k => (J k).map p1) nodes) o q = cell (evalC O (fun k => (J k).map p2) nodes) o q := by
  have e3 := evalG_map p3 (eltJ O) (eltA O) cstJ AVal.known (fun _ _ => rfl) (fun _ => rfl) J nodes
  have e1 := evalG_map p1 (eltJ O) (elt O) cstJ id (fun _ _ => rfl) (fun _ => rfl) J nodes
  have e2 := evalG_map p2 (eltJ O) (elt O) cstJ id (fun _ _ => rfl) (fun _ => rfl) J nodes
  have hall : AllCells Good (evalG (eltJ O) cstJ J nodes) :=
    runG_all Good (eltJ O) cstJ (eltJ_good O) (fun v => ⟨rfl, rfl⟩) J hJ nodes [] (by intro l hl; cases hl)
  unfold taint at ha
  unfold evalC
  rw [← e3, cell_map] at ha
  rw [← e1, ← e2, cell_map, cell_map]
  cases ht : cell (evalG (eltJ O) cstJ J nodes) o q with
  | none => simp [ht] at ha
  | some t =>
    simp only [ht, Option.map_some, Option.some.injEq] at ha
    have hgood : Good t := by
      unfold cell at ht
      cases hl : (evalG (eltJ O) cstJ J nodes)[o]? with
      | none => simp [hl] at ht
      | some l =>
        simp only [hl, Option.bind_some] at ht
        exact hall l (List.mem_of_getElem? hl) t (List.mem_of_getElem? ht)
    obtain ⟨t1, t2, t3⟩ := t
    simp only [p3] at ha
    subst ha
    simp only [Option.map_some, p1, p2]
    cases t3 with
    | known v => obtain ⟨h1, h2⟩ := hgood; simp_all
    | clean => simp only [Good] at hgood; simp_all
    | dirty => exact absurd rfl hc

private theorem joint_of_agree (garbage : List Bool) (x x' : List α) (h : AgreeOutside garbage x x') :
    ∃ J : List (Joint α), J.map p1 = x ∧ J.map p2 = x' ∧ J.map p3 = absInput false garbage x ∧ ∀ t ∈ J, Good t := by
  induction h with
  | nil => exact ⟨[], rfl, rfl, rfl, by simp⟩
  | cons g a b gs as bs hab _ ih =>
    obtain ⟨J, h1, h2, h3, h4⟩ := ih
    refine ⟨(a, b, if g then .dirty else .clean) :: J, by simp [p1, h1], by simp [p2, h2], ?_, ?_⟩
    · simp only [absInput, Bool.false_eq_true, if_false] at h3 ⊢
      simp [p3, h3]
    · intro t ht
      rcases List.mem_cons.mp ht with rfl | ht
      · cases g with
        | true => simp [Good]
        | false => simp [Good, hab rfl]
      · exact h4 t ht

private theorem joint_of_known (x : List α) :
    ∃ J : List (Joint α), J.map p1 = x ∧ J.map p2 = x ∧ J.map p3 = absInput true [] x ∧ ∀ t ∈ J, Good t := by
  refine ⟨x.map cstJ, by simp [Function.comp_def, p1, cstJ], by simp [Function.comp_def, p2, cstJ],
    by simp [absInput, Function.comp_def, p3, cstJ], ?_⟩
  intro t ht
  obtain ⟨v, _, rfl⟩ := List.mem_map.mp ht
  exact ⟨rfl, rfl⟩

/-- `taint_sound_masked` — the property's own premise: `known` inputs (the mask) are identical in the two runs; in every
    other input the two runs agree at every position that is not garbage, and hold ANYTHING (finite, huge, `nan`, `±inf`)
    at the garbage positions.  Every element the analysis does not mark `dirty` is equal in the two runs. -/
theorem taint_sound_masked (O : Ops α) (nodes : List (GNode α)) (isKnown : Nat → Bool) (garbage : Nat → List Bool)
    (x x' : Nat → List α) (hk : ∀ k, isKnown k = true → x k = x' k)
    (hg : ∀ k, isKnown k = false → AgreeOutside (garbage k) (x k) (x' k))
    (o q : Nat) (a : AVal α)
    (ha : cell (taint O (fun k => absInput (isKnown k) (garbage k) (x k)) nodes) o q = some a) (hc : a ≠ .dirty) :
    cell (evalC O x nodes) o q = cell (evalC O x' nodes) o q := by
  have hex : ∀ k, ∃ J : List (Joint α), J.map p1 = x k ∧ J.map p2 = x' k ∧
      J.map p3 = absInput (isKnown k) (garbage k) (x k) ∧ ∀ t ∈ J, Good t := by
    intro k
    cases hkk : isKnown k with
    | true =>
      obtain ⟨J, h1, h2, h3, h4⟩ := joint_of_known (x k)
      exact ⟨J, h1, by rw [h2, hk k hkk], by simpa [absInput] using h3, h4⟩
    | false => exact joint_of_agree _ _ _ (hg k hkk)
  let J : Nat → List (Joint α) := fun k => Classical.choose (hex k)
  have hJ := fun k => Classical.choose_spec (hex k)
  have e1 : (fun k => (J k).map p1) = x := funext fun k => (hJ k).1
  have e2 : (fun k => (J k).map p2) = x' := funext fun k => (hJ k).2.1
  have e3 : (fun k => (J k).map p3) = fun k => absInput (isKnown k) (garbage k) (x k) := funext fun k => (hJ k).2.2.1
  have := taint_sound O nodes J (fun k => (hJ k).2.2.2) o q a (by rw [e3]; exact ha) hc
  rwa [e1, e2] at this

/-- Padding.  Full statement (not provable about ONE recorded program, whose shapes are fixed): *the outputs restricted to the
    real visits do not depend on the number of padded visits.*  What is proved here is the part that concerns a fixed
    amount of padding: with the padded cells among the garbage positions, whatever they hold — also the zeros the loader
    writes versus the values of a longer individual, `nan`, `±inf` — no clean output element changes.  (The amount of
    padding is covered by `padding_irrelevant` above for the expression language, and by runs on re-padded datasets.) -/
theorem padding_content_irrelevant_partial (O : Ops α) (nodes : List (GNode α)) (isKnown : Nat → Bool)
    (padded : Nat → List Bool) (x x' : Nat → List α) (hk : ∀ k, isKnown k = true → x k = x' k)
    (hg : ∀ k, isKnown k = false → AgreeOutside (padded k) (x k) (x' k)) (o : Nat) (flags : List (AVal α))
    (hf : (taint O (fun k => absInput (isKnown k) (padded k) (x k)) nodes)[o]? = some flags)
    (hclean : ∀ a ∈ flags, a ≠ .dirty) (q : Nat) :
    cell (evalC O x nodes) o q = cell (evalC O x' nodes) o q ∨ q ≥ flags.length := by
  by_cases hq : q < flags.length
  · left
    have hcell : cell (taint O (fun k => absInput (isKnown k) (padded k) (x k)) nodes) o q = some flags[q] := by
      simp [cell, hf, List.getElem?_eq_getElem hq]
    exact taint_sound_masked O nodes isKnown padded x x' hk hg o q _ hcell (hclean _ (List.getElem_mem hq))
  · right; omega

end Recorded

/-! ### non-vacuity and counterexamples on recorded-like programs (`toGather`, IEEE-like `XVal` scalars) -/

section RecordedExamples
open LeaspyVerif.Trace LeaspyVerif.Taint

/-- `wsum` as coded: `(w * y.masked_fill(w == 0, 0)).sum(dim=1)`; input 0 = values `y (2,2)`, input 1 = mask `w` -/
def exFilledSum : List (TNode XVal) :=
  [.ind 0 [2, 2], .ind 1 [2, 2], .op (.const ⟨[], #[.fin 0]⟩) [] [], .op (.ew .eq) [1, 2] [2, 2],
   .op (.ew .where_) [3, 2, 0] [2, 2], .op (.ew .mul) [1, 4] [2, 2], .op (.red .sum [1] false) [5] [2]]

/-- the fast path without the fill: `(w * y).sum(dim=1)` -/
def exUnfilledSum : List (TNode XVal) :=
  [.ind 0 [2, 2], .ind 1 [2, 2], .op (.ew .mul) [1, 0] [2, 2], .op (.red .sum [1] false) [2] [2]]

/-- a plain sum over the (padded) visit axis: `y.sum(dim=1)` -/
def exPlainSum : List (TNode XVal) := [.ind 0 [2, 2], .op (.red .sum [1] false) [0] [2]]

/-- inputs of the examples: values `[[a, g], [2, 3]]` (cell (0,1) masked: it holds `g`), mask `[[1, 0], [1, 1]]` -/
def exIn (g : XVal) : Nat → List XVal := fun k =>
  if k = indBase then [.fin 1, g, .fin 2, .fin 3] else if k = indBase + 1 then [.fin 1, .fin 0, .fin 1, .fin 1] else []

def exAbs : Nat → List (AVal XVal) := fun k =>
  absInput (k == indBase + 1) [false, true, false, false] (exIn (.fin 0) k)

/-- The coded weighted sum is clean at every output element, and indeed gives `1` and `5` whether the masked cell holds
    `0`, `nan` or `+inf`. -/
theorem exFilledSum_clean :
    (taint xvalOps exAbs (toGather exFilledSum).1)[6]? = some [.clean, .clean] ∧
    (evalC xvalOps (exIn (.fin 0)) (toGather exFilledSum).1)[6]? = some [.fin 1, .fin 5] ∧
    (evalC xvalOps (exIn .nan) (toGather exFilledSum).1)[6]? = some [.fin 1, .fin 5] ∧
    (evalC xvalOps (exIn .pinf) (toGather exFilledSum).1)[6]? = some [.fin 1, .fin 5] := by
  decide +kernel

/-- Multiplying garbage by a zero weight without filling first is rejected, and rightly so: a finite fill goes unnoticed,
    `nan` (or `inf`: `0 * inf = nan`) under the mask makes the sum `nan`. -/
theorem unfilled_weighted_sum_counterexample :
    (taint xvalOps exAbs (toGather exUnfilledSum).1)[3]? = some [.dirty, .clean] ∧
    (evalC xvalOps (exIn (.fin 7)) (toGather exUnfilledSum).1)[3]? = some [.fin 1, .fin 5] ∧
    (evalC xvalOps (exIn .nan) (toGather exUnfilledSum).1)[3]? = some [.nan, .fin 5] ∧
    (evalC xvalOps (exIn .pinf) (toGather exUnfilledSum).1)[3]? = some [.nan, .fin 5] := by
  decide +kernel

/-- An unmasked sum over a padded axis is rejected: it returns whatever the padding holds. -/
theorem unmasked_sum_counterexample :
    (taint xvalOps exAbs (toGather exPlainSum).1)[1]? = some [.dirty, .clean] ∧
    (evalC xvalOps (exIn (.fin 0)) (toGather exPlainSum).1)[1]? = some [.fin 1, .fin 5] ∧
    (evalC xvalOps (exIn (.fin 7)) (toGather exPlainSum).1)[1]? = some [.fin 8, .fin 5] := by
  decide +kernel

end RecordedExamples

end LeaspyVerif.C06
