/-
C03 — every sampler step is a Metropolis–Hastings transition for the documented target.
Property theorems only (helper lemmas are private).  Model: `Model/Sampler.lean`.

What is proved (exact arithmetic, all inputs): support and values of the proposal, the number of
draws consumed (whatever the acceptance ratios are), the decision rule of every block / individual
as a function of its own `(ΔA, ΔR, u, tinv)`, the equivalence of `u < α` with the usual
`u < min 1 α`, `α` = ratio of the tempered target densities, detailed balance of the resulting
acceptance function, symmetry of the proposal, monotonicity in the inverse temperature.
Not claimed: ergodicity, and the measure-theoretic statement "accepted with probability min(1,α)"
(the uniform / normal laws of the draws are not modelled).
-/
import LeaspyVerif.Model.Sampler
import Mathlib.Analysis.SpecialFunctions.Exp
import Mathlib.Tactic.Ring
import Mathlib.Tactic.Linarith

namespace LeaspyVerif.C03
open LeaspyVerif.Sampler

/-! ### proposal -/

private theorem lookup_zip_none {α} (block : List Nat) (z : List α) (i : Nat) (hb : i ∉ block) :
    (block.zip z).lookup i = none := by
  induction block generalizing z with
  | nil => simp
  | cons b bs ih =>
    cases z with
    | nil => simp
    | cons y ys =>
      have h1 : i ≠ b := fun h => hb (h ▸ List.mem_cons_self)
      have h2 : i ∉ bs := fun h => hb (List.mem_cons_of_mem _ h)
      have : (i == b) = false := by simpa using h1
      simp [List.lookup, this, ih ys h2]

private theorem lookup_zip_nodup {α} (block : List Nat) (z : List α) (k : Nat)
    (hnd : block.Nodup) (hk : k < block.length) (hz : k < z.length) :
    (block.zip z).lookup block[k] = some z[k] := by
  induction block generalizing z k with
  | nil => simp at hk
  | cons b bs ih =>
    cases z with
    | nil => simp at hz
    | cons y ys =>
      cases k with
      | zero => simp
      | succ k =>
        have hk' : k < bs.length := by simpa using hk
        have hz' : k < ys.length := by simpa using hz
        have hnd' := List.nodup_cons.mp hnd
        have hne : bs[k] ≠ b := fun h => hnd'.1 (h ▸ List.getElem_mem hk')
        have : (bs[k] == b) = false := by simpa using hne
        simp [List.lookup, this, ih ys k hnd'.2 hk' hz']

/-- The proposed change has the shape of the variable. -/
theorem proposal_length {α} [OfNat α 0] [Mul α] (n : Nat) (block : List Nat) (std : α) (z : List α) :
    (proposal n block std z).length = n := by
  simp [proposal]

/-- Support: outside the targeted block the proposed change is exactly zero
    (one coordinate for Gibbs, one row for FastGibbs, everything for Metropolis–Hastings). -/
theorem proposal_support {α} [OfNat α 0] [Mul α] (n : Nat) (block : List Nat) (std : α) (z : List α)
    (i : Nat) (hi : i < n) (hb : i ∉ block) :
    (proposal n block std z)[i]? = some 0 := by
  simp [proposal, List.getElem?_map, List.getElem?_range hi, lookup_zip_none block z i hb]

/-- On the block the change is `std * z_k` for the k-th normal draw handed to the block. -/
theorem proposal_on_block {α} [OfNat α 0] [Mul α] (n : Nat) (block : List Nat) (std : α) (z : List α)
    (k : Nat) (hnd : block.Nodup) (hk : k < block.length) (hz : k < z.length) (hn : block[k] < n) :
    (proposal n block std z)[block[k]]? = some (std * z[k]) := by
  simp [proposal, List.getElem?_map, List.getElem?_range hn, lookup_zip_nodup block z k hnd hk hz]

private theorem lookup_zip_map {α} (f : α → α) (block : List Nat) (z : List α) (i : Nat) :
    (block.zip (z.map f)).lookup i = ((block.zip z).lookup i).map f := by
  induction block generalizing z with
  | nil => simp
  | cons b bs ih =>
    cases z with
    | nil => simp
    | cons y ys =>
      by_cases h : (i == b) = true
      · simp [List.lookup, h]
      · have h' : (i == b) = false := by simpa using h
        simp [List.lookup, h', ih ys]

/-- Symmetry of the proposal: the reverse move is obtained from the opposite normal draws (which
    have the same density), so the Hastings correction of the proposal is 1. -/
theorem proposal_neg (n : Nat) (block : List Nat) (std : ℝ) (z : List ℝ) :
    proposal n block std (z.map Neg.neg) = (proposal n block std z).map Neg.neg := by
  unfold proposal
  rw [List.map_map]
  apply List.map_congr_left
  intro i _
  simp only [Function.comp, lookup_zip_map]
  cases (block.zip z).lookup i <;> simp

/-! ### draws consumed -/

/-- Population samplers: a sweep over blocks `bs` consumes exactly `Σ |block|` normal draws and
    exactly one uniform per block, whatever the acceptance ratios are (the formula does not mention
    `dE`, `exp`, `tinv`): a uniform is drawn for every decision. -/
theorem draws_consumed {α β} [OfNat α 0] [Mul α] [Add α] [Add β] [Mul β] [Neg β] [LT β] [DecidableLT β]
    (exp : β → β) (tinv : β) (bs : List (Block α β)) (cur zs : List α) (us : List β) (r : PopOut α β)
    (h : popSample exp tinv bs cur zs us = some r) :
    r.zs = zs.drop (bs.map (·.idx.length)).sum ∧ r.us = us.drop bs.length ∧
      r.acc.length = bs.length ∧ r.props.length = bs.length ∧
      (bs.map (·.idx.length)).sum ≤ zs.length ∧ bs.length ≤ us.length := by
  induction bs generalizing cur zs us r with
  | nil =>
    simp only [popSample, Option.some.injEq] at h
    subst h
    simp
  | cons b bs ih =>
    unfold popSample at h
    split at h
    · exact absurd h (by simp)
    · rename_i hlen
      cases us with
      | nil => simp at h
      | cons u us' =>
        simp only at h
        split at h
        · exact absurd h (by simp)
        · rename_i r' hr'
          simp only [Option.some.injEq] at h
          subst h
          obtain ⟨h1, h2, h3, h4, h5, h6⟩ := ih _ _ _ _ hr'
          simp only [List.length_drop] at h5
          refine ⟨?_, ?_, ?_, ?_, ?_, ?_⟩
          · simp [h1, List.drop_drop]
          · simp [h2]
          · simp [h3]
          · simp [h4]
          · simp only [List.map_cons, List.sum_cons]; omega
          · simp only [List.length_cons]; omega

/-- Conversely the sweep succeeds as soon as enough draws are provided. -/
theorem draws_sufficient {α β} [OfNat α 0] [Mul α] [Add α] [Add β] [Mul β] [Neg β] [LT β] [DecidableLT β]
    (exp : β → β) (tinv : β) (bs : List (Block α β)) (cur zs : List α) (us : List β)
    (hz : (bs.map (·.idx.length)).sum ≤ zs.length) (hu : bs.length ≤ us.length) :
    (popSample exp tinv bs cur zs us).isSome = true := by
  induction bs generalizing cur zs us with
  | nil => simp [popSample]
  | cons b bs ih =>
    simp only [List.map_cons, List.sum_cons] at hz
    cases us with
    | nil => simp at hu
    | cons u us' =>
      unfold popSample
      have h1 : ¬ zs.length < b.idx.length := by omega
      simp only [h1, if_false]
      have := ih (if accept exp u (D tinv (b.dE cur (addL cur (proposal cur.length b.idx b.std (zs.take b.idx.length)))).1
                  (b.dE cur (addL cur (proposal cur.length b.idx b.std (zs.take b.idx.length)))).2)
                then addL cur (proposal cur.length b.idx b.std (zs.take b.idx.length)) else cur)
                (zs.drop b.idx.length) us' (by simp only [List.length_drop]; omega) (by simpa using hu)
      cases hq : popSample exp tinv bs _ (zs.drop b.idx.length) us' with
      | none => simp [hq] at this
      | some r => simp

/-- The decision taken on the first block of a sweep: the proposal is kept iff the uniform drawn for
    this block is below `exp(-(ΔR·tinv + ΔA))`, where ΔA, ΔR are read between the current value and
    `current + proposal on the block`; the sweep continues from `if accepted then proposed else current`. -/
theorem pop_first_decision {α β} [OfNat α 0] [Mul α] [Add α] [Add β] [Mul β] [Neg β] [LT β] [DecidableLT β]
    (exp : β → β) (tinv : β) (b : Block α β) (bs : List (Block α β)) (cur zs : List α) (u : β) (us : List β)
    (r : PopOut α β) (h : popSample exp tinv (b :: bs) cur zs (u :: us) = some r) :
    let prop := addL cur (proposal cur.length b.idx b.std (zs.take b.idx.length))
    let a := accept exp u (D tinv (b.dE cur prop).1 (b.dE cur prop).2)
    r.acc.head? = some a ∧ r.props.head? = some prop ∧
      ∃ r', popSample exp tinv bs (if a then prop else cur) (zs.drop b.idx.length) us = some r' ∧
        r.value = r'.value ∧ r.acc.tail = r'.acc := by
  unfold popSample at h
  split at h
  · exact absurd h (by simp)
  · simp only at h
    split at h
    · exact absurd h (by simp)
    · rename_i r' hr'
      simp only [Option.some.injEq] at h
      subst h
      exact ⟨rfl, rfl, r', hr', rfl, rfl⟩

private theorem chunks_length {α} (d n : Nat) (zs : List α) : (chunks d n zs).length = n := by
  induction n generalizing zs with
  | zero => simp [chunks]
  | succ n ih => simp [chunks, ih]

private theorem chunks_get {α} (d n : Nat) (zs : List α) (j : Nat) (hj : j < n) :
    (chunks d n zs)[j]? = some ((zs.drop (j * d)).take d) := by
  induction n generalizing zs j with
  | zero => omega
  | succ n ih =>
    cases j with
    | zero => simp [chunks]
    | succ j =>
      simp only [chunks, List.getElem?_cons_succ]
      rw [ih (zs.drop d) j (by omega), List.drop_drop]
      congr 3
      rw [Nat.succ_mul]; omega

/-- Individual sampler: `n·d` normals and exactly `n` uniforms are consumed for `n` individuals
    with `d` coordinates each, independently of every acceptance ratio. -/
theorem draws_consumed_ind {α β} [Mul α] [Add α] [Add β] [Mul β] [Neg β] [LT β] [DecidableLT β]
    (exp : β → β) (tinv : β) (d : Nat) (inds : List (Ind α β)) (zs : List α) (us : List β)
    (r : IndOut α β) (h : indSample exp tinv d inds zs us = some r) :
    r.zs = zs.drop (inds.length * d) ∧ r.us = us.drop inds.length ∧ r.rows.length = inds.length ∧
      inds.length * d ≤ zs.length ∧ inds.length ≤ us.length := by
  unfold indSample at h
  split at h
  · exact absurd h (by simp)
  · rename_i hc
    simp only [Option.some.injEq] at h
    subst h
    have hc' : inds.length * d ≤ zs.length ∧ inds.length ≤ us.length := by omega
    refine ⟨rfl, rfl, ?_, hc'.1, hc'.2⟩
    simp [List.length_zipWith, chunks_length]
    omega

/-- Decision locality: the new row and the decision of individual `j` are `indOne` of its own record
    (own current row, own `std`, own ΔA/ΔR reader), its own `d` normal draws (by position) and its
    own uniform draw — nothing of any other individual enters. -/
theorem decision_local {α β} [Mul α] [Add α] [Add β] [Mul β] [Neg β] [LT β] [DecidableLT β]
    (exp : β → β) (tinv : β) (d : Nat) (inds : List (Ind α β)) (zs : List α) (us : List β)
    (r : IndOut α β) (h : indSample exp tinv d inds zs us = some r) (j : Nat) (hj : j < inds.length) :
    ∃ u, us[j]? = some u ∧
      r.rows[j]? = some (indOne exp tinv inds[j] ((zs.drop (j * d)).take d) u) := by
  unfold indSample at h
  split at h
  · exact absurd h (by simp)
  · rename_i hc
    simp only [Option.some.injEq] at h
    subst h
    have hu : j < us.length := by omega
    refine ⟨us[j], by simp [hu], ?_⟩
    simp only [List.getElem?_zipWith, List.getElem?_take]
    have h1 : (inds.zip (chunks d inds.length zs))[j]? = some (inds[j], (zs.drop (j * d)).take d) := by
      rw [List.getElem?_zip_eq_some]
      exact ⟨by simp [hj], chunks_get d inds.length zs j hj⟩
    simp [h1, hj, hu]

/-- … and that decision is `u_j < exp(-(ΔR_j·tinv + ΔA_j))`: a function of `(ΔA_j, ΔR_j, u_j, tinv)` only. -/
theorem decision_formula {α β} [Mul α] [Add α] [Add β] [Mul β] [Neg β] [LT β] [DecidableLT β]
    (exp : β → β) (tinv : β) (p : Ind α β) (z : List α) (u : β) :
    let prop := addL p.cur (z.map (p.std * ·))
    (indOne exp tinv p z u).2 = accept exp u (D tinv (p.dE p.cur prop).1 (p.dE p.cur prop).2) ∧
    (indOne exp tinv p z u).1 = if (indOne exp tinv p z u).2 then prop else p.cur := by
  intro prop
  exact ⟨rfl, rfl⟩

/-! ### the acceptance rule over the reals -/

/-- The code's test `rand < alpha` with `alpha = exp(-D)` (never clipped to 1). -/
theorem accept_real (u d : ℝ) : accept Real.exp u d = true ↔ u < Real.exp (-d) := by
  simp [accept, acceptAlpha]

/-- For a uniform draw in `[0,1)`, `u < α` is the Metropolis test `u < min 1 α`. -/
theorem accept_iff_min (u a : ℝ) (_h0 : 0 ≤ u) (h1 : u < 1) : (u < a ↔ u < min 1 a) := by
  rw [lt_min_iff]
  exact ⟨fun h => ⟨h1, h⟩, fun h => h.2⟩

/-- `alpha` is the ratio of the tempered target densities `π = exp(-(A + tinv·R))` at the proposed
    and at the current value. -/
theorem alpha_is_target_ratio {S : Type} (A R : S → ℝ) (tinv : ℝ) (x y : S) :
    Real.exp (-(D tinv (A y - A x) (R y - R x)))
      = Real.exp (-(A y + tinv * R y)) / Real.exp (-(A x + tinv * R x)) := by
  rw [← Real.exp_sub]
  congr 1
  unfold D
  ring

/-- Detailed balance of the acceptance function `min 1 (π y / π x)` for `π = exp(-(A + tinv·R))`
    (with the symmetric proposal above this is reversibility of each block update w.r.t. `π`). -/
theorem detailed_balance {S : Type} (A R : S → ℝ) (tinv : ℝ) (x y : S) :
    let π : S → ℝ := fun s => Real.exp (-(A s + tinv * R s))
    π x * min 1 (π y / π x) = π y * min 1 (π x / π y) := by
  intro π
  have hx : 0 < π x := Real.exp_pos _
  have hy : 0 < π y := Real.exp_pos _
  rw [mul_min_of_nonneg _ _ hx.le, mul_min_of_nonneg _ _ hy.le, mul_one, mul_one,
    mul_div_cancel₀ _ hx.ne', mul_div_cancel₀ _ hy.ne', min_comm]

/-- Tempering: when the proposal worsens the regularity (ΔR ≥ 0), a smaller inverse temperature
    accepts at least as often — for the same draw, acceptance at `tinv'` implies acceptance at
    `tinv ≤ tinv'`; the attachment change is not tempered. -/
theorem tempering_monotone (u dA dR tinv tinv' : ℝ) (hR : 0 ≤ dR) (ht : tinv ≤ tinv')
    (h : accept Real.exp u (D tinv' dA dR) = true) : accept Real.exp u (D tinv dA dR) = true := by
  rw [accept_real] at h ⊢
  refine lt_of_lt_of_le h (Real.exp_le_exp.mpr ?_)
  unfold D
  nlinarith [mul_le_mul_of_nonneg_left ht hR]

/-- At `tinv = 1` the exponent is the plain change of the negative log joint density. -/
theorem D_at_one (dA dR : ℝ) : D 1 dA dR = dR + dA := by
  unfold D; ring

/-! ### non-vacuity -/

/-- a FastGibbs sweep over a 2×2 variable with enough draws runs, consumes 4 normals and 2 uniforms -/
example :
    (popSample (α := ℚ) (β := ℚ) (fun _ => 1) 1
      ((fastGibbsBlocks 2 2).map fun b => ⟨b, 1, fun _ _ => (0, 0)⟩) [0, 0, 0, 0] [1, 2, 3, 4, 5] [1/2, 2, 7]).map
        (fun r => (r.value, r.acc, r.zs, r.us))
      = some ([1, 2, 0, 0], [true, false], [5], [7]) := by
  decide +kernel

example : (indSample (α := ℚ) (β := ℚ) (fun _ => 1) 1 2
      [⟨[0, 0], 1, fun _ _ => (0, 0)⟩, ⟨[10, 10], 2, fun _ _ => (0, 0)⟩] [1, 2, 3, 4, 9] [1/2, 3, 8]).map
        (fun r => (r.rows, r.zs, r.us))
      = some ([([1, 2], true), ([10, 10], false)], [9], [8]) := by
  decide +kernel

end LeaspyVerif.C03
